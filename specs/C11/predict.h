/* C11: gboost_model_t::do_predict (src/gboost/model.cpp) and learner_t::predict (src/learner.cpp).
 * Property: "the boosting model's prediction is its bias plus the sum of its weak learners' predictions".
 * Numerics erased; the statement is made at ONE ghost output cell (sample position, output component -- arbitrary, the
 * stubs never look at it) and ONE ghost learner position nv_gl:
 *   the cell is initialised exactly once, from m_bias (rowwise broadcast: every row of the (samples, outputs) matrix gets
 *   the bias vector), BEFORE any learner contributes;
 *   every learner of m_wlearners predicts exactly once (ghost position nv_gl: exactly once), with the dataset, the samples
 *   and the outputs buffer of THIS call -- and each such predict ADDS the learner's value to the cell (the do_predict
 *   contracts of specs/C10, run by specs/C11 by reference);
 *   nothing else touches the buffer.
 * So at every cell: outputs == bias + sum over the learners of their contributions. */
#include "types.h"
struct nv_bias { uint64_t id; };                                 /* tensor1d_t m_bias: ghost identity */
struct nv_biasv { uint64_t id; int32_t transposed; };            /* m_bias.vector() [.transpose()] */
struct nv_wl { int64_t pos; };                                   /* rwlearner_t: position in m_wlearners */
struct nv_wlist { uint64_t size; };                              /* rwlearners_t */
struct nv_it { int64_t pos; const struct nv_wlist* of; };        /* rwlearners_t::const_iterator */
struct nv_omap { uint64_t id; int64_t n; };                      /* tensor4d_map_t: which buffer, number of samples (first dimension) */
struct nv_omat { uint64_t id; int64_t rows, cols; int32_t rowwise; };   /* outputs.reshape(rows, cols)[.matrix()][.rowwise()] */
struct nv_gmodel { struct nv_bias m_bias; struct nv_wlist m_wlearners; struct nv_wlist m_prototypes; };
struct nv_learner { int32_t dummy; };                            /* learner_t base */

#define NV_ID_SAMPLES 7
/* ---- ghosts (ghost cell of the buffer the function was called with) */
uint64_t nv_out_id;              /* identity of the outputs buffer of the call */
uint64_t nv_cell_inits;          /* number of times the ghost cell was overwritten */
uint64_t nv_cell_bias;           /* ... with the coefficient of which vector */
uint64_t nv_cell_adds_at_init;   /* learner contributions that had been added when it was (last) overwritten */
uint64_t nv_cell_adds;           /* learner contributions added to the ghost cell */
int64_t  nv_gl;                  /* ghost learner position */
uint64_t nv_gl_adds;             /* contributions of learner nv_gl */
struct nv_wl nv_elem;

/* outputs.reshape(samples.size(), -1): (samples, everything else) view of the same buffer (C16 owns the arithmetic) */
static struct nv_omat nv_omap_reshape(struct nv_omap o, int64_t rows, int64_t cols)
{
  __CPROVER_assert(rows == o.n && cols == -1, "do_predict: the outputs are viewed as (samples, outputs) -- one row per sample");
  struct nv_omat m; m.id = o.id; m.rows = rows; m.cols = cols; m.rowwise = 0; return m;
}
static struct nv_omat nv_omat_matrix(struct nv_omat m) { return m; }
static struct nv_omat nv_omat_rowwise(struct nv_omat m) { m.rowwise = 1; return m; }
static struct nv_biasv nv_bias_vector(const struct nv_bias* b) { struct nv_biasv v; v.id = b->id; v.transposed = 0; return v; }
static struct nv_biasv nv_biasv_transpose(struct nv_biasv v) { v.transposed = 1; return v; }
/* M.rowwise() = v.transpose(): EVERY row of M becomes v (Eigen broadcast; ASSUMED) -- the ghost cell (g, o) becomes v(o) */
static void nv_rowwise_assign(struct nv_omat m, struct nv_biasv v)
{
  __CPROVER_assert(m.rowwise == 1 && v.transposed == 1, "do_predict: the bias (a column) is broadcast over the rows as a row vector");
  if (m.id == nv_out_id)
  { __CPROVER_assume(nv_cell_inits < 1000); nv_cell_inits = nv_cell_inits + 1; nv_cell_bias = v.id; nv_cell_adds_at_init = nv_cell_adds; }
}
/* M.rowwise() += v.transpose(): the rows are NOT overwritten (what was there before stays) */
static void nv_rowwise_add(struct nv_omat m, struct nv_biasv v) { }
static struct nv_omap nv_omap_tensor(struct nv_omap o) { return o; }
static struct nv_it nv_wlist_begin(const struct nv_wlist* l) { struct nv_it i; i.pos = 0; i.of = l; return i; }
static struct nv_it nv_wlist_end(const struct nv_wlist* l) { struct nv_it i; i.pos = (int64_t)l->size; i.of = l; return i; }
static struct nv_wl* nv_it_deref(struct nv_it i) { nv_elem.pos = i.pos; return &nv_elem; }
/* wlearner->predict(dataset, samples, outputs): ADDS the learner's prediction for sample samples(i) to row i of outputs
 * (learner_t::predict -> do_predict, contracts below and specs/C10 *_do_predict) */
static void nv_wl_predict(const struct nv_wl* w, struct nv_indices samples, struct nv_omap outputs)
{
  __CPROVER_assert(samples.id == NV_ID_SAMPLES, "do_predict: every learner predicts the samples of the call");
  __CPROVER_assert(outputs.id == nv_out_id && outputs.n == samples.n, "do_predict: every learner accumulates into the outputs buffer of the call");
  __CPROVER_assume(nv_cell_adds < 1000000000000ULL);
  nv_cell_adds = nv_cell_adds + 1;
  if (w->pos == nv_gl) nv_gl_adds = nv_gl_adds + 1;
}

#define NV_CONTRACT_gmodel_do_predict \
__CPROVER_requires(__CPROVER_is_fresh(self, sizeof(*self)) && self->m_wlearners.size <= 1000000000ULL) \
__CPROVER_requires(NV_ARG_gmodel_do_predict_2.id == NV_ID_SAMPLES && NV_ARG_gmodel_do_predict_2.n >= 0 && NV_ARG_gmodel_do_predict_3.n == NV_ARG_gmodel_do_predict_2.n && NV_ARG_gmodel_do_predict_3.id == nv_out_id) \
__CPROVER_requires(nv_cell_inits == 0 && nv_cell_adds == 0 && nv_gl_adds == 0) \
__CPROVER_assigns(nv_cell_inits, nv_cell_bias, nv_cell_adds_at_init, nv_cell_adds, nv_gl_adds, nv_elem) \
/* the cell starts from the bias of THIS model, once, before any contribution */ \
__CPROVER_ensures(nv_cell_inits == 1 && nv_cell_bias == self->m_bias.id && nv_cell_adds_at_init == 0) \
/* one contribution per learner, the learner at the ghost position exactly once */ \
__CPROVER_ensures(nv_cell_adds == self->m_wlearners.size && ((0 <= nv_gl && (uint64_t)nv_gl < self->m_wlearners.size) ? nv_gl_adds == 1 : nv_gl_adds == 0))

/* written over the loop variable alone (no __end1): fits the range-for and the explicit iterator loop */
#define NV_LV NV_LOOPVAR_gmodel_do_predict_1
#define NV_LOOP_gmodel_do_predict_1 \
__CPROVER_assigns(NV_LV.pos, nv_cell_adds, nv_gl_adds, nv_elem) \
__CPROVER_loop_invariant(0 <= NV_LV.pos && NV_LV.pos <= (int64_t)self->m_wlearners.size && NV_LV.of == &self->m_wlearners) \
__CPROVER_loop_invariant(nv_cell_adds <= 1000000000ULL && (int64_t)nv_cell_adds == NV_LV.pos && nv_gl_adds == ((0 <= nv_gl && nv_gl < NV_LV.pos) ? 1 : 0)) \
__CPROVER_decreases((int64_t)self->m_wlearners.size - NV_LV.pos)

/* ================================================================================================ learner_t::predict
 * predict(dataset, samples, outputs): do_predict exactly once, with the SAME dataset / samples / outputs (after the
 * compatibility check, which may throw);  predict(dataset, samples): a (samples, target dims) buffer, ZEROED, then the
 * three-argument predict exactly once on it, and that buffer is what is returned. */
uint64_t nv_do_predicts; struct nv_indices nv_dp_samples; struct nv_omap nv_dp_out;     /* calls of do_predict; arguments of the latest */
uint64_t nv_zeroed_id, nv_zeroed, nv_dp_after_zero;                                      /* outputs.zero(): buffer, count; do_predict calls seen on it after */
static void nv_critical_compatible(const struct nv_learner* self) { if (nv_nondet__Bool()) nv_thrown = 1; }
static void nv_do_predict(const struct nv_learner* self, struct nv_indices samples, struct nv_omap outputs)
{ __CPROVER_assume(nv_do_predicts < 1000); nv_do_predicts = nv_do_predicts + 1; nv_dp_samples = samples; nv_dp_out = outputs;
  if (outputs.id == nv_zeroed_id && nv_zeroed > 0) nv_dp_after_zero = nv_dp_after_zero + 1; }
struct nv_out4 { uint64_t id; int64_t n; };                      /* tensor4d_t */
struct nv_dims4 { int64_t d0; };
static struct nv_dims4 nv_cat_dims(int64_t n) { struct nv_dims4 d; d.d0 = n; return d; }
static struct nv_out4 nv_out4_make(struct nv_dims4 d) { struct nv_out4 o; o.id = nv_fresh_id(); o.n = d.d0; return o; }
static void nv_out4_zero(struct nv_out4* o) { __CPROVER_assume(nv_zeroed < 1000); nv_zeroed_id = o->id; nv_zeroed = nv_zeroed + 1; nv_dp_after_zero = 0; }
static struct nv_omap nv_omap_of(const struct nv_out4* o) { struct nv_omap m; m.id = o->id; m.n = o->n; return m; }

#define NV_CONTRACT_learner_predict3 \
__CPROVER_requires(__CPROVER_is_fresh(self, sizeof(*self))) \
__CPROVER_assigns(nv_thrown, nv_do_predicts, nv_dp_samples, nv_dp_out, nv_dp_after_zero) \
__CPROVER_ensures(nv_thrown ? nv_do_predicts == __CPROVER_old(nv_do_predicts) : (nv_do_predicts == __CPROVER_old(nv_do_predicts) + 1 && nv_dp_samples.id == NV_ARG_learner_predict3_2.id && nv_dp_samples.n == NV_ARG_learner_predict3_2.n && nv_dp_out.id == NV_ARG_learner_predict3_3.id && nv_dp_out.n == NV_ARG_learner_predict3_3.n)) \
__CPROVER_ensures((!nv_thrown && NV_ARG_learner_predict3_3.id == nv_zeroed_id && nv_zeroed > 0) ==> nv_dp_after_zero == __CPROVER_old(nv_dp_after_zero) + 1)

#define NV_CONTRACT_learner_predict2 \
__CPROVER_requires(__CPROVER_is_fresh(self, sizeof(*self)) && NV_ARG_learner_predict2_2.n >= 0 && nv_zeroed == 0) \
__CPROVER_assigns(nv_thrown, nv_do_predicts, nv_dp_samples, nv_dp_out, nv_dp_after_zero, nv_zeroed_id, nv_zeroed, nv_id_counter) \
__CPROVER_ensures(nv_thrown || (__CPROVER_return_value.n == NV_ARG_learner_predict2_2.n && nv_zeroed == 1 && nv_zeroed_id == __CPROVER_return_value.id)) \
__CPROVER_ensures(nv_thrown || (nv_do_predicts == __CPROVER_old(nv_do_predicts) + 1 && nv_dp_after_zero == 1 && nv_dp_out.id == __CPROVER_return_value.id && nv_dp_out.n == __CPROVER_return_value.n && nv_dp_samples.id == NV_ARG_learner_predict2_2.id && nv_dp_samples.n == NV_ARG_learner_predict2_2.n))
