/* C11: the anonymous-namespace percentile(values, percentage) of src/machine/stats.cpp -- "the percentiles are those of exactly
 * the given per-sample values": it hands the WHOLE range [begin(values), end(values)) of the given view and the given
 * percentage to nano::percentile (C20 owns the order statistic), once, and returns its result.  (ml::store_stats / load_stats /
 * result_t::store / stats slot arithmetic: the VCs of specs/C13 are re-run by reference in the thorough tier.) */
#include "types.h"
struct nv_vmap { uint64_t id; int64_t n; };              /* tensor1d_map_t: which values, how many */
struct nv_vit { uint64_t id; int64_t pos; };             /* iterator into it */
uint64_t nv_pc_calls; struct nv_vit nv_pc_first, nv_pc_last; double nv_pc_pct, nv_pc_ret;
static struct nv_vit nv_vmap_begin(const struct nv_vmap* v) { struct nv_vit i; i.id = v->id; i.pos = 0; return i; }
static struct nv_vit nv_vmap_end(const struct nv_vmap* v) { struct nv_vit i; i.id = v->id; i.pos = v->n; return i; }
static double nv_percentile(struct nv_vit first, struct nv_vit last, double pct)
{ __CPROVER_assume(nv_pc_calls < 1000); nv_pc_calls = nv_pc_calls + 1; nv_pc_first = first; nv_pc_last = last; nv_pc_pct = pct; nv_pc_ret = nv_nondet_double(); return nv_pc_ret; }
#define NV_CONTRACT_stats_percentile \
__CPROVER_requires(__CPROVER_is_fresh(NV_ARG_stats_percentile_0, sizeof(*NV_ARG_stats_percentile_0)) && NV_ARG_stats_percentile_0->n >= 0) \
__CPROVER_assigns(nv_pc_calls, nv_pc_first, nv_pc_last, nv_pc_pct, nv_pc_ret) \
__CPROVER_ensures(nv_pc_calls == __CPROVER_old(nv_pc_calls) + 1 && nv_pc_first.id == NV_ARG_stats_percentile_0->id && nv_pc_first.pos == 0 && nv_pc_last.id == NV_ARG_stats_percentile_0->id && nv_pc_last.pos == NV_ARG_stats_percentile_0->n) \
__CPROVER_ensures(NV_IDENT(nv_pc_pct, NV_ARG_stats_percentile_1) && NV_IDENT(__CPROVER_return_value, nv_pc_ret))
