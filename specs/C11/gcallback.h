/* C11: the tuning callback of gboost_model_t::fit (lambda #0, a lambda variable handed to ml::tune), with ::fit used through the
 * contract the target gboost_fit proves (replace=[gboost_fit]).
 * Property: "the per-trial/per-fold ... statistics ... equal those recomputed ... with the corresponding stored model on the
 * corresponding samples; ... the round of the last accepted improvement with that round's per-sample values, which is the number of
 * weak learners the returned fold model keeps".  ml::tune (C13) stores the FIRST result of the callback as the training statistics of
 * (trial, fold), the SECOND as the validation statistics and the THIRD as extra(trial, fold):
 *   exactly one boosting run per task, on the task's training / validation samples, from this model's prototypes, with the task's
 *   hyper-parameters; first = that run's per-sample values of the kept round selected by the TRAINING samples, second = the same
 *   values selected by the VALIDATION samples, third = the fold model of that run (keeps the learners of the last accepted round). */
#include "fit.h"
struct nv_pid { uint64_t id; };                                            /* tensor1d_cmap_t params: which row of the parameter table */
uint64_t nv_g_fits; const struct nv_vec* nv_g_fit_protos; uint64_t nv_g_fit_params;
struct nv_gmodel_f { struct nv_vec m_prototypes; };                       /* gboost_model_t: the weak-learner prototypes */
struct nv_gcb_ret { struct nv_tensor2d _0; struct nv_tensor2d _1; struct nv_result _2; };   /* (train values, valid values, fold model) */
#define NV_G_RET __CPROVER_return_value
#define NV_CONTRACT_gmodel_fit_callback \
__CPROVER_requires(__CPROVER_is_fresh(self, sizeof(*self)) && __CPROVER_is_fresh(NV_ARG_gmodel_fit_callback_1, sizeof(struct nv_indices)) && __CPROVER_is_fresh(NV_ARG_gmodel_fit_callback_2, sizeof(struct nv_indices)) && self->m_prototypes.size <= 100000000) \
/* C13: the task's split (C12: training / validation lists) */ \
__CPROVER_requires(NV_ARG_gmodel_fit_callback_1->id == NV_ID_TRAIN && NV_ARG_gmodel_fit_callback_2->id == NV_ID_VALID && NV_ARG_gmodel_fit_callback_1->n >= 0 && NV_ARG_gmodel_fit_callback_2->n >= 0) \
__CPROVER_requires(10 <= nv_max_rounds && nv_max_rounds <= 1000000 && 1 <= nv_patience && nv_patience <= 1000 && nv_g_fits == 0) \
__CPROVER_assigns(nv_g_fits, nv_g_fit_protos, nv_g_fit_params, nv_h_n, nv_h_last, nv_h_value, nv_h_snap, nv_h_since, nv_h_below, nv_h_acc, nv_h_stop, nv_h_acc_j, nv_h_snap_j) \
__CPROVER_assigns(nv_id_counter, nv_appended, nv_consulted, nv_mon_round, nv_mon_values, nv_g_values, nv_rows, nv_mon_stopped, nv_obs_values, nv_train_value, nv_valid_value, nv_stat_sink, nv_kept, nv_sel_rows, __CPROVER_object_whole(nv_sel_row), __CPROVER_object_whole(nv_sel_id), __CPROVER_object_whole(nv_sel_by)) \
/* one boosting run, from the model's own prototypes, with the task's hyper-parameters */ \
__CPROVER_ensures(nv_thrown || (nv_g_fits == 1 && nv_g_fit_protos == &self->m_prototypes && nv_g_fit_params == NV_ARG_gmodel_fit_callback_3.id)) \
/* first / second result: the per-sample values of the kept round (the last accepted improvement of that run's history), selected by the training / validation samples */ \
__CPROVER_ensures(nv_thrown || (NV_G_RET._0.id == nv_h_snap && NV_G_RET._0.by == NV_ID_TRAIN && NV_G_RET._1.id == nv_h_snap && NV_G_RET._1.by == NV_ID_VALID && NV_G_RET._0.id == nv_mon_values)) \
/* third result: the fold model of that run */ \
__CPROVER_ensures(nv_thrown || (nv_kept <= 100000000 && nv_kept == nv_h_last && NV_G_RET._2.m_wlearners.size <= nv_kept && NV_G_RET._2.m_statistics.rows == (int64_t)nv_kept + 1))

/* the call of ::fit inside the callback: which prototypes / hyper-parameters it was given (the index lists are in gboost_fit's own precondition) */

