/* C11, composition on the gboost side (machine-checked instead of by reading): one tuning task as specs/C13 PROVES ml::tune runs
 * it -- the model callback is called once with splits[fold] and row `trial` of the parameter table, and result.store(trial, fold,
 * first, second, third) puts first -> statistics (trial, fold, train, .), second -> (trial, fold, valid, .), third -> extra(trial,
 * fold) -- with the REAL callback of gboost_model_t::fit used through the contract the target gmodel_fit_callback proves.
 * Conclusion (assertions of the harness, ghost task): the statistics stored under (trial, fold, train | valid) are the per-sample
 * values of the round that THE fold model stored under extra(trial, fold) keeps (the last accepted improvement of that task's own
 * boosting run on that fold's training / validation samples with that trial's hyper-parameters), selected by that fold's training
 * resp. validation samples -- the fold model gboost_model_t::fit later reads through extra(optimum_trial, fold) (average.h). */
#include "gcallback.h"
uint64_t nv_params_id0;                                                   /* identity of row 0 of the parameter table */
struct nv_tensor2d nv_c_train, nv_c_valid; struct nv_result nv_c_model;    /* C13: cells (trial, fold, train | valid, .), extra(trial, fold) */
