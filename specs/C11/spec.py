from core import Fn, Target, VC

TYPES = [
    (r'^nano::tensor2d_t$|tensor_t<nano::tensor_vector_storage_t, double, 2', 'struct nv_tensor2d'),
    (r'^nano::indices_t$|tensor_t<nano::tensor_vector_storage_t, long, 1', 'struct nv_indices'),
    (r'^nano::rwlearners_t$|^std::vector<std::unique_ptr<nano::wlearner_t(, std::default_delete<nano::wlearner_t>)?>(, std::allocator<[^|]*>)?>$', 'struct nv_vec'),
]


RTYPES = [(r'^nano::tensor2d_t$|tensor_t<nano::tensor_vector_storage_t, double, 2', 'struct nv_tensor2d'),
          (r'^nano::indices_t$|tensor_t<nano::tensor_vector_storage_t, long, 1', 'struct nv_indices'),
          (r'^nano::rwlearners_t$|^std::vector<std::unique_ptr<nano::wlearner_t(, std::default_delete<nano::wlearner_t>)?>(, std::allocator<[^|]*>)?>$', 'struct nv_vec'),
          (r'^nano::solver_state_t$', 'struct nv_state'), (r'^nano::solver_status$', 'int32_t'),
          (r'__normal_iterator<\s*(const )?std::unique_ptr<nano::wlearner_t', 'int64_t'),
          (r'std::vector<std::unique_ptr<nano::wlearner_t.*::(const_iterator|iterator|difference_type|size_type)$', 'int64_t'),
          (r'tensor_t<nano::tensor_(c|m)(map|array)_storage_t, double, 2', 'struct nv_slice2')]


def erase_note_hook(P, n):
    # after m_wlearners.erase(...) the ghost nv_kept records how many learners are kept (before merging)
    return None


def boost_targets():
    nparams = lambda k: (lambda d: len([c for c in d['inner'] if c['kind'] == 'ParmVarDecl']) == k)
    calls = [(r'^mean_error\|', 'nv_mean_any'), (r'^mean_loss\|', 'nv_mean_any'),
             (r'^operator\(\)\|.*tensor_vector_storage_t, double, 2', '(*nv_t2_at({&0}, {1}, {2}))'),
             (r'^operator\*\|.*\|(const )?nano::tensor2d_t \*|^operator\*\|', None),
             (r'^operator\+\|.*__normal_iterator', '({0} + {1})'),
             (r'^operator=\|.*\|nano::tensor_t<nano::tensor_vector_storage_t, double, 2>\|#2', 'nv_t2_assign_slice({&0}, {1})'),
             (r'^merge\|', 'nv_wlearner_merge({&0})'), (r'^move\|', '{0}'), (r'^ctor\|.*__normal_iterator', '{0}')]
    calls = [c for c in calls if c[1] is not None]
    members = [(r'^(fcalls|gcalls)\|nano::solver_state_t', 'nv_state_calls'), (r'^status\|nano::solver_state_t', 'nv_state_status'),
               (r'^update\|.*result_t.*#3', 'result_update3'), (r'^emplace_back\|std::vector', 'nv_vec_emplace_back({self})'),
               (r'^begin\|std::vector', 'nv_vec_begin'), (r'^end\|std::vector', 'nv_vec_end'),
               (r'^erase\|std::vector', '(nv_vec_erase({self}, {0}, {1}), nv_note_kept({self}))'),
               (r'^slice\|.*tensor_vector_storage_t, double, 2', 'nv_t2_slice')]
    kw = dict(self_struct='struct nv_result', types=RTYPES, calls=calls, members=members,
              opaque=[r'unique_ptr<nano::wlearner_t', r'rwlearner_t'])
    u3 = lambda: Fn('result_update3', 'src/gboost/result.cpp', 'update', flt='result_t::update', select=nparams(3), **kw)
    u4 = Fn('result_update4', 'src/gboost/result.cpp', 'update', flt='result_t::update', select=nparams(4), **kw)
    dn = Fn('result_done', 'src/gboost/result.cpp', 'done', flt='result_t::done', **kw)
    H = 'specs/C11/boost.h'
    return [Target('result_update3', [u3()], H), Target('result_update4', [u4, u3()], H, replace=['result_update3']),
            Target('result_done', [dn], H)]


def build(tier):
    done = Fn('early_stopping_done', 'src/gboost/early_stopping.cpp', 'done', flt='early_stopping_t::done',
              self_struct='struct nv_early_stopping', types=TYPES,
              calls=[(r'^mean_error\|', 'nv_mean_error'), (r'^operator=\|.*tensor_vector_storage_t, double, 2', 'nv_tensor2d_assign')],
              members=[(r'^size\|.*std::vector', 'nv_vec_size'), (r'^size\|.*(indices_t|tensor_vector_storage_t, long, 1|tensor_base_t<long, 1)', 'nv_indices_size')])
    targets = [Target('early_stopping_done', [done], 'specs/C11/early_stopping.h')]
    targets += boost_targets()
    return {
        'targets': targets, 'vcs': [],
        'decided': ['early-stopping monitor transition = specification, for every observation and prior state'],
        'not_decided': ['statistics equal those recomputed from scratch by predicting (numeric equality through loss/predict)'],
        'assumptions': ['gboost::mean_error is a deterministic function of (errors, samples) (assumed contract)'],
        'trusted': [],
    }
