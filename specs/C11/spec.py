import os
from core import Fn, Target, VC

TYPES = [
    (r'^nano::tensor2d_t$|tensor_t<nano::tensor_vector_storage_t, double, 2', 'struct nv_tensor2d'),
    (r'^nano::indices_t$|tensor_t<nano::tensor_vector_storage_t, long, 1', 'struct nv_indices'),
    (r'^nano::rwlearners_t$|^std::vector<std::unique_ptr<nano::wlearner_t(, std::default_delete<nano::wlearner_t>)?>(, std::allocator<[^|]*>)?>$', 'struct nv_vec'),
]


RTYPES = [(r'^nano::tensor2d_t$|tensor_t<nano::tensor_vector_storage_t, double, 2', 'struct nv_tensor2d'),
          (r'^nano::indices_t$|tensor_t<nano::tensor_vector_storage_t, long, 1', 'struct nv_indices'),
          (r'^nano::rwlearners_t$|^std::vector<std::unique_ptr<nano::wlearner_t(, std::default_delete<nano::wlearner_t>)?>(, std::allocator<[^|]*>)?>$', 'struct nv_vec'),
          (r'^nano::solver_state_t$', 'struct nv_state'), (r'^nano::solver_status$', 'int32_t'),
          (r'__normal_iterator<\s*(const )?std::unique_ptr<nano::wlearner_t', 'int64_t'),
          (r'std::vector<std::unique_ptr<nano::wlearner_t.*::(const_iterator|iterator|difference_type|size_type)$', 'int64_t'),
          (r'tensor_t<nano::tensor_(c|m)(map|array)_storage_t, double, 2', 'struct nv_slice2')]


def erase_note_hook(P, n):
    # after m_wlearners.erase(...) the ghost nv_kept records how many learners are kept (before merging)
    return None


def boost_fns():
    nparams = lambda k: (lambda d: len([c for c in d['inner'] if c['kind'] == 'ParmVarDecl']) == k)
    calls = [(r'^mean_error\|', 'nv_mean_any'), (r'^mean_loss\|', 'nv_mean_any'),
             (r'^operator\(\)\|.*tensor_vector_storage_t, double, 2', '(*nv_t2_at({&0}, {1}, {2}))'),
             (r'^operator\*\|.*\|(const )?nano::tensor2d_t \*|^operator\*\|', None),
             (r'^operator\+\|.*__normal_iterator', '({0} + {1})'),
             (r'^operator=\|.*\|nano::tensor_t<nano::tensor_vector_storage_t, double, 2>\|#2', 'nv_t2_assign_slice({&0}, {1})'),
             (r'^merge\|', 'nv_wlearner_merge({&0})'), (r'^move\|', '{0}'), (r'^ctor\|.*__normal_iterator', '{0}')]
    calls = [c for c in calls if c[1] is not None]
    members = [(r'^(fcalls|gcalls)\|nano::solver_state_t', 'nv_state_calls'), (r'^status\|nano::solver_state_t', 'nv_state_status'),
               (r'^update\|.*result_t.*#3', 'result_update3'), (r'^emplace_back\|std::vector', 'nv_vec_emplace_back({self})'),
               (r'^begin\|std::vector', 'nv_vec_begin'), (r'^end\|std::vector', 'nv_vec_end'),
               (r'^erase\|std::vector', '(nv_vec_erase({self}, {0}, {1}), nv_note_kept({self}))'),
               (r'^slice\|.*tensor_vector_storage_t, double, 2', 'nv_t2_slice')]
    kw = dict(self_struct='struct nv_result', types=RTYPES, calls=calls, members=members,
              opaque=[r'unique_ptr<nano::wlearner_t', r'rwlearner_t'])
    u3 = lambda: Fn('result_update3', 'src/gboost/result.cpp', 'update', flt='result_t::update', select=nparams(3), **kw)
    u4 = lambda: Fn('result_update4', 'src/gboost/result.cpp', 'update', flt='result_t::update', select=nparams(4), **kw)
    dn = lambda: Fn('result_done', 'src/gboost/result.cpp', 'done', flt='result_t::done', **kw)
    return u3, u4, dn


def boost_targets():
    u3, u4, dn = boost_fns()
    H = 'specs/C11/boost.h'
    return [Target('result_update3', [u3()], H), Target('result_update4', [u4(), u3()], H, replace=['result_update3']),
            Target('result_done', [dn()], H)]


# ------------------------------------------------------------------------------------------------ ::fit (round loop)
NPARAMS = lambda k: (lambda d: len([c for c in d['inner'] if c['kind'] == 'ParmVarDecl']) == k)
T2 = r'^nano::tensor2d_t$|^nano::tensor_t<nano::tensor_vector_storage_t, double, 2'
IX = r'^nano::indices_t$|^nano::tensor_t<nano::tensor_vector_storage_t, long, 1'
FTYPES = [(r'^std::tuple<nano::gboost::result_t, ', 'struct nv_fit_ret'),
          (r'__normal_iterator<\s*(const )?std::unique_ptr<nano::wlearner_t|^std::vector<std::unique_ptr<nano::wlearner_t>>::(const_)?iterator$', 'int64_t'), (r'^std::tuple<double>$', 'struct nv_tuple_f64'),
          (r'^std::tuple_element<0, std::tuple<double>>::type$', 'double'),
          (T2, 'struct nv_tensor2d'), (IX, 'struct nv_indices'),
          (r'^nano::gboost::result_t$', 'struct nv_result'), (r'^nano::gboost::early_stopping_t$', 'struct nv_early_stopping'),
          (r'^nano::rwlearners_t$|^std::vector<std::unique_ptr<nano::wlearner_t', 'struct nv_vec'),
          (r'^nano::solver_state_t$', 'struct nv_state'), (r'^nano::solver_status$', 'int32_t'),
          (r'^nano::gboost_(wscale|subsample|shrinkage)$', 'int32_t'),
          (r'^nano::indices_cmap_t$|^nano::tensor_t<nano::tensor_carray_storage_t, long, 1', 'struct nv_indices'),
          (r'^nano::tensor_t<nano::tensor_(c|m)(map|array)_storage_t, double, 1', 'struct nv_row')]
# everything numeric: datasets, iterators, samplers, loss / solver / weak learners, outputs, gradients, clusters
FOPAQUE = [r'^nano::(configurable_t|dataset_t|loss_t|solver_t|logger_t|wlearner_t|cluster_t|targets_iterator_t|sampler_t)$',
           r'^nano::gboost::(sampler_t|grads_function_t|bias_function_t|scale_function_t)$', r'^nano::function_t$',
           r'^nano::(tensor1d_t|tensor4d_t|vector_t|tensor1d_cmap_t|rwlearner_t)$', r'^nano::tensor_t<', r'^Eigen::', r'^std::unique_ptr<nano::wlearner_t',
           r'__normal_iterator<\s*(const )?std::unique_ptr<nano::wlearner_t', r'^nano::tensor_base_t<', r'^std::array<long', r'^nano::tensor_dims_t<']
FCALLS = [(r'^epsilon\|double \(\)', '(2.220446049250313e-16)'), (r'^max\|double \(\)', '(1.7976931348623157e308)'),
          (r'^arange\|', 'nv_arange({0}, {1})'), (r'^no_fit_score\|', 'nv_nondet_double()'), (r'^evaluate\|', 'nv_evaluate({&3})'),
          (r'^ctor\|nano::tensor_t<nano::tensor_vector_storage_t, double, 2>\|void \((int|long), (int|long)\)', 'nv_t2_make({0}, {1})'),
          (r'^ctor\|nano::gboost::result_t\|', 'nv_result_make({0}, {1}, {2}, {3})'),
          (r'^ctor\|nano::gboost::early_stopping_t\|void \(nano::tensor2d_t\)', 'nv_monitor_make({0})'),
          (r'^selected\|', 'model_selected'),
          (r'^ctor\|nano::tensor_t<nano::tensor_carray_storage_t, long, 1>\|void \(const tensor_t<nano::tensor_vector_storage_t, long, 1', '{0}'),
          (r'^operator!=\|.*__normal_iterator', '({0} != {1})'), (r'^operator\+\+\|.*__normal_iterator', '(++{0})'), (r'^move\|', '{0}'),
          (r'^make_tuple\|.*result_t', '(struct nv_fit_ret){ {0}, {1}, {2} }')]
FMEMBERS = [(r'^minimize\|nano::solver_t', 'nv_solver_minimize()'),
            (r'^x\|nano::solver_state_t', 'nv_opaque_value()'),
            (r'^size\|std::vector<std::unique_ptr<nano::wlearner_t', 'nv_vec_size'),
            (r'^begin\|std::vector<std::unique_ptr<nano::wlearner_t', 'nv_vec_begin'), (r'^end\|std::vector<std::unique_ptr<nano::wlearner_t', 'nv_vec_end'),
            (r'^size\|.*(indices_t|tensor_vector_storage_t, long, 1|tensor_base_t<long, 1)', 'nv_indices_size'),
            (r'^update\|nano::gboost::result_t\|#3', 'nv_loop_update3'), (r'^update\|nano::gboost::result_t\|#4', 'nv_loop_update4'),
            (r'^done\|nano::gboost::result_t', 'result_done'), (r'^done\|nano::gboost::early_stopping_t', 'nv_monitor_done'),
            (r'^round\|nano::gboost::early_stopping_t', 'early_stopping_round'), (r'^value\|nano::gboost::early_stopping_t', 'early_stopping_value'),
            (r'^values\|nano::gboost::early_stopping_t', 'early_stopping_values'),
            (r'^tensor\|.*tensor_vector_storage_t, double, 2.*#1', 'nv_t2_row'),
            (r'^indexed\|.*tensor_(c|m)(map|array)_storage_t, double, 1', 'nv_row_indexed({*self}, {&0}, {1})')]


def fit_fns():
    import hooks
    kw = dict(types=FTYPES, calls=FCALLS, members=FMEMBERS, opaque=FOPAQUE, hooks=[hooks.param_hook()], aggregates=['struct nv_fit_ret'])
    ES, RS = 'src/gboost/early_stopping.cpp', 'src/gboost/result.cpp'
    mon = dict(kw, self_struct='struct nv_early_stopping')
    return dict(
        fit=Fn('gboost_fit', 'src/gboost/model.cpp', 'fit', flt='fit', select=NPARAMS(9), ret='struct nv_fit_ret', **kw),
        selected=Fn('model_selected', 'src/gboost/model.cpp', 'selected', flt='selected', **kw),
        rctor=Fn('result_ctor', RS, 'result_t', flt='result_t::result_t', select=NPARAMS(4), **dict(kw, self_struct='struct nv_result')),
        ector=Fn('early_stopping_ctor', ES, 'early_stopping_t', flt='early_stopping_t::early_stopping_t', select=NPARAMS(1), **mon),
        eround=Fn('early_stopping_round', ES, 'round', flt='early_stopping_t::round', **mon),
        evalue=Fn('early_stopping_value', ES, 'value', flt='early_stopping_t::value', **mon),
        evalues=Fn('early_stopping_values', ES, 'values', flt='early_stopping_t::values', **mon))


def fit_targets(done, boost):
    F = 'specs/C11/fit.h'
    f = fit_fns()
    u3, u4, dn = boost
    return [Target('model_selected', [fit_fns()['selected']], F),
            Target('result_ctor', [fit_fns()['rctor']], F), Target('early_stopping_ctor', [fit_fns()['ector']], F),
            Target('early_stopping_round', [fit_fns()['eround']], F), Target('early_stopping_value', [fit_fns()['evalue']], F),
            Target('early_stopping_values', [fit_fns()['evalues']], F),
            Target('gboost_fit', [f['fit'], f['selected'], f['rctor'], f['ector'], f['eround'], f['evalues'], done, u3, u4, dn], F,
                   replace=['early_stopping_done', 'result_update3', 'result_update4', 'result_done'], cbmc_flags=['--object-bits', '9'])]


# ------------------------------------------------------------------------------------------------ gboost_model_t::fit
WL = r'std::unique_ptr<nano::wlearner_t'
MTYPES = [(r'::difference_type$', 'int64_t'), (r'__normal_iterator<\s*(const )?' + WL + r'|^std::vector<' + WL + r'.*>::(const_)?iterator$', 'struct nv_it'),
          (r'^(nano::)?ml::result_t$', 'struct nv_mlresult'), (r'^nano::gboost::result_t$', 'struct nv_fold_result'), (r'^std::any$', 'struct nv_any'),
          (T2, 'struct nv_tensor2d'), (IX, 'struct nv_indices'),
          (r'^nano::indices_cmap_t$|^nano::tensor_t<nano::tensor_carray_storage_t, long, 1', 'struct nv_indices'),
          (r'^nano::(tensor1d_t|vector_t)$|^nano::tensor_t<nano::tensor_vector_storage_t, double, 1', 'struct nv_bias'),
          (r'^Eigen::(MatrixBase<)?Eigen::Map<(const )?Eigen::Matrix<double, -1, 1|^Eigen::Map<(const )?Eigen::Matrix<double, -1, 1', 'struct nv_biasv'),
          (r'^nano::tensor4d_t$|^nano::tensor_t<nano::tensor_vector_storage_t, double, 4', 'struct nv_outputs'),
          (r'^nano::targets_iterator_t$', 'struct nv_titer'),
          (r'^nano::rwlearners_t$|^std::vector<' + WL, 'struct nv_wlist'), (r'^nano::rwlearner_t$|^' + WL + r'|^nano::wlearner_t$', 'struct nv_wl'),
          (r'^nano::tensor_t<nano::tensor_(c|m)(map|array)_storage_t, double, 1', 'struct nv_row')]
MOPAQUE = [r'^nano::(dataset_t|loss_t|logger_t|param_spaces_t)$', r'^(nano::)?ml::params_t$', r'^std::vector<nano::param_space_t', r'^nano::tensor_t<', r'^Eigen::',
           r'^std::array<long', r'^nano::tensor_dims_t<', r'^nano::tensor_base_t<']
MCALLS = [(r'^tune\|', 'nv_tune({&1})!'), (r'^arange\|', 'nv_arange({0}, {1})'), (r'^evaluate\|', 'nv_evaluate({&0}, {&2}, {&3})'),
          (r'^ctor\|nano::tensor_t<nano::tensor_vector_storage_t, double, 2>\|void \((int|long), (int|long)\)', 'nv_t2_make({0}, {1})'),
          (r'^ctor\|nano::tensor_t<nano::tensor_carray_storage_t, long, 1>\|void \(const tensor_t<nano::tensor_vector_storage_t, long, 1', '{0}'),
          (r'^ctor\|nano::targets_iterator_t\|', 'nv_titer_make({&1})'),
          (r'^make_full_tensor\|', 'nv_bias_full({1})'), (r'^operator=\|.*\|nano::tensor_t<nano::tensor_vector_storage_t, double, 1>\|#2', '({0} = {1})'),
          (r'^any_cast\|', 'nv_any_cast({0})'), (r'^operator\+=\|.*\|Eigen::MatrixBase<Eigen::Map<Eigen::Matrix<double, -1, 1', 'nv_biasv_add({0}, {1})'),
          (r'^operator\*=\|.*\|Eigen::(Dense|Matrix)Base<Eigen::Map<Eigen::Matrix<double, -1, 1', 'nv_biasv_scale({0}, {1})'),
          (r'^for_each\|', 'nv_for_each_clone({0}, {1}, self)'), (r'^merge\|', 'nv_wlist_merge({&0})'), (r'^make_vector\|', 'nv_vec1_make({0})'),
          (r'^operator!=\|.*__normal_iterator', '({0}.pos != {1}.pos)'), (r'^operator\+\+\|.*__normal_iterator', '(++{0}.pos)'),
          (r'^operator\*\|.*__normal_iterator', '(*nv_it_deref({0}))'), (r'^operator\+\|.*__normal_iterator', 'nv_it_plus({0}, {1})'), (r'^operator->\|.*unique_ptr', '(&{0})'),
          (r'^selected\|', 'model_selected'), (r'^move\|', '{0}')]
MMEMBERS = [(r'^empty\|std::vector<' + WL, 'nv_vec_empty'), (r'^clear\|std::vector<' + WL, 'nv_wlist_clear'),
            (r'^begin\|std::vector<' + WL, 'nv_wlist_begin'), (r'^end\|std::vector<' + WL, 'nv_wlist_end'),
            (r'^emplace_back\|std::vector<' + WL, 'nv_wlist_push({self}, {0})'),
            (r'^optimum_trial\|nano::ml::result_t', 'nv_mlresult_optimum'), (r'^folds\|nano::ml::result_t', 'nv_mlresult_folds'),
            (r'^trials\|nano::ml::result_t', 'nv_mlresult_trials'), (r'^extra\|nano::ml::result_t\|#2', 'nv_extra'),
            (r'^store\|nano::ml::result_t\|#2', 'nv_store_final({self}, {0})'),
            (r'^vector\|nano::tensor_t<nano::tensor_vector_storage_t, double, 1', 'nv_bias_vector'),
            (r'^clone\|nano::(clonable_t<nano::)?wlearner_t', 'nv_wl_clone'), (r'^scale\|nano::wlearner_t', 'nv_wl_scale'),
            (r'^fit_dataset\|', 'nv_learner_fit_dataset({self})'), (r'^predict\|.*#2', 'nv_predict({self}, {1})'),
            (r'^evaluate\|.*#3', 'nv_learner_evaluate({self}, {1})'),
            (r'^size\|.*(indices_t|tensor_vector_storage_t, long, 1|tensor_base_t<long, 1)', 'nv_indices_size'),
            (r'^log\|nano::ml::params_t', '@drop'), (r'^(batch|scaling)\|nano::targets_iterator_t', '@drop'),
            (r'^tensor\|.*tensor_vector_storage_t, double, 2.*#1', 'nv_t2_row'),
            (r'^indexed\|.*tensor_(c|m)(map|array)_storage_t, double, 1', 'nv_row_indexed({*self}, {&0}, {1})')]


def average_fns():
    import hooks
    kw = dict(types=MTYPES, calls=MCALLS, members=MMEMBERS, opaque=MOPAQUE, hooks=[hooks.param_hook()], self_struct='struct nv_gmodel')
    M = 'src/gboost/model.cpp'
    return dict(fit=Fn('gmodel_fit', M, 'fit', flt='gboost_model_t::fit', select=NPARAMS(4), ret='struct nv_mlresult', **kw),
                clone=Fn('gmodel_fit_clone', M, 'fit', flt='gboost_model_t::fit', select=NPARAMS(4), lambda_index=1, captures=True, **kw),
                selected=Fn('model_selected', M, 'selected', flt='selected', **dict(kw, self_struct=None)))


def average_targets():
    A = 'specs/C11/average.h'
    f = average_fns()
    return [Target('gmodel_fit_clone', [average_fns()['clone']], A),
            Target('gmodel_fit', [f['fit'], f['clone'], f['selected']], A, replace=['gmodel_fit_clone'])]


# ------------------------------------------------------------------------------------------------ mean_error / mean_loss
def accumulate_hook(P, n):
    """std::accumulate(first, last, init, <lambda variable of this function>) -> nv_accumulate(first, last, init, <its one capture>):
    the operation must be the function's own lambda (extracted as util_opsum), which captures exactly errors_losses by reference"""
    from cxx2c import unwrap, Unsupported
    if n.get('kind') != 'CallExpr' or unwrap(n['inner'][0]).get('referencedDecl', {}).get('name') != 'accumulate':
        return None
    args = n['inner'][1:]
    op = unwrap(args[3]) if len(args) == 4 else {}
    while op.get('kind') == 'CXXConstructExpr' and len(op.get('inner', [])) == 1:
        op = unwrap(op['inner'][0])
    if op.get('kind') != 'DeclRefExpr' or op['referencedDecl'].get('name') != 'opsum':
        raise Unsupported('std::accumulate whose operation is not the lambda variable opsum')
    P.note('accumulate(first, last, init, opsum) -> nv_accumulate')
    return f'nv_accumulate({P.expr(args[0])}, {P.expr(args[1])}, {P.expr(args[2])}, errors_losses)'


def util_targets():
    U = 'specs/C11/util.h'
    types = [(T2, 'struct nv_tensor2d'), (IX, 'struct nv_ixs')]
    calls = [(r'^begin\|', 'nv_ix_begin({&0})'), (r'^end\|', 'nv_ix_end({&0})'), (r'^max\|const long &', 'nv_imax({0}, {1})'),
             (r'^operator\(\)\|.*tensor_vector_storage_t, double, 2', 'nv_t2_get({&0}, {1}, {2})')]
    members = [(r'^size\|.*(indices_t|tensor_vector_storage_t, long, 1|tensor_base_t<long, 1)', 'nv_ix_size')]
    kw = dict(types=types, calls=calls, members=members, hooks=[accumulate_hook])
    out = []
    for name, row in (('mean_error', 0), ('mean_loss', 1)):
        fn = lambda: Fn('util_mean', 'src/gboost/util.cpp', name, flt='gboost::' + name, **kw)
        lam = lambda: Fn('util_opsum', 'src/gboost/util.cpp', name, flt='gboost::' + name, lambda_index=0, captures=True, **kw)
        out.append(Target(name + '_opsum', [lam()], U, defines=[f'NV_ROW={row}']))
        out.append(Target(name, [fn(), lam()], U, replace=['util_opsum'], defines=[f'NV_ROW={row}']))
    return out


def store_targets():
    S = 'specs/C11/store.h'
    kw = dict(self_struct='struct nv_mlresult', types=[(T2, 'struct nv_tensor2d'), (r'^std::any$', 'struct nv_any'), (r'^nano::ml::stats_t$', 'struct nv_stats'),
                                                       (r'^nano::ml::value_type$', 'int32_t'),
                                                       (r'^nano::tensor_t<nano::tensor_(c|m)(map|array)_storage_t, double, 1', 'struct nv_row')],
              calls=[(r'^store_stats\|', 'nv_store_stats({0}, {1}, self)'), (r'^load_stats\|', 'nv_load_stats({0})'), (r'^move\|', '{0}'),
                     (r'^operator=\|.*std::any', '({0} = {1})')],
              members=[(r'^tensor\|.*tensor_vector_storage_t, double, 2.*#1', 'nv_t2_row')])
    R = 'src/machine/result.cpp'
    return [Target('mlresult_store', [Fn('mlresult_store', R, 'store', flt='nano::ml::result_t::store', select=NPARAMS(2), **kw)], S),
            Target('mlresult_stats', [Fn('mlresult_stats', R, 'stats', flt='nano::ml::result_t::stats', select=NPARAMS(1), **kw)], S)]


# ------------------------------------------------------------------------------------------------ try_merge (sum preservation of merge)
def dyn_cast_hook(P, n):
    """dynamic_cast<const K*>(p) -> nv_dyn_cast(p, NV_KIND_<K>) for the weak-learner kinds that merge coefficient-wise"""
    from cxx2c import qual
    if n.get('kind') != 'CXXDynamicCastExpr':
        return None
    q = qual(n['type'])
    kind = 'NV_KIND_TABLE' if 'table_wlearner_t' in q else 'NV_KIND_AFFINE' if 'affine_wlearner_t' in q else None
    if kind is None:
        if 'wlearner_t' not in q:
            return None
        kind = 'NV_KIND_ANY'      # a base class of both kinds: every learner of the model qualifies
    P.note(f'dynamic_cast<{q}> -> nv_dyn_cast(.., {kind})')
    return f'nv_dyn_cast({P.expr(n["inner"][0])}, {kind})'


def merge_targets():
    MH = 'specs/C11/merge.h'
    WLK = r'^nano::(wlearner_t|single_feature_wlearner_t|table_wlearner_t|affine_wlearner_t)$'
    kw = dict(self_struct='struct nv_wl', hooks=[dyn_cast_hook],
              types=[(WLK, 'struct nv_wl'), (r'^nano::rwlearner_t$|^std::unique_ptr<nano::wlearner_t', 'struct nv_rwl'),
                     (r'^nano::tensor4d_t$|^nano::tensor_t<nano::tensor_vector_storage_t, double, 4', 'struct nv_t4'),
                     (r'^nano::(hashes_t|indices_t)$|^nano::tensor_t<nano::tensor_vector_storage_t, (unsigned long|long), 1', 'struct nv_tid'),
                     (r'^Eigen::(MatrixBase<)?Eigen::Map<(const )?Eigen::Matrix<double, -1, 1|^Eigen::Map<(const )?Eigen::Matrix<double, -1, 1', 'struct nv_t4v'),
                     (r'^nano::tensor_dims_t<4>$|^std::array<long, 4', 'uint64_t')],
              calls=[(r'^operator==\|.*std::array<long, 4', '({0} == {1})'), (r'^operator==\|.*\|nano::tensor_t<nano::tensor_vector_storage_t, (unsigned long|long), 1', 'nv_tid_eq({&0}, {&1})'),
                     (r'^operator\+=\|.*\|Eigen::MatrixBase<Eigen::Map<Eigen::Matrix<double, -1, 1', 'nv_t4v_add({0}, {1})')],
              members=[(r'^get\|std::unique_ptr<nano::wlearner_t', 'nv_rwl_get'), (r'^dims\|nano::tensor_t<nano::tensor_vector_storage_t, double, 4|^dims\|nano::tensor_base_t<double, 4', 'nv_t4_dims({self})'),
                       (r'^vector\|nano::tensor_t<nano::tensor_vector_storage_t, double, 4', 'nv_t4_vector'),
                       (r'^size\|nano::tensor_t<nano::tensor_vector_storage_t, (unsigned long|long), 1|^size\|nano::tensor_base_t<(unsigned long|long), 1', 'nv_tid_size'),
                       (r'^hashes\|', 'table_hashes'), (r'^hash2tables\|', 'table_hash2tables'), (r'^feature\|', 'sfw_feature'), (r'^tables\|', 'sfw_tables'),
                       (r'^do_try_merge\|', 'nv_do_try_merge')])
    T, A, S = 'src/wlearner/table.cpp', 'src/wlearner/affine.cpp', 'src/wlearner/single.cpp'
    dtm = lambda: Fn('sfw_do_try_merge', S, 'do_try_merge', flt='single_feature_wlearner_t::do_try_merge', **kw)
    acc = lambda tu: [Fn('sfw_feature', tu, 'feature', flt='single_feature_wlearner_t::feature', **kw), Fn('sfw_tables', tu, 'tables', flt='single_feature_wlearner_t::tables', **kw)]
    tacc = lambda: [Fn('table_hashes', T, 'hashes', flt='table_wlearner_t::hashes', **kw), Fn('table_hash2tables', T, 'hash2tables', flt='table_wlearner_t::hash2tables', **kw)]
    out = [Target('sfw_do_try_merge', [dtm()], MH)]
    out += [Target(f.cname, [f], MH) for f in acc(S) + tacc()]
    out.append(Target('table_try_merge', [Fn('table_try_merge', T, 'try_merge', flt='table_wlearner_t::try_merge', **kw), dtm()] + acc(T) + tacc(), MH, replace=['sfw_do_try_merge']))
    out.append(Target('affine_try_merge', [Fn('affine_try_merge', A, 'try_merge', flt='affine_wlearner_t::try_merge', **kw), dtm()] + acc(A), MH, replace=['sfw_do_try_merge']))
    return out


def done_fn():
    return Fn('early_stopping_done', 'src/gboost/early_stopping.cpp', 'done', flt='early_stopping_t::done',
              self_struct='struct nv_early_stopping', types=TYPES,
              calls=[(r'^mean_error\|', 'nv_mean_error'), (r'^operator=\|.*tensor_vector_storage_t, double, 2', 'nv_tensor2d_assign')],
              members=[(r'^size\|.*std::vector', 'nv_vec_size'), (r'^size\|.*(indices_t|tensor_vector_storage_t, long, 1|tensor_base_t<long, 1)', 'nv_indices_size')])


# ------------------------------------------------------------------------------------------------ history lemma (induction)
HISTORY = '''
int main(void)
{
  struct nv_tensor2d initial; double epsilon; uint64_t patience;
  nv_thrown = 0;
  nv_history_lemma(initial, epsilon, patience);
  __CPROVER_assert(0, "nv_canary: end of harness reachable");
  return 0;
}
'''


def history_targets():
    """the history lemma: the real constructor and accessors are executed, the real done() is used through the contract that the
    target early_stopping_done proves (same macro NV_CONTRACT_early_stopping_done); the harness loop has a loop contract (loops=1)"""
    def fns():
        f = fit_fns()
        return [done_fn(), f['ector'], f['eround'], f['evalue'], f['evalues']]
    return [Target('monitor_history', fns, 'specs/C11/history_lemma.h', enforce_none=True, harness=HISTORY, replace=['early_stopping_done'], loops=1,
                   note='induction over histories of arbitrary length: loop contract of the harness loop')]


def c10_predict_targets():
    import importlib.util
    path = os.path.join(os.path.dirname(os.path.abspath(__file__)), '..', 'C10', 'spec.py')
    sp = importlib.util.spec_from_file_location('nv_c10_spec', path)
    mod = importlib.util.module_from_spec(sp)
    sp.loader.exec_module(mod)
    return [t for t in mod.build('quick')['targets'] if t.name.endswith('_do_predict')]


def build(tier):
    targets = [Target('early_stopping_done', [done_fn()], 'specs/C11/early_stopping.h')]
    targets += boost_targets()
    targets += fit_targets(done_fn(), [f() for f in boost_fns()])
    targets += history_targets()
    targets += average_targets()
    targets += util_targets() + store_targets() + merge_targets()
    # "prediction is bias plus the SUM of the weak learners' predictions": every weak learner ADDS its tables to the outputs
    # row (never overwrites): the do_predict contracts of specs/C10 are run here as well, by reference (same spec objects)
    targets += c10_predict_targets()
    import linear_spec
    targets += linear_spec.targets()
    import predict_spec
    targets += predict_spec.targets(tier)
    import average_smt
    vcs = average_smt.vcs()
    if tier == 'thorough':
        vcs += predict_spec.c13_stats_vcs()
    return {
        'targets': targets, 'vcs': vcs,
        'decided': ['early-stopping monitor transition = specification, for every observation and prior state; constructor (round 0, value +max, given snapshot) and round() / value() / values() accessors',
                    'gboost::result_t: constructor allocates a statistics row for every round 0..max_rounds, no learners; update(round, ..) stays inside m_statistics; done(round) keeps exactly `round` learners and round + 1 rows',
                    '::fit round loop (src/gboost/model.cpp): #learners == round at the loop head; the monitor is consulted once before the first round and once per appended learner with the CURRENT learner list and the configured epsilon / patience, never after it has stopped; '
                    'every update(round + 1, ..) writes the row of the learner count after the append, inside m_statistics; the early-exit learner (scaling failed) is appended without consulting the monitor and is never kept; '
                    'result.done(optimum.round()) is called inside its precondition, so the returned fold model keeps exactly optimum.round() learners (before merging) and optimum.round() + 1 statistics rows; '
                    'the returned per-sample values are the monitor snapshot (the values of the reported round) selected by the training resp. validation samples',
                    'HISTORY LEMMA (monitor_history; induction = loop contract of a harness loop, histories of ARBITRARY length up to 2^62 observations): the real constructor, then one observation per round '
                    '(round k with k learners; training error, validation error, with / without validation samples and the per-sample values arbitrary in every round) through the real done() used by the contract '
                    'proved for it (same macro NV_CONTRACT_early_stopping_done): after EVERY observation the monitor has stopped iff the training error is below epsilon or no improvement larger than epsilon was accepted '
                    'in the last `patience` rounds (summary form: rounds since the last accepted improvement >= patience; window form at a ghost round: none of the rounds k - patience + 1 .. k was accepted, and '
                    'conversely a continuing monitor accepted one in that window or the start is that recent); round() / value() / values() (real accessors) are the round, validation error and per-sample values '
                    'of the LAST accepted improvement (no later observation was accepted; the initial state counts as accepted at round 0 with value +max and the constructor snapshot)',
                    '::fit feeds the monitor exactly such a history (k-th consultation with k learners, on the training / validation lists given to fit, configured epsilon / patience, values evaluated anew for every '
                    'observation, never after a stop) and the SAME ghost summaries (history.h) are maintained inside the ::fit target: the returned fold model keeps exactly as many learners as the round of the last '
                    'accepted improvement of the history this call fed (no later observation was accepted, that round\'s own observation was), the returned per-sample values are the ones observed in that round, '
                    'and the monitor\'s last answer is the statement\'s verdict',
                    '::selected(values, samples): row k of the result is row k of values gathered by samples, shape (2, #samples)',
                    'gboost_model_t::fit fold averaging: bias = zero + bias of extra(optimum_trial, fold) for every fold exactly once, then times 1/folds once; m_wlearners = cleared + exactly one clone of every learner of every fold; '
                    'after merging every learner scaled by 1/folds exactly once; the final statistics stored by fit_result.store are evaluated on predictions of the FINAL model and selected by the samples given to fit(), stored once',
                    'gboost::mean_error / mean_loss: row 0 resp. 1, every listed sample exactly once in list order from 0.0, divided by max(#samples, 1)',
                    'ml::result_t::store(values, extra) / stats(value): error row -> m_optims row 0, loss row -> row 1; errors read row 0, losses row 1',
                    'weak learner do_predict (stump, tables, affine, hinge, dtree; contracts of specs/C10 run here by reference): the selected table is ADDED to the outputs row of the sample exactly once, no other row is written -- so the model prediction is bias plus the sum of the learners\' predictions',
                    'LINEAR MODELS (protocol, numerics erased, every real tensor carries ghost provenance tags; linear.h): '
                    '::fit of src/linear.cpp: one iterator over the given samples with the configured scaling, the objective made over THAT iterator with the given hyper-parameters, exactly one minimisation started from the x0 made '
                    'for this objective from the given `extra`; bias and weights are extracted from the solution of that minimisation (each by its own accessor) and up-scaled exactly once, in place, with the flatten / targets '
                    'statistics (in this order) and the scaling of the iterator the objective was fitted over; the returned result holds them as bias resp. weights (real constructor: 3 statistics slots, written inside)',
                    'linear::evaluate (+ its chunk lambda, ghost position): the result is (2, #samples); every position is predicted exactly once with the GIVEN weights / bias from the UNSCALED inputs of the chunk that holds it, '
                    'then the error goes to row 0 and the loss value to row 1, each exactly once, computed from that chunk\'s targets and these predictions (never from stale outputs)',
                    'tuning callback of linear_t::fit (per (trial, fold) task): exactly one model is fitted, on the fold\'s TRAINING samples with the trial\'s hyper-parameters; the first returned statistics are those of THAT model on the '
                    'training samples, the second those of THAT model on the VALIDATION samples, the third component is that model',
                    'linear_t::fit: tuning runs on the samples given to fit(); exactly one refit after it, with params(optimum_trial()) (inside its precondition) on ALL given samples; m_weights / m_bias are the up-scaled weights / '
                    'bias of that refit; the final statistics are evaluated with exactly the stored weights / bias on the samples given to fit() and stored exactly once together with the refit result',
                    'try_merge step of wlearner::merge (sum preservation): do_try_merge adds the other tables exactly when feature and table dimensions agree, else changes nothing; '
                    'table_wlearner_t / affine_wlearner_t::try_merge attempt it only with a learner of the same kind, its feature and its tables, and for look-up tables only with equal label hashes AND equal hash -> table mapping',
                    'gboost_model_t::do_predict (predict.h; ghost output cell, ghost learner position): the cell is overwritten exactly once, with the coefficient of m_bias (rowwise broadcast over a (samples, outputs) view of the buffer of the call), '
                    'BEFORE any learner contributes; then every learner of m_wlearners predicts exactly once (the learner at the ghost position exactly once) with the samples and the outputs buffer of the call; nothing else touches the buffer -- '
                    'with the *_do_predict contracts of specs/C10 (the selected table is ADDED to the row): prediction == bias + sum of the learners\' predictions',
                    'learner_t::predict(dataset, samples, outputs): do_predict exactly once with the same samples / outputs (or an exception of the compatibility check, then not at all); predict(dataset, samples): a buffer with one row per sample, zeroed, then '
                    'predicted into exactly once, and that buffer is returned; learner_t::evaluate (levaluate.h, ghost position): result (2, #samples); every listed sample predicted exactly once by this model on the slice of `samples` of its chunk, '
                    'error -> row 0, loss value -> row 1, each once, from that chunk\'s targets and these predictions',
                    'AVERAGING LEMMA (average_smt.py, SMT over the reals, induction over folds / learner positions, one VC per base case and step): from the proved contracts -- do_predict = bias + sum of contributions (final model and fold models), '
                    'gboost_model_t::fit (bias = (0 + sum of fold biases) * 1/folds; one clone of every fold learner; merge; every merged learner scaled by 1/folds once), try_merge (the two tables are added, sum of contributions preserved), '
                    'C10 scale (tables * factor) -- the final prediction at every output cell equals (sum over the folds of the fold model\'s prediction) / folds; sanity VCs: hypotheses satisfiable; with unscaled learners the mean is refuted',
                    'linear_t::do_predict (linear_predict.h, ghost position): one iterator over the given samples with scaling none; every position predicted exactly once with the STORED m_weights / m_bias (identities) from the inputs of the chunk '
                    'that holds it, into its own row of the outputs buffer of the call (outputs.slice(range) of the same range)',
                    'make_function of ordinary_t / lasso_t / ridge_t / elastic_net_t: the objective is built over the GIVEN iterator with (l1, l2) = (0, 0) / (params(0), 0) / (0, params(0)) / (params(0), params(1)) (bit-identical doubles, params(k) inside the '
                    'trial\'s row); linear::function_t constructor: remembers that iterator, m_l1reg <- l1reg and m_l2reg <- l2reg (each in its own member), smooth iff the loss is smooth and l1 <= 0, convex iff the loss is',
                    '::make_x0 of src/linear.cpp (ghost coefficient): zero vector of the objective\'s dimension; without a warm start nothing else is written; with one, coefficient k is weights(k) for k < #weights and bias(k - #weights) for the next #bias '
                    'coefficients (the layout function_t::weights / bias read), each written exactly once, every segment inside the vector with as many coefficients on both sides',
                    'COMPOSITION, linear side (linear_fit_tuned: the real linear_t::fit with ml::tune modelled by the clauses specs/C13 proves and the REAL callback -- a lambda variable handed to tune -- called from that model through the contract '
                    'linear_fit_callback proves): at a ghost task (trial, fold) of the returned result the callback ran once on that fold\'s split with row `trial` of the parameter table; the model stored under extra(trial, fold) was fitted in that '
                    'task on that fold\'s TRAINING samples with THAT trial\'s hyper-parameters; the statistics stored under (trial, fold, train | valid) are the values of THAT model on that fold\'s training resp. validation samples; '
                    'exactly one refit after tuning; all clauses of linear_model_fit still hold',
                    'tuning callback of gboost_model_t::fit (gmodel_fit_callback; ::fit through its proved contract, made replaceable): one boosting run per task from the model\'s own prototypes with the task\'s hyper-parameters on the task\'s '
                    '(train, valid) lists -- a swap violates the precondition of ::fit --; first result = the kept round\'s per-sample values selected by the TRAINING samples, second = the same selected by the VALIDATION samples, third = the fold model '
                    '(keeps the learners of the last accepted round); thorough tier: gboost_tune_task composes it with C13\'s store(trial, fold, first, second, third) clauses at a ghost task',
                    'percentile helper of src/machine/stats.cpp: hands the WHOLE range of the given values and the given percentage to nano::percentile once and returns its result; thorough tier, by reference: the VCs of specs/C13 for '
                    'ml::store_stats / load_stats (element k of a block = member k of stats_t = statistic k of exactly the given values) and result_t::store / stats / extra (cell(trial, fold, split, value), slot(trial, fold))'],
        'not_decided': ['statistics equal those recomputed from scratch by predicting: NUMERIC equality through loss / predict / mean / stdev / percentile values (protocol level only: which model, which samples, which row, which slot)',
                        'linear::predict, linear::function_t::do_vgrad (how m_l1reg / m_l2reg enter the objective: C09), the dimension (isize + 1) * tsize and the strong-convexity constant of linear::function_t (64-bit products: '
                        'CBMC does not decide equalities between multiplier circuits), make_param_spaces (which NAME the tuner shows for params(k)) are not under contract here',
                        'gboost side of the composition inside gboost_model_t::fit itself: gmodel_fit still uses ml::tune through an assumed stub (extra(optimum_trial, fold) holds what the callback returned: C13); the callback contract + the '
                        'per-task harness gboost_tune_task are machine-checked, the step "the object any_cast reads in the averaging block is the third result of that task" is by reading',
                        'averaging lemma: the identification of a learner\'s CONTRIBUTION at a cell with "the table row its do_predict adds" (C10) and of scale(v) with "contribution * v" is stated as hypotheses P1-P4 of the lemma, not derived mechanically; '
                        'floating-point rounding of the average (double as Real)',
                        'tensor_t::mean / stdev (Eigen reductions) and nano::percentile (C20) are used through assumed contracts; observation outside the statement (no obligation): tensor_t::stdev(), documented as the sample '
                        'standard deviation, returns sqrt(population variance / (n - 1)) = the standard error of the mean, so stats_t::m_stdev holds that (specs/C11/FINDING_stdev_is_standard_error.md, native demonstration)'],
        'assumptions': ['gboost::mean_error is a deterministic function of (errors, samples) (assumed contract)',
                        'gboost parameters inside their registered domains: 10 <= max_rounds <= 10^6, 1 <= patience <= 1000 (gboost_model_t constructor; C19)',
                        'history lemma: 1 <= patience <= 2^62 and at most 2^62 observations (so that round + patience does not wrap in size_t); the initial state of the monitor counts as an accepted improvement at round 0 '
                        '(a first observation that does not improve on +max -- NaN, +inf, DBL_MAX -- does not count as a round without improvement); mean errors are arbitrary doubles per observation (NaN included); '
                        'double subtraction uninterpreted (the statement holds for every interpretation of `value - epsilon`)',
                        'erased numerics of ::fit / gboost_model_t::fit (datasets, iterators, samplers, loss, solver, weak learners, outputs, gradients, clusters) do not touch the modelled objects; '
                        'gboost::evaluate overwrites `values` only; solver_t::minimize returns an arbitrary state; learner_t::fit_dataset touches the learner_t base only',
                        'wlearner::merge never increases the number of learners and keeps an empty list empty (C10); wlearner_t::clone copies the learner',
                        'ml::tune returns a result with trials() >= 1, 0 <= optimum_trial() < trials() (C13) and 1 <= folds() <= 1000; extra(trial, fold) holds the gboost::result_t the callback returned for (trial, fold) (C13)',
                        'tensor contents are ghost identities in the try_merge targets: operator== on tensors / dims is equality of identities; m_tables.vector() += t adds t coefficient-wise (Eigen); the sum of two tables over the same hashes and mapping is the table of the sum of the functions',
                        'std::for_each / std::accumulate apply the operation once to every element of [first, last) in order; tensor_t::indexed(indices, out) gathers out(i) = self(indices(i))',
                        'every sample listed in the index lists handed to mean_error / mean_loss is a column of errors_losses (C12: splits of arange(0, samples)); index lists hold at most 2^31 - 1 samples',
                        'linear models (assumed contracts of the stubs in linear.h): flatten_iterator_t{dataset, samples} iterates over `samples`; scaling(x) / scaling() are setter / getter; flatten_stats() / targets_stats() are the '
                        'statistics of that iterator; flatten_iterator_t::loop calls the callback once per chunk, the chunks tile [0, #samples) and carry the inputs / targets of exactly that chunk (C09), serialised; '
                        'linear_t::make_function(iterator, loss, params) is the objective over the iterator\'s samples with these hyper-parameters; make_x0(function, extra) depends on (function, extra) only; solver_t::minimize returns a state '
                        'of the objective it was given; function_t::bias / weights extract the two parts of a solution; ::upscale rewrites (weights, bias) in place (C14: the affine map it computes); linear::predict writes one output row per '
                        'input row; loss_t::error / value write one destination element per (target row, output row); ml::tune returns trials() >= 1, 0 <= optimum_trial() < trials() (C13); params(trial) is row `trial` of the parameter table; '
                        'lists of at most 10^9 samples; learner_t::fit_dataset touches the learner_t base only; dropped statements: iterator.batch / cache_flatten / cache_targets, fit_params.log, loggers',
                        'a fold model holds at most 10^6 learners (gboost::max_rounds domain); m_optims of ml::result_t is (2, 12) (its constructor, specs/C13/result_ctor.h); store(values, ..) is given a (2, n) tensor (::selected, proved here)',
                        'prediction side (predict.h / linear_predict.h / levaluate.h): M.rowwise() = v.transpose() makes every row of M equal to v (Eigen); outputs.reshape(n, -1) / .tensor() / .slice(range) are views of the same buffer (C16); '
                        'wlearner_t::predict ADDS the learner\'s value to the row of each sample (C10 *_do_predict + learner_t::predict proved here); x0.segment(o, n) = t.array() copies coefficient-wise (Eigen); std::any_cast returns the held '
                        'result; a warm start has the shape of the objective (function.size() == #weights + #bias: same dataset); targets_iterator_t defaults to scaling none (default member initialiser of the header); '
                        'isize / tsize of the objective in [1, 10^6]; indices_cmap_t::slice(range) is the sub-list (C16)',
                        'composition targets: ml::tune is modelled by exactly the clauses specs/C13 proves (a task per (trial, fold) of the result; the callback gets splits[fold] and row `trial` of the parameter table; store(trial, fold, first, second, '
                        'third)); the split lists are training / validation lists of the samples given to tune (C12); tune may throw',
                        'averaging lemma: double as Real; hypotheses P1-P4 (restated contracts, see average_smt.py)'],
        'trusted': [],
    }


def replay(rp):
    """early-stopping monitor: the counterexample of a refuted early_stopping_done obligation is one transition from an
    arbitrary monitor state; natively the state is only reachable through a history, so the driver feeds ALL histories up
    to length 4 over a 5-value alphabet (patience 1..4, with / without validation samples, plus random longer ones) to the
    real early_stopping_t of the working tree and compares every answer, round(), value() and values() with a reference
    monitor written from the property statement.  The first mismatching history is the concrete failing input."""
    import os
    import replaylib
    from astload import REPO
    out = {'reproduced': False, 'runs': []}
    tgt = rp.get('target', '')
    if 'early_stopping' not in tgt and 'monitor_history' not in tgt:
        out['note'] = f'no native replay for target {tgt}: protocol-level counterexample (ghost identities / counters)'
        return out
    srcs = [os.path.join(REPO, 'src/gboost/early_stopping.cpp'), os.path.join(REPO, 'src/gboost/util.cpp')]
    # only mean_error of util.cpp is needed: unreferenced functions (evaluate, tune_shrinkage and their dependencies) are discarded
    exe = replaylib.build_header_only('replay/C11_replay.cpp', 'C11_replay', extra=srcs + ['-ffunction-sections', '-fdata-sections', '-Wl,--gc-sections'])
    rc, so, se = replaylib.run_driver(exe, ['exhaustive', 4], timeout=600)
    lines = so.strip().split('\n')
    out['runs'].append({'mode': 'exhaustive', 'exit': rc, 'output': lines[:3] + lines[-1:]})
    # exit 1: the real monitor disagrees with the property's reference monitor on a concrete history; negative: the real code crashed
    out['reproduced'] = rc == 1 or rc < 0
    if rc == 1 and lines:
        out['failing_input'] = lines[0]
    return out
