from core import Fn, Target, VC

TYPES = [
    (r'^nano::tensor2d_t$|tensor_t<nano::tensor_vector_storage_t, double, 2', 'struct nv_tensor2d'),
    (r'^nano::indices_t$|tensor_t<nano::tensor_vector_storage_t, long, 1', 'struct nv_indices'),
    (r'^nano::rwlearners_t$|std::vector<std::unique_ptr<nano::wlearner_t', 'struct nv_vec'),
]


def build(tier):
    done = Fn('early_stopping_done', 'src/gboost/early_stopping.cpp', 'done', flt='early_stopping_t::done',
              self_struct='struct nv_early_stopping', types=TYPES,
              calls=[(r'^mean_error\|', 'nv_mean_error'), (r'^operator=\|.*tensor_vector_storage_t, double, 2', 'nv_tensor2d_assign')],
              members=[(r'^size\|.*std::vector', 'nv_vec_size'), (r'^size\|.*(indices_t|tensor_vector_storage_t, long, 1|tensor_base_t<long, 1)', 'nv_indices_size')])
    targets = [Target('early_stopping_done', [done], 'specs/C11/early_stopping.h')]
    return {
        'targets': targets, 'vcs': [],
        'decided': ['early-stopping monitor transition = specification, for every observation and prior state'],
        'not_decided': ['statistics equal those recomputed from scratch by predicting (numeric equality through loss/predict)'],
        'assumptions': ['gboost::mean_error is a deterministic function of (errors, samples) (assumed contract)'],
        'trusted': [],
    }
