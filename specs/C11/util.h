/* C11: gboost::mean_error / gboost::mean_loss (src/gboost/util.cpp) -- index discipline of the statistics the result
 * reports: "the mean (error | loss) over the given samples": row NV_ROW (0 = errors, 1 = losses) of errors_losses, every
 * LISTED sample exactly once, in list order, starting from 0, divided by max(#samples, 1).
 * Compile with -DNV_ROW=0 (mean_error) or -DNV_ROW=1 (mean_loss). */
#include "nv_base.h"
struct nv_tensor2d { int64_t rows, cols; uint64_t id; };        /* (2, #dataset samples): shape + ghost identity */
struct nv_ixs { const int64_t* p; int64_t n; };                 /* indices_t: the listed samples */
#define NV_MAXN 2147483647LL
union nv_bits { double d; uint64_t u; };
#define NV_BITS(x) (((union nv_bits){ .d = (x) }).u)
#define NV_IDENT(a, b) (NV_BITS(a) == NV_BITS(b))
double __CPROVER_uninterpreted_elem(uint64_t id, int64_t row, int64_t col);     /* the stored value errors_losses(row, col) */

int64_t nv_g;                       /* ghost: an arbitrary position of the index list */
const int64_t* nv_list_p; int64_t nv_list_n;   /* ghost: the index list of the call */
int64_t nv_cur;                     /* ghost: position accumulate is at */
int64_t nv_applied, nv_g_applied;   /* applications of the operation: all / at the ghost position */
int64_t nv_reads;                   /* element reads of errors_losses */
int64_t nv_g_row, nv_g_col;         /* the element read at the ghost position */
double nv_acc_out;                  /* what std::accumulate returned */

static const int64_t* nv_ix_begin(const struct nv_ixs* s) { return s->p; }
static const int64_t* nv_ix_end(const struct nv_ixs* s) { return s->p + s->n; }
static int64_t nv_ix_size(const struct nv_ixs* s) { return s->n; }
static int64_t nv_imax(int64_t a, int64_t b) { return (a < b) ? b : a; }          /* std::max */
/* errors_losses(row, col): C16 owns the offset arithmetic; the access must be inside the tensor (proved at the ghost position,
 * where the precondition "every listed sample is a sample of the dataset" is available) */
static double nv_t2_get(const struct nv_tensor2d* t, int64_t row, int64_t col)
{
  __CPROVER_assert(0 <= row && row < t->rows, "errors_losses(row, sample): row inside the tensor");
  __CPROVER_assert(nv_cur != nv_g || (0 <= col && col < t->cols), "errors_losses(row, sample): sample inside the tensor");
  __CPROVER_assume(nv_reads < NV_MAXN); nv_reads = nv_reads + 1;
  if (nv_cur == nv_g) { nv_g_row = row; nv_g_col = col; }
  return __CPROVER_uninterpreted_elem(t->id, row, col);
}
/* the summation lambda (extracted): sum + errors_losses(NV_ROW, sample) */
double util_opsum(double sum, int64_t sample, struct nv_tensor2d* errors_losses);
#define NV_CONTRACT_util_opsum \
__CPROVER_requires(__CPROVER_is_fresh(errors_losses, sizeof(*errors_losses)) && errors_losses->rows == 2) \
/* at the ghost position the sample is a sample of the dataset (established by the caller from the precondition of the mean) */ \
__CPROVER_requires(nv_cur != nv_g || (0 <= sample && sample < errors_losses->cols)) \
__CPROVER_assigns(nv_reads, nv_g_row, nv_g_col) \
__CPROVER_ensures(NV_IDENT(__CPROVER_return_value, NV_FADD(sum, __CPROVER_uninterpreted_elem(errors_losses->id, NV_ROW, sample)))) \
__CPROVER_ensures(nv_reads == __CPROVER_old(nv_reads) + 1 && (nv_cur != nv_g || (nv_g_row == NV_ROW && nv_g_col == sample))) \
__CPROVER_ensures(nv_cur == nv_g || (nv_g_row == __CPROVER_old(nv_g_row) && nv_g_col == __CPROVER_old(nv_g_col)))

/* std::accumulate(first, last, init, op): ASSUMED contract of the algorithm -- acc = init; acc = op(acc, *it) for every it
 * of [first, last) in order.  `op` is the extracted lambda, run under its proved contract. */
static double nv_accumulate(const int64_t* first, const int64_t* last, double init, struct nv_tensor2d* captured)
{
  __CPROVER_assert(first == nv_list_p && last == nv_list_p + nv_list_n, "accumulate runs over the whole index list [begin(samples), end(samples))");
  __CPROVER_assert(NV_IDENT(init, 0.0), "accumulate starts from 0.0");
  double acc = init;
  int64_t n = nv_list_n;
  nv_applied = 0; nv_g_applied = 0;
  for (int64_t k = 0; k < n; ++k)
  __CPROVER_assigns(k, acc, nv_cur, nv_applied, nv_g_applied, nv_reads, nv_g_row, nv_g_col)
  __CPROVER_loop_invariant(0 <= k && k <= n && nv_applied == k && nv_g_applied == ((0 <= nv_g && nv_g < k) ? 1 : 0) && nv_reads == k)
  __CPROVER_loop_invariant(!(0 <= nv_g && nv_g < k) || (nv_g_row == NV_ROW && nv_g_col == first[nv_g]))   /* (never dereference nv_list_p: a pointer known only through an equality has no points-to set) */
  __CPROVER_decreases(n - k)
  {
    nv_cur = k;
    acc = util_opsum(acc, first[k], captured);
    nv_applied = nv_applied + 1;
    if (k == nv_g) nv_g_applied = nv_g_applied + 1;
  }
  nv_acc_out = acc;
  return acc;
}

#define NV_CONTRACT_util_mean \
__CPROVER_requires(__CPROVER_is_fresh(errors_losses, sizeof(*errors_losses)) && __CPROVER_is_fresh(samples, sizeof(*samples))) \
__CPROVER_requires(0 <= samples->n && samples->n <= NV_MAXN && __CPROVER_is_fresh(samples->p, (samples->n > 0 ? samples->n : 1) * sizeof(int64_t))) \
__CPROVER_requires(errors_losses->rows == 2 && nv_list_p == samples->p && nv_list_n == samples->n && nv_reads == 0) \
/* ASSUMED: every listed sample is a sample of the dataset (C12: splits of arange(0, samples); values has one column per sample) */ \
__CPROVER_requires(!(0 <= nv_g && nv_g < samples->n) || (0 <= samples->p[nv_g] && samples->p[nv_g] < errors_losses->cols)) \
__CPROVER_assigns(nv_cur, nv_applied, nv_g_applied, nv_reads, nv_g_row, nv_g_col, nv_acc_out) \
/* every listed sample contributes exactly once, by exactly one read of row NV_ROW at that sample */ \
__CPROVER_ensures(nv_applied == samples->n && nv_reads == samples->n) \
__CPROVER_ensures(!(0 <= nv_g && nv_g < samples->n) || (nv_g_applied == 1 && nv_g_row == NV_ROW && nv_g_col == samples->p[nv_g])) \
/* the sum is divided by max(#samples, 1) */ \
__CPROVER_ensures(NV_IDENT(__CPROVER_return_value, NV_FDIV(nv_acc_out, (double)(samples->n > 1 ? samples->n : 1))))
