/* C11: HISTORY LEMMA of the early-stopping monitor, machine-checked by induction over histories of ARBITRARY length.
 * The harness nv_history_lemma() constructs the monitor with the REAL extracted constructor and then feeds it a history of
 * observations of unbounded length (round k is observed with k learners; training error, validation error, "has validation
 * samples" and the per-sample values of each round are arbitrary) through the REAL early_stopping_t::done, used through the
 * very contract NV_CONTRACT_early_stopping_done (early_stopping.h) that the target `early_stopping_done` proves of the
 * extracted code (replace=): the lemma cannot drift from what is proved about the code.
 * Loop contract = induction: the invariant is the property's history-level statement over the ghost summaries of history.h
 * (base case: after the constructor; step: one more observation).  After EVERY observation the real answer, round(),
 * value() and values() (extracted accessors, executed) are compared with the statement's verdict and summaries, and the
 * summaries with the window form of the statement at a ghost round. */
#include "early_stopping.h"
#include "monitor.h"
#include "history.h"
void early_stopping_ctor(struct nv_early_stopping* self, struct nv_tensor2d values);
_Bool early_stopping_done(struct nv_early_stopping* self, const struct nv_tensor2d* errors_losses, const struct nv_indices* train_samples, const struct nv_indices* valid_samples, const struct nv_vec* wlearners, double epsilon, uint64_t patience);
uint64_t early_stopping_round(const struct nv_early_stopping* self);
double early_stopping_value(const struct nv_early_stopping* self);
const struct nv_tensor2d* early_stopping_values(const struct nv_early_stopping* self);

/* histories of up to 2^62 observations, patience up to 2^62: only so that `round + patience` cannot wrap (size_t) */
#define NV_H_MAX 4611686018427387904ull
uint64_t nv_h_len;       /* ghost: length of the history that is fed (arbitrary) */

static void nv_history_lemma(struct nv_tensor2d initial, double epsilon, uint64_t patience)
{
  __CPROVER_assume(1 <= patience && patience <= NV_H_MAX && nv_h_len <= NV_H_MAX);
  struct nv_early_stopping mon;
  struct nv_tensor2d values;
  struct nv_indices train, valid;
  struct nv_vec learners;
  _Bool stop = 0;
  train.id = 1; valid.id = 2;
  __CPROVER_assume(train.n >= 0);
  valid.n = 0;
  values = initial;
  learners.size = 0;
  early_stopping_ctor(&mon, initial);
  nv_hist_begin(initial.id);
  while (!stop && learners.size < nv_h_len)
    __CPROVER_assigns(stop, learners.size, values, valid.n, mon.m_round, mon.m_value, mon.m_values, nv_id_counter, nv_train_value, nv_valid_value,
                      nv_h_n, nv_h_last, nv_h_value, nv_h_snap, nv_h_since, nv_h_below, nv_h_acc, nv_h_stop, nv_h_acc_j, nv_h_snap_j)
    __CPROVER_loop_invariant(learners.size <= nv_h_len && nv_h_n == learners.size && train.id == 1 && valid.id == 2 && train.n >= 0)
    /* the history-level statement after nv_h_n observations */
    __CPROVER_loop_invariant((stop != 0) == (nv_h_stop != 0))
    __CPROVER_loop_invariant(NV_H_STATE(mon))
    __CPROVER_loop_invariant(!stop ==> (NV_H_WF && nv_h_since < patience))
    __CPROVER_decreases(nv_h_len - learners.size)
  {
    /* observation of round learners.size: everything about it is arbitrary */
    values.id = nv_fresh_id(); values.by = 0; values.rows = nv_nondet_int64_t(); values.cols = nv_nondet_int64_t();
    valid.n = nv_nondet_int64_t(); __CPROVER_assume(valid.n >= 0);
    nv_train_value = nv_nondet_double(); nv_valid_value = nv_nondet_double();
    nv_hist_observe(nv_train_value, nv_valid_value, valid.n != 0, learners.size, values.id, epsilon, patience);
    stop = early_stopping_done(&mon, &values, &train, &valid, &learners, epsilon, patience);
    uint64_t n = learners.size;
    /* "the monitor stops exactly when ..." */
    __CPROVER_assert((stop != 0) == (nv_h_stop != 0), "history: the monitor stops exactly when the statement says so (training error below epsilon, or no improvement accepted in the last `patience` rounds)");
    /* "... and reports the round of the last accepted improvement with that round's per-sample values" */
    __CPROVER_assert(early_stopping_round(&mon) == nv_h_last, "history: round() is the round of the last accepted improvement");
    __CPROVER_assert(NV_IDENT(early_stopping_value(&mon), nv_h_value), "history: value() is the validation error of the last accepted improvement");
    __CPROVER_assert(early_stopping_values(&mon)->id == nv_h_snap && (nv_h_acc ==> (nv_h_last == n && early_stopping_values(&mon)->rows == values.rows && early_stopping_values(&mon)->cols == values.cols)), "history: values() is the snapshot of the round of the last accepted improvement");
    /* the summaries against the window form of the statement, at the ghost round nv_h_j */
    __CPROVER_assert(nv_h_last <= n && nv_h_since == n - nv_h_last, "history: rounds since the last accepted improvement");
    __CPROVER_assert((nv_h_stop && !nv_h_below) ==> ((nv_h_j <= n && n - nv_h_j < patience) ==> !nv_h_acc_j), "history: stop (training error not below epsilon) => none of the last `patience` rounds holds an accepted improvement");
    __CPROVER_assert((nv_h_stop && !nv_h_below) ==> n >= patience, "history: a stop for lack of improvement needs at least `patience` rounds");
    __CPROVER_assert(!nv_h_stop ==> (!nv_h_below && n - nv_h_last < patience && ((nv_h_j == nv_h_last && nv_h_last > 0) ==> nv_h_acc_j)), "history: continue => training error not below epsilon and an improvement was accepted in the last `patience` rounds (or the start is that recent)");
    __CPROVER_assert(nv_h_j <= n ==> ((nv_h_j > nv_h_last ==> !nv_h_acc_j) && ((nv_h_j == nv_h_last && nv_h_acc_j) ==> early_stopping_values(&mon)->id == nv_h_snap_j)), "history: no observation after round() was accepted, and values() are the per-sample values observed in round()");
    __CPROVER_assert(nv_h_below ==> (nv_h_stop && nv_h_last == n), "history: training error below epsilon => stop, and this round is the reported one");
    learners.size = learners.size + 1;
  }
}
