/* C11: the HISTORY-LEVEL statement of the early-stopping monitor, written from the property text over ghost summaries of the
 * history of observations -- not from the code:
 *   "For every history of (training, validation) error values the early-stopping monitor stops exactly when the training error
 *    drops below epsilon or no validation improvement larger than epsilon was accepted in the last `patience` rounds, and
 *    reports the round of the last accepted improvement with that round's per-sample values".
 * A history is a sequence of observations k = 0, 1, 2, ..; observation k is made with k weak learners (round k; the boosting
 * loop appends one learner per round) and consists of (train error, validation error, has validation samples, the per-sample
 * values of that round).  The statement's notions:
 *   - observation k is an ACCEPTED IMPROVEMENT iff its training error is below epsilon (the run ends at this round), or there
 *     are no validation samples (refitting: every round counts), or its validation error is smaller than the validation error of
 *     the previous accepted improvement minus epsilon; before any observation the monitor is in its initial state: "accepted"
 *     at round 0 with the value +max and the snapshot given at construction;
 *   - ROUNDS SINCE: the number of rounds that passed since the last accepted improvement;
 *   - the statement's verdict after observation k: STOP iff train_k < epsilon or rounds since >= patience, i.e. none of the
 *     last `patience` rounds k - patience + 1 .. k holds an accepted improvement.
 * The summaries are updated by nv_hist_observe() below; the same function is called by the history lemma's harness
 * (spec.py: HISTORY) and by the ::fit target's monitor wrapper (fit.h), so both talk about the same statement. */
#ifndef NV_C11_HISTORY_H
#define NV_C11_HISTORY_H
#include "types.h"
#ifndef NV_DBL_MAX
#define NV_DBL_MAX 1.7976931348623157e308
#endif
uint64_t nv_h_n;        /* observations made so far (= the round of the next observation) */
uint64_t nv_h_last;     /* round of the last accepted improvement (0 in the initial state) */
double   nv_h_value;    /* its validation error (+max in the initial state) */
uint64_t nv_h_snap;     /* identity of its per-sample values (those given at construction in the initial state) */
uint64_t nv_h_since;    /* rounds since the last accepted improvement */
_Bool    nv_h_below;    /* the latest observation's training error was below epsilon */
_Bool    nv_h_acc;      /* the latest observation was an accepted improvement */
_Bool    nv_h_stop;     /* the statement's verdict after the latest observation */
/* ghost index (instead of "for all rounds j"): an arbitrary round, fixed before the history starts */
uint64_t nv_h_j;
_Bool    nv_h_acc_j;    /* observation nv_h_j was an accepted improvement */
uint64_t nv_h_snap_j;   /* identity of the per-sample values of observation nv_h_j */

/* the initial state (monitor constructed with the per-sample values `snap`) */
static void nv_hist_begin(uint64_t snap)
{ nv_h_n = 0; nv_h_last = 0; nv_h_value = NV_DBL_MAX; nv_h_snap = snap; nv_h_since = 0; nv_h_below = 0; nv_h_acc = 0; nv_h_stop = 0; }

/* observation number nv_h_n (made with `round` learners); returns nothing: the verdict is nv_h_stop */
static void nv_hist_observe(double train, double valid, _Bool has_valid, uint64_t round, uint64_t values_id, double epsilon, uint64_t patience)
{
  /* one round has passed since the previous observation (none before the first one) */
  if (nv_h_n > 0 && nv_h_since < UINT64_MAX) nv_h_since = nv_h_since + 1;
  _Bool below = train < epsilon;
  _Bool accepted = below || !has_valid || valid < NV_FSUB(nv_h_value, epsilon);
  if (round == nv_h_j) { nv_h_acc_j = accepted; nv_h_snap_j = values_id; }
  if (accepted) { nv_h_last = round; nv_h_value = valid; nv_h_snap = values_id; nv_h_since = 0; }
  nv_h_below = below; nv_h_acc = accepted;
  nv_h_stop = below || nv_h_since >= patience;
  if (nv_h_n < UINT64_MAX) nv_h_n = nv_h_n + 1;
}

/* the monitor's state IS the summary of the history (the induction hypothesis; `m` is a struct nv_early_stopping lvalue) */
#define NV_H_STATE(m) ((m).m_round == nv_h_last && NV_IDENT((m).m_value, nv_h_value) && (m).m_values.id == nv_h_snap)
/* after nv_h_n observations without a stop: the summaries are consistent with the history (window form, at the ghost index):
 * the last accepted improvement is a round already observed (or the initial state), `since` counts the rounds after it, fewer
 * than `patience` of them; no observation after it was accepted; it was itself accepted and its values are the snapshot */
#define NV_H_WF ((nv_h_n == 0 ? (nv_h_last == 0 && nv_h_since == 0) : (nv_h_last < nv_h_n && nv_h_since == nv_h_n - 1 - nv_h_last)) \
  && (nv_h_j < nv_h_n ==> ((nv_h_j > nv_h_last ==> !nv_h_acc_j) && ((nv_h_j == nv_h_last && nv_h_acc_j) ==> nv_h_snap == nv_h_snap_j) && ((nv_h_j == nv_h_last && nv_h_last > 0) ==> nv_h_acc_j))))
#endif
