/* C11: contract of gboost::early_stopping_t::done, written from the property statement:
 *   "the monitor stops exactly when the training error drops below epsilon or no validation improvement larger than
 *    epsilon was accepted in the last `patience` rounds, and reports the round of the last accepted improvement with
 *    that round's per-sample values".
 * Abstract state (round, value, snapshot); one observation = (train error, validation error, #validation samples,
 * #weak learners).  The whole state appears in the postcondition; the frame is exactly the three members. */
#include "types.h"

/* assumed contract of gboost::mean_error: a deterministic function of (errors, samples); the two results the
 * monitor can observe are the ghost values below (arbitrary doubles, NaN included) */
double nv_train_value, nv_valid_value;
static double nv_mean_error(const struct nv_tensor2d* e, const struct nv_indices* s)
{ return s->id == 1 ? nv_train_value : nv_valid_value; }
static void nv_tensor2d_assign(struct nv_tensor2d* d, const struct nv_tensor2d* s) { *d = *s; }

#define NV_ACCEPTED (NV_IDENT(self->m_value, nv_valid_value) && self->m_round == wlearners->size && self->m_values.id == errors_losses->id && self->m_values.rows == errors_losses->rows && self->m_values.cols == errors_losses->cols && self->m_values.by == errors_losses->by)
#define NV_UNCHANGED (NV_IDENT(self->m_value, __CPROVER_old(self->m_value)) && self->m_round == __CPROVER_old(self->m_round) && self->m_values.id == __CPROVER_old(self->m_values.id) && self->m_values.rows == __CPROVER_old(self->m_values.rows) && self->m_values.cols == __CPROVER_old(self->m_values.cols) && self->m_values.by == __CPROVER_old(self->m_values.by))
#define NV_IMPROVED (nv_valid_value < NV_FSUB(__CPROVER_old(self->m_value), epsilon) || valid_samples->n == 0)
#define NV_WAIT (wlearners->size < __CPROVER_old(self->m_round) + patience)

#define NV_CONTRACT_early_stopping_done \
__CPROVER_requires(__CPROVER_is_fresh(self, sizeof(*self)) && __CPROVER_is_fresh(errors_losses, sizeof(*errors_losses))) \
__CPROVER_requires(__CPROVER_is_fresh(train_samples, sizeof(*train_samples)) && __CPROVER_is_fresh(valid_samples, sizeof(*valid_samples))) \
__CPROVER_requires(__CPROVER_is_fresh(wlearners, sizeof(*wlearners))) \
__CPROVER_requires(train_samples->id == 1 && valid_samples->id == 2 && valid_samples->n >= 0 && train_samples->n >= 0) \
__CPROVER_assigns(self->m_round, self->m_value, self->m_values) \
/* training error below epsilon: stop, and the current round is recorded */ \
__CPROVER_ensures((nv_train_value < epsilon) ==> (__CPROVER_return_value && NV_ACCEPTED)) \
/* significant improvement (or no validation samples): continue, accept */ \
__CPROVER_ensures((!(nv_train_value < epsilon) && NV_IMPROVED) ==> (!__CPROVER_return_value && NV_ACCEPTED)) \
/* no improvement, still inside the patience window: continue, state unchanged */ \
__CPROVER_ensures((!(nv_train_value < epsilon) && !NV_IMPROVED && NV_WAIT) ==> (!__CPROVER_return_value && NV_UNCHANGED)) \
/* no improvement for `patience` rounds: stop, state unchanged */ \
__CPROVER_ensures((!(nv_train_value < epsilon) && !NV_IMPROVED && !NV_WAIT) ==> (__CPROVER_return_value && NV_UNCHANGED))
