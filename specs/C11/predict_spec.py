"""C11: the prediction side -- gboost_model_t::do_predict (bias + sum of the learners' contributions at a ghost cell),
learner_t::predict (both overloads), linear_t::do_predict (the stored weights / bias are what predict uses), the four
make_function overrides (l1 / l2 of the trial) and ::make_x0 of src/linear.cpp (warm start)."""
from core import Fn, Target

NPARAMS = lambda k: (lambda d: len([c for c in d['inner'] if c['kind'] == 'ParmVarDecl']) == k)
WL = r'std::unique_ptr<nano::wlearner_t'
IXC = r'^nano::indices_cmap_t$|^nano::tensor_t<nano::tensor_carray_storage_t, long, 1'
O4M = r'^nano::tensor4d_map_t$|^nano::tensor_t<nano::tensor_marray_storage_t, double, 4'
O4 = r'^nano::tensor4d_t$|^nano::tensor_t<nano::tensor_vector_storage_t, double, 4'

# ------------------------------------------------------------------------------------------------ gboost_model_t::do_predict
GTYPES = [(r'::difference_type$', 'int64_t'),
          (r'__normal_iterator<\s*(const )?' + WL + r'|^std::vector<' + WL + r'.*>::(const_)?iterator$', 'struct nv_it'),
          (IXC, 'struct nv_indices'), (O4M, 'struct nv_omap'),
          (r'^nano::(tensor1d_t|vector_t)$|^nano::tensor_t<nano::tensor_vector_storage_t, double, 1', 'struct nv_bias'),
          (r'^nano::rwlearners_t$|^std::vector<' + WL, 'struct nv_wlist'), (r'^nano::rwlearner_t$|^' + WL + r'|^nano::wlearner_t$', 'struct nv_wl')]
GOPAQUE = [r'^nano::dataset_t$']
GCALLS = [(r'^operator=\|.*VectorwiseOp', 'nv_rowwise_assign({0}, {1})'), (r'^operator\+=\|.*VectorwiseOp', 'nv_rowwise_add({0}, {1})'),
          (r'^operator!=\|.*__normal_iterator', '({0}.pos != {1}.pos)'), (r'^operator\+\+\|.*__normal_iterator', '(++{0}.pos)'),
          (r'^operator\*\|.*__normal_iterator', '(*nv_it_deref({0}))'), (r'^operator->\|.*unique_ptr', '(&{0})')]
GMEMBERS = [(r'^reshape\|nano::tensor_t<nano::tensor_marray_storage_t, double, 4', 'nv_omap_reshape({obj}, {0}, {1})'),
            (r'^matrix\|nano::tensor_t<nano::tensor_marray_storage_t, double, 2', 'nv_omat_matrix({obj})'),
            (r'^rowwise\|', 'nv_omat_rowwise({obj})'), (r'^transpose\|', 'nv_biasv_transpose({obj})'),
            (r'^vector\|nano::tensor_t<nano::tensor_vector_storage_t, double, 1', 'nv_bias_vector'),
            (r'^size\|.*(indices_cmap_t|tensor_carray_storage_t, long, 1|tensor_base_t<long, 1)', '({obj}.n)'),
            (r'^tensor\|nano::tensor_t<nano::tensor_marray_storage_t, double, 4', 'nv_omap_tensor({obj})'),
            (r'^begin\|std::vector<' + WL, 'nv_wlist_begin'), (r'^end\|std::vector<' + WL, 'nv_wlist_end'),
            (r'^predict\|nano::(learner_t|wlearner_t)', 'nv_wl_predict({self}, {1}, {2})')]


def gboost_predict_fn():
    import hooks
    return Fn('gmodel_do_predict', 'src/gboost/model.cpp', 'do_predict', flt='gboost_model_t::do_predict', self_struct='struct nv_gmodel',
              types=GTYPES, calls=GCALLS, members=GMEMBERS, opaque=GOPAQUE, hooks=[hooks.param_hook()])


# ------------------------------------------------------------------------------------------------ learner_t::predict
PTYPES = [(IXC, 'struct nv_indices'), (O4M, 'struct nv_omap'), (O4, 'struct nv_out4'), (r'^nano::tensor4d_dims_t$|^nano::tensor_dims_t<4|^std::array<long, 4', 'struct nv_dims4')]
PCALLS = [(r'^cat_dims\|', 'nv_cat_dims({0})'), (r'^ctor\|nano::tensor_t<nano::tensor_vector_storage_t, double, 4>\|void \(.*(tdims|tensor_dims_t|std::array)', 'nv_out4_make({0})'),
          (r'^ctor\|nano::tensor_t<nano::tensor_marray_storage_t, double, 4>\|void \((const )?(nano::)?tensor_t<nano::tensor_vector_storage_t, double, 4', 'nv_omap_of({&0})')]
PMEMBERS = [(r'^critical_compatible\|', 'nv_critical_compatible({self})!'), (r'^do_predict\|', 'nv_do_predict({self}, {1}, {2})'),
            (r'^predict\|.*#3', 'learner_predict3({self}, {&0}, {1}, {2})!'), (r'^zero\|', 'nv_out4_zero'),
            (r'^size\|.*(indices_cmap_t|tensor_carray_storage_t, long, 1|tensor_base_t<long, 1)', '({obj}.n)')]


def learner_fns():
    import hooks
    kw = dict(self_struct='struct nv_learner', types=PTYPES, calls=PCALLS, members=PMEMBERS, opaque=GOPAQUE, hooks=[hooks.param_hook()])
    return dict(p3=Fn('learner_predict3', 'src/learner.cpp', 'predict', flt='learner_t::predict', select=NPARAMS(3), **kw),
                p2=Fn('learner_predict2', 'src/learner.cpp', 'predict', flt='learner_t::predict', select=NPARAMS(2), **kw))


# ------------------------------------------------------------------------------------------------ linear_t::do_predict
# assumed contract of flatten_iterator_t::loop(callback) as in linear_spec.LOOP_BODY (C09: once per chunk, the chunks tile [0, #samples));
# nv_obj = the iterator, outputs = the lambda's capture BY NAME, self = the model; @CALL = the extracted lambda body (inlined)
DP_LOOP = r'''
  __CPROVER_assert(nv_obj->scaling == NVE_scaling_type_none, "do_predict: predictions are made from UNSCALED inputs (the stored model is up-scaled)");
  __CPROVER_assume(nv_e_looped < 1000); nv_e_looped = nv_e_looped + 1;
  int64_t n = outputs->t->rows, b = 0;
  uint64_t by = nv_obj->by, wid = self->m_weights.id, bid = self->m_bias.id, oid = outputs->t->id;
  nv_e_pred = 0;
  while (b < n)
  __CPROVER_assigns(b, nv_e_pred, nv_e_pred_w, nv_e_pred_b, nv_e_pred_by, nv_e_pred_out, nv_e_pred_pos, outputs->t->w, outputs->t->b, outputs->t->by)
  __CPROVER_loop_invariant(0 <= b && b <= n && n == outputs->t->rows && outputs->b == -1 && outputs->row == -1 && oid == outputs->t->id)
  __CPROVER_loop_invariant((0 <= nv_g && nv_g < b) ? (nv_e_pred == 1 && nv_e_pred_w == wid && nv_e_pred_b == bid && nv_e_pred_by == by && nv_e_pred_pos == nv_g && nv_e_pred_out == oid) : nv_e_pred == 0)
  __CPROVER_decreases(n - b)
  {
    int64_t e = nv_nondet_int64_t(); __CPROVER_assume(b < e && e <= n);
    struct nv_range r; r.b = b; r.e = e;
    struct nv_lt in = nv_lt_zero();
    in.by = nv_obj->by; in.cb = b; in.ce = e; in.rows = e - b; in.id = nv_nondet_uint64_t();
    uint64_t tnum = nv_nondet_uint64_t();
    @CALL(r, tnum, in);
    b = e;
  }
'''


def linear_predict_fns():
    import hooks
    import linear_spec as ls
    members = [(r'^slice\|nano::tensor_t<nano::tensor_marray_storage_t, double, 4', 'nv_lview_slice4({obj}, {0})'),
               (r'^size\|nano::tensor_range_t', '({obj}.e - {obj}.b)'), (r'^begin\|nano::tensor_range_t', '({obj}.b)'), (r'^end\|nano::tensor_range_t', '({obj}.e)')] + ls.LMEMBERS
    calls = [(r'^ctor\|nano::flatten_iterator_t\|', 'nv_fiter_make({1})'), (r'^make_range\|', 'nv_range_make({0}, {1})'),
             (r'^ctor\|nano::tensor_range_t\|void \(const nano::tensor_size_t, const nano::tensor_size_t\)', 'nv_range_make({0}, {1})')] + ls.LCALLS
    kw = dict(types=ls.LTYPES, calls=calls, members=members, opaque=ls.LOPAQUE, self_struct='struct nv_linear',
              hooks=[hooks.param_hook(), hooks.lambda_stub_hook('loop', 'nv_dp_loop', ['linear_do_predict_chunk'], DP_LOOP, member=True)])
    return [Fn('linear_do_predict', ls.L, 'do_predict', flt='linear_t::do_predict', **kw),
            Fn('linear_do_predict_chunk', ls.L, 'do_predict', flt='linear_t::do_predict', lambda_index=0, captures=True, **kw)]


MF_CLASSES = [('ordinary', 'ordinary_t'), ('lasso', 'lasso_t'), ('ridge', 'ridge_t'), ('elastic_net', 'elastic_net_t')]


def make_function_fn(stem, cls):
    import linear_spec as ls
    types = [(r'^(::)?(nano::)?linear::function_t$', 'struct nv_lfun2')] + ls.LTYPES
    calls = [(r'^ctor\|(nano::)?linear::function_t\|', 'nv_lfun2_make({&0}, {2}, {3})'),
             (r'^operator\(\)\|.*tensor_carray_storage_t, double, 1', 'nv_params_at({0}, {1})')] + ls.LCALLS
    return Fn(f'{stem}_make_function', f'src/linear/{stem}.cpp', 'make_function', flt=f'{cls}::make_function', self_struct='struct nv_linear',
              types=types, calls=calls, members=ls.LMEMBERS, opaque=ls.LOPAQUE, ret='struct nv_lfun2')


def function_ctor_fn():
    import linear_spec as ls
    types = [(r'^(::)?(nano::)?linear::function_t$', 'struct nv_fobj'), (r'^(::)?nano::function_t$', 'struct nv_opaque'), (r'^nano::(convexity|smoothness)$', 'int32_t'),
             (r'accumulator', 'struct nv_opaque')] + ls.LTYPES
    calls = [(r'^isize\|', 'nv_isize_of({&0})'), (r'^tsize\|', 'nv_tsize_of({&0})'),
             (r'^ctor\|nano::function_t\|', 'nv_fobj_base(self, {1})'), (r'^ctor\|std::vector<nano::linear::accumulator_t>\|', 'nv_opaque_value()')]
    members = [(r'^convex\|nano::loss_t', 'nv_loss_is_convex'), (r'^smooth\|nano::loss_t', 'nv_loss_is_smooth'),
               (r'^convex\|', 'nv_fobj_convex({self}, {0})'), (r'^smooth\|', 'nv_fobj_smooth({self}, {0})'), (r'^strong_convexity\|', 'nv_fobj_sconv({self}, {0})'),
               (r'^concurrency\|', '@nondet')]
    return Fn('lfunction_ctor', 'src/linear/function.cpp', 'function_t', flt='linear::function_t::function_t', kinds=('CXXConstructorDecl',), select=NPARAMS(4),
              self_struct='struct nv_fobj', types=types, calls=calls, members=members, opaque=ls.LOPAQUE + [r'accumulator'], ref_member_pointers=True)


def make_x0_fn():
    import linear_spec as ls
    types = [(ls.T1, 'struct nv_xt'), (ls.T2, 'struct nv_xt'), (r'^std::any$', 'struct nv_xany'), (r'^(nano::)?(linear::)?result_t$', 'struct nv_xresult'),
             (r'^(::)?(nano::)?linear::function_t$', 'struct nv_xfun'), (r'^nano::vector_t$|^Eigen::Matrix<double, -1, 1', 'struct nv_x0'),
             (r'^nano::tensor_t<nano::tensor_vector_storage_t, double, 1', 'struct nv_x0')]
    calls = [(r'^zero\|', 'nv_x0_zero({0})'), (r'^ctor\|nano::tensor_t<nano::tensor_vector_storage_t, double, 1>\|void \(const Eigen::CwiseNullaryOp', '{0}'), (r'^any_cast\|', '(*nv_xany_cast({&0}))'),
             (r'^operator=\|.*(VectorBlock|Block<)', 'nv_seg_assign({0}, {1})')]
    members = [(r'^size\|(const )?(::)?(nano::)?(linear::)?function_t', 'nv_xfun_size'), (r'^has_value\|', 'nv_xany_has'),
               (r'^size\|', 'nv_xt_size'), (r'^array\|', 'nv_xt_array'), (r'^segment\|', 'nv_x0_segment({self}, {0}, {1})')]
    return Fn('linear_make_x0', 'src/linear.cpp', 'make_x0', flt='make_x0', types=types, calls=calls, members=members, ret='struct nv_x0')


# ------------------------------------------------------------------------------------------------ composition: tune + callback
# ml::tune("linear", samples, fit_params, spaces, callback) by the clauses C13 proves, at a ghost task; nv_a1 = samples; @CALL = the REAL
# callback (lambda variable of linear_t::fit), used through its proved contract
TUNE_BODY = r'''
  __CPROVER_assert(nv_a1->id == NV_ID_FIT, "fit: tuning splits the samples given to fit()");
  struct nv_mlresult r; r.trials = nv_nondet_int64_t(); r.folds = nv_nondet_int64_t(); r.optimum = nv_opt_trial;
  __CPROVER_assume(1 <= r.trials && r.trials <= 1000000 && 1 <= r.folds && r.folds <= 1000 && 0 <= r.optimum && r.optimum < r.trials);
  if (nv_nondet__Bool()) { nv_thrown = 1; return r; }      /* tune may throw (no parameter space, non-finite value: C13) */
  /* the ghost task is one of the folds * trials tasks of the result (C13: slot lemmas) */
  __CPROVER_assume(0 <= nv_t_trial && nv_t_trial < r.trials && 0 <= nv_t_fold && nv_t_fold < r.folds);
  nv_t_trials = r.trials; nv_t_folds = r.folds;
  /* C13: the callback runs once per task, with splits[fold] (C12: training / validation lists of the samples given to tune), row `trial`
     of the parameter table (the one params(trial) reads) and the warm start of the closest earlier trial (or none) */
  struct nv_indices train, valid; train.id = NV_ID_TRAIN; valid.id = NV_ID_VALID; train.n = nv_nondet_int64_t(); valid.n = nv_nondet_int64_t();
  __CPROVER_assume(0 <= train.n && train.n <= 1000000000 && 0 <= valid.n && valid.n <= 1000000000);
  struct nv_lt params = nv_lt_zero(); params.rows = nv_nondet_int64_t(); params.cols = 1; params.id = nv_params_id0 + (uint64_t)nv_t_trial;
  struct nv_lany warm; warm.id = nv_nondet_uint64_t(); warm.w = nv_nondet_uint64_t(); warm.b = nv_nondet_uint64_t();
  struct nv_cb_ret ret = @CALL(&train, &valid, params, &warm, &nv_t_logger);
  __CPROVER_assume(nv_t_calls < 1000); nv_t_calls = nv_t_calls + 1;
  /* C13: result.store(trial, fold, first, second, third): cells (trial, fold, train, .) <- first, (trial, fold, valid, .) <- second, extra(trial, fold) <- third */
  nv_t_train = ret._0; nv_t_valid = ret._1; nv_t_w = ret._2.m_weights; nv_t_b = ret._2.m_bias;
  nv_t_state = nv_lf_state; nv_t_ntrain = train.n; nv_t_nvalid = valid.n;
  nv_t_min_after = nv_minimized; nv_t_up_after = nv_upscaled;
  return r;
'''


def tuned_fns():
    import hooks
    import linear_spec as ls
    kw = dict(ls.kw_(), self_struct='struct nv_linear', aggregates=['struct nv_cb_ret'])
    kw['hooks'] = [hooks.lambda_stub_hook('tune', 'nv_tune_cb', ['linear_fit_callback'], TUNE_BODY, lead=[1], ret='struct nv_mlresult', lambda_rets=['struct nv_cb_ret'])] + kw['hooks']
    g = ls.inner_fns()
    return [Fn('linear_fit_tuned', ls.L, 'fit', flt='linear_t::fit', select=NPARAMS(4), ret='struct nv_mlresult', **kw),
            ls.linear_fns()['callback'], g['inner'], g['evaluate']]


def gboost_callback_fns():
    """lambda #0 of gboost_model_t::fit under the tables of the ::fit target (spec.FTYPES ..); ::fit itself is replaced by its contract"""
    import hooks
    import importlib.util
    import os
    isp = importlib.util.spec_from_file_location('nv_c11_spec', os.path.join(os.path.dirname(os.path.abspath(__file__)), 'spec.py'))
    sp = importlib.util.module_from_spec(isp)
    isp.loader.exec_module(sp)
    types = [(r'^nano::tensor1d_cmap_t$|^nano::tensor_t<nano::tensor_carray_storage_t, double, 1|^nano::tensor1d_t$|^nano::tensor_t<nano::tensor_vector_storage_t, double, 1', 'struct nv_pid'),
             (r'^std::tuple<nano::tensor_t<nano::tensor_vector_storage_t, double, 2>, nano::tensor_t<nano::tensor_vector_storage_t, double, 2>, nano::gboost::result_t>$', 'struct nv_gcb_ret'),
             (r'^std::tuple_element<0, std::tuple<nano::gboost::result_t, ', 'struct nv_result'),
             (r'^std::tuple_element<[12], std::tuple<nano::gboost::result_t, ', 'struct nv_tensor2d')] + sp.FTYPES
    calls = [(r'^ctor\|nano::tensor_t<nano::tensor_vector_storage_t, double, 1>\|void \(const tensor_t<nano::tensor_carray_storage_t, double, 1', '{0}'),     # tensor1d_t(params): a copy of the row
             (r'^make_tuple\|[^|]*\|(nano::tensor2d_t|nano::tensor_t<nano::tensor_vector_storage_t, double, 2)', '(struct nv_gcb_ret){ {0}, {1}, {2} }'),
             (r'^fit\|', '(nv_g_fits = nv_g_fits + 1, nv_g_fit_protos = {&6}, nv_g_fit_params = {7}.id, gboost_fit((struct nv_opaque*)self, {&1}, {&2}, {&3}, {&4}, {&5}, {&6}, (struct nv_opaque*){&7}, {&8}))!')] + sp.FCALLS
    members = [(r'^solver\|nano::ml::params_t', 'nv_opaque_value()')] + sp.FMEMBERS
    opaque = [x.replace('|tensor1d_cmap_t', '').replace('tensor1d_t|', '') for x in sp.FOPAQUE] + [r'^(nano::)?ml::params_t$', r'^std::any$']
    kw = dict(types=types, calls=calls, members=members, opaque=opaque, hooks=[hooks.param_hook()], aggregates=['struct nv_fit_ret', 'struct nv_gcb_ret'])
    cb = Fn('gmodel_fit_callback', 'src/gboost/model.cpp', 'fit', flt='gboost_model_t::fit', select=NPARAMS(4), lambda_index=0, captures=True,
            ret='struct nv_gcb_ret', self_struct='struct nv_gmodel_f', **kw)
    f = sp.fit_fns()
    return [cb, f['fit'], f['selected'], f['rctor'], f['ector'], f['eround'], f['evalues'], sp.done_fn()] + [g() for g in sp.boost_fns()]


GTUNED = r'''
int main(void)
{
  struct nv_gmodel_f model; struct nv_indices train, valid; struct nv_pid params; struct nv_opaque any, logger, c0, c1, c2;
  int64_t trial, fold, trials, folds;
  nv_thrown = 0;
  __CPROVER_assume(model.m_prototypes.size <= 100000000 && nv_g_fits == 0 && nv_params_id0 <= 1000000000);
  __CPROVER_assume(10 <= nv_max_rounds && nv_max_rounds <= 1000000 && 1 <= nv_patience && nv_patience <= 1000);     /* registered domains (C19) */
  /* C13: a task of the tuning result */
  __CPROVER_assume(1 <= trials && trials <= 1000000 && 1 <= folds && folds <= 1000 && 0 <= trial && trial < trials && 0 <= fold && fold < folds);
  /* C13: the callback gets splits[fold] (C12: training / validation lists) and row `trial` of the parameter table */
  train.id = NV_ID_TRAIN; valid.id = NV_ID_VALID; __CPROVER_assume(train.n >= 0 && valid.n >= 0);
  params.id = nv_params_id0 + (uint64_t)trial;
  struct nv_gcb_ret ret = gmodel_fit_callback(&model, &train, &valid, params, &any, &logger, &c0, &c1, &c2);
  if (!nv_thrown)
  {
    /* C13: result.store(trial, fold, first, second, third) */
    nv_c_train = ret._0; nv_c_valid = ret._1; nv_c_model = ret._2;
    __CPROVER_assert(nv_g_fits == 1 && nv_g_fit_protos == &model.m_prototypes && nv_g_fit_params == nv_params_id0 + (uint64_t)trial,
                     "tune task: the fold model stored under (trial, fold) comes from ONE boosting run of this task, from the model's prototypes with the hyper-parameters of THAT trial");
    __CPROVER_assert(nv_c_model.m_wlearners.size <= nv_kept && nv_kept == nv_h_last && nv_c_model.m_statistics.rows == (int64_t)nv_kept + 1,
                     "tune task: the fold model stored under (trial, fold) keeps the learners of the last accepted round of that run");
    __CPROVER_assert(nv_c_train.id == nv_h_snap && nv_c_train.by == NV_ID_TRAIN,
                     "tune task: the training statistics stored under (trial, fold) are the values of the round the stored fold model keeps, on that fold's TRAINING samples");
    __CPROVER_assert(nv_c_valid.id == nv_h_snap && nv_c_valid.by == NV_ID_VALID,
                     "tune task: the validation statistics stored under (trial, fold) are the values of the round the stored fold model keeps, on that fold's VALIDATION samples");
  }
  __CPROVER_assert(0, "nv_canary: end of harness reachable");
  return 0;
}
'''


# ------------------------------------------------------------------------------------------------ learner_t::evaluate
# targets_iterator_t::loop(callback) (C09: once per chunk, the chunks tile [0, #samples), each carries the targets of exactly that chunk); errors_values,
# samples = the lambda's captures BY NAME; @CALL = the extracted lambda body (inlined)
LE_LOOP = r'''
  __CPROVER_assume(nv_e_looped < 1000); nv_e_looped = nv_e_looped + 1;
  int64_t n = errors_values->cols, b = 0;
  uint64_t by = nv_obj->by;
  nv_e_pred = 0; nv_e_cell[0] = 0; nv_e_cell[1] = 0; nv_e_ok[0] = 0; nv_e_ok[1] = 0; nv_e_kind[0] = 0; nv_e_kind[1] = 0;
  while (b < n)
  __CPROVER_assigns(b, nv_id_counter, nv_e_pred, nv_e_pred_w, nv_e_pred_b, nv_e_pred_by, nv_e_pred_out, nv_e_pred_pos, __CPROVER_object_whole(nv_e_cell), __CPROVER_object_whole(nv_e_kind), __CPROVER_object_whole(nv_e_ok), errors_values->w, errors_values->b, errors_values->by)
  __CPROVER_loop_invariant(0 <= b && b <= n && n == errors_values->cols && errors_values->rows == 2 && samples->n == n && samples->b == 0 && samples->id == by)
  __CPROVER_loop_invariant((0 <= nv_g && nv_g < b) ? (nv_e_pred == 1 && nv_e_pred_w == NV_THIS_MODEL && nv_e_pred_by == by && nv_e_pred_pos == nv_g && nv_e_cell[0] == 1 && nv_e_kind[0] == 1 && nv_e_ok[0] && nv_e_cell[1] == 1 && nv_e_kind[1] == 2 && nv_e_ok[1]) : (nv_e_pred == 0 && nv_e_cell[0] == 0 && nv_e_cell[1] == 0))
  __CPROVER_loop_invariant(b > 0 ==> (errors_values->w == NV_THIS_MODEL && errors_values->b == NV_THIS_MODEL && errors_values->by == by))
  __CPROVER_decreases(n - b)
  {
    int64_t e = nv_nondet_int64_t(); __CPROVER_assume(b < e && e <= n);
    struct nv_range r; r.b = b; r.e = e;
    struct nv_lt tg = nv_lt_zero();
    tg.by = nv_obj->by; tg.cb = b; tg.ce = e; tg.rows = e - b; tg.id = nv_nondet_uint64_t();
    uint64_t tnum = nv_nondet_uint64_t();
    @CALL(&r, tnum, tg);
    b = e;
  }
'''


def learner_evaluate_fns():
    import hooks
    import linear_spec as ls
    types = [(IXC, 'struct nv_ixr')] + ls.LTYPES
    calls = [(r'^ctor\|nano::targets_iterator_t\|', 'nv_fiter_make_r({1})'),
             (r'^ctor\|nano::tensor_t<nano::tensor_carray_storage_t, double, 4>\|void \(const tensor_t<nano::tensor_vector_storage_t, double, 4', '{0}')] + ls.LCALLS
    members = [(r'^slice\|nano::tensor_t<nano::tensor_carray_storage_t, long, 1', 'nv_ixr_slice({obj}, {0})'), (r'^predict\|.*#2', 'nv_learner_predict2({self}, {1})'),
               (r'^size\|.*(indices_cmap_t|tensor_carray_storage_t, long, 1|tensor_base_t<long, 1)', '({obj}.n)')] + ls.LMEMBERS
    kw = dict(types=types, calls=calls, members=members, opaque=ls.LOPAQUE, self_struct='struct nv_learner',
              hooks=[hooks.lambda_stub_hook('loop', 'nv_le_loop', ['learner_evaluate_chunk'], LE_LOOP, member=True)])
    return [Fn('learner_evaluate', 'src/learner.cpp', 'evaluate', flt='learner_t::evaluate', **kw),
            Fn('learner_evaluate_chunk', 'src/learner.cpp', 'evaluate', flt='learner_t::evaluate', lambda_index=0, captures=True, **kw)]


def percentile_fn():
    VM = r'^nano::tensor1d_map_t$|^nano::tensor_t<nano::tensor_marray_storage_t, double, 1'
    return Fn('stats_percentile', 'src/machine/stats.cpp', 'percentile', flt='percentile', select=NPARAMS(2), ret='double', uf_float=False,
              types=[(VM, 'struct nv_vmap')],
              calls=[(r'^begin\|', 'nv_vmap_begin({&0})'), (r'^end\|', 'nv_vmap_end({&0})'), (r'^percentile\|', 'nv_percentile({0}, {1}, {2})')])


def c13_stats_vcs():
    """ml::store_stats / load_stats (element k of a block <-> member k of stats_t <-> statistic k of the given values), result_t::store(trial, fold, ..) /
    stats(trial, fold, split, value) / extra(trial, fold) slot arithmetic: the VCs of specs/C13, by reference (same spec objects)"""
    import importlib.util
    import os
    path = os.path.join(os.path.dirname(os.path.abspath(__file__)), '..', 'C13', 'spec.py')
    import sys
    sys.path.insert(0, os.path.dirname(path))       # specs/C13 imports its own helper modules (comb)
    try:
        sp = importlib.util.spec_from_file_location('nv_c13_spec', path)
        mod = importlib.util.module_from_spec(sp)
        sp.loader.exec_module(mod)
    finally:
        sys.path.remove(os.path.dirname(path))
    keep = ('result_t::store', 'result_t::stats', 'result_t::extra', 'ml::store_stats', 'ml::load_stats')
    return [v for v in mod.result_vcs()[0] if v.group in keep]


def targets(tier):
    P = 'specs/C11/predict.h'
    LP = 'specs/C11/linear_predict.h'
    EN = [('src/linear.cpp', 'nano::scaling_type')]
    lin = [Target('linear_do_predict', linear_predict_fns, LP, enforce='linear_do_predict', enums=EN, loops=1),
           Target('linear_make_x0', lambda: [make_x0_fn()], LP, enforce='linear_make_x0', enums=EN)]
    lin.append(Target('lfunction_ctor', lambda: [function_ctor_fn()], LP, enforce='lfunction_ctor', enums=EN + [('src/linear/function.cpp', 'nano::convexity'), ('src/linear/function.cpp', 'nano::smoothness')]))
    lin += [Target(f'{stem}_make_function', (lambda stem=stem, cls=cls: [make_function_fn(stem, cls)]), LP, enforce=f'{stem}_make_function', enums=EN)
            for stem, cls in MF_CLASSES]
    lin.append(Target('linear_fit_tuned', tuned_fns, 'specs/C11/tuned.h', enforce='linear_fit_tuned', enums=EN,
                      replace=['linear_fit_callback', 'linear_fit_inner', 'linear_evaluate']))
    lin.append(Target('gmodel_fit_callback', gboost_callback_fns, 'specs/C11/gcallback.h', enforce='gmodel_fit_callback', replace=['gboost_fit']))
    lin.append(Target('gboost_tune_task', gboost_callback_fns, 'specs/C11/gtuned.h', enforce_none=True, harness=GTUNED, replace=['gmodel_fit_callback'], loops=0,
                      note='composition: one ml::tune task by the clauses C13 proves + the real callback through its proved contract'))
    lin.append(Target('learner_evaluate', learner_evaluate_fns, 'specs/C11/levaluate.h', enforce='learner_evaluate', enums=EN, loops=1))
    lin.append(Target('stats_percentile', lambda: [percentile_fn()], 'specs/C11/stats.h', enforce='stats_percentile'))
    out = lin + [Target('gmodel_do_predict', lambda: [gboost_predict_fn()], P, enforce='gmodel_do_predict'),
            Target('learner_predict3', lambda: [learner_fns()['p3']], P, enforce='learner_predict3'),
            Target('learner_predict2', lambda: [learner_fns()['p2'], learner_fns()['p3']], P, enforce='learner_predict2', replace=['learner_predict3'])]
    # quick tier: everything but the composition harness of the gboost side (it re-compiles the whole ::fit unit for four assertions that restate
    # the callback's contract; the callback target itself stays quick)
    heavy = {'gboost_tune_task'}
    return [t for t in out if tier == 'thorough' or t.name not in heavy]
