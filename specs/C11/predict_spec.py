"""C11: the prediction side -- gboost_model_t::do_predict (bias + sum of the learners' contributions at a ghost cell),
learner_t::predict (both overloads), linear_t::do_predict (the stored weights / bias are what predict uses), the four
make_function overrides (l1 / l2 of the trial) and ::make_x0 of src/linear.cpp (warm start)."""
from core import Fn, Target

NPARAMS = lambda k: (lambda d: len([c for c in d['inner'] if c['kind'] == 'ParmVarDecl']) == k)
WL = r'std::unique_ptr<nano::wlearner_t'
IXC = r'^nano::indices_cmap_t$|^nano::tensor_t<nano::tensor_carray_storage_t, long, 1'
O4M = r'^nano::tensor4d_map_t$|^nano::tensor_t<nano::tensor_marray_storage_t, double, 4'
O4 = r'^nano::tensor4d_t$|^nano::tensor_t<nano::tensor_vector_storage_t, double, 4'

# ------------------------------------------------------------------------------------------------ gboost_model_t::do_predict
GTYPES = [(r'::difference_type$', 'int64_t'),
          (r'__normal_iterator<\s*(const )?' + WL + r'|^std::vector<' + WL + r'.*>::(const_)?iterator$', 'struct nv_it'),
          (IXC, 'struct nv_indices'), (O4M, 'struct nv_omap'),
          (r'^nano::(tensor1d_t|vector_t)$|^nano::tensor_t<nano::tensor_vector_storage_t, double, 1', 'struct nv_bias'),
          (r'^nano::rwlearners_t$|^std::vector<' + WL, 'struct nv_wlist'), (r'^nano::rwlearner_t$|^' + WL + r'|^nano::wlearner_t$', 'struct nv_wl')]
GOPAQUE = [r'^nano::dataset_t$']
GCALLS = [(r'^operator=\|.*VectorwiseOp', 'nv_rowwise_assign({0}, {1})'), (r'^operator\+=\|.*VectorwiseOp', 'nv_rowwise_add({0}, {1})'),
          (r'^operator!=\|.*__normal_iterator', '({0}.pos != {1}.pos)'), (r'^operator\+\+\|.*__normal_iterator', '(++{0}.pos)'),
          (r'^operator\*\|.*__normal_iterator', '(*nv_it_deref({0}))'), (r'^operator->\|.*unique_ptr', '(&{0})')]
GMEMBERS = [(r'^reshape\|nano::tensor_t<nano::tensor_marray_storage_t, double, 4', 'nv_omap_reshape({obj}, {0}, {1})'),
            (r'^matrix\|nano::tensor_t<nano::tensor_marray_storage_t, double, 2', 'nv_omat_matrix({obj})'),
            (r'^rowwise\|', 'nv_omat_rowwise({obj})'), (r'^transpose\|', 'nv_biasv_transpose({obj})'),
            (r'^vector\|nano::tensor_t<nano::tensor_vector_storage_t, double, 1', 'nv_bias_vector'),
            (r'^size\|.*(indices_cmap_t|tensor_carray_storage_t, long, 1|tensor_base_t<long, 1)', '({obj}.n)'),
            (r'^tensor\|nano::tensor_t<nano::tensor_marray_storage_t, double, 4', 'nv_omap_tensor({obj})'),
            (r'^begin\|std::vector<' + WL, 'nv_wlist_begin'), (r'^end\|std::vector<' + WL, 'nv_wlist_end'),
            (r'^predict\|nano::(learner_t|wlearner_t)', 'nv_wl_predict({self}, {1}, {2})')]


def gboost_predict_fn():
    import hooks
    return Fn('gmodel_do_predict', 'src/gboost/model.cpp', 'do_predict', flt='gboost_model_t::do_predict', self_struct='struct nv_gmodel',
              types=GTYPES, calls=GCALLS, members=GMEMBERS, opaque=GOPAQUE, hooks=[hooks.param_hook()])


# ------------------------------------------------------------------------------------------------ learner_t::predict
PTYPES = [(IXC, 'struct nv_indices'), (O4M, 'struct nv_omap'), (O4, 'struct nv_out4'), (r'^nano::tensor4d_dims_t$|^nano::tensor_dims_t<4|^std::array<long, 4', 'struct nv_dims4')]
PCALLS = [(r'^cat_dims\|', 'nv_cat_dims({0})'), (r'^ctor\|nano::tensor_t<nano::tensor_vector_storage_t, double, 4>\|void \(.*(tdims|tensor_dims_t|std::array)', 'nv_out4_make({0})'),
          (r'^ctor\|nano::tensor_t<nano::tensor_marray_storage_t, double, 4>\|void \((const )?(nano::)?tensor_t<nano::tensor_vector_storage_t, double, 4', 'nv_omap_of({&0})')]
PMEMBERS = [(r'^critical_compatible\|', 'nv_critical_compatible({self})!'), (r'^do_predict\|', 'nv_do_predict({self}, {1}, {2})'),
            (r'^predict\|.*#3', 'learner_predict3({self}, {&0}, {1}, {2})!'), (r'^zero\|', 'nv_out4_zero'),
            (r'^size\|.*(indices_cmap_t|tensor_carray_storage_t, long, 1|tensor_base_t<long, 1)', '({obj}.n)')]


def learner_fns():
    import hooks
    kw = dict(self_struct='struct nv_learner', types=PTYPES, calls=PCALLS, members=PMEMBERS, opaque=GOPAQUE, hooks=[hooks.param_hook()])
    return dict(p3=Fn('learner_predict3', 'src/learner.cpp', 'predict', flt='learner_t::predict', select=NPARAMS(3), **kw),
                p2=Fn('learner_predict2', 'src/learner.cpp', 'predict', flt='learner_t::predict', select=NPARAMS(2), **kw))


def targets(tier):
    P = 'specs/C11/predict.h'
    return [Target('gmodel_do_predict', lambda: [gboost_predict_fn()], P, enforce='gmodel_do_predict'),
            Target('learner_predict3', lambda: [learner_fns()['p3']], P, enforce='learner_predict3'),
            Target('learner_predict2', lambda: [learner_fns()['p2'], learner_fns()['p3']], P, enforce='learner_predict2', replace=['learner_predict3'])]
