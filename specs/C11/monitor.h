/* C11: constructor and accessors of gboost::early_stopping_t (shared by the ::fit target and the history lemma) */
#ifndef NV_C11_MONITOR_H
#define NV_C11_MONITOR_H
#include "types.h"
/* early_stopping_t::early_stopping_t(values): no improvement accepted yet -- round 0, the value +max (every finite
 * validation error improves on it), the snapshot is the given one */
#define NV_DBL_MAX 1.7976931348623157e308
#define NV_CONTRACT_early_stopping_ctor \
__CPROVER_requires(__CPROVER_is_fresh(self, sizeof(*self))) \
__CPROVER_assigns(*self) \
__CPROVER_ensures(self->m_round == 0 && self->m_value == NV_DBL_MAX && self->m_values.id == values.id && self->m_values.rows == values.rows && self->m_values.cols == values.cols)
#define NV_CONTRACT_early_stopping_round \
__CPROVER_requires(__CPROVER_is_fresh(self, sizeof(*self))) __CPROVER_assigns() __CPROVER_ensures(__CPROVER_return_value == self->m_round)
#define NV_CONTRACT_early_stopping_value \
__CPROVER_requires(__CPROVER_is_fresh(self, sizeof(*self))) __CPROVER_assigns() __CPROVER_ensures(NV_IDENT(__CPROVER_return_value, self->m_value))
#define NV_CONTRACT_early_stopping_values \
__CPROVER_requires(__CPROVER_is_fresh(self, sizeof(*self))) __CPROVER_assigns() __CPROVER_ensures(__CPROVER_return_value == &self->m_values)
#endif
