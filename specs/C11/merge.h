/* C11: "the final boosting model predicts the average of the per-fold models" rests on wlearner::merge preserving the sum of
 * the merged learners' predictions (its list protocol is proved in specs/C10; the try_merge step is proved here):
 *   single_feature_wlearner_t::do_try_merge(feature, tables): adds the other tables coefficient-wise exactly when both learners
 *       use the same feature and tables of the same dimensions, otherwise changes nothing;
 *   table_wlearner_t::try_merge / affine_wlearner_t::try_merge(other): the coefficient-wise sum is attempted only with a
 *       learner of the SAME kind and -- for look-up tables -- the same label hashes AND the same hash -> table mapping
 *       (only then is the sum of the tables the table of the sum of the two functions), with that learner's feature and tables.
 * Tensors are ghost identities of their contents (equal contents <=> same identity), dims() of the dimensions. */
#include "nv_base.h"
struct nv_t4 { uint64_t dims; uint64_t id; int64_t adds; uint64_t added; };    /* tensor4d_t m_tables: dims identity, contents identity, += history */
struct nv_t4v { struct nv_t4* t; };                                             /* m_tables.vector() */
struct nv_tid { uint64_t id; int64_t n; };                                      /* hashes_t / indices_t: contents identity, size */
enum { NV_KIND_OTHER = 0, NV_KIND_AFFINE = 1, NV_KIND_TABLE = 2, NV_KIND_ANY = -1 };
/* a weak learner object: dynamic type + the members of single_feature_wlearner_t / table_wlearner_t */
struct nv_wl { int32_t kind; int64_t m_feature; struct nv_t4 m_tables; struct nv_tid m_hashes; struct nv_tid m_hash2tables; };
struct nv_rwl { struct nv_wl* p; };                                             /* rwlearner_t = std::unique_ptr<wlearner_t> */

static struct nv_wl* nv_rwl_get(const struct nv_rwl* u) { return u->p; }
/* dynamic_cast<const K*>(p): p if the dynamic type is K (or derived: table kinds share NV_KIND_TABLE), else null */
static const struct nv_wl* nv_dyn_cast(const struct nv_wl* p, int32_t kind) { return (p != NULL && (p->kind == kind || kind == NV_KIND_ANY)) ? p : NULL; }
static uint64_t nv_t4_dims(const struct nv_t4* t) { return t->dims; }
static struct nv_t4v nv_t4_vector(const struct nv_t4* t) { struct nv_t4v v; v.t = (struct nv_t4*)t; return v; }
static void nv_t4v_add(struct nv_t4v dst, struct nv_t4v src)
{ __CPROVER_assume(dst.t->adds < 1000000); dst.t->adds = dst.t->adds + 1; dst.t->added = src.t->id; }
static _Bool nv_tid_eq(const struct nv_tid* a, const struct nv_tid* b) { return a->id == b->id && a->n == b->n; }
static int64_t nv_tid_size(const struct nv_tid* a) { return a->n; }

/* ghost: the coefficient-wise merge that was attempted */
_Bool nv_attempted; int64_t nv_att_feature; uint64_t nv_att_tables;
_Bool sfw_do_try_merge(struct nv_wl* self, int64_t feature, const struct nv_t4* tables);
static _Bool nv_do_try_merge(struct nv_wl* self, int64_t feature, const struct nv_t4* tables)
{ nv_attempted = 1; nv_att_feature = feature; nv_att_tables = tables->id; return sfw_do_try_merge(self, feature, tables); }

#define NV_WL_OK(w) (__CPROVER_is_fresh(w, sizeof(*(w))) && (w)->m_tables.adds >= 0 && (w)->m_tables.adds < 1000000)
#define NV_TABLES_UNCHANGED (self->m_tables.adds == __CPROVER_old(self->m_tables.adds) && self->m_tables.added == __CPROVER_old(self->m_tables.added) \
                             && self->m_tables.id == __CPROVER_old(self->m_tables.id) && self->m_tables.dims == __CPROVER_old(self->m_tables.dims))
#define NV_CONTRACT_sfw_do_try_merge \
__CPROVER_requires(NV_WL_OK(self) && __CPROVER_is_fresh(tables, sizeof(*tables))) \
__CPROVER_assigns(self->m_tables.adds, self->m_tables.added) \
__CPROVER_ensures(__CPROVER_return_value == (self->m_feature == feature && self->m_tables.dims == tables->dims)) \
__CPROVER_ensures(__CPROVER_return_value ==> (self->m_tables.adds == __CPROVER_old(self->m_tables.adds) + 1 && self->m_tables.added == tables->id)) \
__CPROVER_ensures(!__CPROVER_return_value ==> NV_TABLES_UNCHANGED)

#define NV_OTHER_OK (__CPROVER_is_fresh(other, sizeof(*other)) && (other->p == NULL || NV_WL_OK(other->p)))
#define NV_TRY_MERGE_COMMON(kind_) \
__CPROVER_requires(NV_WL_OK(self) && NV_OTHER_OK && !nv_attempted) \
__CPROVER_assigns(self->m_tables.adds, self->m_tables.added, nv_attempted, nv_att_feature, nv_att_tables) \
/* merged only through the coefficient-wise sum, which is attempted only with a learner of the same kind, on its feature and tables */ \
__CPROVER_ensures(__CPROVER_return_value ==> nv_attempted) \
__CPROVER_ensures(nv_attempted ==> (other->p != NULL && other->p->kind == kind_ && nv_att_feature == other->p->m_feature && nv_att_tables == other->p->m_tables.id)) \
__CPROVER_ensures(__CPROVER_return_value ==> (self->m_feature == other->p->m_feature && self->m_tables.dims == other->p->m_tables.dims \
                                               && self->m_tables.adds == __CPROVER_old(self->m_tables.adds) + 1 && self->m_tables.added == other->p->m_tables.id)) \
__CPROVER_ensures(!__CPROVER_return_value ==> NV_TABLES_UNCHANGED)
#define NV_CONTRACT_affine_try_merge NV_TRY_MERGE_COMMON(NV_KIND_AFFINE)
#define NV_CONTRACT_table_try_merge NV_TRY_MERGE_COMMON(NV_KIND_TABLE) \
/* look-up tables: only with the same label hashes and the same hash -> table mapping */ \
__CPROVER_ensures(nv_attempted ==> (self->m_hashes.id == other->p->m_hashes.id && self->m_hash2tables.id == other->p->m_hash2tables.id))
#define NV_ACCESSOR(field) __CPROVER_requires(__CPROVER_is_fresh(self, sizeof(*self))) __CPROVER_assigns() __CPROVER_ensures(__CPROVER_return_value == &self->field)
#define NV_CONTRACT_table_hashes NV_ACCESSOR(m_hashes)
#define NV_CONTRACT_table_hash2tables NV_ACCESSOR(m_hash2tables)
#define NV_CONTRACT_sfw_tables NV_ACCESSOR(m_tables)
#define NV_CONTRACT_sfw_feature __CPROVER_requires(__CPROVER_is_fresh(self, sizeof(*self))) __CPROVER_assigns() __CPROVER_ensures(__CPROVER_return_value == self->m_feature)
