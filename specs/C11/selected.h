/* C11: ::selected(values, samples) of src/gboost/model.cpp -- the (error | loss) rows of `values` restricted to the index
 * list `samples`.  tensor(row) views and tensor_t::indexed(indices, destination) are stubs (C16 owns their arithmetic):
 * each destination row records which source row of which tensor it was gathered from, and by which index list. */
#ifndef NV_C11_SELECTED_H
#define NV_C11_SELECTED_H
#include "types.h"
struct nv_row { struct nv_tensor2d* t; int64_t r; };     /* values.tensor(r): row r of a (2, n) tensor */
int64_t nv_sel_row[2]; uint64_t nv_sel_id[2], nv_sel_by[2];   /* ghost: per destination row -- source row, source identity, index list */
int32_t nv_sel_rows;                                      /* ghost: bit r set = destination row r was written */
static struct nv_row nv_t2_row(const struct nv_tensor2d* t, int64_t r)
{ __CPROVER_assert(0 <= r && r < t->rows, "tensor(row): row inside the tensor (C16 index0 precondition)"); struct nv_row v; v.t = (struct nv_tensor2d*)t; v.r = r; return v; }
/* ASSUMED contract of tensor_t::indexed(indices, out): out(i) = self(indices(i)) for every i; precondition out.size() == indices.size() */
static void nv_row_indexed(struct nv_row src, const struct nv_indices* samples, struct nv_row dst)
{
  __CPROVER_assert(dst.t->cols == samples->n, "indexed(samples, out): out has one element per listed sample");
  nv_sel_row[dst.r] = src.r; nv_sel_id[dst.r] = src.t->id; nv_sel_by[dst.r] = samples->id; nv_sel_rows = nv_sel_rows | (int32_t)(1 << dst.r);
  dst.t->id = src.t->id; dst.t->by = samples->id;
}
/* row k of the result is row k of `values` gathered by `samples`, for both k; shape (2, #samples) */
#define NV_CONTRACT_model_selected \
__CPROVER_requires(__CPROVER_is_fresh(values, sizeof(*values)) && __CPROVER_is_fresh(samples, sizeof(*samples)) && values->rows == 2 && samples->n >= 0) \
__CPROVER_assigns(__CPROVER_object_whole(nv_sel_row), __CPROVER_object_whole(nv_sel_id), __CPROVER_object_whole(nv_sel_by), nv_sel_rows, nv_id_counter) \
__CPROVER_ensures(__CPROVER_return_value.rows == 2 && __CPROVER_return_value.cols == samples->n) \
__CPROVER_ensures(nv_sel_row[0] == 0 && nv_sel_id[0] == values->id && nv_sel_by[0] == samples->id) \
__CPROVER_ensures(nv_sel_row[1] == 1 && nv_sel_id[1] == values->id && nv_sel_by[1] == samples->id) \
__CPROVER_ensures(__CPROVER_return_value.id == values->id && __CPROVER_return_value.by == samples->id)
#endif
