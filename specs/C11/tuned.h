/* C11, composition (machine-checked instead of by reading): linear_t::fit with ml::tune modelled by the clauses specs/C13 PROVES
 * for it and the REAL tuning callback (lambda #0 of linear_t::fit) called from that model through the contract that the target
 * linear_fit_callback proves (replace=[linear_fit_callback]):
 *   C13 (ml::tune body + its task lambdas + result_t::store / stats / extra): for EVERY task (trial, fold) of the returned result
 *   the model callback was called exactly once, with splits[fold] of the samples given to tune and row `trial` of the parameter
 *   table, and its three results were stored under (trial, fold): first -> statistics (trial, fold, train, .), second -> (trial,
 *   fold, valid, .), third -> extra(trial, fold).
 * Property: "the per-trial/per-fold ... statistics in the returned result equal those recomputed from scratch by predicting with the
 * corresponding stored model on the corresponding samples".  Stated at a ghost task (nv_t_trial, nv_t_fold): what is stored under it
 * are the values of THE model stored under it (fitted in that task, on that fold's training samples, with that trial's
 * hyper-parameters) on that fold's training resp. validation samples. */
#include "linear.h"
int64_t nv_t_trial, nv_t_fold;                  /* ghost task */
uint64_t nv_t_calls;                            /* callback calls for the ghost task */
struct nv_lt nv_t_train, nv_t_valid;            /* what store(trial, fold, ..) was given as train / valid values (C13: cells (trial, fold, train | valid, .)) */
struct nv_lt nv_t_w, nv_t_b;                    /* weights / bias of the linear::result_t stored in extra(trial, fold) */
uint64_t nv_t_state; int64_t nv_t_ntrain, nv_t_nvalid, nv_t_trials, nv_t_folds;
struct nv_opaque nv_t_logger;
uint64_t nv_t_min_after, nv_t_up_after;        /* minimisations / up-scalings when tune returned */

#define NV_ARG_linear_model_fit_2 NV_ARG_linear_fit_tuned_2
#define NV_T_FITTED(t, prt) ((t).part == (prt) && (t).state == nv_t_state && (t).on == NV_ID_TRAIN && (t).params == nv_params_id0 + (uint64_t)nv_t_trial && (t).up == 1 && (t).scaling == nv_cfg_scaling)
#define NV_T_VALUES(v, s, n) ((v).rows == 2 && (v).cols == (n) && ((n) > 0 ==> ((v).by == (s) && (v).w == nv_t_w.id && (v).b == nv_t_b.id)))
#define NV_CONTRACT_linear_fit_tuned NV_LMF_FRAME NV_LMF_REST \
/* exactly one refit AFTER tuning (the minimisations of the tuning tasks come first) */ \
__CPROVER_ensures(nv_thrown || (nv_minimized == nv_t_min_after + 1 && nv_upscaled == nv_t_up_after + 1)) \
__CPROVER_assigns(nv_t_min_after, nv_t_up_after, nv_t_calls, nv_t_train, nv_t_valid, nv_t_w, nv_t_b, nv_t_state, nv_t_ntrain, nv_t_nvalid, nv_t_trials, nv_t_folds) \
__CPROVER_requires(nv_t_calls == 0) \
/* the ghost task is a task of the returned result, evaluated exactly once */ \
__CPROVER_ensures(nv_thrown || (0 <= nv_t_trial && nv_t_trial < nv_t_trials && 0 <= nv_t_fold && nv_t_fold < nv_t_folds && __CPROVER_return_value.trials == nv_t_trials && nv_t_calls == 1)) \
/* the model stored under (trial, fold): fitted in that task on that fold's TRAINING samples with the hyper-parameters of THAT trial */ \
__CPROVER_ensures(nv_thrown || (NV_T_FITTED(nv_t_w, NV_PART_WEIGHTS) && NV_T_FITTED(nv_t_b, NV_PART_BIAS) && nv_t_w.id != 0 && nv_t_b.id != 0)) \
/* the statistics stored under (trial, fold, train | valid): of THAT model on that fold's training resp. validation samples */ \
__CPROVER_ensures(nv_thrown || (NV_T_VALUES(nv_t_train, NV_ID_TRAIN, nv_t_ntrain) && NV_T_VALUES(nv_t_valid, NV_ID_VALID, nv_t_nvalid)))
