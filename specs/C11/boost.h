/* C11: boosting round loop (src/gboost/model.cpp ::fit) and gboost::result_t (src/gboost/result.cpp).
 * "the monitor ... reports the round of the last accepted improvement ..., which is the number of weak learners the
 * returned fold model keeps": result.done(optimum.round()) must be called with 0 <= round <= #learners and
 * round + 1 <= #statistics rows, and then keeps exactly `round` learners (before merging). */
#include "types.h"
struct nv_result { struct nv_tensor2d* m_errors_values; struct nv_indices* m_train_samples; struct nv_indices* m_valid_samples;
                   struct nv_opaque m_bias; struct nv_vec m_wlearners; struct nv_tensor2d m_statistics; };
struct nv_slice2 { int64_t begin, end; };
double nv_stat_sink;
/* m_statistics(round, k): the real index arithmetic is C16's; here the access must be inside the buffer */
static double* nv_t2_at(struct nv_tensor2d* t, int64_t i, int64_t j)
{ __CPROVER_assert(0 <= i && i < t->rows && 0 <= j && j < t->cols, "result_t: statistics access inside (rounds+1, 8)"); return &nv_stat_sink; }
static double nv_mean_any(const struct nv_tensor2d* e, const struct nv_indices* s) { return nv_nondet_double(); }
static int64_t nv_state_calls(const struct nv_state* s) { return s->m_fcalls; }
static int32_t nv_state_status(const struct nv_state* s) { return s->m_status; }
/* std::vector<rwlearner_t>: iterators are modelled by their index */
static int64_t nv_vec_begin(const struct nv_vec* v) { return 0; }
static int64_t nv_vec_end(const struct nv_vec* v) { return (int64_t)v->size; }
static void nv_vec_erase(struct nv_vec* v, int64_t first, int64_t last)
{ __CPROVER_assert(0 <= first && first <= last && last <= (int64_t)v->size, "std::vector::erase: valid iterator range"); v->size = v->size - (uint64_t)(last - first); }
static void nv_vec_emplace_back(struct nv_vec* v) { __CPROVER_assume(v->size < 1000000000); v->size = v->size + 1; }
static struct nv_slice2 nv_t2_slice(const struct nv_tensor2d* t, int64_t b, int64_t e)
{ __CPROVER_assert(0 <= b && b <= e && e <= t->rows, "result_t: statistics slice inside the buffer"); struct nv_slice2 s; s.begin = b; s.end = e; return s; }
static void nv_t2_assign_slice(struct nv_tensor2d* t, struct nv_slice2 s) { t->rows = s.end - s.begin; }
/* wlearner::merge (C10): never increases the number of learners; an empty list stays empty */
static void nv_wlearner_merge(struct nv_vec* v) { uint64_t n = nv_nondet_uint64_t(); __CPROVER_assume(n <= v->size && (v->size > 0 ? n >= 1 : n == 0)); v->size = n; }

#define NV_RESULT_OK(r) (__CPROVER_is_fresh(r, sizeof(*(r))) && (r)->m_statistics.cols == 8 && (r)->m_statistics.rows >= 1 && (r)->m_statistics.rows <= 100000000 && (r)->m_wlearners.size <= 100000000)
#define NV_CONTRACT_result_update3 \
__CPROVER_requires(NV_RESULT_OK(self) && __CPROVER_is_fresh(state, sizeof(*state)) && 0 <= round && round < self->m_statistics.rows) \
__CPROVER_assigns(nv_stat_sink) \
__CPROVER_ensures(1)
#define NV_CONTRACT_result_update4 \
__CPROVER_requires(NV_RESULT_OK(self) && __CPROVER_is_fresh(state, sizeof(*state)) && 0 <= round && round < self->m_statistics.rows) \
__CPROVER_assigns(nv_stat_sink, self->m_wlearners.size) \
__CPROVER_ensures(self->m_wlearners.size == __CPROVER_old(self->m_wlearners.size) + 1)
/* done(optimum_round): keeps the first optimum_round learners and optimum_round + 1 statistics rows, then merges */
#define NV_CONTRACT_result_done \
__CPROVER_requires(NV_RESULT_OK(self) && 0 <= optimum_round && (uint64_t)optimum_round <= self->m_wlearners.size && optimum_round + 1 <= self->m_statistics.rows) \
__CPROVER_assigns(self->m_wlearners.size, self->m_statistics.rows, nv_kept) \
__CPROVER_ensures(nv_kept == (uint64_t)optimum_round && self->m_statistics.rows == optimum_round + 1 && self->m_wlearners.size <= nv_kept)
uint64_t nv_kept;   /* ghost: number of learners kept by done() before merging */
static void nv_note_kept(const struct nv_vec* v) { nv_kept = v->size; }
