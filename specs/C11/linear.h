/* C11, linear models: linear_t::fit (src/linear.cpp), its tuning callback, the anonymous-namespace ::fit and linear::evaluate
 * (src/linear/util.cpp) under PROTOCOL contracts.  Property: "After fitting a linear ... model ..., the per-trial/per-fold and
 * final error and loss statistics in the returned result equal those recomputed from scratch by predicting with the
 * corresponding stored model on the corresponding samples".
 * All numerics are erased (dataset, loss, solver, the objective, predict, the statistics used for scaling); every real tensor
 * is one C struct that carries ghost PROVENANCE TAGS:
 *   values (error | loss per sample):  by = index list they were evaluated on, w / b = identities of the weights / bias used;
 *   model coefficients:                state = the minimisation whose solution they were extracted from, part = bias | weights,
 *                                      on = index list the objective was built over, params = hyper-parameters of the objective,
 *                                      extra = the warm start handed to the solver (0: none), it / scaling = the iterator of the
 *                                      objective and its scaling, up = number of times up-scaled (to undo that scaling).
 * Assumed contracts (stubs below): flatten_iterator_t{dataset, samples} iterates over `samples`; linear_t::make_function(it,
 * loss, params) is the objective over the iterator's samples with these hyper-parameters; solver_t::minimize returns a state
 * of that objective started from the given x0; function_t::bias / weights extract the two parts of a solution; ::upscale
 * rewrites (weights, bias) in place; ml::tune (C13) and ml::result_t::params / store. */
#include "types.h"
struct nv_lt { int64_t rows, cols; uint64_t id; uint64_t by, w, b; uint64_t state, on, params, extra, it; int32_t scaling, up, part; int64_t cb, ce; };   /* cb, ce: chunk [cb, ce) of the iterator's samples (inputs / targets handed to a loop callback) */
struct nv_lview { struct nv_lt* t; int64_t b, e; int32_t row; };   /* tensor{1,2,4}d_map_t: mutable view of a tensor: rows [b, e) (-1: all) of row `row` (-1: none selected) */
struct nv_range { int64_t b, e; };                            /* tensor_range_t */
struct nv_dims4 { int64_t d0; };                              /* tensor4d_dims_t: the leading dimension */
struct nv_lany { uint64_t id; uint64_t w, b; };               /* std::any: 0 = empty; else holds a linear::result_t with these weights / bias */
struct nv_mlresult { int64_t trials, folds, optimum; };       /* ml::result_t */
struct nv_lresult { struct nv_lt m_bias; struct nv_lt m_weights; struct nv_lt m_statistics; };   /* linear::result_t */
struct nv_cb_ret { struct nv_lt _0; struct nv_lt _1; struct nv_lresult _2; };   /* (train values, valid values, result) */
struct nv_linear { struct nv_lt m_bias; struct nv_lt m_weights; };             /* linear_t */
struct nv_fiter { uint64_t by; int32_t scaling; uint64_t id; };                /* flatten_iterator_t: samples, scaling, identity */
struct nv_lfunction { uint64_t on, params, it; int32_t scaling; };             /* linear::function_t */
struct nv_lstate { uint64_t id, on, params, extra, it; int32_t scaling; int64_t m_fcalls, m_gcalls; int32_t m_status; };     /* solver_state_t */
struct nv_lstats { uint64_t it; int32_t kind; };                               /* scalar_stats_t: of which iterator, 1 flatten | 2 targets */
struct nv_lx { uint64_t state, on, params, extra, it; int32_t scaling; };      /* vector_t: x0 (state 0) or the solution of a state */
#define NV_PART_BIAS 1
#define NV_PART_WEIGHTS 2
#define NV_ID_TRAIN 1
#define NV_ID_VALID 2
#define NV_ID_FIT 4

static struct nv_lt nv_lt_zero(void)
{ struct nv_lt t; t.rows = 0; t.cols = 0; t.id = 0; t.by = 0; t.w = 0; t.b = 0; t.state = 0; t.on = 0; t.params = 0; t.extra = 0; t.it = 0; t.scaling = 0; t.up = 0; t.part = 0; t.cb = -1; t.ce = -1; return t; }

/* ---- hyper-parameters of the learner (configurable_t; C19) */
int32_t nv_cfg_scaling;
static int64_t nv_param_batch(void) { return nv_nondet_int64_t(); }
static int32_t nv_param_scaling(void) { return nv_cfg_scaling; }

/* ---- ghosts of ::fit */
uint64_t nv_minimized;        /* calls of solver.minimize */
uint64_t nv_lf_state;         /* the state of the latest minimisation */
uint64_t nv_upscaled;         /* calls of ::upscale */

/* ---- the iterator */
static struct nv_fiter nv_fiter_make(struct nv_indices samples)
{ struct nv_fiter it; it.by = samples.id; it.scaling = nv_nondet_int32_t(); it.id = nv_fresh_id(); return it; }
static void nv_fiter_set_scaling(struct nv_fiter* it, int32_t s) { it->scaling = s; }
static int32_t nv_fiter_scaling(const struct nv_fiter* it) { return it->scaling; }
static const struct nv_lstats* nv_fiter_flatten_stats(const struct nv_fiter* it)
{ static struct nv_lstats s; s.it = it->id; s.kind = 1; return &s; }
static const struct nv_lstats* nv_fiter_targets_stats(const struct nv_fiter* it)
{ static struct nv_lstats s; s.it = it->id; s.kind = 2; return &s; }

/* ---- objective, warm start, solver */
static struct nv_lfunction nv_make_function(const struct nv_linear* model, const struct nv_fiter* it, struct nv_lt params)
{ struct nv_lfunction f; f.on = it->by; f.params = params.id; f.it = it->id; f.scaling = it->scaling; return f; }
static const struct nv_lany* nv_any_empty(void) { static struct nv_lany a; a.id = 0; a.w = 0; a.b = 0; return &a; }
static struct nv_lx nv_make_x0(const struct nv_lfunction* f, const struct nv_lany* extra)
{ struct nv_lx x; x.state = 0; x.on = f->on; x.params = f->params; x.it = f->it; x.scaling = f->scaling; x.extra = extra->id; return x; }
static struct nv_lstate nv_minimize(const struct nv_lfunction* f, struct nv_lx x0)
{
  __CPROVER_assert(x0.state == 0 && x0.on == f->on && x0.params == f->params && x0.it == f->it, "fit: the solver starts from the x0 made for this objective");
  __CPROVER_assume(nv_minimized < 1000);
  struct nv_lstate s; s.id = nv_fresh_id(); s.on = f->on; s.params = f->params; s.it = f->it; s.scaling = f->scaling; s.extra = x0.extra;
  nv_minimized = nv_minimized + 1; nv_lf_state = s.id; return s;
}
static const struct nv_lx* nv_lstate_x(const struct nv_lstate* s)
{ static struct nv_lx x; x.state = s->id; x.on = s->on; x.params = s->params; x.it = s->it; x.scaling = s->scaling; x.extra = s->extra; return &x; }
static struct nv_lt nv_part_of(const struct nv_lfunction* f, const struct nv_lx* x, int32_t part)
{
  __CPROVER_assert(x->state != 0 && x->on == f->on && x->params == f->params && x->it == f->it, "fit: the coefficients are extracted from a solution of this objective");
  struct nv_lt t = nv_lt_zero(); t.rows = nv_nondet_int64_t(); t.cols = nv_nondet_int64_t(); t.id = nv_fresh_id();
  t.state = x->state; t.on = x->on; t.params = x->params; t.extra = x->extra; t.it = x->it; t.scaling = x->scaling; t.up = 0; t.part = part; return t;
}
static struct nv_lt nv_function_bias(const struct nv_lfunction* f, const struct nv_lx* x) { return nv_part_of(f, x, NV_PART_BIAS); }
static struct nv_lt nv_function_weights(const struct nv_lfunction* f, const struct nv_lx* x) { return nv_part_of(f, x, NV_PART_WEIGHTS); }
static struct nv_lview nv_lview_of(struct nv_lt* t) { struct nv_lview v; v.t = t; v.b = -1; v.e = -1; v.row = -1; return v; }
/* ::upscale(flatten_stats, flatten_scaling, targets_stats, targets_scaling, weights, bias): undoes, in place, the scaling of the
 * inputs / targets the objective was fitted with -- so the statistics and the scaling must be those of the objective's iterator */
static void nv_upscale(const struct nv_lstats* fs, int32_t fscaling, const struct nv_lstats* ts, int32_t tscaling, struct nv_lview weights, struct nv_lview bias)
{
  __CPROVER_assert(weights.t->part == NV_PART_WEIGHTS && bias.t->part == NV_PART_BIAS, "upscale(.., weights, bias): the weights and the bias, in this order");
  __CPROVER_assert(weights.t->state == bias.t->state && weights.t->state != 0, "upscale: weights and bias of the same solution");
  __CPROVER_assert(fs->kind == 1 && ts->kind == 2 && fs->it == weights.t->it && ts->it == weights.t->it, "upscale: the flatten / targets statistics of the iterator the objective was fitted over, in this order");
  __CPROVER_assert(fscaling == weights.t->scaling && tscaling == weights.t->scaling, "upscale: the scaling the objective was fitted with");
  __CPROVER_assume(weights.t->up < 1000 && bias.t->up < 1000 && nv_upscaled < 1000);
  weights.t->up = weights.t->up + 1; bias.t->up = bias.t->up + 1; weights.t->id = nv_fresh_id(); bias.t->id = nv_fresh_id(); nv_upscaled = nv_upscaled + 1;
}
/* linear::result_t{bias, weights, state}: the REAL constructor (src/linear/result.cpp), extracted */
void linear_result_ctor(struct nv_lresult* self, struct nv_lt bias, struct nv_lt weights, const struct nv_lstate* nv_unnamed2);
static struct nv_lresult nv_lresult_make(struct nv_lt bias, struct nv_lt weights, const struct nv_lstate* state)
{ struct nv_lresult r; linear_result_ctor(&r, bias, weights, state); return r; }
double nv_lstat_sink;
static struct nv_lt nv_lt_make1(int64_t n) { struct nv_lt t = nv_lt_zero(); t.rows = n; t.cols = 1; t.id = nv_fresh_id(); return t; }
static double* nv_lt_at(struct nv_lt* t, int64_t i)
{ __CPROVER_assert(0 <= i && i < t->rows, "linear::result_t: statistics access inside the 3 allocated slots (C16)"); return &nv_lstat_sink; }
static int64_t nv_lstate_calls(const struct nv_lstate* s) { return nv_nondet_int64_t(); }
static int32_t nv_lstate_status(const struct nv_lstate* s) { return s->m_status; }
#define NV_SAME_TAGS(a, b) ((a).id == (b).id && (a).part == (b).part && (a).state == (b).state && (a).on == (b).on && (a).params == (b).params && (a).extra == (b).extra && (a).it == (b).it && (a).scaling == (b).scaling && (a).up == (b).up && (a).rows == (b).rows && (a).cols == (b).cols)
/* the result holds the given bias as its bias and the given weights as its weights; one statistics slot per enumerator of result_t::stats */
#define NV_CONTRACT_linear_result_ctor \
__CPROVER_requires(NV_LT_FRESH(self) && NV_LT_FRESH(NV_ARG_linear_result_ctor_3)) \
__CPROVER_assigns(*self, nv_id_counter, nv_lstat_sink) \
__CPROVER_ensures(NV_SAME_TAGS(self->m_bias, NV_ARG_linear_result_ctor_1) && NV_SAME_TAGS(self->m_weights, NV_ARG_linear_result_ctor_2) && self->m_statistics.rows == 3)

/* ---- ml::tune / ml::result_t (C13) */
int64_t nv_opt_trial; uint64_t nv_params_id0;
static struct nv_mlresult nv_tune(const struct nv_indices* samples)
{
  __CPROVER_assert(samples->id == NV_ID_FIT, "fit: tuning splits the samples given to fit()");
  struct nv_mlresult r; r.trials = nv_nondet_int64_t(); r.folds = nv_nondet_int64_t(); r.optimum = nv_opt_trial;
  __CPROVER_assume(1 <= r.trials && r.trials <= 1000000 && 1 <= r.folds && r.folds <= 1000 && 0 <= r.optimum && r.optimum < r.trials); return r;
}
static int64_t nv_mlresult_optimum(const struct nv_mlresult* r) { return r->optimum; }
static int64_t nv_mlresult_trials(const struct nv_mlresult* r) { return r->trials; }
/* params(trial): row `trial` of the hyper-parameter table: identity nv_params_id0 + trial (precondition: its assert) */
static struct nv_lt nv_mlresult_params(const struct nv_mlresult* r, int64_t trial)
{
  __CPROVER_assert(0 <= trial && trial < r->trials, "params(trial): 0 <= trial < trials()");
  struct nv_lt p = nv_lt_zero(); p.rows = nv_nondet_int64_t(); p.cols = 1; p.id = nv_params_id0 + (uint64_t)trial; return p;
}
#define NV_ID_ALL 3
static struct nv_indices nv_arange(int64_t lo, int64_t hi) { struct nv_indices s; s.n = (hi >= lo && lo >= 0) ? hi - lo : 0; s.id = NV_ID_ALL; return s; }
static void nv_learner_fit_dataset(struct nv_linear* self) { }      /* ASSUMED: touches the learner_t base only */
static struct nv_lany nv_any_of_result(const struct nv_lresult* r) { struct nv_lany a; a.id = nv_fresh_id(); a.w = r->m_weights.id; a.b = r->m_bias.id; return a; }
uint64_t nv_stored; struct nv_lt nv_stored_values; struct nv_lany nv_stored_extra;
static void nv_store_final(struct nv_mlresult* r, struct nv_lt values, struct nv_lany extra)
{ __CPROVER_assume(nv_stored < 1000); nv_stored = nv_stored + 1; nv_stored_values = values; nv_stored_extra = extra; }

/* ---- contracts */
#define NV_LT_FRESH(p) __CPROVER_is_fresh(p, sizeof(*(p)))
/* the coefficients `t` are part `prt` of the up-scaled solution of the minimisation of the objective over the index list `s`
 * with hyper-parameters `p`, fitted with the configured scaling (whatever the warm start: not part of the property) */
#define NV_FITTED(t, prt, s, p) ((t).part == (prt) && (t).state == nv_lf_state && (t).on == (s) && (t).params == (p) && (t).up == 1 && (t).scaling == nv_cfg_scaling)

/* ::fit(model, dataset, samples, loss, solver, params, logger, extra) */
#define NV_CONTRACT_linear_fit_inner \
__CPROVER_requires(NV_LT_FRESH(NV_ARG_linear_fit_inner_0) && NV_LT_FRESH(NV_ARG_linear_fit_inner_2) && NV_LT_FRESH(NV_ARG_linear_fit_inner_7)) \
__CPROVER_assigns(nv_id_counter, nv_minimized, nv_lf_state, nv_upscaled, nv_lstat_sink) \
__CPROVER_ensures(nv_minimized == __CPROVER_old(nv_minimized) + 1 && nv_upscaled == __CPROVER_old(nv_upscaled) + 1) \
__CPROVER_ensures(NV_FITTED(__CPROVER_return_value.m_weights, NV_PART_WEIGHTS, NV_ARG_linear_fit_inner_2->id, NV_ARG_linear_fit_inner_5.id)) \
__CPROVER_ensures(NV_FITTED(__CPROVER_return_value.m_bias, NV_PART_BIAS, NV_ARG_linear_fit_inner_2->id, NV_ARG_linear_fit_inner_5.id)) \
/* the solver was started from the x0 made from the given `extra` (warm start) */ \
__CPROVER_ensures(__CPROVER_return_value.m_weights.extra == NV_ARG_linear_fit_inner_7->id && __CPROVER_return_value.m_bias.extra == NV_ARG_linear_fit_inner_7->id) \
__CPROVER_ensures(__CPROVER_return_value.m_weights.id != 0 && __CPROVER_return_value.m_bias.id != 0)

/* ================================================================================================ linear::evaluate
 * (src/linear/util.cpp): values(0, i) = error, values(1, i) = loss value of the prediction for the sample at position i of
 * `samples`, made with the given (weights, bias) on UNSCALED inputs.  Ghost position nv_g (arbitrary, fixed before the call). */
int64_t nv_g;
uint64_t nv_e_pred, nv_e_pred_w, nv_e_pred_b, nv_e_pred_by, nv_e_pred_out; int64_t nv_e_pred_pos;   /* predictions written into outputs row nv_g */
uint64_t nv_e_cell[2]; int32_t nv_e_kind[2]; _Bool nv_e_ok[2];      /* writes into values(row, nv_g): how many, 1 error | 2 loss value, from the right operands */
uint64_t nv_e_looped;                                               /* calls of iterator.loop */
static struct nv_lt nv_lt_make2(int64_t rows, int64_t cols) { struct nv_lt t = nv_lt_zero(); t.rows = rows; t.cols = cols; t.id = nv_fresh_id(); return t; }
static struct nv_lt nv_lt_make4(struct nv_dims4 d) { struct nv_lt t = nv_lt_zero(); t.rows = d.d0; t.cols = nv_nondet_int64_t(); t.id = nv_fresh_id(); return t; }
static struct nv_lview nv_lt_slice(const struct nv_lt* t, struct nv_range r)
{ __CPROVER_assert(0 <= r.b && r.b <= r.e && r.e <= t->rows, "tensor4d_t::slice(range): inside the first dimension (C16)"); struct nv_lview v; v.t = (struct nv_lt*)t; v.b = r.b; v.e = r.e; v.row = -1; return v; }
static struct nv_lview nv_lt_row(const struct nv_lt* t, int64_t row)
{ __CPROVER_assert(0 <= row && row < t->rows, "tensor2d_t::tensor(row): row inside the tensor (C16)"); struct nv_lview v; v.t = (struct nv_lt*)t; v.b = -1; v.e = -1; v.row = (int32_t)row; return v; }
static struct nv_lview nv_lview_slice(struct nv_lview v, struct nv_range r)
{ __CPROVER_assert(v.row >= 0 && v.b == -1 && 0 <= r.b && r.b <= r.e && r.e <= v.t->cols, "tensor(row).slice(range): inside the row (C16)"); v.b = r.b; v.e = r.e; return v; }
/* tensor4d_cmap_t(tensor4d_map_t): constant view of the same rows */
static struct nv_lt nv_lt_of_view(struct nv_lview v) { struct nv_lt t = *v.t; t.cb = v.b; t.ce = v.e; return t; }
/* linear::predict(inputs, weights, bias, outputs): row i of outputs = prediction for row i of inputs (ASSUMED; its asserts are obliged) */
static void nv_predict(const struct nv_lt* inputs, const struct nv_lt* weights, const struct nv_lt* bias, struct nv_lview out)
{
  __CPROVER_assert(out.b >= 0 && inputs->cb >= 0 && out.e - out.b == inputs->ce - inputs->cb, "predict: one row of outputs per row of inputs (assert of linear::predict)");
  if (out.b <= nv_g && nv_g < out.e)
  { __CPROVER_assume(nv_e_pred < 1000); nv_e_pred = nv_e_pred + 1; nv_e_pred_w = weights->id; nv_e_pred_b = bias->id; nv_e_pred_by = inputs->by; nv_e_pred_pos = inputs->cb + (nv_g - out.b); nv_e_pred_out = out.t->id; }
  out.t->w = weights->id; out.t->b = bias->id; out.t->by = inputs->by;
}
/* loss_t::error / value(targets, outputs, destination): destination(i) = error / loss value of (targets row i, outputs row i) (ASSUMED) */
static void nv_loss_apply(int32_t kind, struct nv_lt targets, struct nv_lt outputs, struct nv_lview dst)
{
  __CPROVER_assert(dst.row >= 0 && dst.b >= 0 && targets.cb >= 0 && outputs.cb >= 0 && targets.ce - targets.cb == dst.e - dst.b && outputs.ce - outputs.cb == dst.e - dst.b, "loss: one destination element per row of targets / outputs (assert of loss_t::error / value)");
  if (dst.b <= nv_g && nv_g < dst.e && dst.row < 2)
  {
    __CPROVER_assume(nv_e_cell[dst.row] < 1000);
    nv_e_cell[dst.row] = nv_e_cell[dst.row] + 1; nv_e_kind[dst.row] = kind;
    /* the operands at the ghost element: the target of the sample at position nv_g of the list, and the prediction made for it */
    nv_e_ok[dst.row] = targets.cb + (nv_g - dst.b) == nv_g && outputs.cb + (nv_g - dst.b) == nv_g && outputs.id == nv_e_pred_out && nv_e_pred == 1 && nv_e_pred_pos == nv_g && targets.by == nv_e_pred_by;
  }
  dst.t->by = targets.by; dst.t->w = outputs.w; dst.t->b = outputs.b;
}
static void nv_loss_error(struct nv_lt targets, struct nv_lt outputs, struct nv_lview dst) { nv_loss_apply(1, targets, outputs, dst); }
static void nv_loss_value(struct nv_lt targets, struct nv_lt outputs, struct nv_lview dst) { nv_loss_apply(2, targets, outputs, dst); }

/* the chunk callback handed to iterator.loop (lambda #0 of linear::evaluate) */
/* the lambda's own parameters by position (their names are the source's business) */
#define NV_RNG NV_ARG_linear_evaluate_chunk_0
#define NV_INP NV_ARG_linear_evaluate_chunk_2
#define NV_TGT NV_ARG_linear_evaluate_chunk_3
#define NV_IN(r) ((r).b <= nv_g && nv_g < (r).e)
#define NV_CONTRACT_linear_evaluate_chunk \
__CPROVER_requires(NV_LT_FRESH(weights) && NV_LT_FRESH(bias) && NV_LT_FRESH(outputs) && NV_LT_FRESH(values)) \
__CPROVER_requires(0 <= NV_RNG.b && NV_RNG.b < NV_RNG.e && NV_RNG.e <= outputs->rows && outputs->rows == values->cols && values->rows == 2) \
__CPROVER_requires(NV_INP.cb == NV_RNG.b && NV_INP.ce == NV_RNG.e && NV_TGT.cb == NV_RNG.b && NV_TGT.ce == NV_RNG.e && NV_INP.by == NV_TGT.by) \
__CPROVER_assigns(nv_e_pred, nv_e_pred_w, nv_e_pred_b, nv_e_pred_by, nv_e_pred_out, nv_e_pred_pos, __CPROVER_object_whole(nv_e_cell), __CPROVER_object_whole(nv_e_kind), __CPROVER_object_whole(nv_e_ok)) \
__CPROVER_assigns(outputs->w, outputs->b, outputs->by, values->w, values->b, values->by) \
__CPROVER_ensures(outputs->w == weights->id && outputs->b == bias->id && outputs->by == NV_INP.by && values->w == weights->id && values->b == bias->id && values->by == NV_INP.by) \
__CPROVER_ensures(!NV_IN(NV_RNG) ==> (nv_e_pred == __CPROVER_old(nv_e_pred) && nv_e_cell[0] == __CPROVER_old(nv_e_cell[0]) && nv_e_cell[1] == __CPROVER_old(nv_e_cell[1]) && nv_e_kind[0] == __CPROVER_old(nv_e_kind[0]) && nv_e_kind[1] == __CPROVER_old(nv_e_kind[1]) && nv_e_ok[0] == __CPROVER_old(nv_e_ok[0]) && nv_e_ok[1] == __CPROVER_old(nv_e_ok[1]) \
   && nv_e_pred_w == __CPROVER_old(nv_e_pred_w) && nv_e_pred_b == __CPROVER_old(nv_e_pred_b) && nv_e_pred_by == __CPROVER_old(nv_e_pred_by))) \
/* the chunk that holds the ghost position: predicted once with the given weights / bias from this chunk's inputs, then the \
 * error goes to row 0 and the loss value to row 1, each once, from this chunk's targets and these predictions */ \
__CPROVER_ensures((NV_IN(NV_RNG) && __CPROVER_old(nv_e_pred) == 0 && __CPROVER_old(nv_e_cell[0]) == 0 && __CPROVER_old(nv_e_cell[1]) == 0) ==> \
   (nv_e_pred == 1 && nv_e_pred_w == weights->id && nv_e_pred_b == bias->id && nv_e_pred_by == NV_INP.by && nv_e_cell[0] == 1 && nv_e_kind[0] == 1 && nv_e_ok[0] && nv_e_cell[1] == 1 && nv_e_kind[1] == 2 && nv_e_ok[1]))

/* flatten_iterator_t::loop(callback): the stub nv_fiter_loop_0 is GENERATED from the lambda's current capture list
 * (linear_spec.py: LOOP_BODY, hooks.lambda_stub_hook) */
#define NV_CONTRACT_linear_evaluate \
__CPROVER_requires(NV_LT_FRESH(NV_ARG_linear_evaluate_1) && NV_LT_FRESH(NV_ARG_linear_evaluate_3) && NV_LT_FRESH(NV_ARG_linear_evaluate_4) && 0 <= NV_ARG_linear_evaluate_1->n && NV_ARG_linear_evaluate_1->n <= 1000000000) \
__CPROVER_assigns(nv_id_counter, nv_e_looped, nv_e_pred, nv_e_pred_w, nv_e_pred_b, nv_e_pred_by, nv_e_pred_out, nv_e_pred_pos, __CPROVER_object_whole(nv_e_cell), __CPROVER_object_whole(nv_e_kind), __CPROVER_object_whole(nv_e_ok)) \
__CPROVER_ensures(__CPROVER_return_value.rows == 2 && __CPROVER_return_value.cols == NV_ARG_linear_evaluate_1->n && nv_e_looped == __CPROVER_old(nv_e_looped) + 1) \
/* every element: for the ghost position -- predicted once with (weights, bias) from the inputs of `samples`, error in row 0, loss value in row 1 */ \
__CPROVER_ensures((0 <= nv_g && nv_g < NV_ARG_linear_evaluate_1->n) ==> (nv_e_pred == 1 && nv_e_pred_w == NV_ARG_linear_evaluate_3->id && nv_e_pred_b == NV_ARG_linear_evaluate_4->id && nv_e_pred_by == NV_ARG_linear_evaluate_1->id && nv_e_cell[0] == 1 && nv_e_kind[0] == 1 && nv_e_ok[0] && nv_e_cell[1] == 1 && nv_e_kind[1] == 2 && nv_e_ok[1])) \
/* summary tags (what the callers reason with); an empty list evaluates nothing */ \
__CPROVER_ensures(NV_ARG_linear_evaluate_1->n > 0 ==> (__CPROVER_return_value.by == NV_ARG_linear_evaluate_1->id && __CPROVER_return_value.w == NV_ARG_linear_evaluate_3->id && __CPROVER_return_value.b == NV_ARG_linear_evaluate_4->id))

/* ================================================================================================ the tuning callback
 * (lambda #0 of linear_t::fit): "per (trial, fold) the stored statistics are those evaluated with the model fitted in that
 * task on that fold's train / valid samples".  ml::tune (C13) stores what the callback returns under (trial, fold). */
#define NV_CB_RET __CPROVER_return_value
#define NV_CONTRACT_linear_fit_callback \
__CPROVER_requires(NV_LT_FRESH(self) && NV_LT_FRESH(NV_ARG_linear_fit_callback_1) && NV_LT_FRESH(NV_ARG_linear_fit_callback_2) && NV_LT_FRESH(NV_ARG_linear_fit_callback_4) && NV_LT_FRESH(batch)) \
__CPROVER_requires(NV_ARG_linear_fit_callback_1->id == NV_ID_TRAIN && NV_ARG_linear_fit_callback_2->id == NV_ID_VALID && 0 <= NV_ARG_linear_fit_callback_1->n && NV_ARG_linear_fit_callback_1->n <= 1000000000 && 0 <= NV_ARG_linear_fit_callback_2->n && NV_ARG_linear_fit_callback_2->n <= 1000000000) \
__CPROVER_assigns(nv_id_counter, nv_minimized, nv_lf_state, nv_upscaled, nv_lstat_sink, nv_e_looped, nv_e_pred, nv_e_pred_w, nv_e_pred_b, nv_e_pred_by, nv_e_pred_out, nv_e_pred_pos, __CPROVER_object_whole(nv_e_cell), __CPROVER_object_whole(nv_e_kind), __CPROVER_object_whole(nv_e_ok)) \
/* exactly one model is fitted in the task: on the fold's TRAINING samples, with the trial's hyper-parameters */ \
__CPROVER_ensures(nv_minimized == __CPROVER_old(nv_minimized) + 1 && nv_upscaled == __CPROVER_old(nv_upscaled) + 1) \
__CPROVER_ensures(NV_FITTED(NV_CB_RET._2.m_weights, NV_PART_WEIGHTS, NV_ID_TRAIN, NV_ARG_linear_fit_callback_3.id) && NV_FITTED(NV_CB_RET._2.m_bias, NV_PART_BIAS, NV_ID_TRAIN, NV_ARG_linear_fit_callback_3.id)) \
/* first component: (error | loss) of THAT model on the training samples, second: of THAT model on the validation samples */ \
__CPROVER_ensures((NV_ARG_linear_fit_callback_1->n > 0 ==> (NV_CB_RET._0.by == NV_ID_TRAIN && NV_CB_RET._0.w == NV_CB_RET._2.m_weights.id && NV_CB_RET._0.b == NV_CB_RET._2.m_bias.id)) && NV_CB_RET._0.rows == 2 && NV_CB_RET._0.cols == NV_ARG_linear_fit_callback_1->n) \
__CPROVER_ensures((NV_ARG_linear_fit_callback_2->n > 0 ==> (NV_CB_RET._1.by == NV_ID_VALID && NV_CB_RET._1.w == NV_CB_RET._2.m_weights.id && NV_CB_RET._1.b == NV_CB_RET._2.m_bias.id)) && NV_CB_RET._1.rows == 2 && NV_CB_RET._1.cols == NV_ARG_linear_fit_callback_2->n) \
__CPROVER_ensures(nv_e_looped == __CPROVER_old(nv_e_looped) + 2) \
__CPROVER_ensures(NV_CB_RET._2.m_weights.id != 0 && NV_CB_RET._2.m_bias.id != 0)

/* ================================================================================================ linear_t::fit
 * "the final refit uses the optimum trial's parameters on ALL given samples, the stored weights / bias are the (up-scaled)
 * result of that refit", the final statistics are evaluated with the STORED model on the samples given to fit(). */
/* split so that the composition target (tuned.h: ml::tune modelled with the REAL callback) can restate the clauses around its own count of minimisations */
#define NV_LMF_FRAME \
__CPROVER_requires(NV_LT_FRESH(self) && NV_LT_FRESH(NV_ARG_linear_model_fit_2) && NV_ARG_linear_model_fit_2->id == NV_ID_FIT && 0 <= NV_ARG_linear_model_fit_2->n && NV_ARG_linear_model_fit_2->n <= 1000000000 && nv_params_id0 <= 1000000000) \
__CPROVER_assigns(*self, nv_thrown, nv_stored, nv_stored_values, nv_stored_extra) \
__CPROVER_assigns(nv_id_counter, nv_minimized, nv_lf_state, nv_upscaled, nv_lstat_sink, nv_e_looped, nv_e_pred, nv_e_pred_w, nv_e_pred_b, nv_e_pred_by, nv_e_pred_out, nv_e_pred_pos, __CPROVER_object_whole(nv_e_cell), __CPROVER_object_whole(nv_e_kind), __CPROVER_object_whole(nv_e_ok))
#define NV_LMF_ONE_REFIT \
/* exactly one refit, after tuning: optimum trial's hyper-parameters, ALL given samples; stored up-scaled once */ \
__CPROVER_ensures(nv_thrown || (nv_minimized == __CPROVER_old(nv_minimized) + 1 && nv_upscaled == __CPROVER_old(nv_upscaled) + 1))
#define NV_LMF_REST \
__CPROVER_ensures(nv_thrown || (NV_FITTED(self->m_weights, NV_PART_WEIGHTS, NV_ID_FIT, nv_params_id0 + (uint64_t)nv_opt_trial) && NV_FITTED(self->m_bias, NV_PART_BIAS, NV_ID_FIT, nv_params_id0 + (uint64_t)nv_opt_trial))) \
/* final statistics: of the stored model on the samples given to fit(), stored exactly once together with the refit result */ \
__CPROVER_ensures(nv_thrown || (nv_stored == __CPROVER_old(nv_stored) + 1 && (NV_ARG_linear_model_fit_2->n > 0 ==> (nv_stored_values.by == NV_ID_FIT && nv_stored_values.w == self->m_weights.id && nv_stored_values.b == self->m_bias.id)) && nv_stored_values.rows == 2 && nv_stored_values.cols == NV_ARG_linear_model_fit_2->n)) \
__CPROVER_ensures(nv_thrown || (nv_stored_extra.w == self->m_weights.id && nv_stored_extra.b == self->m_bias.id && nv_stored_extra.id != 0))

#define NV_CONTRACT_linear_model_fit NV_LMF_FRAME NV_LMF_ONE_REFIT NV_LMF_REST
