/* C11: ml::result_t::store(errors_losses, extra) and ml::result_t::stats(value) (src/machine/result.cpp) -- the FINAL
 * (refit) statistics: the error row (0) of the given values is summarised into m_optims row 0, the loss row (1) into row 1,
 * and stats(value) reads row 0 for value_type::errors, row 1 for value_type::losses.  (The per-(trial, fold) overloads are
 * covered by specs/C13.)  store_stats / load_stats (src/machine/stats.cpp) are stubs recording which rows they were given. */
#include "nv_base.h"
struct nv_tensor2d { int64_t rows, cols; uint64_t id; };
struct nv_row { const struct nv_tensor2d* t; int64_t r; };
struct nv_any { int32_t unit; };
struct nv_stats { uint64_t of; int64_t row; };                    /* stats_t: loaded from which tensor, which row */
struct nv_mlresult { struct nv_tensor2d m_optims; struct nv_any m_extra; };
enum { NVE_value_type_errors = 0, NVE_value_type_losses = 1 };
int64_t nv_src_row[2]; uint64_t nv_src_id[2]; int32_t nv_dst_written[2]; int32_t nv_stores;      /* ghost: per m_optims row */
static struct nv_row nv_t2_row(const struct nv_tensor2d* t, int64_t r)
{ __CPROVER_assert(0 <= r && r < t->rows, "tensor(row): row inside the tensor (C16 index0 precondition)"); struct nv_row v; v.t = t; v.r = r; return v; }
static void nv_store_stats(struct nv_row src, struct nv_row dst, const struct nv_mlresult* self)
{
  __CPROVER_assert(dst.t == &self->m_optims, "store: the statistics go to m_optims");
  __CPROVER_assume(nv_stores < 1000); nv_stores = nv_stores + 1;
  nv_src_row[dst.r] = src.r; nv_src_id[dst.r] = src.t->id; nv_dst_written[dst.r] = nv_dst_written[dst.r] + 1;
}
static struct nv_stats nv_load_stats(struct nv_row src) { struct nv_stats s; s.of = src.t->id; s.row = src.r; return s; }
#define NV_OPTIMS_OK (__CPROVER_is_fresh(self, sizeof(*self)) && self->m_optims.rows == 2 && self->m_optims.cols == 12)
#define NV_CONTRACT_mlresult_store \
__CPROVER_requires(NV_OPTIMS_OK && errors_losses.rows == 2 /* assert of the function; ::selected returns (2, n) */ && nv_dst_written[0] == 0 && nv_dst_written[1] == 0 && nv_stores == 0) \
__CPROVER_assigns(__CPROVER_object_whole(nv_src_row), __CPROVER_object_whole(nv_src_id), __CPROVER_object_whole(nv_dst_written), nv_stores, self->m_extra) \
__CPROVER_ensures(nv_stores == 2 && nv_dst_written[0] == 1 && nv_dst_written[1] == 1) \
__CPROVER_ensures(nv_src_row[0] == 0 && nv_src_id[0] == errors_losses.id && nv_src_row[1] == 1 && nv_src_id[1] == errors_losses.id)
#define NV_CONTRACT_mlresult_stats \
__CPROVER_requires(NV_OPTIMS_OK) \
__CPROVER_assigns() \
__CPROVER_ensures(__CPROVER_return_value.of == self->m_optims.id && __CPROVER_return_value.row == (value == NVE_value_type_errors ? 0 : 1))
