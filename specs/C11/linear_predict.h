/* C11, linear models, the prediction side (linear.h holds the models and the stubs):
 *   linear_t::do_predict (src/linear.cpp): "predicting with the corresponding stored model" -- every listed sample (ghost position
 *   nv_g) is predicted exactly once, with the STORED m_weights / m_bias (and nothing else), from the UNSCALED inputs of the
 *   chunk that holds it, into ITS row of the outputs buffer of the call;
 *   the four make_function overrides: the objective is built over the GIVEN iterator with the regularisation factors of the
 *   trial (ordinary: none; lasso: l1 = params(0); ridge: l2 = params(0); elastic net: l1 = params(0), l2 = params(1));
 *   ::make_x0: zero vector of the objective's dimension; with a warm start, coefficient k is weights(k) for k < #weights and
 *   bias(k - #weights) for the next #bias coefficients (the layout function_t::weights / bias read), nothing else is written. */
#include "linear.h"

/* outputs.slice(range) of the tensor4d_map_t handed to do_predict: rows [b, e) of the same buffer (C16 owns the arithmetic) */
static struct nv_lview nv_lview_slice4(struct nv_lview v, struct nv_range r)
{ __CPROVER_assert(v.b == -1 && v.row == -1 && 0 <= r.b && r.b <= r.e && r.e <= v.t->rows, "tensor4d_map_t::slice(range): inside the first dimension (C16)"); v.b = r.b; v.e = r.e; return v; }

static struct nv_range nv_range_make(int64_t b, int64_t e) { struct nv_range r; r.b = b; r.e = e; return r; }   /* make_range / tensor_range_t{b, e} */
#define NV_DP_SAMPLES NV_ARG_linear_do_predict_2
#define NV_DP_OUT NV_ARG_linear_do_predict_3
#define NV_CONTRACT_linear_do_predict \
__CPROVER_requires(NV_LT_FRESH(self) && __CPROVER_is_fresh(NV_DP_OUT.t, sizeof(struct nv_lt)) && NV_DP_OUT.b == -1 && NV_DP_OUT.row == -1) \
/* learner_t::predict (its assert, target learner_predict3): one row of outputs per listed sample */ \
__CPROVER_requires(0 <= NV_DP_SAMPLES.n && NV_DP_SAMPLES.n <= 1000000000 && NV_DP_OUT.t->rows == NV_DP_SAMPLES.n && nv_e_looped < 1000) \
__CPROVER_assigns(nv_id_counter, nv_e_looped, nv_e_pred, nv_e_pred_w, nv_e_pred_b, nv_e_pred_by, nv_e_pred_out, nv_e_pred_pos, NV_DP_OUT.t->w, NV_DP_OUT.t->b, NV_DP_OUT.t->by) \
__CPROVER_ensures(nv_e_looped == __CPROVER_old(nv_e_looped) + 1) \
__CPROVER_ensures((0 <= nv_g && nv_g < NV_DP_SAMPLES.n) ==> (nv_e_pred == 1 && nv_e_pred_w == self->m_weights.id && nv_e_pred_b == self->m_bias.id && nv_e_pred_by == NV_DP_SAMPLES.id && nv_e_pred_pos == nv_g && nv_e_pred_out == NV_DP_OUT.t->id)) \
__CPROVER_ensures(!(0 <= nv_g && nv_g < NV_DP_SAMPLES.n) ==> nv_e_pred == 0)

/* ================================================================================================ make_function overrides */
struct nv_lfun2 { uint64_t it_id; double l1, l2; };                 /* linear::function_t{iterator, loss, l1reg, l2reg} */
double nv_param_val[2];                                          /* the trial's hyper-parameters (ghost inputs) */
static double nv_params_at(struct nv_lt params, int64_t k)
{ __CPROVER_assert(0 <= k && k < params.rows && k < 2, "make_function: params(k) inside the trial's hyper-parameters (C16)"); return nv_param_val[k]; }
static struct nv_lfun2 nv_lfun2_make(const struct nv_fiter* it, double l1, double l2) { struct nv_lfun2 f; f.it_id = it->id; f.l1 = l1; f.l2 = l2; return f; }
/* parameters by position (self, iterator, loss, params): a renamed parameter does not break the contracts */
#define NV_MF_RET __CPROVER_return_value
#define NV_MF_CONTRACT(it, prm, n, e1, e2) __CPROVER_requires(NV_LT_FRESH(it) && (prm).rows == (n)) __CPROVER_assigns() \
__CPROVER_ensures(NV_MF_RET.it_id == (it)->id && NV_IDENT(NV_MF_RET.l1, e1) && NV_IDENT(NV_MF_RET.l2, e2))
#define NV_CONTRACT_ordinary_make_function NV_MF_CONTRACT(NV_ARG_ordinary_make_function_1, NV_ARG_ordinary_make_function_3, 0, 0.0, 0.0)
#define NV_CONTRACT_lasso_make_function NV_MF_CONTRACT(NV_ARG_lasso_make_function_1, NV_ARG_lasso_make_function_3, 1, nv_param_val[0], 0.0)
#define NV_CONTRACT_ridge_make_function NV_MF_CONTRACT(NV_ARG_ridge_make_function_1, NV_ARG_ridge_make_function_3, 1, 0.0, nv_param_val[0])
#define NV_CONTRACT_elastic_net_make_function NV_MF_CONTRACT(NV_ARG_elastic_net_make_function_1, NV_ARG_elastic_net_make_function_3, 2, nv_param_val[0], nv_param_val[1])

/* ================================================================================================ ::make_x0 */
struct nv_xt { uint64_t id; int64_t size; };                     /* tensor1d_t / tensor2d_t of a linear::result_t: identity, #coefficients */
struct nv_xarr { uint64_t id; int64_t size; };                   /* tensor.array() */
struct nv_xresult { struct nv_xt m_bias; struct nv_xt m_weights; };
struct nv_xany { _Bool has; struct nv_xresult r; };              /* std::any holding a linear::result_t (or nothing) */
struct nv_xfun { int64_t size; };                                /* linear::function_t: its dimension */
struct nv_x0 { int64_t n; };                                     /* vector_t */
struct nv_seg { struct nv_x0* x; int64_t off, len; };            /* x0.segment(offset, length) */
int64_t nv_gk;                                                   /* ghost coefficient of x0 */
uint64_t nv_gk_src; int64_t nv_gk_pos; uint64_t nv_gk_writes;    /* source tensor (0: the zero vector), position in it, writes after the zero fill */
static struct nv_x0 nv_x0_zero(int64_t n) { struct nv_x0 x; x.n = n; nv_gk_src = 0; nv_gk_pos = 0; nv_gk_writes = 0; return x; }
static int64_t nv_xfun_size(const struct nv_xfun* f) { return f->size; }
static _Bool nv_xany_has(const struct nv_xany* a) { return a->has; }
static const struct nv_xresult* nv_xany_cast(const struct nv_xany* a) { __CPROVER_assert(a->has, "any_cast of an empty std::any throws"); return &a->r; }
static int64_t nv_xt_size(const struct nv_xt* t) { return t->size; }
static struct nv_xarr nv_xt_array(const struct nv_xt* t) { struct nv_xarr a; a.id = t->id; a.size = t->size; return a; }
static struct nv_seg nv_x0_segment(struct nv_x0* x, int64_t off, int64_t len)
{ __CPROVER_assert(0 <= off && 0 <= len && off <= x->n && len <= x->n - off, "x0.segment(offset, length): inside the vector (Eigen assert)"); struct nv_seg s; s.x = x; s.off = off; s.len = len; return s; }
/* segment = array: coefficient-wise copy (Eigen; ASSUMED), sizes must agree (Eigen assert) */
static void nv_seg_assign(struct nv_seg s, struct nv_xarr a)
{
  __CPROVER_assert(s.len == a.size, "x0.segment(..) = tensor.array(): as many coefficients on both sides (Eigen assert)");
  if (s.off <= nv_gk && nv_gk - s.off < s.len)
  { __CPROVER_assume(nv_gk_writes < 1000); nv_gk_writes = nv_gk_writes + 1; nv_gk_src = a.id; nv_gk_pos = nv_gk - s.off; }
}
#define NV_X_F NV_ARG_linear_make_x0_0
#define NV_X_E NV_ARG_linear_make_x0_1
#define NV_X_W NV_X_E->r.m_weights
#define NV_X_B NV_X_E->r.m_bias
#define NV_CONTRACT_linear_make_x0 \
__CPROVER_requires(__CPROVER_is_fresh(NV_X_F, sizeof(*NV_X_F)) && __CPROVER_is_fresh(NV_X_E, sizeof(*NV_X_E)) && NV_X_F->size >= 0) \
/* the warm start is a model of the same shape as the objective (same dataset; C13 hands over the closest earlier trial) */ \
__CPROVER_requires(NV_X_W.size >= 0 && NV_X_B.size >= 0 && NV_X_W.size <= 1000000000 && NV_X_B.size <= 1000000000 && (NV_X_E->has ==> NV_X_F->size == NV_X_W.size + NV_X_B.size) && NV_X_W.id != 0 && NV_X_B.id != 0) \
__CPROVER_assigns(nv_gk_src, nv_gk_pos, nv_gk_writes) \
__CPROVER_ensures(__CPROVER_return_value.n == NV_X_F->size) \
__CPROVER_ensures(!(NV_X_E->has != 0) ==> (nv_gk_src == 0 && nv_gk_writes == 0)) \
__CPROVER_ensures(((NV_X_E->has != 0) && 0 <= nv_gk && nv_gk < NV_X_W.size) ==> (nv_gk_writes == 1 && nv_gk_src == NV_X_W.id && nv_gk_pos == nv_gk)) \
__CPROVER_ensures(((NV_X_E->has != 0) && NV_X_W.size <= nv_gk && nv_gk < NV_X_W.size + NV_X_B.size) ==> (nv_gk_writes == 1 && nv_gk_src == NV_X_B.id && nv_gk_pos == nv_gk - NV_X_W.size)) \
__CPROVER_ensures(((NV_X_E->has != 0) && !(0 <= nv_gk && nv_gk < NV_X_W.size + NV_X_B.size)) ==> (nv_gk_src == 0 && nv_gk_writes == 0))

/* ================================================================================================ linear::function_t::function_t
 * (src/linear/function.cpp): the objective REMEMBERS the iterator it was given and the two regularisation factors, each in its own
 * member (m_l1reg <- l1reg, m_l2reg <- l2reg: what do_vgrad multiplies the L1 resp. squared L2 norm of the weights with, C09);
 * smooth iff the loss is smooth and there is no L1 term.  (The dimension (isize + 1) * tsize and the strong-convexity constant l2 / (isize * tsize)
 * are 64-bit products: not stated here -- CBMC does not decide equalities between multiplier circuits; only their overflow checks run.) */
struct nv_fobj { const struct nv_fiter* m_iterator; const struct nv_opaque* m_loss; double m_l1reg, m_l2reg; int64_t m_isize, m_tsize;
                 int64_t base_size; int32_t convex, smooth; double sconv; struct nv_opaque m_accumulators; };
int64_t nv_f_isize, nv_f_tsize; _Bool nv_loss_convex, nv_loss_smooth;
static int64_t nv_isize_of(const struct nv_fiter* it) { return nv_f_isize; }       /* ::isize(iterator) = dataset columns (opaque numerics) */
static int64_t nv_tsize_of(const struct nv_fiter* it) { return nv_f_tsize; }
static void nv_fobj_base(struct nv_fobj* self, int64_t size) { self->base_size = size; }
static _Bool nv_loss_is_convex(const struct nv_opaque* l) { return nv_loss_convex; }
static _Bool nv_loss_is_smooth(const struct nv_opaque* l) { return nv_loss_smooth; }
static void nv_fobj_convex(struct nv_fobj* self, int32_t c) { self->convex = c; }
static void nv_fobj_smooth(struct nv_fobj* self, int32_t s) { self->smooth = s; }
static void nv_fobj_sconv(struct nv_fobj* self, double v) { self->sconv = v; }
#define NV_FC_IT NV_ARG_lfunction_ctor_1
#define NV_FC_L1 NV_ARG_lfunction_ctor_3
#define NV_FC_L2 NV_ARG_lfunction_ctor_4
#define NV_CONTRACT_lfunction_ctor \
__CPROVER_requires(__CPROVER_is_fresh(self, sizeof(*self)) && NV_LT_FRESH(NV_FC_IT) && 1 <= nv_f_isize && nv_f_isize <= 1000000 && 1 <= nv_f_tsize && nv_f_tsize <= 1000000) \
__CPROVER_assigns(*self) \
__CPROVER_ensures(self->m_iterator == NV_FC_IT && NV_IDENT(self->m_l1reg, NV_FC_L1) && NV_IDENT(self->m_l2reg, NV_FC_L2) && self->m_isize == nv_f_isize && self->m_tsize == nv_f_tsize) \
__CPROVER_ensures((self->smooth == NVE_smoothness_yes) == ((nv_loss_smooth != 0) && NV_FC_L1 <= 0.0) && (self->convex == NVE_convexity_yes) == (nv_loss_convex != 0))
