/* C11: learner_t::evaluate (src/learner.cpp) -- the public "recompute from scratch by predicting" entry point for both model
 * families: the result is (2, #samples); every listed sample (ghost position nv_g) is predicted exactly once, by THIS model
 * (learner_t::predict on the slice of `samples` that is the chunk holding the position), then the error goes to row 0 and the loss
 * value to row 1 of that position, each exactly once, from that chunk's targets and these predictions.  Vocabulary of linear.h
 * (ghost cells nv_e_*; loss_t::error / value stubs). */
#include "linear.h"
struct nv_ixr { int64_t n; uint64_t id; int64_t b; };     /* indices_cmap_t: n indices of list `id` starting at its position b (a slice) */
struct nv_learner { int32_t dummy; };
#define NV_THIS_MODEL 77
static struct nv_fiter nv_fiter_make_r(struct nv_ixr s) { struct nv_fiter it; it.by = s.id; it.scaling = NVE_scaling_type_none; it.id = nv_fresh_id(); return it; }   /* header default: scaling none */
static struct nv_ixr nv_ixr_slice(struct nv_ixr s, struct nv_range r)
{ __CPROVER_assert(0 <= r.b && r.b <= r.e && r.e <= s.n, "indices.slice(range): inside the list (C16)"); struct nv_ixr o; o.id = s.id; o.b = s.b + r.b; o.n = r.e - r.b; return o; }
/* learner_t::predict(dataset, samples) (target learner_predict2): a fresh buffer with one row per listed sample, row i = the prediction of THIS model for samples(i) */
static struct nv_lt nv_learner_predict2(const struct nv_learner* self, struct nv_ixr s)
{
  struct nv_lt o = nv_lt_zero(); o.rows = s.n; o.cols = nv_nondet_int64_t(); o.id = nv_fresh_id(); o.by = s.id; o.w = NV_THIS_MODEL; o.b = NV_THIS_MODEL; o.cb = s.b; o.ce = s.b + s.n;
  if (s.b <= nv_g && nv_g - s.b < s.n)
  { __CPROVER_assume(nv_e_pred < 1000); nv_e_pred = nv_e_pred + 1; nv_e_pred_w = NV_THIS_MODEL; nv_e_pred_b = NV_THIS_MODEL; nv_e_pred_by = s.id; nv_e_pred_pos = nv_g; nv_e_pred_out = o.id; }
  return o;
}
#define NV_LE_S NV_ARG_learner_evaluate_2
#define NV_CONTRACT_learner_evaluate \
__CPROVER_requires(NV_LT_FRESH(self) && 0 <= NV_LE_S.n && NV_LE_S.n <= 1000000000 && NV_LE_S.b == 0 && nv_e_looped < 1000) \
__CPROVER_assigns(nv_id_counter, nv_e_looped, nv_e_pred, nv_e_pred_w, nv_e_pred_b, nv_e_pred_by, nv_e_pred_out, nv_e_pred_pos, __CPROVER_object_whole(nv_e_cell), __CPROVER_object_whole(nv_e_kind), __CPROVER_object_whole(nv_e_ok)) \
__CPROVER_ensures(__CPROVER_return_value.rows == 2 && __CPROVER_return_value.cols == NV_LE_S.n && nv_e_looped == __CPROVER_old(nv_e_looped) + 1) \
__CPROVER_ensures((0 <= nv_g && nv_g < NV_LE_S.n) ==> (nv_e_pred == 1 && nv_e_pred_w == NV_THIS_MODEL && nv_e_pred_by == NV_LE_S.id && nv_e_pred_pos == nv_g && nv_e_cell[0] == 1 && nv_e_kind[0] == 1 && nv_e_ok[0] && nv_e_cell[1] == 1 && nv_e_kind[1] == 2 && nv_e_ok[1])) \
__CPROVER_ensures(NV_LE_S.n > 0 ==> (__CPROVER_return_value.by == NV_LE_S.id && __CPROVER_return_value.w == NV_THIS_MODEL && __CPROVER_return_value.b == NV_THIS_MODEL))
