/* C models shared by the C11 contracts */
#ifndef NV_C11_TYPES_H
#define NV_C11_TYPES_H
#include "nv_state.h"
struct nv_tensor2d { int64_t rows, cols; uint64_t id; };       /* tensor2d_t: shape + ghost identity of the contents */
struct nv_indices { int64_t n; uint64_t id; };                  /* indices_t: size + ghost identity of the index list */
struct nv_vec { uint64_t size; };                               /* rwlearners_t (std::vector): only the number of learners */
struct nv_early_stopping { uint64_t m_round; double m_value; struct nv_tensor2d m_values; };
#endif
