/* C models shared by the C11 contracts */
#ifndef NV_C11_TYPES_H
#define NV_C11_TYPES_H
#include "nv_state.h"
struct nv_tensor2d { int64_t rows, cols; uint64_t id; uint64_t by; };   /* tensor2d_t: shape + ghost identity of the contents (+ of the index list they were selected by, 0 = none) */
struct nv_indices { int64_t n; uint64_t id; };                  /* indices_t: size + ghost identity of the index list */
struct nv_vec { uint64_t size; };                               /* rwlearners_t (std::vector): only the number of learners */
struct nv_early_stopping { uint64_t m_round; double m_value; struct nv_tensor2d m_values; };
/* bit pattern of a double: `NV_IDENT(a, b)` = the very same double (tells -0.0 from 0.0, one NaN from another); values that flow
 * into the uninterpreted NV_F* operations must be identified this way (congruence is over bit patterns) */
union nv_bits { double d; uint64_t u; };
#define NV_BITS(x) (((union nv_bits){ .d = (x) }).u)
#define NV_IDENT(a, b) (NV_BITS(a) == NV_BITS(b))
/* ghost identities of tensor contents: every producer of new contents draws a fresh identity */
uint64_t nv_id_counter;
static uint64_t nv_fresh_id(void) { __CPROVER_assume(nv_id_counter < UINT64_MAX - 1); nv_id_counter = nv_id_counter + 1; return nv_id_counter; }
/* tensor2d_t{rows, cols}: shape as given, contents not yet meaningful (fresh identity) */
static struct nv_tensor2d nv_t2_make(int64_t rows, int64_t cols)
{ struct nv_tensor2d t; t.rows = rows; t.cols = cols; t.id = nv_fresh_id(); t.by = 0; return t; }
static uint64_t nv_vec_size(const struct nv_vec* v) { return v->size; }
static int64_t nv_indices_size(const struct nv_indices* v) { return v->n; }
#endif
