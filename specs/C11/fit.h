/* C11: the boosting round loop of src/gboost/model.cpp ::fit (anonymous namespace, 9 parameters).
 * Property: "... the early-stopping monitor ... reports the round of the last accepted improvement with that round's
 * per-sample values, which is the number of weak learners the returned fold model keeps."
 * Datasets, iterators, tensors of outputs, loss / solver / weak-learner numerics are ERASED (opaque=[...]); what is
 * modelled: `result` (struct nv_result), `optimum` (struct nv_early_stopping), the index lists (size + ghost identity)
 * and `values` (shape + ghost identity of the contents: fresh after every gboost::evaluate).
 * result_t::update x2 / done and early_stopping_t::done are used through the contracts proved in their own targets;
 * the two constructors and the accessors round() / values() are extracted and executed. */
#include "early_stopping.h"
#include "monitor.h"
#include "history.h"
#include "boost.h"
#include "selected.h"

struct nv_tuple_f64 { double _0; };                                        /* std::tuple<scalar_t> of decode_params */
struct nv_fit_ret { struct nv_result _0; struct nv_tensor2d _1; struct nv_tensor2d _2; };   /* (result, train values, valid values) */
enum { NVE_gboost_shrinkage_off = 0, NVE_gboost_shrinkage_global = 1, NVE_gboost_shrinkage_local = 2 };
enum { NVE_gboost_wscale_gboost = 0, NVE_gboost_wscale_tboost = 1 };

/* ---- hyper-parameters: configurable_t::parameter("gboost::x").value<T>(); the registered domains (gboost_model_t
 * constructor, same file; C19: parameters stay inside their declared domain) are ASSUMED in the contract's requires */
int64_t nv_max_rounds; uint64_t nv_patience; double nv_epsilon;
static uint64_t nv_param_seed(void) { return nv_nondet_uint64_t(); }
static int64_t  nv_param_batch(void) { return nv_nondet_int64_t(); }
static double   nv_param_epsilon(void) { return nv_epsilon; }
static uint64_t nv_param_patience(void) { return nv_patience; }
static int64_t  nv_param_max_rounds(void) { return nv_max_rounds; }
static int32_t  nv_param_wscale(void) { return nv_nondet_int32_t(); }
static int32_t  nv_param_subsample(void) { return nv_nondet_int32_t(); }
static int32_t  nv_param_shrinkage(void) { return nv_nondet_int32_t(); }
static double   nv_param_subsample_ratio(void) { return nv_nondet_double(); }

/* arange(lo, hi): the index list lo, lo+1, .., hi-1; ghost identity NV_ID_ALL ("all samples of the dataset") */
#define NV_ID_TRAIN 1
#define NV_ID_VALID 2
#define NV_ID_ALL 3
static struct nv_indices nv_arange(int64_t lo, int64_t hi)
{ struct nv_indices s; s.n = (hi >= lo && lo >= 0) ? hi - lo : 0; s.id = NV_ID_ALL; return s; }
/* gboost::evaluate(iterator, loss, outputs, values): overwrites both rows of `values` (ASSUMED: nothing else modelled) */
static void nv_evaluate(struct nv_tensor2d* values) { values->id = nv_fresh_id(); values->by = 0; }
/* solver_t::minimize: an arbitrary solver state (numerics erased) */
static struct nv_state nv_solver_minimize(void)
{ struct nv_state s; s.m_fcalls = nv_nondet_int64_t(); s.m_gcalls = nv_nondet_int64_t(); s.m_status = nv_nondet_int32_t(); return s; }

/* ---- ghost protocol state of the round loop */
uint64_t nv_appended;     /* learners appended to result.m_wlearners so far (calls of update(round, .., wlearner)) */
uint64_t nv_consulted;    /* calls of optimum.done(...) so far */
uint64_t nv_mon_round;    /* the monitor's round() / values() identity after its latest consultation */
uint64_t nv_mon_values;
uint64_t nv_g_round;      /* ghost index: an arbitrary round, fixed before the call */
uint64_t nv_g_values;     /* identity of `values` when the monitor was consulted with nv_g_round learners */
int64_t  nv_rows;         /* rows allocated for m_statistics by the result_t constructor */
_Bool    nv_mon_stopped;  /* the monitor has answered `stop` */
uint64_t nv_obs_values;   /* identity of the values of the latest observation */

void result_ctor(struct nv_result* self, const struct nv_tensor2d* errors_values, const struct nv_indices* train_samples, const struct nv_indices* valid_samples, int64_t max_rounds);
static struct nv_result nv_result_make(const struct nv_tensor2d* e, const struct nv_indices* t, const struct nv_indices* v, int64_t max_rounds)
{ struct nv_result r; result_ctor(&r, e, t, v, max_rounds); nv_appended = 0; nv_rows = r.m_statistics.rows; return r; }
void early_stopping_ctor(struct nv_early_stopping* self, struct nv_tensor2d values);
static struct nv_early_stopping nv_monitor_make(struct nv_tensor2d values)
{ struct nv_early_stopping m; early_stopping_ctor(&m, values); nv_consulted = 0; nv_mon_stopped = 0; nv_mon_round = m.m_round; nv_mon_values = m.m_values.id;
  nv_hist_begin(values.id);      /* the history of this fold starts here (history.h) */
  return m; }

void result_update3(struct nv_result* self, int64_t round, double shrinkage_ratio, const struct nv_state* state);
void result_update4(struct nv_result* self, int64_t round, double shrinkage_ratio, const struct nv_state* state, struct nv_opaque* wlearner);
/* result.update(round, ..) of the loop: the statistics row written is the one of the learner count AFTER the append
 * ("per-round statistics": row k describes the model with k learners) */
static void nv_loop_update3(struct nv_result* self, int64_t round, double shrinkage_ratio, const struct nv_state* state)
{
  __CPROVER_assert(round >= 0 && (uint64_t)round == self->m_wlearners.size, "fit: update(round, ..) writes the statistics row of the current number of learners");
  result_update3(self, round, shrinkage_ratio, state);
}
static void nv_loop_update4(struct nv_result* self, int64_t round, double shrinkage_ratio, const struct nv_state* state, struct nv_opaque* wlearner)
{
  __CPROVER_assert(round >= 1 && (uint64_t)round == self->m_wlearners.size + 1, "fit: update(round, .., wlearner) writes the statistics row of the learner count after the append");
  __CPROVER_assert(!nv_mon_stopped, "fit: no learner is appended after the monitor has stopped");
  result_update4(self, round, shrinkage_ratio, state, wlearner);
  nv_appended = nv_appended + 1;
}

_Bool early_stopping_done(struct nv_early_stopping* self, const struct nv_tensor2d* errors_losses, const struct nv_indices* train_samples, const struct nv_indices* valid_samples, const struct nv_vec* wlearners, double epsilon, uint64_t patience);
/* optimum.done(...) of the loop: a new observation (the two mean errors of the current `values` are arbitrary doubles),
 * which must be made on the CURRENT learner list and with the configured epsilon / patience */
static _Bool nv_monitor_done(struct nv_early_stopping* self, const struct nv_tensor2d* errors_losses, const struct nv_indices* train_samples,
                             const struct nv_indices* valid_samples, const struct nv_vec* wlearners, double epsilon, uint64_t patience)
{
  __CPROVER_assert(wlearners->size == nv_appended, "fit: the monitor is consulted with the current learner list");
  __CPROVER_assert(NV_SAME(epsilon, nv_epsilon) && patience == nv_patience, "fit: the monitor is consulted with the configured epsilon and patience");
  __CPROVER_assert(!nv_mon_stopped, "fit: the monitor is not consulted again after it has stopped");
  /* the observations ::fit feeds are a history of the history lemma (monitor_history): the k-th consultation (k = 0, 1, ..)
   * sees k learners, on the same index lists */
  __CPROVER_assert(wlearners->size == nv_consulted && nv_h_n == nv_consulted, "fit: the k-th consultation of the monitor (k = 0, 1, ..) is made with k weak learners");
  __CPROVER_assert(train_samples->id == NV_ID_TRAIN && valid_samples->id == NV_ID_VALID, "fit: the monitor is consulted on the training / validation samples given to fit");
  __CPROVER_assert(nv_consulted == 0 || errors_losses->id != nv_obs_values, "fit: every observation is made on values evaluated anew (not those of the previous observation)");
  nv_obs_values = errors_losses->id;
  nv_train_value = nv_nondet_double(); nv_valid_value = nv_nondet_double();
  if (wlearners->size == nv_g_round) nv_g_values = errors_losses->id;
  /* the statement's own account of this observation (ghost summaries of history.h) */
  nv_hist_observe(nv_train_value, nv_valid_value, valid_samples->n != 0, wlearners->size, errors_losses->id, epsilon, patience);
  _Bool r = early_stopping_done(self, errors_losses, train_samples, valid_samples, wlearners, epsilon, patience);
  nv_consulted = nv_consulted + 1; nv_mon_stopped = r; nv_mon_round = self->m_round; nv_mon_values = self->m_values.id;
  return r;
}

/* contracts of the monitor's constructor and accessors: monitor.h */

/* result_t::result_t(values, train, valid, max_rounds): no learners, a statistics row of 8 columns for each of the
 * rounds 0 .. max_rounds (at least max_rounds + 1 rows) */
#define NV_CONTRACT_result_ctor \
__CPROVER_requires(__CPROVER_is_fresh(self, sizeof(*self)) && 0 <= max_rounds && max_rounds < 100000000) \
__CPROVER_assigns(*self, nv_id_counter) \
__CPROVER_ensures(self->m_errors_values == errors_values && self->m_train_samples == train_samples && self->m_valid_samples == valid_samples) \
__CPROVER_ensures(self->m_wlearners.size == 0 && self->m_statistics.rows >= max_rounds + 1 && self->m_statistics.rows <= 100000000 && self->m_statistics.cols == 8)

/* ---- ::fit */
#define NV_RET __CPROVER_return_value
#define NV_CONTRACT_gboost_fit \
__CPROVER_requires(__CPROVER_is_fresh(train_samples, sizeof(*train_samples)) && __CPROVER_is_fresh(valid_samples, sizeof(*valid_samples)) && __CPROVER_is_fresh(prototypes, sizeof(*prototypes)) && prototypes->size <= 100000000) \
__CPROVER_requires(train_samples->id == NV_ID_TRAIN && valid_samples->id == NV_ID_VALID && train_samples->n >= 0 && valid_samples->n >= 0) \
/* ASSUMED parameter domains (registered in gboost_model_t::gboost_model_t; C19) */ \
__CPROVER_requires(10 <= nv_max_rounds && nv_max_rounds <= 1000000 && 1 <= nv_patience && nv_patience <= 1000) \
__CPROVER_assigns(nv_h_n, nv_h_last, nv_h_value, nv_h_snap, nv_h_since, nv_h_below, nv_h_acc, nv_h_stop, nv_h_acc_j, nv_h_snap_j) \
__CPROVER_assigns(nv_id_counter, nv_appended, nv_consulted, nv_mon_round, nv_mon_values, nv_g_values, nv_rows, nv_mon_stopped, nv_obs_values, nv_train_value, nv_valid_value, nv_stat_sink, nv_kept, nv_sel_rows, __CPROVER_object_whole(nv_sel_row), __CPROVER_object_whole(nv_sel_id), __CPROVER_object_whole(nv_sel_by)) \
/* the monitor was consulted once before the first round and once per appended learner, except for the learner of an \
 * early exit (scaling failed): that one is appended without consulting the monitor */ \
__CPROVER_ensures(nv_thrown || (nv_consulted == nv_appended + 1 || nv_consulted == nv_appended)) \
/* the returned fold model keeps exactly optimum.round() learners (before merging), a round the monitor has seen, and \
 * optimum.round() + 1 rows of statistics */ \
/* (a bound first: the contract is also ASSUMED, on a havocked state, by the callback target -- `round + 1` must not wrap there) */ \
__CPROVER_ensures(nv_thrown || nv_mon_round <= 100000000) \
__CPROVER_ensures(nv_thrown || (nv_kept == nv_mon_round && nv_mon_round + 1 <= nv_consulted && NV_RET._0.m_wlearners.size <= nv_kept)) \
__CPROVER_ensures(nv_thrown || (NV_RET._0.m_statistics.rows == (int64_t)nv_mon_round + 1 && NV_RET._0.m_statistics.rows <= nv_rows)) \
/* the returned per-sample values are the monitor's snapshot -- the `values` of the round it reports -- selected by the \
 * training resp. validation samples */ \
__CPROVER_ensures(nv_thrown || (NV_RET._1.id == nv_mon_values && NV_RET._1.by == NV_ID_TRAIN && NV_RET._2.id == nv_mon_values && NV_RET._2.by == NV_ID_VALID)) \
__CPROVER_ensures(nv_thrown || nv_mon_round != nv_g_round || nv_mon_values == nv_g_values) \
/* HISTORY LEVEL (history.h; the statement's summaries of the history of observations this call fed to the monitor): the fold \
 * model keeps exactly as many learners as the round of the LAST ACCEPTED IMPROVEMENT of that history, the returned per-sample \
 * values are that round's, every observation was made (nv_h_n == consultations), and the monitor's last answer is the \
 * statement's verdict */ \
__CPROVER_ensures(nv_thrown || (nv_kept == nv_h_last && nv_h_n == nv_consulted && nv_h_n >= 1 && nv_h_last < nv_h_n)) \
__CPROVER_ensures(nv_thrown || (NV_RET._1.id == nv_h_snap && NV_RET._2.id == nv_h_snap)) \
__CPROVER_ensures(nv_thrown || ((nv_mon_stopped != 0) == (nv_h_stop != 0))) \
/* ghost round nv_h_j: no observation after the kept round was an accepted improvement; the kept round's own observation \
 * was one (or nothing was ever accepted and the model keeps 0 learners), and the returned values are the ones it observed */ \
__CPROVER_ensures(nv_thrown || nv_h_j >= nv_h_n || ((nv_h_j > nv_kept ==> !nv_h_acc_j) && ((nv_h_j == nv_kept && nv_kept > 0) ==> nv_h_acc_j) && ((nv_h_j == nv_kept && nv_h_acc_j) ==> NV_RET._1.id == nv_h_snap_j)))

#define NV_LOOP_gboost_fit_1 \
__CPROVER_assigns(round, shrinkage_ratio, values.id, values.by, result.m_wlearners.size, optimum.m_round, optimum.m_value, optimum.m_values, \
                  nv_id_counter, nv_appended, nv_consulted, nv_mon_round, nv_mon_values, nv_g_values, nv_mon_stopped, nv_obs_values, nv_train_value, nv_valid_value, nv_stat_sink, \
                  nv_h_n, nv_h_last, nv_h_value, nv_h_snap, nv_h_since, nv_h_below, nv_h_acc, nv_h_stop, nv_h_acc_j, nv_h_snap_j) \
/* the monitor's state is the summary of the history fed so far (induction hypothesis of the history lemma) */ \
__CPROVER_loop_invariant(NV_H_STATE(optimum) && nv_h_n == nv_consulted && !nv_h_stop && NV_H_WF && nv_h_since < patience && patience == nv_patience) \
__CPROVER_loop_invariant(0 <= round && round <= max_rounds && max_rounds <= nv_max_rounds && nv_max_rounds + 1 <= nv_rows && result.m_statistics.rows == nv_rows && nv_rows <= 100000000 && result.m_statistics.cols == 8 && !nv_mon_stopped) \
__CPROVER_loop_invariant(result.m_wlearners.size == (uint64_t)round && nv_appended == (uint64_t)round && nv_consulted == (uint64_t)round + 1) \
__CPROVER_loop_invariant(optimum.m_round <= result.m_wlearners.size && nv_mon_round == optimum.m_round && nv_mon_values == optimum.m_values.id) \
__CPROVER_loop_invariant(optimum.m_round != nv_g_round || optimum.m_values.id == nv_g_values) \
__CPROVER_loop_invariant(values.rows == 2 && optimum.m_values.rows == 2 && nv_obs_values == values.id && values.id <= nv_id_counter) \
__CPROVER_loop_invariant(result.m_errors_values == &values && result.m_train_samples == train_samples && result.m_valid_samples == valid_samples) \
__CPROVER_decreases(max_rounds - round)
/* the scan over the weak-learner prototypes: numerics only */
#define NV_LOOP_gboost_fit_2 \
__CPROVER_assigns(best_score, __begin2) \
__CPROVER_loop_invariant(0 <= __begin2 && __begin2 <= __end2) \
__CPROVER_decreases(__end2 - __begin2)
