"""C11, linear-model side: linear_t::fit (src/linear.cpp) under a protocol contract in the style of the gboost `fit` targets.
Numerics (dataset, loss, solver, iterators' caches, the objective function, predict) are erased / havoc; what is modelled are
ghost PROVENANCE TAGS carried by the tensors (see linear.h)."""
import astload
from core import Fn, Target
from cxx2c import Unsupported, qual

T2 = r'^nano::tensor2d_t$|^nano::tensor_t<nano::tensor_vector_storage_t, double, 2'
T1 = r'^nano::tensor1d_t$|^nano::tensor_t<nano::tensor_vector_storage_t, double, 1'
IX = r'^nano::indices_t$|^nano::tensor_t<nano::tensor_vector_storage_t, long, 1'
NPARAMS = lambda k: (lambda d: len([c for c in d['inner'] if c['kind'] == 'ParmVarDecl']) == k)
L = 'src/linear.cpp'

LTYPES = [(T2, 'struct nv_lt'), (T1, 'struct nv_lt'),
          (r'^nano::tensor4d_t$|^nano::tensor_t<nano::tensor_vector_storage_t, double, 4', 'struct nv_lt'),
          (r'^nano::tensor4d_cmap_t$|^nano::tensor_t<nano::tensor_carray_storage_t, double, 4', 'struct nv_lt'),
          (r'^nano::tensor4d_map_t$|^nano::tensor_t<nano::tensor_marray_storage_t, double, 4', 'struct nv_lview'),
          (r'^nano::tensor_range_t$', 'struct nv_range'), (r'^nano::tensor4d_dims_t$|^nano::tensor_dims_t<4', 'struct nv_dims4'), (r'^std::array<long, 4', 'struct nv_dims4'), (IX, 'struct nv_indices'),
          (r'^nano::indices_cmap_t$|^nano::tensor_t<nano::tensor_carray_storage_t, long, 1', 'struct nv_indices'),
          (r'^nano::tensor[12]d_cmap_t$|^nano::tensor_t<nano::tensor_carray_storage_t, double, [12]', 'struct nv_lt'),
          (r'^nano::tensor[12]d_map_t$|^nano::tensor_t<nano::tensor_marray_storage_t, double, [12]', 'struct nv_lview'),
          (r'^std::any$', 'struct nv_lany'), (r'^(nano::)?ml::result_t$', 'struct nv_mlresult'), (r'^(nano::)?(linear::)?result_t$', 'struct nv_lresult'),
          (r'^std::tuple<nano::tensor_t<nano::tensor_vector_storage_t, double, 2>, nano::tensor_t<nano::tensor_vector_storage_t, double, 2>, nano::linear::result_t>$', 'struct nv_cb_ret'),
          (r'^nano::flatten_iterator_t$|^nano::targets_iterator_t$', 'struct nv_fiter'), (r'^(::)?(nano::)?linear::function_t$', 'struct nv_lfunction'),
          (r'^nano::solver_state_t$', 'struct nv_lstate'), (r'^nano::scaling_type$', 'int32_t'), (r'^nano::scalar_stats_t$', 'struct nv_lstats'),
          (r'^nano::solver_status$', 'int32_t'),
          (r'^nano::vector_t$|^Eigen::Matrix<double, -1, 1', 'struct nv_lx'),
          (r'^nano::linear_t$', 'struct nv_linear')]
LOPAQUE = [r'^nano::(dataset_t|loss_t|logger_t|solver_t|param_spaces_t)$', r'^(nano::)?ml::params_t$', r'^std::vector<nano::param_space_t',
           r'^std::(__cxx11::)?(basic_)?string', r'^nano::string_t$']
LCALLS = [(r'^tune\|', 'nv_tune({&1})!'), (r'^move\|', '{0}'), (r'^fit\|', 'linear_fit_inner({&0}, {&1}, {&2}, {&3}, {&4}, {5}, {&6}, {&7})'),
          (r'^ctor\|std::any\|void \((nano::)?linear::result_t &&\)', 'nv_any_of_result({&0})'),
          (r'^evaluate\|', 'linear_evaluate({&0}, {&1}, {&2}, {&3}, {&4}, {5})'),
          (r'^make_tuple\|', '(struct nv_cb_ret){ {0}, {1}, {2} }'),
          (r'^make_file_logger\|', 'nv_opaque_value()'),
          (r'^operator=\|.*\|nano::tensor_t<nano::tensor_vector_storage_t, double, [12]>\|#2', '({0} = {1})'),
          (r'^make_x0\|', 'nv_make_x0({&0}, {&1})'), (r'^upscale\|', 'nv_upscale({&0}, {1}, {&2}, {3}, {4}, {5})'),
          (r'^ctor\|nano::tensor_t<nano::tensor_marray_storage_t, double, [12]>\|', 'nv_lview_of({&0})'),
          (r'^ctor\|nano::flatten_iterator_t\|', 'nv_fiter_make({1})'),
          (r'^ctor\|nano::tensor_t<nano::tensor_carray_storage_t, long, 1>\|void \(const tensor_t<nano::tensor_vector_storage_t, long, 1', '{0}'),
          (r'^ctor\|(nano::)?(linear::)?result_t\|void \(nano::tensor1d_t, nano::tensor2d_t', 'nv_lresult_make({0}, {1}, {&2})'),
          (r'^ctor\|nano::tensor_t<nano::tensor_vector_storage_t, double, [12]>\|void \(const tensor_t<nano::tensor_carray_storage_t, double, [12]UL> &\)', '{0}'),
          (r'^ctor\|nano::tensor_t<nano::tensor_vector_storage_t, double, 1>\|void \((int|long)\)', 'nv_lt_make1({0})'),
          (r'^operator\(\)\|.*tensor_vector_storage_t, double, 1', '(*nv_lt_at({&0}, {1}))'),
          (r'^arange\|', 'nv_arange({0}, {1})'), (r'^cat_dims\|', '(struct nv_dims4){ {0} }'),
          (r'^ctor\|nano::tensor_t<nano::tensor_vector_storage_t, double, 4>\|', 'nv_lt_make4({0})'),
          (r'^ctor\|nano::tensor_t<nano::tensor_vector_storage_t, double, 2>\|void \((int|long), (int|long)\)', 'nv_lt_make2({0}, {1})'),
          (r'^ctor\|nano::tensor_t<nano::tensor_carray_storage_t, double, 4>\|void \(const tensor_t<nano::tensor_marray_storage_t, double, 4', 'nv_lt_of_view({0})'),
          (r'^ctor\|nano::tensor_t<nano::tensor_carray_storage_t, double, [12]>\|void \(const tensor_t<nano::tensor_vector_storage_t, double, [12]', '{0}'),
          (r'^predict\|', 'nv_predict({&0}, {&1}, {&2}, {3})'),
          (r'^max\|', '(9223372036854775807L)')]
LMEMBERS = [(r'^fit_dataset\|', 'nv_learner_fit_dataset({self})'),
            (r'^optimum_trial\|nano::ml::result_t', 'nv_mlresult_optimum'), (r'^trials\|nano::ml::result_t', 'nv_mlresult_trials'),
            (r'^params\|nano::ml::result_t', 'nv_mlresult_params'), (r'^refit_log_path\|nano::ml::result_t', 'nv_opaque_value()'),
            (r'^store\|nano::ml::result_t\|#2', 'nv_store_final({self}, {0}, {1})'),
            (r'^log\|nano::ml::params_t', '@drop'), (r'^solver\|nano::ml::params_t', 'nv_opaque_value()'),
            (r'^make_param_spaces\|', 'nv_opaque_value()'),
            (r'^(batch|cache_flatten|cache_targets)\|nano::(flatten|targets)_iterator_t', '@drop'),
            (r'^scaling\|nano::(flatten|targets)_iterator_t.*#1', 'nv_fiter_set_scaling'), (r'^scaling\|nano::(flatten|targets)_iterator_t.*#0', 'nv_fiter_scaling'),
            (r'^flatten_stats\|', 'nv_fiter_flatten_stats'), (r'^targets_stats\|', 'nv_fiter_targets_stats'),
            (r'^make_function\|', 'nv_make_function({self}, {&0}, {2})'),
            (r'^minimize\|nano::solver_t', 'nv_minimize({&0}, {1})'), (r'^x\|nano::solver_state_t', 'nv_lstate_x'),
            (r'^slice\|nano::tensor_t<nano::tensor_vector_storage_t, double, 4', 'nv_lt_slice({self}, {0})'),
            (r'^slice\|nano::tensor_t<nano::tensor_marray_storage_t, double, 1', 'nv_lview_slice({obj}, {0})'),
            (r'^tensor\|nano::tensor_t<nano::tensor_vector_storage_t, double, 2', 'nv_lt_row({self}, {0})'),
            (r'^error\|nano::loss_t', 'nv_loss_error({0}, {1}, {2})'), (r'^value\|nano::loss_t', 'nv_loss_value({0}, {1}, {2})'),
            (r'^size\|.*(indices_t|tensor_vector_storage_t, long, 1|tensor_base_t<long, 1)', 'nv_indices_size'),
            (r'^(fcalls|gcalls)\|nano::solver_state_t', 'nv_lstate_calls'), (r'^status\|nano::solver_state_t', 'nv_lstate_status'),
            (r'^bias\|', 'nv_function_bias'), (r'^weights\|', 'nv_function_weights')]


# assumed contract of flatten_iterator_t::loop(callback) (C09: the callback is called once per chunk, the chunks tile [0, #samples) and
# carry the inputs / targets of exactly that chunk; serialised: the chunk callbacks of evaluate touch disjoint rows).  nv_obj = the
# iterator; weights, bias, outputs, loss, values = the lambda's captures BY NAME; @CALL = the extracted lambda body (under its contract)
LOOP_BODY = r'''
  __CPROVER_assert(nv_obj->scaling == NVE_scaling_type_none, "evaluate: predictions are made from UNSCALED inputs (the stored model is up-scaled)");
  __CPROVER_assume(nv_e_looped < 1000); nv_e_looped = nv_e_looped + 1;
  int64_t n = outputs->rows, b = 0;
  uint64_t by = nv_obj->by, wid = weights->id, bid = bias->id;
  nv_e_pred = 0; nv_e_cell[0] = 0; nv_e_cell[1] = 0; nv_e_ok[0] = 0; nv_e_ok[1] = 0; nv_e_kind[0] = 0; nv_e_kind[1] = 0;
  while (b < n)
  __CPROVER_assigns(b, nv_e_pred, nv_e_pred_w, nv_e_pred_b, nv_e_pred_by, nv_e_pred_out, nv_e_pred_pos, __CPROVER_object_whole(nv_e_cell), __CPROVER_object_whole(nv_e_kind), __CPROVER_object_whole(nv_e_ok), outputs->w, outputs->b, outputs->by, values->w, values->b, values->by)
  __CPROVER_loop_invariant(0 <= b && b <= n && n == outputs->rows && outputs->rows == values->cols && values->rows == 2)
  __CPROVER_loop_invariant((0 <= nv_g && nv_g < b) ? (nv_e_pred == 1 && nv_e_pred_w == wid && nv_e_pred_b == bid && nv_e_pred_by == by && nv_e_cell[0] == 1 && nv_e_kind[0] == 1 && nv_e_ok[0] && nv_e_cell[1] == 1 && nv_e_kind[1] == 2 && nv_e_ok[1]) : (nv_e_pred == 0 && nv_e_cell[0] == 0 && nv_e_cell[1] == 0))
  __CPROVER_loop_invariant(b > 0 ==> (outputs->w == wid && outputs->b == bid && outputs->by == by && values->w == wid && values->b == bid && values->by == by))
  __CPROVER_decreases(n - b)
  {
    int64_t e = nv_nondet_int64_t(); __CPROVER_assume(b < e && e <= n);
    struct nv_range r; r.b = b; r.e = e;
    struct nv_lt in = nv_lt_zero(), tg = nv_lt_zero();
    in.by = nv_obj->by; in.cb = b; in.ce = e; in.rows = e - b; in.id = nv_nondet_uint64_t(); tg = in; tg.id = nv_nondet_uint64_t();
    uint64_t tnum = nv_nondet_uint64_t();
    @CALL(r, tnum, in, tg);
    b = e;
  }
'''


def default_any_hook(P, n):
    """`::fit(..., logger)` of the refit omits `extra`: clang prints a bare CXXDefaultArgExpr; the default is read from the
    ParmVarDecl of ::fit in the current source and must be an EMPTY std::any (no warm start)"""
    if n.get('kind') != 'CXXDefaultArgExpr' or 'std::any' not in qual(n['type']):
        return None
    d = astload.find_definition(L, 'fit', 'fit', NPARAMS(8))
    prm = [c for c in d['inner'] if c.get('kind') == 'ParmVarDecl'][7]
    init = [c for c in prm.get('inner', []) if c.get('kind') != 'FullComment']
    txt = repr(init)
    ctor = [x for x in astload.walk(init[0])] if init else []
    kinds = [x.get('kind') for x in ctor]
    if not init or any(k in ('DeclRefExpr', 'CallExpr', 'CXXMemberCallExpr') for k in kinds) or 'any' not in txt:
        raise Unsupported('default of ::fit(.., extra) is not an empty std::any')
    nargs = [len([c for c in x.get('inner', [])]) for x in ctor if x.get('kind') in ('CXXTemporaryObjectExpr', 'CXXConstructExpr') and 'any' in qual(x['type'])]
    if not nargs or min(nargs) != 0:
        raise Unsupported('default of ::fit(.., extra) is not an empty std::any')
    P.note('default argument extra = std::any{} -> nv_any_empty()')
    return '(*nv_any_empty())'


def kw_():
    import hooks
    return dict(types=LTYPES, calls=LCALLS, members=LMEMBERS, opaque=LOPAQUE, hooks=[hooks.param_hook(), default_any_hook, hooks.lambda_stub_hook('loop', 'nv_fiter_loop', ['linear_evaluate_chunk'], LOOP_BODY, member=True)])


def linear_fns():
    kw = dict(kw_(), self_struct='struct nv_linear', aggregates=['struct nv_cb_ret'])
    return dict(fit=Fn('linear_model_fit', L, 'fit', flt='linear_t::fit', select=NPARAMS(4), ret='struct nv_mlresult', **kw),
                callback=Fn('linear_fit_callback', L, 'fit', flt='linear_t::fit', select=NPARAMS(4), lambda_index=0, captures=True, ret='struct nv_cb_ret', **kw))


def inner_fns():
    kw = kw_()
    return dict(inner=Fn('linear_fit_inner', L, 'fit', flt='fit', select=NPARAMS(8), ret='struct nv_lresult', **kw),
                evaluate=Fn('linear_evaluate', 'src/linear/util.cpp', 'evaluate', flt='linear::evaluate', **kw),
                rctor=Fn('linear_result_ctor', 'src/linear/result.cpp', 'result_t', flt='linear::result_t::result_t', select=NPARAMS(3), **dict(kw, self_struct='struct nv_lresult')),
                chunk=Fn('linear_evaluate_chunk', 'src/linear/util.cpp', 'evaluate', flt='linear::evaluate', lambda_index=0, captures=True, **kw))


def targets():
    LH = 'specs/C11/linear.h'
    f, g = linear_fns, inner_fns
    EN = [(L, 'nano::scaling_type')]
    return [Target('linear_result_ctor', lambda: [g()['rctor']], LH, enforce='linear_result_ctor', enums=EN),
            Target('linear_fit_inner', lambda: [g()['inner'], g()['rctor']], LH, enforce='linear_fit_inner', replace=['linear_result_ctor'], enums=EN),
            Target('linear_evaluate_chunk', lambda: [g()['chunk']], LH, enforce='linear_evaluate_chunk', enums=EN),
            Target('linear_evaluate', lambda: [g()['evaluate'], g()['chunk']], LH, enforce='linear_evaluate', replace=['linear_evaluate_chunk'], enums=EN, loops=1),
            Target('linear_fit_callback', lambda: [f()['callback'], g()['inner'], g()['evaluate']], LH, enforce='linear_fit_callback', replace=['linear_fit_inner', 'linear_evaluate'], enums=EN),
            Target('linear_model_fit', lambda: [f()['fit'], g()['inner'], g()['evaluate']], LH, enforce='linear_model_fit', replace=['linear_fit_inner', 'linear_evaluate'], enums=EN)]
