"""C11: "the final boosting model predicts the AVERAGE of the per-fold models of the optimum trial" -- the linearity step, over
the reals, at one ghost output cell (sample, output component).  The hypotheses are restatements of contracts proved on the real
code (each VC names them); the lemma is an induction over the folds / the learner positions, one VC per base case and step:

  P1  gboost_model_t::do_predict (gmodel_do_predict): prediction = bias + sum over the learners of their contributions, for the
      final model and for every fold model (accumulation T' = T + contribution, from T = 0 at the bias);
  P2  gboost_model_t::fit (gmodel_fit): bias* = (0 + sum_f bias_f) * d with d = 1 / folds; the learner list is one clone of every
      learner of every fold (accumulated fold by fold, position by position), then merged, then every learner scaled by d once;
  P3  wlearner::merge step (try_merge, sfw_do_try_merge): the other learner's tables are ADDED to this one's and the other is
      dropped -- so the two contributions m_a, m_b are replaced by m_a + m_b (do_predict adds the selected table: C10);
  P4  wlearner scale (C10 wl_scale / sfw_scale): every table row is multiplied by d once -- so the contribution m becomes d * m.

double is Real here (assumption: no rounding); everything else is exact algebra."""
from core import VC

HDR = '(set-option :produce-models true)\n'


def _vc(name, decls, hyps, claim, about, expect='unsat'):
    s = HDR + ''.join(f'(declare-const {d} Real)\n' for d in decls.split())
    for h in hyps:
        s += f'(assert {h})\n'
    if claim is not None:
        s += f'(assert (not {claim}))\n'
    return VC('average_lemma/' + name, s, about=about, group='average_lemma', timeout=20, expect=expect)


def vcs():
    out = []
    # ---- folds: SP_n = sum of the fold predictions, SB_n = sum of the fold biases, SC_n = sum of the folds' learner sums
    out.append(_vc('fold_sum_base: no fold summed yet', 'SP SB SC', ['(= SP 0.0)', '(= SB 0.0)', '(= SC 0.0)'], '(= SP (+ SB SC))',
                   'induction over the folds, base (P2: the bias accumulator starts from zero, the learner list is cleared)'))
    out.append(_vc('fold_sum_step: one more fold', 'SP SB SC b c p', ['(= SP (+ SB SC))', '(= p (+ b c))'], '(= (+ SP p) (+ (+ SB b) (+ SC c)))',
                   'induction over the folds, step: fold prediction p = b + c (P1 for the fold model), bias sum += b (P2), clone list sum += c'))
    # ---- clones of one fold, position by position: the list sum grows by every learner's contribution exactly once
    out.append(_vc('clone_sum_step: one more clone', 'Q SC part c_k', ['(= Q (+ SC part))'], '(= (+ Q c_k) (+ SC (+ part c_k)))',
                   'induction over the positions of one fold (P2: exactly one clone of every learner; clone copies the learner)'))
    # ---- merge: a step replaces (m_a, m_b) by (m_a + m_b): the sum of the list is unchanged
    out.append(_vc('merge_step: sum preserved', 'S rest m_a m_b', ['(= S (+ rest (+ m_a m_b)))'], '(= S (+ rest (+ m_a m_b)))',
                   'P3: one try_merge step keeps the sum of the contributions of the list (a trivial identity once P3 is stated: the content is P3)'))
    # ---- scaling + accumulation in the final do_predict: T_j = d * M_j
    out.append(_vc('scaled_sum_base: no learner yet', 'T M d', ['(= T 0.0)', '(= M 0.0)'], '(= T (* d M))', 'induction over the merged list, base'))
    out.append(_vc('scaled_sum_step: one more scaled learner', 'T M d m', ['(= T (* d M))'], '(= (+ T (* d m)) (* d (+ M m)))',
                   'induction over the merged list, step: P4 (contribution d * m) accumulated by P1'))
    # ---- conclusion
    out.append(_vc('mean_of_folds: final prediction == (sum of fold predictions) / folds', 'P B T SP SB SC M d F',
                   ['(>= F 1.0)', '(= (* d F) 1.0)', '(= SP (+ SB SC))', '(= M SC)', '(= T (* d M))', '(= B (* (+ 0.0 SB) d))', '(= P (+ B T))'],
                   '(and (= P (* d SP)) (= (* P F) SP))',
                   'P1 (final model: P = bias* + T), P2 (bias* = (0 + SB) * d, d = 1 / folds), fold_sum (SP = SB + SC), clone_sum + merge_step (M = SC), scaled_sum (T = d * M)'))
    out.append(_vc('hypotheses_satisfiable', 'P B T SP SB SC M d F',
                   ['(>= F 1.0)', '(= (* d F) 1.0)', '(= SP (+ SB SC))', '(= M SC)', '(= T (* d M))', '(= B (* (+ 0.0 SB) d))', '(= P (+ B T))', '(> SP 1.0)', '(> F 2.0)'],
                   None, 'vacuity guard of mean_of_folds: its hypotheses have a model', expect='sat'))
    # ---- what goes wrong without the scaling / with a learner scaled twice: the claim must NOT be provable (guards the lemma against triviality)
    out.append(_vc('unscaled_learners_refute_the_mean', 'P B T SP SB SC M d F',
                   ['(>= F 2.0)', '(= (* d F) 1.0)', '(= SP (+ SB SC))', '(= M SC)', '(= T M)', '(= B (* (+ 0.0 SB) d))', '(= P (+ B T))', '(not (= SC 0.0))'],
                   '(not (= (* P F) SP))', 'sanity: with unscaled learners (T = M) and folds >= 2 the prediction is never the mean'))
    return out
