/* C03 (stop-test protocol) / C02 (honest result) for the proximal bundle solvers:
 *   csearch_t::search (src/solver/csearch.cpp), solver_rqb_t::do_minimize, base_solver_fpba_t<>::do_minimize.
 * The bundle is seen through a ghost-versioned protocol view: `ver` is fresh whenever its contents change (solve, append,
 * moveto), `solved_ver` is the version the multipliers were computed for; the proximity centre (m_x, m_gx, m_fx) is
 * tracked with the ghost vector identities of specs/C02/nonls.h.  The numerics (QP solve, smeared quantities, delta,
 * proximal point, proximity parameter) are erased; the stopping tests record on which version they were evaluated. */
#ifndef NV_PROTOCOL_H
#define NV_PROTOCOL_H
#include "../C02/nonls.h"
enum { NVE_csearch_status_failed = 0, NVE_csearch_status_max_iters = 1, NVE_csearch_status_converged = 2, NVE_csearch_status_null_step = 3,
       NVE_csearch_status_descent_step = 4, NVE_csearch_status_cutting_plane_step = 5 };
struct nv_pbundle { uint64_t ver, solved_ver; struct nv_vec m_x, m_gx; double m_fx; double prev_fx; /* ghost: centre value before the last moveto */ };
struct nv_point { double m_t; int32_t m_status; struct nv_vec m_y, m_gy; double m_fy; };
struct nv_csearch { struct nv_function m_function; double m_m1, m_m2, m_m3, m_m4, m_interpol, m_extrapol; struct nv_point m_point; };
#define NV_SERIOUS(st) ((st) == NVE_csearch_status_descent_step || (st) == NVE_csearch_status_cutting_plane_step)
/* sufficient descent of the trial value fy against the centre value fx (uninterpreted arithmetic: the form of the references) */
#define NV_DESCENT_TEST(fx, fy, m1, delta) (NV_FSUB(fx, fy) >= NV_FMUL(m1, delta))
struct nv_test { _Bool res; uint64_t at; double eps; };
struct nv_test nv_econv, nv_sconv;     /* ghost: last evaluation of bundle.econverged / sconverged: result, bundle version, epsilon */
uint64_t nv_status_at;                 /* ghost: evaluation count at the last write of m_point.m_status */
/* ghost: the erased quantities the step tests of csearch_t::search compare, as computed for the LAST trial (at = evaluation count):
 * delta = bundle.delta(miu/t), e = bundle.smeared_e(), gydot = gy.dot(y - x), sdot = smeared_s.dot(y - x) */
struct nv_trial_t { double delta, e, gydot, sdot; uint64_t at; };
struct nv_trial_t nv_trial;
static double nv_pb_delta(const struct nv_pbundle* b) { double r = nv_nondet_double(); nv_trial.delta = r; nv_trial.at = nv_ver_counter; return r; }
static double nv_pb_smeared_e(const struct nv_pbundle* b) { double r = nv_nondet_double(); nv_trial.e = r; return r; }
static double nv_gy_dot(void) { double r = nv_nondet_double(); nv_trial.gydot = r; return r; }
static double nv_s_dot(void) { double r = nv_nondet_double(); nv_trial.sdot = r; return r; }
uint64_t nv_w_bver, nv_w_bsolved, nv_w_centre; double nv_w_centre_fx;   /* witnesses: the solver's bundle (version, solved version, centre) */

static uint64_t nv_fresh64(void) { uint64_t v = nv_nondet_uint64_t(); __CPROVER_assume(v != 0); return v; }
static void nv_pb_note(const struct nv_pbundle* b) { nv_w_bver = b->ver; nv_w_bsolved = b->solved_ver; nv_w_centre = b->m_x.id; nv_w_centre_fx = b->m_fx; }
/* bundle_t::solve: new multipliers for the current bundle */
static void nv_pb_solve(struct nv_pbundle* b) { b->ver = nv_fresh64(); b->solved_ver = b->ver; nv_pb_note(b); }
/* bundle_t::econverged / sconverged (contracts in specs/C03/bundle.h): a function of the current bundle and epsilon */
static _Bool nv_pb_econverged(const struct nv_pbundle* b, double eps) { _Bool r = nv_nondet__Bool(); nv_econv.res = r; nv_econv.at = b->ver; nv_econv.eps = eps; return r; }
static _Bool nv_pb_sconverged(const struct nv_pbundle* b, double eps) { _Bool r = nv_nondet__Bool(); nv_sconv.res = r; nv_sconv.at = b->ver; nv_sconv.eps = eps; return r; }
static const struct nv_vec* nv_pb_x(const struct nv_pbundle* b) { return &b->m_x; }
static const struct nv_vec* nv_pb_gx(const struct nv_pbundle* b) { return &b->m_gx; }
static double nv_pb_fx(const struct nv_pbundle* b) { return b->m_fx; }
/* bundle_t::moveto(y, gy, fy): (y, gy, fy) becomes the proximity centre (src/solver/bundle.cpp: m_x = y; m_gx = gy; m_fx = fy);
 * bundle_t::append(y, gy, fy): the centre is kept; both change the bundle */
static void nv_pb_moveto(struct nv_pbundle* b, const struct nv_vec* y, const struct nv_vec* gy, double fy)
{ b->ver = nv_fresh64(); b->prev_fx = b->m_fx; b->m_x = *y; b->m_gx = *gy; b->m_fx = fy; nv_pb_note(b); }
static void nv_pb_append(struct nv_pbundle* b, const struct nv_vec* y, const struct nv_vec* gy, double fy) { b->ver = nv_fresh64(); nv_pb_note(b); }
/* bundle_t::make(state, ..) -> bundle_t(state, max_size): the centre is the state's (x, gx, fx) (constructor contract in specs/C03/bundle.h) */
static struct nv_pbundle nv_pb_make(const struct nv_state* s)
{
  struct nv_pbundle b; b.ver = nv_fresh64(); b.solved_ver = 0; b.m_x = nv_state_x(s); b.m_gx = nv_state_gx(s); b.m_fx = s->m_fx;
  if (s->eval_ver == s->ver) b.m_gx.grad_of = b.m_x.id;
  nv_pb_note(&b); return b;
}
/* csearch_t::make: parameters copied; the stored point is the default one (status failed) */
static struct nv_csearch nv_cs_make(const struct nv_function* f)
{
  struct nv_csearch c; c.m_m1 = nv_nondet_double(); c.m_m2 = nv_nondet_double(); c.m_m3 = nv_nondet_double(); c.m_m4 = nv_nondet_double();
  c.m_interpol = nv_nondet_double(); c.m_extrapol = nv_nondet_double();
  nv_status_at = 0;
  c.m_point.m_t = 1.0; c.m_point.m_status = NVE_csearch_status_failed; c.m_point.m_y = nv_vec_fresh(); c.m_point.m_gy = nv_vec_fresh(); c.m_point.m_fy = 0.0;
  return c;
}
/* nesterov_sequence_t::update(z): a new point computed from z and the sequence's history */
struct nv_vec nv_seq_x;
static struct nv_vec* nv_seq_update(void) { nv_seq_x = nv_vec_fresh(); return &nv_seq_x; }

/* RQB moves its state with state.update(y, gy, fy) right after bundle.moveto(y, gy, fy) (src/solver/rqb.cpp; the assert(fy < state.fx())
 * next to it is compiled out).  C02 "the value is not larger than the starting value" for RQB: every such move is to the trial of the
 * last search, and that trial passed the sufficient-descent test against the centre it replaces: f(centre) - fy >= m1 * delta
 * (with delta >= 0, a property of the erased numerics, the value then never increases). */
static _Bool nv_rqb_move(struct nv_state* s, const struct nv_pbundle* b, const struct nv_csearch* cs, const struct nv_vec* y, const struct nv_vec* gy, double fy)
{
  __CPROVER_assert(NV_SAME(fy, cs->m_point.m_fy) && nv_trial.at == nv_ver_counter, "RQB moves its state only to the trial point returned by the last curve search");
  __CPROVER_assert(NV_DESCENT_TEST(b->prev_fx, fy, cs->m_m1, nv_trial.delta), "RQB moves its state only to a trial that passed the sufficient-descent test f(centre) - fy >= m1 * delta of that search");
  return nv_state_update3(s, y, gy, fy);
}

/* ---- csearch_t::search */
#define NV_STEP(st) ((st) == NVE_csearch_status_null_step || (st) == NVE_csearch_status_descent_step || (st) == NVE_csearch_status_cutting_plane_step)
#define NV_PT (self->m_point)
#define NV_CONTRACT_csearch_search \
__CPROVER_requires(__CPROVER_is_fresh(self, sizeof(*self)) && __CPROVER_is_fresh(bundle, sizeof(*bundle)) && NV_SOLVER_PARAMS_OK && max_evals == nv_max_evals) \
/* callers (rqb / fpba) enter with budget left: their own loop condition is the same test, with nothing evaluated in between */ \
__CPROVER_requires(nv_gcount <= nv_ver_counter && nv_ver_counter < 2000000000u && nv_ver_counter + nv_gcount < (uint64_t)max_evals && nv_status_at <= nv_ver_counter) \
__CPROVER_requires(bundle->m_x.id != 0 && bundle->ver != 0) \
__CPROVER_assigns(self->m_point, bundle->ver, bundle->solved_ver, nv_ver_counter, nv_gcount, nv_econv, nv_sconv, nv_status_at, nv_trial, nv_w_bver, nv_w_bsolved, nv_w_centre, nv_w_centre_fx) \
__CPROVER_ensures(__CPROVER_return_value == &self->m_point) \
/* C02: the returned (y, gy, fy) is one evaluation */ \
__CPROVER_ensures(NV_TRIPLE(NV_PT.m_y, NV_PT.m_gy, NV_PT.m_fy)) \
/* C03: converged (decided in this call, see the next-but-one clause) => both stopping tests were evaluated true, with the caller's \
 * epsilon, on the bundle as it is returned, and that bundle is solved */ \
__CPROVER_ensures((NV_PT.m_status == NVE_csearch_status_converged && nv_status_at == nv_ver_counter) ==> (nv_econv.res && nv_sconv.res && nv_econv.at == bundle->ver && nv_sconv.at == bundle->ver \
  && bundle->solved_ver == bundle->ver && NV_SAME(nv_econv.eps, epsilon) && NV_SAME(nv_sconv.eps, epsilon))) \
/* C03 / C02: a non-finite value is reported as failed */ \
__CPROVER_ensures(!NV_ISFIN(NV_PT.m_fy) ==> NV_PT.m_status == NVE_csearch_status_failed) \
/* C02: a status that makes a claim about the returned point (a step to take, convergence) was decided for that point: it was written \
 * in this call, after the last evaluation (failed / max_iters claim nothing about the point). \
 * This clause was refuted before the library repair 778c4d3 (genuine defect, replay/C02_rqb_replay.cpp): m_point.m_status was not \
 * reset at entry, so when the budget test ended the loop after a `continue` / new trial the status of the PREVIOUS call came back \
 * with the new point (RQB then moved to a trial point that was not accepted and returned a value above the starting one) */ \
__CPROVER_ensures((NV_STEP(NV_PT.m_status) || NV_PT.m_status == NVE_csearch_status_converged) ==> nv_status_at == nv_ver_counter) \
/* C02 (f <= f0 for RQB; (2) of the references): a step is reported only for a trial that PASSED the corresponding tests in this call, \
 * on the quantities computed for that trial: \
 *   serious step (descent_step, cutting_plane_step): sufficient descent  f(centre) - fy >= m1 * delta; \
 *   descent_step: gy.(y - x) >= -m2 * delta;   cutting_plane_step: not that, and (sconverged or s.(y - x) >= -m4 * delta); \
 *   null_step: no sufficient descent and e <= m3 * delta */ \
__CPROVER_ensures(NV_STEP(NV_PT.m_status) ==> nv_trial.at == nv_ver_counter) \
__CPROVER_ensures(NV_SERIOUS(NV_PT.m_status) ==> NV_DESCENT_TEST(bundle->m_fx, NV_PT.m_fy, self->m_m1, nv_trial.delta)) \
__CPROVER_ensures(NV_PT.m_status == NVE_csearch_status_descent_step ==> nv_trial.gydot >= NV_FMUL(NV_FNEG(self->m_m2), nv_trial.delta)) \
__CPROVER_ensures(NV_PT.m_status == NVE_csearch_status_cutting_plane_step ==> (!(nv_trial.gydot >= NV_FMUL(NV_FNEG(self->m_m2), nv_trial.delta)) \
  && ((nv_sconv.res && nv_sconv.at == bundle->ver) || nv_trial.sdot >= NV_FMUL(NV_FNEG(self->m_m4), nv_trial.delta)))) \
__CPROVER_ensures(NV_PT.m_status == NVE_csearch_status_null_step ==> (!NV_DESCENT_TEST(bundle->m_fx, NV_PT.m_fy, self->m_m1, nv_trial.delta) \
  && nv_trial.e <= NV_FMUL(self->m_m3, nv_trial.delta))) \
/* the proximity centre is not moved; budget: at most one evaluation beyond max_evals */ \
__CPROVER_ensures(bundle->m_x.id == __CPROVER_old(bundle->m_x.id) && NV_SAME(bundle->m_fx, __CPROVER_old(bundle->m_fx)) && bundle->ver != 0) \
__CPROVER_ensures(nv_ver_counter > __CPROVER_old(nv_ver_counter) && nv_gcount - __CPROVER_old(nv_gcount) == nv_ver_counter - __CPROVER_old(nv_ver_counter) && nv_gcount <= nv_ver_counter && nv_ver_counter < 2000000000u && nv_ver_counter + nv_gcount < (uint64_t)max_evals + 2) \
__CPROVER_ensures(nv_w_bver == bundle->ver && nv_w_bsolved == bundle->solved_ver && nv_w_centre == bundle->m_x.id && NV_SAME(nv_w_centre_fx, bundle->m_fx) && nv_status_at <= nv_ver_counter)
#define NV_LOOP_csearch_search_1 \
__CPROVER_assigns(self->m_point, tL, tR, bundle->ver, bundle->solved_ver, nv_ver_counter, nv_gcount, nv_econv, nv_sconv, nv_status_at, nv_trial, nv_w_bver, nv_w_bsolved, nv_w_centre, nv_w_centre_fx) \
__CPROVER_loop_invariant(nv_gcount <= nv_ver_counter && nv_ver_counter < 2000000000u && nv_ver_counter + nv_gcount < (uint64_t)max_evals + 2 && nv_status_at <= __CPROVER_loop_entry(nv_ver_counter) && NV_PT.m_status == __CPROVER_loop_entry(NV_PT.m_status)) \
__CPROVER_loop_invariant(nv_ver_counter >= __CPROVER_loop_entry(nv_ver_counter) && nv_gcount - __CPROVER_loop_entry(nv_gcount) == nv_ver_counter - __CPROVER_loop_entry(nv_ver_counter)) \
__CPROVER_loop_invariant(bundle->m_x.id == __CPROVER_loop_entry(bundle->m_x.id) && NV_SAME(bundle->m_fx, __CPROVER_loop_entry(bundle->m_fx)) && bundle->ver != 0) \
__CPROVER_loop_invariant(nv_ver_counter > __CPROVER_loop_entry(nv_ver_counter) ==> (NV_TRIPLE(NV_PT.m_y, NV_PT.m_gy, NV_PT.m_fy) && NV_ISFIN(NV_PT.m_fy) && nv_w_bver == bundle->ver && nv_w_bsolved == bundle->solved_ver && nv_w_centre == bundle->m_x.id && NV_SAME(nv_w_centre_fx, bundle->m_fx))) \
__CPROVER_decreases((uint64_t)max_evals + 100 - nv_ver_counter - nv_gcount)

/* ---- solver_rqb_t::do_minimize / base_solver_fpba_t<tsequence>::do_minimize
 * C02: status in {converged, max_iters, failed}; the reported (x, g, f) is one evaluation; counts; unless failed the value and
 *      the point are finite; budget (search may run one evaluation over, fpba adds one per outer iteration);
 *      fpba keeps the best point with update_if_better: the value never exceeds the starting value.  (RQB moves its state
 *      with state.update on descent steps: f <= f0 then rests on delta >= 0, numerics, not claimed.)
 * C03: converged => the curve search decided `converged` for the final bundle: both stopping tests evaluated true, with the
 *      solver's epsilon, on the bundle version returned by its last solve; RQB: the returned state is that bundle's
 *      proximity centre; FPBA: the returned (best) value is not above the centre's value (the centre is the momentum point,
 *      the state the best of all centres; stated for a finite centre value: a momentum point with a non-finite value is
 *      caught by the next search, which reports failed). */
#define NV_BUNDLE_CONV (nv_econv.res && nv_sconv.res && nv_econv.at == nv_w_bver && nv_sconv.at == nv_w_bver && nv_w_bsolved == nv_w_bver \
  && NV_SAME(nv_econv.eps, nv_epsilon) && NV_SAME(nv_sconv.eps, nv_epsilon))
#define NV_PROX_GHOSTS nv_econv, nv_sconv, nv_status_at, nv_trial, nv_w_bver, nv_w_bsolved, nv_w_centre, nv_w_centre_fx
#define NV_PROX_ENSURES_C02(EXTRA) \
__CPROVER_ensures(NV_STATUS_OK(NV_RET.m_status)) \
__CPROVER_ensures(NV_RET.ver != 0 && NV_CONS_FULL(NV_RET)) \
__CPROVER_ensures(NV_COUNTS2_OK(NV_RET)) \
__CPROVER_ensures(NV_RET.m_status != NVE_solver_status_failed ==> (NV_ISFIN(NV_RET.m_fx) && NV_RET.xfin)) \
__CPROVER_ensures(nv_gcount <= nv_ver_counter && nv_ver_counter < 2000000000u && nv_ver_counter + nv_gcount < (uint64_t)nv_max_evals + 2 + 2 * (EXTRA))
#if defined(NV_C03)
#define NV_RQB_ENSURES NV_RQB_ENSURES_C03
#define NV_FPBA_ENSURES NV_FPBA_ENSURES_C03
#elif defined(NV_C02)
#define NV_RQB_ENSURES NV_PROX_ENSURES_C02(0)
#define NV_FPBA_ENSURES NV_PROX_ENSURES_C02(1) __CPROVER_ensures(NV_RET.m_fx <= nv_f0)
#else
#define NV_RQB_ENSURES NV_PROX_ENSURES_C02(0) NV_RQB_ENSURES_C03
#define NV_FPBA_ENSURES NV_PROX_ENSURES_C02(1) __CPROVER_ensures(NV_RET.m_fx <= nv_f0) NV_FPBA_ENSURES_C03
#endif
#define NV_RQB_ENSURES_C03 \
__CPROVER_ensures(NV_RET.m_status == NVE_solver_status_converged ==> (NV_BUNDLE_CONV && NV_RET.ver == nv_w_centre && NV_SAME(NV_RET.m_fx, nv_w_centre_fx)))
#define NV_FPBA_ENSURES_C03 \
__CPROVER_ensures(NV_RET.m_status == NVE_solver_status_converged ==> (NV_BUNDLE_CONV && (NV_ISFIN(nv_w_centre_fx) ==> NV_RET.m_fx <= nv_w_centre_fx)))
#define NV_PROX_ASSIGNS __CPROVER_assigns(nv_ver_counter, nv_gcount, NV_PROX_GHOSTS, nv_seq_x)
#define NV_PROX_STATE(s) ((s).m_status == NVE_solver_status_max_iters && (s).ver != 0 && NV_CONS_FULL(s) && NV_ISFIN((s).m_fx) && (s).xfin && NV_COUNTS2_OK(s))
#define NV_PROX_INV(EXTRA) (NV_PROX_STATE(state) && 1 <= nv_ver_counter && nv_gcount <= nv_ver_counter && nv_ver_counter < 2000000000u \
  && nv_ver_counter + nv_gcount < (uint64_t)nv_max_evals + 2 + 2 * (EXTRA) && nv_status_at <= nv_ver_counter \
  && bundle.ver != 0 && bundle.m_x.id != 0 && nv_w_bver == bundle.ver && nv_w_bsolved == bundle.solved_ver && nv_w_centre == bundle.m_x.id && NV_SAME(nv_w_centre_fx, bundle.m_fx))
#define NV_CONTRACT_rqb_do_minimize NV_NONLS_REQUIRES NV_PROX_ASSIGNS NV_RQB_ENSURES
#define NV_LOOP_rqb_do_minimize_1 \
__CPROVER_assigns(state, bundle, csearch, Gn, Gn1, nv_ver_counter, nv_gcount, NV_PROX_GHOSTS) \
__CPROVER_loop_invariant(NV_PROX_INV(0) && state.ver == bundle.m_x.id && NV_SAME(state.m_fx, bundle.m_fx)) \
NV_DECREASES2
#define NV_CONTRACT_fpba_do_minimize NV_NONLS_REQUIRES NV_PROX_ASSIGNS NV_FPBA_ENSURES
#define NV_LOOP_fpba_do_minimize_1 \
__CPROVER_assigns(state, bundle, csearch, gx, nv_ver_counter, nv_gcount, NV_PROX_GHOSTS, nv_seq_x) \
__CPROVER_loop_invariant(NV_PROX_INV(1) && state.m_fx <= nv_f0 && (NV_ISFIN(bundle.m_fx) ==> state.m_fx <= bundle.m_fx)) \
NV_DECREASES2
/* the lambda apply_nesterov_sequence(z, gz, fz) of fpba: offers (z, gz, fz) to the best state, moves the bundle to the momentum
 * point x (one evaluation), offers that too */
#define NV_CONTRACT_fpba_nesterov \
__CPROVER_requires(__CPROVER_is_fresh(z, sizeof(*z)) && __CPROVER_is_fresh(gz, sizeof(*gz)) && __CPROVER_is_fresh(state, sizeof(*state)) && __CPROVER_is_fresh(bundle, sizeof(*bundle)) \
  && __CPROVER_is_fresh(gx, sizeof(*gx)) && __CPROVER_is_fresh(function, sizeof(*function)) && __CPROVER_is_fresh(sequence, sizeof(*sequence))) \
__CPROVER_requires(NV_TRIPLE(*z, *gz, fz) && NV_PROX_STATE(*state) && state->m_fx <= nv_f0 && nv_gcount <= nv_ver_counter && nv_ver_counter < 2000000000u) \
__CPROVER_assigns(*state, *bundle, *gx, nv_ver_counter, nv_gcount, nv_w_bver, nv_w_bsolved, nv_w_centre, nv_w_centre_fx, nv_seq_x) \
__CPROVER_ensures(NV_PROX_STATE(*state)) __CPROVER_ensures(state->m_fx <= nv_f0) __CPROVER_ensures(NV_ISFIN(bundle->m_fx) ==> state->m_fx <= bundle->m_fx) __CPROVER_ensures(!(state->m_fx > __CPROVER_old(state->m_fx))) \
__CPROVER_ensures(nv_ver_counter == __CPROVER_old(nv_ver_counter) + 1 && nv_gcount == __CPROVER_old(nv_gcount) + 1) \
__CPROVER_ensures(bundle->ver != 0 && bundle->m_x.id != 0 && nv_w_bver == bundle->ver && nv_w_bsolved == bundle->solved_ver && nv_w_centre == bundle->m_x.id && NV_SAME(nv_w_centre_fx, bundle->m_fx))
#endif
