/* C03 (stop-test protocol) / C02 (honest result) for the proximal bundle solvers:
 *   csearch_t::search (src/solver/csearch.cpp), solver_rqb_t::do_minimize, base_solver_fpba_t<>::do_minimize.
 * The bundle is seen through a ghost-versioned protocol view: `ver` is fresh whenever its contents change (solve, append,
 * moveto), `solved_ver` is the version the multipliers were computed for; the proximity centre (m_x, m_gx, m_fx) is
 * tracked with the ghost vector identities of specs/C02/nonls.h.  The numerics (QP solve, smeared quantities, delta,
 * proximal point, proximity parameter) are erased; the stopping tests record on which version they were evaluated. */
#ifndef NV_PROTOCOL_H
#define NV_PROTOCOL_H
#include "../C02/nonls.h"
enum { NVE_csearch_status_failed = 0, NVE_csearch_status_max_iters = 1, NVE_csearch_status_converged = 2, NVE_csearch_status_null_step = 3,
       NVE_csearch_status_descent_step = 4, NVE_csearch_status_cutting_plane_step = 5 };
struct nv_pbundle { uint64_t ver, solved_ver; struct nv_vec m_x, m_gx; double m_fx; };
struct nv_point { double m_t; int32_t m_status; struct nv_vec m_y, m_gy; double m_fy; };
struct nv_csearch { struct nv_function m_function; double m_m1, m_m2, m_m3, m_m4, m_interpol, m_extrapol; struct nv_point m_point; };
struct nv_test { _Bool res; uint64_t at; double eps; };
struct nv_test nv_econv, nv_sconv;     /* ghost: last evaluation of bundle.econverged / sconverged: result, bundle version, epsilon */
uint64_t nv_status_at;                 /* ghost: evaluation count at the last write of m_point.m_status */
uint64_t nv_w_bver, nv_w_bsolved, nv_w_centre; double nv_w_centre_fx;   /* witnesses: the solver's bundle (version, solved version, centre) */

static uint64_t nv_fresh64(void) { uint64_t v = nv_nondet_uint64_t(); __CPROVER_assume(v != 0); return v; }
static void nv_pb_note(const struct nv_pbundle* b) { nv_w_bver = b->ver; nv_w_bsolved = b->solved_ver; nv_w_centre = b->m_x.id; nv_w_centre_fx = b->m_fx; }
/* bundle_t::solve: new multipliers for the current bundle */
static void nv_pb_solve(struct nv_pbundle* b) { b->ver = nv_fresh64(); b->solved_ver = b->ver; nv_pb_note(b); }
/* bundle_t::econverged / sconverged (contracts in specs/C03/bundle.h): a function of the current bundle and epsilon */
static _Bool nv_pb_econverged(const struct nv_pbundle* b, double eps) { _Bool r = nv_nondet__Bool(); nv_econv.res = r; nv_econv.at = b->ver; nv_econv.eps = eps; return r; }
static _Bool nv_pb_sconverged(const struct nv_pbundle* b, double eps) { _Bool r = nv_nondet__Bool(); nv_sconv.res = r; nv_sconv.at = b->ver; nv_sconv.eps = eps; return r; }
static const struct nv_vec* nv_pb_x(const struct nv_pbundle* b) { return &b->m_x; }
static const struct nv_vec* nv_pb_gx(const struct nv_pbundle* b) { return &b->m_gx; }
static double nv_pb_fx(const struct nv_pbundle* b) { return b->m_fx; }
/* bundle_t::moveto(y, gy, fy): (y, gy, fy) becomes the proximity centre (src/solver/bundle.cpp: m_x = y; m_gx = gy; m_fx = fy);
 * bundle_t::append(y, gy, fy): the centre is kept; both change the bundle */
static void nv_pb_moveto(struct nv_pbundle* b, const struct nv_vec* y, const struct nv_vec* gy, double fy)
{ b->ver = nv_fresh64(); b->m_x = *y; b->m_gx = *gy; b->m_fx = fy; nv_pb_note(b); }
static void nv_pb_append(struct nv_pbundle* b, const struct nv_vec* y, const struct nv_vec* gy, double fy) { b->ver = nv_fresh64(); nv_pb_note(b); }
/* bundle_t::make(state, ..) -> bundle_t(state, max_size): the centre is the state's (x, gx, fx) (constructor contract in specs/C03/bundle.h) */
static struct nv_pbundle nv_pb_make(const struct nv_state* s)
{
  struct nv_pbundle b; b.ver = nv_fresh64(); b.solved_ver = 0; b.m_x = nv_state_x(s); b.m_gx = nv_state_gx(s); b.m_fx = s->m_fx;
  if (s->eval_ver == s->ver) b.m_gx.grad_of = b.m_x.id;
  nv_pb_note(&b); return b;
}
/* csearch_t::make: parameters copied; the stored point is the default one (status failed) */
static struct nv_csearch nv_cs_make(const struct nv_function* f)
{
  struct nv_csearch c; c.m_m1 = nv_nondet_double(); c.m_m2 = nv_nondet_double(); c.m_m3 = nv_nondet_double(); c.m_m4 = nv_nondet_double();
  c.m_interpol = nv_nondet_double(); c.m_extrapol = nv_nondet_double();
  c.m_point.m_t = 1.0; c.m_point.m_status = NVE_csearch_status_failed; c.m_point.m_y = nv_vec_fresh(); c.m_point.m_gy = nv_vec_fresh(); c.m_point.m_fy = 0.0;
  return c;
}
/* solver_state_t::update(x, gx, fx) (src/solver/state.cpp): the triple is stored as given, counters refreshed, returns valid() */
static _Bool nv_state_update3(struct nv_state* s, const struct nv_vec* x, const struct nv_vec* g, double fx)
{
  s->ver = x->id; s->m_fx = fx; s->xfin = x->fin;
  s->fx_ver = NV_SAME(fx, x->fval) ? x->id : 0;
  s->eval_ver = (NV_SAME(fx, x->fval) && g->grad_of == x->id) ? x->id : 0;
  s->valid = nv_nondet__Bool(); __CPROVER_assume(!s->valid || (NV_ISFIN(s->m_fx) && s->xfin));
  s->gtest = nv_nondet_double();
  nv_state_update_calls(s);
  return s->valid;
}
/* nesterov_sequence_t::update(z): a new point computed from z and the sequence's history */
struct nv_vec nv_seq_x;
static struct nv_vec* nv_seq_update(void) { nv_seq_x = nv_vec_fresh(); return &nv_seq_x; }

/* ---- csearch_t::search */
#define NV_STEP(st) ((st) == NVE_csearch_status_null_step || (st) == NVE_csearch_status_descent_step || (st) == NVE_csearch_status_cutting_plane_step)
#define NV_PT (self->m_point)
#define NV_CONTRACT_csearch_search \
__CPROVER_requires(__CPROVER_is_fresh(self, sizeof(*self)) && __CPROVER_is_fresh(bundle, sizeof(*bundle)) && NV_SOLVER_PARAMS_OK && max_evals == nv_max_evals) \
/* callers (rqb / fpba) enter with budget left: their own loop condition is the same test, with nothing evaluated in between */ \
__CPROVER_requires(nv_gcount <= nv_ver_counter && nv_ver_counter < 2000000000u && nv_ver_counter + nv_gcount < (uint64_t)max_evals && nv_status_at <= nv_ver_counter) \
__CPROVER_requires(bundle->m_x.id != 0 && bundle->ver != 0) \
__CPROVER_assigns(self->m_point, bundle->ver, bundle->solved_ver, nv_ver_counter, nv_gcount, nv_econv, nv_sconv, nv_status_at, nv_w_bver, nv_w_bsolved, nv_w_centre, nv_w_centre_fx) \
__CPROVER_ensures(__CPROVER_return_value == &self->m_point) \
/* C02: the returned (y, gy, fy) is one evaluation */ \
__CPROVER_ensures(NV_TRIPLE(NV_PT.m_y, NV_PT.m_gy, NV_PT.m_fy)) \
/* C03: converged (decided in this call, see the next-but-one clause) => both stopping tests were evaluated true, with the caller's \
 * epsilon, on the bundle as it is returned, and that bundle is solved */ \
__CPROVER_ensures((NV_PT.m_status == NVE_csearch_status_converged && nv_status_at == nv_ver_counter) ==> (nv_econv.res && nv_sconv.res && nv_econv.at == bundle->ver && nv_sconv.at == bundle->ver \
  && bundle->solved_ver == bundle->ver && NV_SAME(nv_econv.eps, epsilon) && NV_SAME(nv_sconv.eps, epsilon))) \
/* C03 / C02: a non-finite value is reported as failed */ \
__CPROVER_ensures(!NV_ISFIN(NV_PT.m_fy) ==> NV_PT.m_status == NVE_csearch_status_failed) \
/* C02: a status that makes a claim about the returned point (a step to take, convergence) was decided for that point: it was written \
 * in this call, after the last evaluation (failed / max_iters claim nothing about the point). \
 * REFUTED on the library as it is (genuine defect, replay/C02_rqb_replay.cpp): m_point.m_status is not reset at entry, so when the \
 * budget test ends the loop after a `continue` / new trial the status of the PREVIOUS call is returned with the new point */ \
__CPROVER_ensures((NV_STEP(NV_PT.m_status) || NV_PT.m_status == NVE_csearch_status_converged) ==> nv_status_at == nv_ver_counter) \
/* the proximity centre is not moved; budget: at most one evaluation beyond max_evals */ \
__CPROVER_ensures(bundle->m_x.id == __CPROVER_old(bundle->m_x.id) && NV_SAME(bundle->m_fx, __CPROVER_old(bundle->m_fx)) && bundle->ver != 0) \
__CPROVER_ensures(nv_ver_counter > __CPROVER_old(nv_ver_counter) && nv_gcount <= nv_ver_counter && nv_ver_counter < 2000000000u && nv_ver_counter + nv_gcount < (uint64_t)max_evals + 2) \
__CPROVER_ensures(nv_w_bver == bundle->ver && nv_w_bsolved == bundle->solved_ver)
#define NV_LOOP_csearch_search_1 \
__CPROVER_assigns(self->m_point, tL, tR, bundle->ver, bundle->solved_ver, nv_ver_counter, nv_gcount, nv_econv, nv_sconv, nv_status_at, nv_w_bver, nv_w_bsolved, nv_w_centre, nv_w_centre_fx) \
__CPROVER_loop_invariant(nv_gcount <= nv_ver_counter && nv_ver_counter < 2000000000u && nv_ver_counter + nv_gcount < (uint64_t)max_evals + 2 && nv_status_at <= __CPROVER_loop_entry(nv_ver_counter) && NV_PT.m_status == __CPROVER_loop_entry(NV_PT.m_status)) \
__CPROVER_loop_invariant(nv_ver_counter >= __CPROVER_loop_entry(nv_ver_counter) && nv_gcount - __CPROVER_loop_entry(nv_gcount) == nv_ver_counter - __CPROVER_loop_entry(nv_ver_counter)) \
__CPROVER_loop_invariant(bundle->m_x.id == __CPROVER_loop_entry(bundle->m_x.id) && NV_SAME(bundle->m_fx, __CPROVER_loop_entry(bundle->m_fx)) && bundle->ver != 0) \
__CPROVER_loop_invariant(nv_ver_counter > __CPROVER_loop_entry(nv_ver_counter) ==> (NV_TRIPLE(NV_PT.m_y, NV_PT.m_gy, NV_PT.m_fy) && NV_ISFIN(NV_PT.m_fy) && nv_w_bver == bundle->ver && nv_w_bsolved == bundle->solved_ver)) \
__CPROVER_decreases((uint64_t)max_evals + 100 - nv_ver_counter - nv_gcount)
#endif
