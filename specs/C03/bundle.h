/* C03: representation invariant of nano::bundle_t.  capacity() = max_size + 1 slots; the last slot (capacity()-1) is
 * reserved for the aggregate; after the constructor and after every public operation 0 < m_size < capacity(), every
 * index written into m_bundleE / m_bundleS / m_alphas is < capacity(), and delete_largest reads m_alphas only inside
 * [0, size()).  A bundle whose m_size reaches capacity() writes past its buffers on the next append, after which nothing
 * the solver reports (in particular `converged`) can be trusted. */
#include "nv_tensor.h"
struct nv_mat { int64_t rows; int64_t cols; };                 /* matrix_t: only its shape matters (contents erased) */
struct nv_slice1 { int64_t begin, end; int32_t what; };         /* a first-axis slice [begin,end) of m_bundleE (1) / m_alphas (2) */
struct nv_bundle
{
  struct nv_opaque m_solver; int64_t m_size; struct nv_mat m_bundleS; struct nv_t1d m_bundleE; struct nv_t1d m_alphas;
  struct nv_t1d m_x, m_gx; double m_fx;
};
/* ghost: what is known about m_alphas[0, size) after the statements of delete_largest */
int64_t nv_copy_n;        /* m_alphas[0,n) holds a copy (then a permutation) of m_bundleE[0,n) */
int64_t nv_nth_k;         /* std::nth_element partitioned m_alphas[0,nv_copy_n) at position nv_nth_k (-1: not partitioned) */

#define NV_BUNDLE_SHAPE(b) (NV_T1D_OK((b)->m_bundleE) && NV_T1D_OK((b)->m_alphas) && (b)->m_alphas.n >= 3 \
  && (b)->m_bundleE.n == (b)->m_alphas.n && (b)->m_bundleS.rows == (b)->m_alphas.n && (b)->m_bundleS.cols >= 0)
#define NV_CAP(b) ((b)->m_alphas.n)
#define NV_FRAME_SHAPE(b) ((b)->m_alphas.n == __CPROVER_old((b)->m_alphas.n) && (b)->m_bundleE.n == __CPROVER_old((b)->m_bundleE.n) \
  && (b)->m_bundleS.rows == __CPROVER_old((b)->m_bundleS.rows) && (b)->m_alphas.p == __CPROVER_old((b)->m_alphas.p) && (b)->m_bundleE.p == __CPROVER_old((b)->m_bundleE.p))

/* ---- stubs (assumed contracts of Eigen / STL / erased numerics) ---- */
static int64_t nv_t1d_size(const struct nv_t1d* t) { return t->n; }
static struct nv_slice1 nv_mat_row(const struct nv_mat* m, int64_t i)   /* a row of m_bundleS is a rank-1 map too (what = 3) */
{ __CPROVER_assert(0 <= i && i < m->rows, "bundle: row index of m_bundleS in [0, capacity())"); struct nv_slice1 r; r.begin = i; r.end = i + 1; r.what = 3; return r; }
static struct nv_slice1 nv_slice_E(const struct nv_t1d* t, int64_t b, int64_t e)
{ __CPROVER_assert(0 <= b && b <= e && e <= t->n, "bundle: slice of m_bundleE inside the buffer"); struct nv_slice1 s; s.begin = b; s.end = e; s.what = 1; return s; }
static struct nv_slice1 nv_slice_A(const struct nv_t1d* t, int64_t b, int64_t e)
{ __CPROVER_assert(0 <= b && b <= e && e <= t->n, "bundle: slice of m_alphas inside the buffer"); struct nv_slice1 s; s.begin = b; s.end = e; s.what = 2; return s; }
/* m_alphas.slice(0,n) = m_bundleE.slice(0,n): Eigen requires equal lengths (assert compiled out under NDEBUG) */
static void nv_slice_assign(struct nv_slice1 dst, struct nv_slice1 src)
{
  if (dst.what == 3 || src.what == 3 || src.what == 0) return;   /* rows of m_bundleS / caller vectors: lengths are dims(), contents erased */
  __CPROVER_assert(dst.end - dst.begin == src.end - src.begin, "bundle: slice assignment between equal lengths");
  if (dst.what == 2 && src.what == 1 && dst.begin == 0 && src.begin == 0) { nv_copy_n = dst.end; nv_nth_k = -1; }
}
/* slice = <Eigen expression>: contents erased */
static void nv_slice_store_erased(struct nv_slice1 dst) { if (dst.what == 2) { nv_copy_n = -1; nv_nth_k = -1; } }
/* std::nth_element(first, nth, last): [first,last) becomes a permutation of itself with every element before nth <= *nth
 * <= every element after it (contents are ghost here; the position is recorded) */
static void nv_nth_element(double* first, double* nth, double* last)
{
  __CPROVER_assert(__CPROVER_same_object(first, nth) && __CPROVER_same_object(first, last) && first <= nth && nth <= last, "std::nth_element: first <= nth <= last");
  if (last - first == nv_copy_n) nv_nth_k = nth - first; else nv_nth_k = -1;
}
/* nano::remove_if(op, E[0,size), S[0,size), alphas[0,size)) (include/nano/tensor/algorithm.h, checked separately):
 * returns the number of kept entries.  With op(i) = (m_bundleE(i) >= m_alphas(idx)):
 * CARDINALITY LEMMA (assumed here, checked for capacities <= 6 by the bounded target on the real remove_if):
 * if m_alphas[0,n) is a permutation of m_bundleE[0,n) partitioned at k and 0 <= idx <= k, then every one of the n-k
 * entries at or after the partition point is >= m_alphas(idx), so at least n-k entries are removed: result <= k. */
static int64_t nv_bundle_remove_if_ge_alphas(struct nv_bundle* b, int64_t idx)
{
  __CPROVER_assert(0 <= idx && idx < b->m_size, "delete_largest reads m_alphas inside [0, size())");
  int64_t r = nv_nondet_int64_t();
  __CPROVER_assume(0 <= r && r <= b->m_size);
  if (nv_copy_n == b->m_size && nv_nth_k >= 0 && idx <= nv_nth_k) __CPROVER_assume(r <= nv_nth_k);
  return r;
}
/* any other predicate: between 0 and size entries are kept */
static int64_t nv_bundle_remove_if_any(struct nv_bundle* b)
{ int64_t r = nv_nondet_int64_t(); __CPROVER_assume(0 <= r && r <= b->m_size); return r; }
/* m_x = y / m_gx = gy: contents erased, shape unchanged */
static void nv_t1d_assign_erased(struct nv_t1d* dst) { }
static double nv_epsilon0(void) { return 1e-15; }
static int64_t nv_imin(int64_t a, int64_t b) { return (b < a) ? b : a; }

#define NV_BUNDLE_PRE(lo) \
__CPROVER_requires(__CPROVER_is_fresh(self, sizeof(*self)) && NV_BUNDLE_SHAPE(self) && (lo) <= self->m_size && self->m_size < NV_CAP(self))
#define NV_BUNDLE_ASSIGNS __CPROVER_assigns(self->m_size, nv_copy_n, nv_nth_k, __CPROVER_object_whole(self->m_bundleE.p), __CPROVER_object_whole(self->m_alphas.p))
#define NV_BUNDLE_INV (0 < self->m_size && self->m_size < NV_CAP(self) && NV_FRAME_SHAPE(self))

/* inline accessors of the header */
#define NV_CONTRACT_bundle_capacity __CPROVER_requires(__CPROVER_is_fresh(self, sizeof(*self))) __CPROVER_assigns() __CPROVER_ensures(__CPROVER_return_value == self->m_alphas.n)
#define NV_CONTRACT_bundle_size __CPROVER_requires(__CPROVER_is_fresh(self, sizeof(*self))) __CPROVER_assigns() __CPROVER_ensures(__CPROVER_return_value == self->m_size)

/* delete_inactive: keeps between 0 and size entries */
#define NV_CONTRACT_bundle_delete_inactive NV_BUNDLE_PRE(0) NV_BUNDLE_ASSIGNS \
__CPROVER_ensures(0 <= self->m_size && self->m_size <= __CPROVER_old(self->m_size) && NV_FRAME_SHAPE(self))
/* store_aggregate / append_aggregate: the aggregate lives in slot capacity()-1 */
#define NV_CONTRACT_bundle_store_aggregate NV_BUNDLE_PRE(0) NV_BUNDLE_ASSIGNS \
__CPROVER_ensures(self->m_size == __CPROVER_old(self->m_size) && NV_FRAME_SHAPE(self) && nv_copy_n == __CPROVER_old(nv_copy_n) && nv_nth_k == __CPROVER_old(nv_nth_k))
#define NV_CONTRACT_bundle_append_aggregate NV_BUNDLE_PRE(0) NV_BUNDLE_ASSIGNS \
__CPROVER_ensures(self->m_size == __CPROVER_old(self->m_size) + 1 && NV_FRAME_SHAPE(self))
/* delete_largest(count): a full bundle (size + 1 == capacity) loses at least `count` entries and gains the aggregate;
 * any other bundle is untouched */
#define NV_CONTRACT_bundle_delete_largest NV_BUNDLE_PRE(0) __CPROVER_requires(count == 2) NV_BUNDLE_ASSIGNS \
__CPROVER_ensures(NV_FRAME_SHAPE(self)) \
__CPROVER_ensures((__CPROVER_old(self->m_size) + 1 == NV_CAP(self)) ? (1 <= self->m_size && self->m_size <= __CPROVER_old(self->m_size) - count + 1) : (self->m_size == __CPROVER_old(self->m_size)))
/* append(y, gy, fy, serious_step): the representation invariant is re-established (from 0 <= m_size, as used by the ctor) */
#define NV_CONTRACT_bundle_append4 NV_BUNDLE_PRE(0) NV_BUNDLE_ASSIGNS __CPROVER_ensures(NV_BUNDLE_INV)
#define NV_LOOP_bundle_append4_1 __CPROVER_assigns(i, __CPROVER_object_whole(self->m_bundleE.p)) \
__CPROVER_loop_invariant(0 <= i && i <= self->m_size) __CPROVER_decreases(self->m_size - i)
/* public operations keep the invariant */
#define NV_CONTRACT_bundle_append3 NV_BUNDLE_PRE(1) NV_BUNDLE_ASSIGNS __CPROVER_ensures(NV_BUNDLE_INV)
#define NV_CONTRACT_bundle_moveto NV_BUNDLE_PRE(1) __CPROVER_assigns(self->m_size, nv_copy_n, nv_nth_k, __CPROVER_object_whole(self->m_bundleE.p), __CPROVER_object_whole(self->m_alphas.p), self->m_fx) __CPROVER_ensures(NV_BUNDLE_INV)

/* ---- constructor bundle_t(state, max_size): allocates capacity() = max_size + 1 >= 3 slots (max_size is the parameter
 * <prefix>::bundle::max_size, domain [2, 1000], read by bundle_t::make), copies the proximity centre from the state and
 * appends the first point: it establishes the shape every other contract assumes (NV_BUNDLE_SHAPE) and the invariant */
#include <stdlib.h>
struct nv_cstate { struct nv_t1d m_x, m_gx; double m_fx; };       /* solver_state_t as the bundle sees it */
static struct nv_t1d* nv_cstate_x(const struct nv_cstate* s) { return (struct nv_t1d*)&s->m_x; }
static struct nv_t1d* nv_cstate_gx(const struct nv_cstate* s) { return (struct nv_t1d*)&s->m_gx; }
static double nv_cstate_fx(const struct nv_cstate* s) { return s->m_fx; }
/* tensor constructors tensor_t(dims...): storage for exactly the product of the dimensions */
static struct nv_mat nv_mat_make(int64_t rows, int64_t cols)
{ __CPROVER_assert(rows >= 0 && cols >= 0, "matrix_t(rows, cols): non-negative dimensions"); struct nv_mat m; m.rows = rows; m.cols = cols; return m; }
static struct nv_t1d nv_t1d_make(int64_t n)
{
  __CPROVER_assert(n >= 0 && n <= NV_MAXN, "vector_t(n): non-negative dimension");
  struct nv_t1d t; t.n = n; t.p = (double*)malloc((size_t)(n > 0 ? n : 1) * sizeof(double)); __CPROVER_assume(t.p != NULL);
  return t;
}
/* vector_cmap_t(const vector_t&): a view of a caller's vector (what = 0: not one of the bundle's buffers) */
static struct nv_slice1 nv_slice_of(const struct nv_t1d* v) { struct nv_slice1 s; s.begin = 0; s.end = v->n; s.what = 0; return s; }
#define NV_CONTRACT_bundle_ctor \
__CPROVER_requires(__CPROVER_is_fresh(self, sizeof(*self)) && __CPROVER_is_fresh(state, sizeof(*state)) && 2 <= max_size && max_size <= 1000 \
  && state->m_x.n >= 0 && state->m_x.n <= NV_MAXN && state->m_gx.n == state->m_x.n) \
__CPROVER_assigns(*self, nv_copy_n, nv_nth_k) \
__CPROVER_ensures(NV_CAP(self) == max_size + 1 && NV_CAP(self) >= 3 && self->m_bundleE.n == NV_CAP(self) && self->m_bundleS.rows == NV_CAP(self) && self->m_bundleS.cols == state->m_x.n) \
__CPROVER_ensures(__CPROVER_is_fresh(self->m_bundleE.p, self->m_bundleE.n * sizeof(double)) && __CPROVER_is_fresh(self->m_alphas.p, self->m_alphas.n * sizeof(double))) \
__CPROVER_ensures(0 < self->m_size && self->m_size < NV_CAP(self)) \
__CPROVER_ensures(self->m_x.n == state->m_x.n && self->m_gx.n == state->m_gx.n && NV_SAME(self->m_fx, state->m_fx))

/* ---- econverged / sconverged (the stopping test of the property): smeared_e <= eps * sqrt(n), |smeared_s|_2 <= eps * sqrt(n) */
double __CPROVER_uninterpreted_sqrt(double);
double nv_g_smeared_e, nv_g_smeared_s_norm;       /* ghost: e().dot(alpha()), |S()^T alpha()|_2 of the current bundle (erased numerics) */
static double nv_smeared_e(const struct nv_bundle* b) { return nv_g_smeared_e; }
static double nv_smeared_s_norm(void) { return nv_g_smeared_s_norm; }
static double nv_usqrt(double a) { return __CPROVER_uninterpreted_sqrt(a); }
#define NV_TOL NV_FMUL(epsilon, __CPROVER_uninterpreted_sqrt((double)self->m_x.n))
#define NV_CONTRACT_bundle_econverged __CPROVER_requires(__CPROVER_is_fresh(self, sizeof(*self)) && self->m_x.n >= 0) __CPROVER_assigns() \
__CPROVER_ensures(__CPROVER_return_value == (nv_g_smeared_e <= NV_TOL))
#define NV_CONTRACT_bundle_sconverged __CPROVER_requires(__CPROVER_is_fresh(self, sizeof(*self)) && self->m_x.n >= 0) __CPROVER_assigns() \
__CPROVER_ensures(__CPROVER_return_value == (nv_g_smeared_s_norm <= NV_TOL))
