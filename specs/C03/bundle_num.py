"""C03, numerics (b), (c): the linearisation-error identity of bundle_t (src/solver/bundle.cpp, include/nano/solver/bundle.h) that keeps the cutting-plane
model a lower bound, walked on the REAL bodies over the reals (specs/C01/linalg.LinWP, concrete mode).  BOUNDED stand-ins: the dimension n of x, the
number m of bundle entries and the capacity are fixed small numbers, the coefficients are unbounded reals.

Ghost per entry i < size(): the point y_i, the value f_i and the sub-gradient g_i the entry was built from (for an aggregate entry: any affine function
z -> f_i + g_i.(z - y_i)).  INVARIANT (centre = (m_x, m_fx)):
      E(i) == m_fx - (f_i + g_i . (m_x - y_i))        S(i) == g_i                                                              (Inv)
i.e. the i-th cutting plane is  z -> f(centre) - E(i) + S(i).(z - centre)  ==  f_i + g_i.(z - y_i): a lower bound of a convex f whenever (f_i, g_i) is
an evaluation at y_i (or a convex combination of such planes) [Bonnans, Gilbert, Lemarechal, Sagastizabal, "Numerical optimization", 2nd ed., (10.8)-(10.10)].

Obligations (functions walked; everything on the right is computed from the entry state):
  append(y, gy, fy, serious)      serious: every retained entry is RE-BASED  E'(i) == fy - (f_i + g_i.(y - y_i)), S'(i) == g_i, the new entry is (0, gy);
                                  null:    E'(i), S'(i) unchanged, the new entry is E'(m) == m_fx - (fy + gy.(m_x - y)), S'(m) == gy  (Inv for the ghost (y, fy, gy));
                                  size' == size + 1; the centre is not touched; delete_inactive, delete_largest run first (once each, in this order)
  append(y, gy, fy)               hands (y, gy, fy, false) to the 4-argument append
  moveto(y, gy, fy)               hands (y, gy, fy, true) to append while the centre is still the OLD one (precondition of append: Inv for the current centre), then the
                                  centre becomes (y, gy, fy): Inv holds for every entry with respect to the NEW centre
  store_aggregate()               slot capacity()-1 receives  E == sum_{i<size} alpha_i E(i),  S == sum_{i<size} alpha_i S(i)  (the alpha-convex combination), nothing else
                                  changes; with sum alpha_i == 1 the stored plane is the alpha-combination of the planes at EVERY point z (lemma `aggregate-plane`)
  append_aggregate()              entry size() becomes a copy of slot capacity()-1, size' == size + 1, nothing else changes
  solve(miu, logger)              1 and 2 entries (the analytic branches): sum alpha_i == 1, alpha_i >= 0, nothing else changes; 2 entries, S(0) != S(1): the multipliers
                                  minimise  1/2 |sum alpha_i S(i)|^2 + miu sum alpha_i E(i)  over the simplex (see solve_vcs)
  econverged(eps) / sconverged(eps)   ret == (sum_{i<size} alpha_i E(i) <= eps sqrt(n)),  ret == (|sum_{i<size} alpha_i S(i)|_2 <= eps sqrt(n)):
                                  the smeared quantities are taken over exactly the entries [0, size()) of the CURRENT buffers
Contracts used for the callees:
  delete_inactive / delete_largest (inside append)   ASSUMED: they leave SOME bundle of m' entries that satisfies Inv for the unchanged centre (remove_if keeps the
                                  (E, S, ghost) triples of the retained entries together; the aggregate entry is the one of store_aggregate / append_aggregate above):
                                  the walk continues from an arbitrary such bundle of m entries
  append (inside moveto / append3)  the clauses PROVED above for the 4-argument append, precondition (Inv for the centre at the call) obliged
  size() capacity() e() alpha() S() smeared_e() smeared_s()   inlined: their bodies (include/nano/solver/bundle.h) are walked at the call
  tensor.slice(b, e) / matrix.vector(i) / matrix.tensor(i)     ASSUMED (nano tensor): the sub-range [b, e) of the first dimension / row i as a view of the storage
"""
import os
import re
import sys

for d in ('C01', 'C06'):
    sys.path.insert(0, os.path.join(os.path.dirname(os.path.abspath(__file__)), '..', d))
import astload                                                  # noqa: E402
import nvwp                                                     # noqa: E402
from nvwp import V, Unsupported                                 # noqa: E402
from cxx2c import unwrap, strip_cv, qual                        # noqa: E402
from linalg import LinWP, Vcg, AV, MV, RV, t_dot, conj, eqs, real_of, outer_template       # noqa: E402
from eig import type_str, lit_int, rsum                         # noqa: E402

TU = 'src/solver/bundle.cpp'
FLT = 'nano::bundle_t::'
INLINE = ('size', 'capacity', 'dims', 'e', 'alpha', 'S', 'smeared_e', 'smeared_s')
THIS_RX = r'^(const )?(nano::)?bundle_t$'


def fninfo(cname, cxx, path, fn):
    return {'c_name': cname, 'cxx': cxx, 'file': path, 'line': fn.get('loc', {}).get('line') or fn.get('_line'), 'sha': astload.file_hash(path)}


def nparams(k):
    return lambda d: len([c for c in d['inner'] if c['kind'] == 'ParmVarDecl']) == k


def definition(name, k=None):
    return astload.find_definition(TU, FLT, name, nparams(k) if k is not None else None)


def is_this(node):
    u = unwrap(node)
    while u.get('kind') == 'ImplicitCastExpr' and u.get('inner'):
        u = unwrap(u['inner'][0])
    return u.get('kind') == 'CXXThisExpr'


class BundleWP(LinWP):
    """LinWP + bundle_t: members of *this as stored tensors, inline accessors walked at the call, row / range views, callee contracts"""

    def __init__(self, name, n, m, cap):
        super().__init__(name, n)
        self.m, self.cap = m, cap
        self.calls_seen = []
        self.contracts = {}             # member name -> handler(wp, node, args)
        self.depth = 0

    # ------------------------------------------------------------------------------------------- state
    def fresh_bundle(self, tag=''):
        """an arbitrary bundle: capacity slots of (E, S, alpha), m entries, centre (x, gx, fx)"""
        n, cap = self.dim, self.cap
        self.env['self.m_size'] = V(str(self.m), 'Int', 'long')
        self.env['self.m_bundleE'] = AV([self.leaf(f'E{tag}', k) for k in range(cap)], str(cap))
        self.env['self.m_alphas'] = AV([self.leaf(f'alpha{tag}', k) for k in range(cap)], str(cap))
        self.env['self.m_bundleS'] = MV([[self.leaf(f'S{tag}_{r}_{c}', 'e') for c in range(n)] for r in range(cap)])
        self.env['self.m_x'] = AV([self.leaf(f'x{tag}', k) for k in range(n)], str(n))
        self.env['self.m_gx'] = AV([self.leaf(f'gx{tag}', k) for k in range(n)], str(n))
        self.env['self.m_fx'] = self.const(f'|fx{tag}|', 'Real', 'double')
        for k in ('self.m_bundleE', 'self.m_alphas', 'self.m_bundleS', 'self.m_x', 'self.m_gx'):
            self.ver[k] = self.ver.get(k, 0) + 1
        # ghosts of the m entries
        self.gy = [[self.leaf(f'ghost_y{tag}_{i}', k) for k in range(n)] for i in range(self.m)]
        self.gf = [self.const(f'|ghost_f{tag}_{i}|', 'Real', 'double').t for i in range(self.m)]

    def snapshot(self):
        e = self.env
        return {'size': e['self.m_size'].t, 'E': list(e['self.m_bundleE'].c), 'A': list(e['self.m_alphas'].c), 'S': [list(r) for r in e['self.m_bundleS'].m],
                'x': list(e['self.m_x'].c), 'gx': list(e['self.m_gx'].c), 'fx': e['self.m_fx'].t}

    def inv(self, st, i, gy=None, gf=None):
        """Inv for entry i of the snapshot st with the ghost (y_i, f_i) (g_i is S(i))"""
        gy = self.gy[i] if gy is None else gy
        gf = self.gf[i] if gf is None else gf
        lin = f'(+ {gf} {t_dot(st["S"][i], [f"(- {a} {b})" for a, b in zip(st["x"], gy)])})'
        return f'(= {st["E"][i]} (- {st["fx"]} {lin}))'

    # ------------------------------------------------------------------------------------------- member calls on *this
    def eigen_member(self, n):
        me = n['inner'][0]
        if me.get('kind') != 'MemberExpr':
            return super().eigen_member(n)
        name, obj, args = me.get('name'), me['inner'][0], n['inner'][1:]
        if is_this(obj) and re.search(THIS_RX, strip_cv(type_str(obj)).rstrip('*').strip()):
            if name in self.contracts:
                self.calls_seen.append(name)
                return self.contracts[name](self, n, args)
            if name in INLINE and not args:
                return self.inline(name)
            raise Unsupported(f'{self.name}: call of bundle_t::{name} without a contract')
        if name == 'slice' and len(args) == 2:
            o = self.ev(obj)
            b, e = lit_int(self.ev(args[0]).t), lit_int(self.ev(args[1]).t)
            if b is None or e is None:
                raise Unsupported(f'{self.name}: slice with symbolic bounds')
            rows = len(o.c) if isinstance(o, AV) else (o.rows if isinstance(o, MV) else None)
            if rows is None:
                return None
            self.oblige('slice lies inside the first dimension of the tensor', 'true' if 0 <= b <= e <= rows else 'false', n)
            if not 0 <= b <= e <= rows:
                raise Unsupported(f'{self.name}: slice({b}, {e}) outside a tensor of {rows}')
            self.note('tensor.slice(b, e)')
            if isinstance(o, AV):
                return AV(o.c[b:e], str(e - b), o.deps)
            return MV(o.m[b:e], o.deps) if e > b else MV([], o.deps)
        if name in ('vector', 'tensor') and len(args) == 1:
            o = self.ev(obj)
            if isinstance(o, MV):
                i = lit_int(self.ev(args[0]).t)
                if i is None:
                    raise Unsupported(f'{self.name}: row of a matrix at a symbolic index')
                self.oblige('row index within the matrix', 'true' if 0 <= i < o.rows else 'false', n)
                if not 0 <= i < o.rows:
                    raise Unsupported(f'{self.name}: row {i} of a matrix with {o.rows} rows')
                self.note(f'matrix.{name}(i)')
                return AV(o.m[i], str(o.cols), o.deps)
        if name == 'size' and not args:
            o = self.ev(obj)
            if isinstance(o, AV):
                return V(str(len(o.c)), 'Int', 'long')
        return super().eigen_member(n)

    def inline(self, name):
        """an inline accessor of bundle.h: its body is walked in the caller's environment; it must end in its single return and write nothing"""
        fn = definition(name, 0)
        if self.depth > 4:
            raise Unsupported(f'{self.name}: inline accessors nested deeper than 4')
        body = [c for c in fn['inner'] if c['kind'] == 'CompoundStmt'][0]
        env0, g0 = dict(self.env), self.guard
        saved = (self.post, self.ret_sort, self.returns)
        got = []
        self.post = lambda w, rv: (got.append((w.guard, rv)), [])[1]
        self.ret_sort = None
        written0 = set(getattr(self, 'written', set()))
        self.depth += 1
        try:
            self.ex(body)
        finally:
            self.depth -= 1
            self.post, self.ret_sort, self.returns = saved
        if len(got) != 1 or got[0][0] != g0 or got[0][1] is None:
            raise Unsupported(f'{self.name}: bundle_t::{name} does not end in its single return')
        if set(getattr(self, 'written', set())) != written0:
            raise Unsupported(f'{self.name}: the accessor bundle_t::{name} writes a tensor')
        for k, v in env0.items():
            if k.startswith('self.') and self.env.get(k) is not v:
                raise Unsupported(f'{self.name}: the accessor bundle_t::{name} changes {k}')
        self.env, self.guard = env0, g0
        self.note(f'bundle_t::{name}() inlined')
        return got[0][1]

    # ------------------------------------------------------------------------------------------- row writes
    def eigen_operator(self, n):
        inner = n['inner']
        op = unwrap(inner[0]).get('referencedDecl', {}).get('name')
        args = inner[1:]
        if op == 'operator=' and len(args) == 2:
            u = unwrap(args[0])
            if u.get('kind') == 'CXXMemberCallExpr' and u['inner'][0].get('name') in ('tensor', 'vector') and len(u['inner']) == 2:
                key = self.lkey(u['inner'][0]['inner'][0])
                if key is not None and isinstance(self.env.get(key), MV):
                    i = lit_int(self.ev(u['inner'][1]).t)
                    old = self.env[key]
                    if i is None:
                        raise Unsupported(f'{self.name}: row write at a symbolic index')
                    self.oblige('row index within the matrix', 'true' if 0 <= i < old.rows else 'false', n)
                    if not 0 <= i < old.rows:
                        raise Unsupported(f'{self.name}: write to row {i} of a matrix with {old.rows} rows')
                    rhs = self.ev(args[1])          # the right-hand side is evaluated before the row is stored (Product: Eigen's temporary)
                    if isinstance(rhs, MV) and rhs.cols == 1:
                        rhs = AV([r[0] for r in rhs.m], str(rhs.rows), rhs.deps)
                    if not isinstance(rhs, AV) or isinstance(rhs, RV) or len(rhs.c) != old.cols:
                        raise Unsupported(f'{self.name}: row write of something that is not a column vector of {old.cols} coefficients')
                    m = [list(r) for r in old.m]
                    m[i] = list(rhs.c)
                    self.env[key] = MV(m)
                    self.ver[key] = self.ver.get(key, 0) + 1
                    self.written = getattr(self, 'written', set()) | {key}
                    self.note('matrix.tensor(i) = vector')
                    return self.env[key]
        return super().eigen_operator(n)

    def ex(self, n):
        if n.get('kind') == 'IfStmt' and not n.get('hasInit'):
            parts = n['inner']
            c = nvwp_fold(self.conv(self.ev(parts[0]), 'Bool', 'bool').t)
            if c in ('true', 'false'):             # a condition that folds to a literal selects one branch (the dead one is not walked)
                if c == 'true':
                    self.ex(parts[1])
                elif len(parts) > 2:
                    self.ex(parts[2])
                return
        return super().ex(n)

    def loop(self, n):
        if n.get('kind') == 'WhileStmt':          # `while (cond) body`: unrolled like `for (; cond; ) body` (the bundle size is a literal here)
            return self.unroll(n, None, n['inner'][0], None, n['inner'][-1])
        return super().loop(n)

    def product(self, a, b, node):
        if isinstance(a, MV) and a.rows == 0:
            raise Unsupported(f'{self.name}: product with an empty matrix')
        return super().product(a, b, node)

    def ev(self, n):
        # vector_cmap_t{tensor}: a map constructed from a tensor / another map views the same coefficients
        if n.get('kind') == 'CXXConstructExpr' and len(n.get('inner', [])) == 1 and \
                re.search(r'tensor_c?map_t|vector_c?map_t|matrix_c?map_t|tensor_c?(map|array)_storage_t', type_str(n) + ' ' + (n.get('type') or {}).get('qualType', '')):
            return self.ev(n['inner'][0])
        return super().ev(n)


# ------------------------------------------------------------------------------------------------- scenarios
def bind_triple(wp, fn):
    keys = [k for k, p in wp.bind_params(fn)]
    n = wp.dim
    y = wp.input_array(keys[0], 'y', str(n))
    gy = wp.input_array(keys[1], 'gy', str(n))
    wp.env[keys[2]] = wp.const('|fy|', 'Real', 'double')
    return keys, list(y.c), list(gy.c), '|fy|'


def run(wp, fn):
    wp.post = lambda w, rv: []
    wp.run(fn, astload.REPO + '/' + TU)


def sub(a, b):
    return [f'(- {x} {y})' for x, y in zip(a, b)]


def append4_post(st, m, y, gy, fy, serious, ghosts_y, ghosts_f):
    """the clauses of the 4-argument append, as (label, term over the post-snapshot `p`) builders: shared by the obligations of append itself and by the
    contract its callers (moveto, append3) use"""
    def clauses(p):
        out = []
        for i in range(m):
            if serious:
                want = f'(- {fy} (+ {ghosts_f[i]} {t_dot(st["S"][i], sub(y, ghosts_y[i]))}))'
                out.append((f'rebase[{i}]: serious step: E\'(i) == fy - (f_i + g_i.(y - y_i))', f'(= {p["E"][i]} {want})'))
            else:
                out.append((f'retained[{i}]: null step: E\'(i) == E(i)', f'(= {p["E"][i]} {st["E"][i]})'))
            out.append((f'slope[{i}]: S\'(i) == S(i) == g_i', eqs(p['S'][i], st['S'][i])))
        if serious:
            out.append(('new-entry: serious step: the appended entry is (E, S) == (0, gy)', conj([f'(= {p["E"][m]} 0.0)', eqs(p['S'][m], gy)])))
        else:
            want = f'(- {st["fx"]} (+ {fy} {t_dot(gy, sub(st["x"], y))}))'
            out.append(('new-entry: null step: the appended entry is E == f(centre) - (fy + gy.(centre - y)), S == gy', conj([f'(= {p["E"][m]} {want})', eqs(p['S'][m], gy)])))
        out.append(('size: size\' == size + 1', f'(= {p["size"]} {m + 1})'))
        out.append(('centre: append does not touch the proximity centre', conj([eqs(p['x'], st['x']), eqs(p['gx'], st['gx']), f'(= {p["fx"]} {st["fx"]})'])))
        return out
    return clauses


def append4_vcs(n, m, cap, serious, info):
    path = astload.REPO + '/' + TU
    fn = definition('append', 4)
    name = f'bundle_append[n={n},m={m},{"serious" if serious else "null"}]'
    wp = BundleWP(name, n, m, cap)
    keys, y, gy, fy = bind_triple(wp, fn)
    wp.env[keys[3]] = V('true' if serious else 'false', 'Bool', 'bool')
    # entry state: arbitrary (even the number of entries); delete_inactive / delete_largest leave an arbitrary bundle of m entries that satisfies Inv
    wp.fresh_bundle('_entry')
    wp.env['self.m_size'] = wp.const('|size_entry|', 'Int', 'long')
    order = []

    def h_delete(which):
        def h(w, node, args):
            order.append(which)
            if which == 'delete_largest':
                w.fresh_bundle()
                w.head = w.snapshot()
            return V('0', 'Int', 'int')
        return h
    wp.contracts = {'delete_inactive': h_delete('delete_inactive'), 'delete_largest': h_delete('delete_largest')}
    run(wp, fn)
    if n == 2 and m == 1 and serious:
        info.append(fninfo('bundle_append4_num', 'bundle_t::append(y, gy, fy, serious_step)', path, fn))
    line = fn.get('loc', {}).get('line') or fn.get('_line')
    st = getattr(wp, 'head', None)
    g = Vcg(wp, name, hyps=list(wp.facts), bound=f'dimension n = {n}, {m} bundle entries, capacity {cap}', path=path)
    out = g.from_wp()
    out.append(g.vc('calls: delete_inactive, then delete_largest, run once each before the bundle is read', [],
                    'true' if order == ['delete_inactive', 'delete_largest'] else 'false', line=line))
    if st is None:
        return out
    hyp = [wp.inv(st, i) for i in range(m)]
    p = wp.snapshot()
    for label, claim in append4_post(st, m, y, gy, fy, serious, wp.gy, wp.gf)(p):
        out.append(g.vc(label, hyp, claim, line=line))
    # the point of it: Inv for every entry of the result (serious: with respect to the NEW centre (y, fy) that moveto installs)
    centre = dict(p, x=y, fx=fy) if serious else p
    claims = [wp.inv(centre, i) for i in range(m)] + [wp.inv(centre, m, gy=y, gf=fy)]
    out.append(g.vc('invariant: every entry of the result is the linearisation error of its ghost at the ' + ('new centre (y, fy)' if serious else 'unchanged centre'),
                    hyp, conj(claims), line=line))
    out.append(g.canary(hyp))
    return out


def caller_vcs(which, n, m, cap, info):
    """moveto(y, gy, fy) / append(y, gy, fy): the call of the 4-argument append goes through its contract"""
    path = astload.REPO + '/' + TU
    fn = definition(which, 3)
    name = f'bundle_{which}{"3" if which == "append" else ""}[n={n},m={m}]'
    wp = BundleWP(name, n, m, cap)
    keys, y, gy, fy = bind_triple(wp, fn)
    wp.fresh_bundle()
    st = wp.snapshot()
    hyp = [wp.inv(st, i) for i in range(m)]
    seen = []

    def h_append(w, node, args):
        if len(args) != 4:
            raise Unsupported(f'{w.name}: append with {len(args)} arguments')
        a_y, a_gy = w.ev(args[0]), w.ev(args[1])
        a_fy = real_of(w, w.ev(args[2]))
        ser = nvwp_fold(w.conv(w.ev(args[3]), 'Bool', 'bool').t)
        if not (isinstance(a_y, AV) and isinstance(a_gy, AV)) or ser not in ('true', 'false'):
            raise Unsupported(f'{w.name}: append called with something that is not (vector, vector, scalar, constant bool)')
        cur = w.snapshot()
        # precondition of append: Inv holds for the centre the bundle has AT THE CALL
        w.oblige('precondition of append(y, gy, fy, serious): Inv holds for the centre at the call', conj([w.inv(cur, i) for i in range(m)]), node)
        seen.append({'y': list(a_y.c), 'gy': list(a_gy.c), 'fy': a_fy, 'serious': ser == 'true', 'st': cur})
        # post-state: fresh (E, S) for the first m + 1 entries, described by exactly the clauses proved for append
        k = len(seen)
        E = list(cur['E'])
        S = [list(r) for r in cur['S']]
        for i in range(m + 1):
            E[i] = w.leaf(f'E_after{k}', i)
            S[i] = [w.leaf(f'S_after{k}_{i}_{c}', 'e') for c in range(w.dim)]
        w.env['self.m_bundleE'] = AV(E, str(w.cap))
        w.env['self.m_bundleS'] = MV(S)
        w.env['self.m_size'] = V(str(m + 1), 'Int', 'long')
        for key in ('self.m_bundleE', 'self.m_bundleS'):
            w.ver[key] = w.ver.get(key, 0) + 1
        post = w.snapshot()
        for _, c in append4_post(cur, m, list(a_y.c), list(a_gy.c), a_fy, ser == 'true', w.gy, w.gf)(post):
            w.assume(c)
        return V('0', 'Int', 'int')
    wp.contracts = {'append': h_append}
    run(wp, fn)
    if n == 2 and m == 1:
        info.append(fninfo(f'bundle_{which}_num', f'bundle_t::{which}(y, gy, fy)', path, fn))
    line = fn.get('loc', {}).get('line') or fn.get('_line')
    g = Vcg(wp, name, hyps=hyp, bound=f'dimension n = {n}, {m} bundle entries, capacity {cap}', path=path)
    out = g.from_wp()
    serious = which == 'moveto'
    ok = len(seen) == 1 and seen[0]['serious'] == serious
    out.append(g.vc(f'arguments: (y, gy, fy, {"true" if serious else "false"}) are handed to the 4-argument append, once', [],
                    conj([eqs(seen[0]['y'], y), eqs(seen[0]['gy'], gy), f'(= {seen[0]["fy"]} {fy})']) if ok else 'false', line=line))
    p = wp.snapshot()
    facts = list(wp.facts)
    if serious:
        out.append(g.vc('centre: the proximity centre becomes (y, gy, fy)', facts, conj([eqs(p['x'], y), eqs(p['gx'], gy), f'(= {p["fx"]} {fy})']), line=line))
    else:
        out.append(g.vc('centre: a null step does not move the proximity centre', facts, conj([eqs(p['x'], st['x']), eqs(p['gx'], st['gx']), f'(= {p["fx"]} {st["fx"]})']), line=line))
    claims = [wp.inv(p, i) for i in range(m)] + [wp.inv(p, m, gy=y, gf=fy), f'(= {p["size"]} {m + 1})']
    out.append(g.vc('invariant: afterwards every entry (the new one with the ghost (y, fy, gy)) is the linearisation error of its ghost at the ' +
                    ('NEW centre' if serious else 'unchanged centre'), facts, conj(claims), line=line))
    out.append(g.canary(facts))
    return out


def nvwp_fold(t):
    from eig import fold
    return fold(t)


def aggregate_vcs(n, m, cap, info):
    path = astload.REPO + '/' + TU
    out = []
    # ---- store_aggregate
    fn = definition('store_aggregate', 0)
    name = f'bundle_store_aggregate[n={n},m={m},capacity={cap}]'
    wp = BundleWP(name, n, m, cap)
    wp.fresh_bundle()
    st = wp.snapshot()
    run(wp, fn)
    if n == 2 and m == 2:
        info.append(fninfo('bundle_store_aggregate_num', 'bundle_t::store_aggregate (with smeared_e / smeared_s / e / alpha / S inlined)', path, fn))
    line = fn.get('loc', {}).get('line') or fn.get('_line')
    g = Vcg(wp, name, bound=f'dimension n = {n}, {m} bundle entries, capacity {cap}', path=path)
    out += g.from_wp()
    p = wp.snapshot()
    last = cap - 1
    aggE = rsum([f'(* {st["A"][i]} {st["E"][i]})' for i in range(m)])
    aggS = [rsum([f'(* {st["A"][i]} {st["S"][i][k]})' for i in range(m)]) for k in range(n)]
    out.append(g.vc('aggregate-error: slot capacity()-1 receives sum_{i<size} alpha_i E(i)', [], f'(= {p["E"][last]} {aggE})', line=line))
    out.append(g.vc('aggregate-slope: slot capacity()-1 receives sum_{i<size} alpha_i S(i)', [], eqs(p['S'][last], aggS), line=line))
    frame = [eqs(p['E'][:last], st['E'][:last]), eqs(p['A'], st['A']), f'(= {p["size"]} {m})', eqs(p['x'], st['x']), f'(= {p["fx"]} {st["fx"]})'] + \
            [eqs(p['S'][i], st['S'][i]) for i in range(last)]
    out.append(g.vc('frame: store_aggregate changes nothing but slot capacity()-1', [], conj(frame), line=line))
    z = [wp.leaf('z', k) for k in range(n)]
    plane = f'(+ (- {p["fx"]} {p["E"][last]}) {t_dot(p["S"][last], sub(z, p["x"]))})'
    planes = rsum([f'(* {st["A"][i]} (+ {wp.gf[i]} {t_dot(st["S"][i], sub(z, wp.gy[i]))}))' for i in range(m)])
    out.append(g.vc('aggregate-plane: with Inv and sum alpha_i == 1 the stored cutting plane is the alpha-combination of the entries\' planes at every point z',
                    [wp.inv(st, i) for i in range(m)] + [f'(= {rsum(st["A"][:m])} 1.0)'], f'(= {plane} {planes})', line=line))
    out.append(g.canary())
    return out


def append_aggregate_vcs(n, m, cap, info):
    path = astload.REPO + '/' + TU
    fn = definition('append_aggregate', 0)
    name = f'bundle_append_aggregate[n={n},m={m},capacity={cap}]'
    wp = BundleWP(name, n, m, cap)
    wp.fresh_bundle()
    st = wp.snapshot()
    run(wp, fn)
    if n == 2 and m == 1:
        info.append(fninfo('bundle_append_aggregate_num', 'bundle_t::append_aggregate', path, fn))
    line = fn.get('loc', {}).get('line') or fn.get('_line')
    g = Vcg(wp, name, bound=f'dimension n = {n}, {m} bundle entries, capacity {cap}', path=path)
    out = g.from_wp()
    p = wp.snapshot()
    last = cap - 1
    out.append(g.vc('copy: entry size() becomes the aggregate stored in slot capacity()-1, size\' == size + 1', [],
                    conj([f'(= {p["E"][m]} {st["E"][last]})', eqs(p['S'][m], st['S'][last]), f'(= {p["size"]} {m + 1})']), line=line))
    keep = [i for i in range(cap) if i != m]
    out.append(g.vc('frame: append_aggregate changes nothing but entry size() and the size', [],
                    conj([eqs([p['E'][i] for i in keep], [st['E'][i] for i in keep]), eqs(p['A'], st['A']), eqs(p['x'], st['x']), f'(= {p["fx"]} {st["fx"]})'] +
                         [eqs(p['S'][i], st['S'][i]) for i in keep]), line=line))
    out.append(g.canary())
    return out


def converged_vcs(n, m, cap, info):
    path = astload.REPO + '/' + TU
    out = []
    for which in ('econverged', 'sconverged'):
        fn = definition(which, 1)
        name = f'bundle_{which}_num[n={n},m={m}]'
        wp = BundleWP(name, n, m, cap)
        keys = [k for k, p in wp.bind_params(fn)]
        wp.env[keys[0]] = wp.const('|epsilon|', 'Real', 'double')
        wp.fresh_bundle()
        st = wp.snapshot()
        rets = []
        wp.post = lambda w, rv, rets=rets: (rets.append((w.guard, rv)), [])[1]
        wp.run(fn, astload.REPO + '/' + TU)
        if n == 2 and m == 2:
            info.append(fninfo(f'bundle_{which}_num', f'bundle_t::{which} (with smeared_e / smeared_s inlined)', path, fn))
        line = fn.get('loc', {}).get('line') or fn.get('_line')
        g = Vcg(wp, name, bound=f'dimension n = {n}, {m} bundle entries, capacity {cap}', path=path)
        out += g.from_wp()
        tol = f'(* |epsilon| (nv_sqrt {n}.0))'
        if which == 'econverged':
            q = rsum([f'(* {st["A"][i]} {st["E"][i]})' for i in range(m)])
            what = 'econverged(eps) == (sum_{i<size} alpha_i E(i) <= eps sqrt(n))'
        else:
            s = [rsum([f'(* {st["A"][i]} {st["S"][i][k]})' for i in range(m)]) for k in range(n)]
            q = f'(nv_sqrt {rsum([f"(* {t} {t})" for t in s])})'
            what = 'sconverged(eps) == (|sum_{i<size} alpha_i S(i)|_2 <= eps sqrt(n))'
        claim = 'false'
        if len(rets) == 1 and rets[0][0] == 'true' and rets[0][1] is not None:
            claim = f'(= {wp.conv(rets[0][1], "Bool", "bool").t} (<= {q} {tol}))'
        out.append(g.vc(f'smeared: {what}: the alpha-weighted combination over exactly the entries [0, size()) of the current buffers', [], claim, line=line))
        out.append(g.canary())
    return out


def solve_vcs(n, m, cap, info):
    """bundle_t::solve(miu, logger) for m = 1, 2 entries (the branches that do not call the QP solver): the multipliers lie on the simplex and, for m == 2,
    minimise the dual of the proximal bundle problem  phi(alpha) = 1/2 |sum alpha_i S(i)|^2 + miu sum alpha_i E(i)  over the simplex
    [Bonnans, Gilbert, Lemarechal, Sagastizabal, "Numerical optimization", 2nd ed., (10.14)].  Hypothesis for m == 2: S(0) != S(1) (q = |S(0) - S(1)|^2 != 0; for
    q == 0 the code relies on IEEE inf / NaN and std::isfinite, which the real model cannot express)."""
    path = astload.REPO + '/' + TU
    fn = definition('solve', 2)
    name = f'bundle_solve[n={n},m={m}]'
    wp = BundleWP(name, n, m, cap)
    keys = [k for k, p in wp.bind_params(fn)]
    wp.env[keys[0]] = wp.const('|miu|', 'Real', 'double')
    wp.env[keys[1]] = V('0', 'Int', 'int')                    # the logger is not used by the analytic branches
    wp.fresh_bundle()
    st = wp.snapshot()
    # std::isfinite(b) of a quotient whose divisor is non-zero (obliged): true over the reals
    wp.calls = [(r'^isfinite\|', lambda w, node, args, callee: (w.ev(args[0]), V('true', 'Bool', 'bool'))[1])] + list(wp.calls)
    run(wp, fn)
    if n == 2 and m == 2:
        info.append(fninfo('bundle_solve_num', 'bundle_t::solve (the analytic branches for 1 and 2 entries)', path, fn))
    line = fn.get('loc', {}).get('line') or fn.get('_line')
    p = wp.snapshot()
    hyps = []
    if m == 2:
        d = sub(st['S'][0], st['S'][1])
        hyps = [f'(not (= {t_dot(d, d)} 0.0))']
    g = Vcg(wp, name, hyps=hyps, bound=f'dimension n = {n}, {m} bundle entries, capacity {cap}', path=path)
    out = g.from_wp()
    A = p['A']
    out.append(g.vc('simplex: the multipliers of the entries sum to 1 and are non-negative', [],
                    conj([f'(= {rsum(A[:m])} 1.0)'] + [f'(>= {a} 0.0)' for a in A[:m]]), line=line))
    out.append(g.vc('frame: solve changes nothing but the multipliers of the entries', [],
                    conj([eqs(p['E'], st['E']), eqs(p['A'][m:], st['A'][m:]), f'(= {p["size"]} {m})', eqs(p['x'], st['x']), f'(= {p["fx"]} {st["fx"]})'] +
                         [eqs(p['S'][i], st['S'][i]) for i in range(cap)]), line=line))
    if m == 2:
        t = wp.const('|t|', 'Real', 'double').t

        def phi(a0, a1):
            s = [f'(+ (* {a0} {st["S"][0][k]}) (* {a1} {st["S"][1][k]}))' for k in range(n)]
            return f'(+ (* 0.5 {t_dot(s, s)}) (* |miu| (+ (* {a0} {st["E"][0]}) (* {a1} {st["E"][1]}))))'
        out.append(g.vc('minimiser: phi(alpha) <= phi(t, 1 - t) for every t in [0, 1], phi(alpha) = 1/2 |sum alpha_i S(i)|^2 + miu sum alpha_i E(i)',
                        [f'(<= 0.0 {t})', f'(<= {t} 1.0)'], f'(<= {phi(A[0], A[1])} {phi(t, f"(- 1.0 {t})")})', line=line, timeout=60))
    out.append(g.canary())
    return out
