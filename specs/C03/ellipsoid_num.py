"""C03, numerics (a): ONE iteration of the main loop of solver_ellipsoid_t::do_minimize (src/solver/ellipsoid.cpp), walked on the real
body with the dense linear algebra KEPT (specs/C01/iterwp.IterWP on specs/C01/linalg.LinWP on specs/C06/eig.EigWP: fixed dimension n,
double as Real).  BOUNDED stand-ins: n = 1, 2, 3 concrete, coefficients unbounded reals.

Scenarios
  first     the state the code's own prefix builds: H == R^2 I (n >= 2; the ball of radius R around x0), H == R (n == 1: the half width of the
            interval), x == x0, (f, g) and the best state are the evaluation the state constructor made
  generic   an ARBITRARY loop-head state: x, g arbitrary vectors, f an arbitrary real, H an arbitrary matrix (symmetry is a hypothesis of the one
            clause that needs it), best state arbitrary
Obligations (textbook: the deep-cut ellipsoid method, e.g. Bland, Goldfarb, Todd, "The ellipsoid method: a survey", 1981, (2.11)-(2.13) with the cut
g'(z - x) <= -(f - f_best), i.e. depth alpha = (f - f_best) / sqrt(g'Hg)); everything on the right is computed from the loop-head values
(OLD x, H, g, f, f_best):
  degenerate       g'Hg < machine epsilon: done(state, true, true) is the only call, nothing is evaluated, the loop is left (the quantity tested is
                   g'Hg of the loop-head H and g)
  centre           n >= 2:  x+ == x - (1 + n alpha) / (n + 1) * H g / sqrt(g'Hg)
  shape            n >= 2:  H+ == n^2 / (n^2 - 1) * (1 - alpha^2) * (H - 2 (1 + n alpha) / ((n + 1)(1 + alpha)) * H g g' H / (g'Hg))
  symmetric        H == H'  =>  H+ == H+'
  bisection        n == 1:  x+ == x + H if g < 0 else x - H,  H+ == H / 2
  evaluation       the function is evaluated exactly once, at x+, into (f, g); update_if_better gets exactly (x+, g+, f+)
  stop-quantity    done(state, iter_ok, converged) is called once with iter_ok == isfinite(f+) and converged == (sqrt(g'Hg) < epsilon) where g'Hg
                   is the value computed from the loop-head H and g (the pair that produced the step), epsilon the solver::epsilon parameter
  best-below       an iteration that continues re-establishes f_best <= f (from the contracts of update_if_better and done), which is what makes
                   alpha >= 0, hence 1 + alpha != 0
  containment      (n == 2, thorough tier, bonus) the defining property of the update: every z with (z-x)'H^-1(z-x) <= 1 and g'(z-x) <= -alpha sqrt(g'Hg)
                   satisfies (z-x+)'H+^-1(z-x+) <= 1; stated without inverses through z = x + L u, H = L L'
  plus the walk's own obligations: every division has a non-zero divisor, every sqrt a non-negative argument.
Hypotheses of the generic scenario (loop invariants of the real loop, see `assumptions`): f_best <= f (re-established by `best-below`).

Contracts used for the callees (ASSUMED here unless noted):
  function.vgrad(x, g)              one evaluation at x: g and the result are arbitrary; the call is an observation point
  state.update_if_better(x, g, f)   isfinite(f) && f < fx  =>  the state becomes (x, g, f); otherwise it is unchanged   [src/solver/state.cpp:51]
  solver_t::done(..)                ret == (converged || !(iter_ok && valid(state)))              [PROVED: target solver_done, specs/solver/solver.h]
  std::isfinite(f)                  an arbitrary boolean attached to the evaluation (the reals have no infinities)
  tensor.vector() / .matrix()       an Eigen::Map of the tensor's own storage: a local initialised with it is another NAME of the stored tensor
  x.noalias() = e                   plain assignment when e is coefficient-wise at the top (products nested in e are evaluated into temporaries when
                                    the evaluator is built); a top-level Eigen::Product that mentions the destination is refused (Unsupported)
"""
import os
import re
import sys

for d in ('C01', 'C06'):
    sys.path.insert(0, os.path.join(os.path.dirname(os.path.abspath(__file__)), '..', d))
import astload                                                  # noqa: E402
import nvwp                                                     # noqa: E402
from nvwp import V, Unsupported                                 # noqa: E402
from cxx2c import unwrap, strip_cv, qual                        # noqa: E402
from linalg import (Vcg, AV, MV, RV, Stop, t_dot, t_matvec, t_matmul, t_outer, t_transpose, t_madd, t_mscale, conj, eqs, flat, real_of,   # noqa: E402
                    outer_template)
from eig import type_str, lit_int, ITE                          # noqa: E402
from iterwp import IterWP, Opaque, walk_iteration, is_type, VEC_RX, MAT_RX, STATE_RX   # noqa: E402

TU = 'src/solver/ellipsoid.cpp'
FLT = 'solver_ellipsoid_t::do_minimize'
MAP_RX = r'^(const )?Eigen::Map<'


def fninfo(cname, cxx, path, fn):
    return {'c_name': cname, 'cxx': cxx, 'file': path, 'line': fn.get('loc', {}).get('line') or fn.get('_line'), 'sha': astload.file_hash(path)}


class EllWP(IterWP):
    """IterWP + what the ellipsoid body needs: the state's value fx, Eigen::Map aliases, compound assignment on matrices / `.array() += s`,
    `.noalias()`, the linear index of a rank-2 tensor, vgrad / update_if_better / isfinite contracts, done() as an observation point"""

    def __init__(self, *a, **kw):
        super().__init__(*a, **kw)
        self.iter_members = [
            (r'^fx\|.*solver_state_t', self.h_state_fx),
            (r'^vgrad\|.*function_t', self.h_vgrad),
            (r'^update_if_better\|.*solver_state_t', self.h_update_if_better),
            (r'^done\|', self.h_done_obs),
        ] + list(self.iter_members)
        self.calls = [(r'^isfinite\|', self.h_isfinite)] + list(self.calls)
        self.finite = {}            # term of an evaluated value -> its `isfinite` boolean
        self.evals, self.updates, self.dones = [], [], []

    # ------------------------------------------------------------------------------------------- the state: (x, gx, fx)
    def new_state(self, var, hint):
        super().new_state(var, hint)
        self.nfresh += 1
        self.env[var + '.fx'] = self.const(f'|{hint}_fx#{self.nfresh}|', 'Real', 'double')

    def copy_state(self, dst, src):
        super().copy_state(dst, src)
        self.env[dst + '.fx'] = self.env[src + '.fx']

    def state_ctor(self, name, init):
        """solver_state_t{function, x0}: ONE evaluation at x0 (ASSUMED contract, as in specs/C01): x is a copy of x0, (fx, gx) arbitrary"""
        u = unwrap(init[0]) if init else None
        while u is not None and u.get('kind') in ('CXXConstructExpr', 'CXXTemporaryObjectExpr', 'CXXFunctionalCastExpr', 'InitListExpr') \
                and len(u.get('inner', [])) == 1 and is_type(u['inner'][0], STATE_RX):
            u = unwrap(u['inner'][0])
        if u is None or u.get('kind') not in ('CXXConstructExpr', 'CXXTemporaryObjectExpr', 'InitListExpr') or len(u.get('inner', [])) != 2:
            return False
        x0 = self.ev(u['inner'][1])
        if not isinstance(x0, AV) or isinstance(x0, RV):
            return False
        self.new_state(name, name)
        self.env[name + '.x'] = AV(x0.c, x0.n)
        self.ver[name + '.x'] = self.ver.get(name + '.x', 0) + 1
        return True

    def h_state_fx(self, wp, node, args, obj):
        return self.env[self.state_var(obj) + '.fx']

    # ------------------------------------------------------------------------------------------- callee contracts
    def stored_key(self, node, what):
        u = unwrap(node)
        # vector_t -> vector_cmap_t / vector_map_t: the map constructed from a tensor views that tensor's storage
        while u.get('kind') in ('CXXConstructExpr', 'MaterializeTemporaryExpr', 'CXXBindTemporaryExpr') and len(u.get('inner', [])) == 1 \
                and re.search(r'tensor_(c)?map_t|vector_c?map_t|tensor_c?(map|array)_storage_t', type_str(u) + ' ' + (u.get('type') or {}).get('qualType', '')):
            u = unwrap(u['inner'][0])
        key = self.lkey(u)
        if key is None or key not in self.ver or not isinstance(self.env.get(key), AV):
            raise Unsupported(f'{self.name}: {what}: the argument is not a stored vector')
        return key

    def h_vgrad(self, wp, node, args, obj):
        if len(args) != 2:
            raise Unsupported(f'{self.name}: vgrad with {len(args)} arguments')
        kx, kg = self.stored_key(args[0], 'vgrad(x, g)'), self.stored_key(args[1], 'vgrad(x, g)')
        at = list(self.env[kx].c)
        self.new_vec(kg, 'g_evaluated')
        f = self.fresh('Real', 'f_evaluated', 'double')
        fin = self.fresh('Bool', 'f_is_finite', 'bool')
        self.finite[f.t] = fin.t
        self.evals.append({'x_key': kx, 'g_key': kg, 'at': at, 'g': list(self.env[kg].c), 'f': f.t, 'finite': fin.t, 'guard': self.guard})
        return f

    def h_isfinite(self, wp, node, args, callee):
        return V(self.finite_of(real_of(self, self.ev(args[0]))), 'Bool', 'bool')

    def finite_of(self, term):
        """the `isfinite` flag of a value: one arbitrary boolean per distinct term (the value of an evaluation got its flag in h_vgrad)"""
        if term not in self.finite:
            self.finite[term] = self.fresh('Bool', 'is_finite', 'bool').t
        return self.finite[term]

    def h_update_if_better(self, wp, node, args, obj):
        st = self.state_var(obj)
        if len(args) != 3:
            raise Unsupported(f'{self.name}: update_if_better with {len(args)} arguments')
        x, g, f = self.ev(args[0]), self.ev(args[1]), real_of(self, self.ev(args[2]))
        if not (isinstance(x, AV) and isinstance(g, AV)) or isinstance(x, RV) or isinstance(g, RV):
            raise Unsupported(f'{self.name}: update_if_better of something that is not (vector, vector, scalar)')
        fin = self.finite_of(f)
        old = self.env[st + '.fx'].t
        better = f'(and {fin} (< {f} {old}))'
        self.updates.append({'state': st, 'x': list(x.c), 'g': list(g.c), 'f': f, 'guard': self.guard, 'old_fx': old})
        for fld, new in (('x', x), ('gx', g)):
            cur = self.env[f'{st}.{fld}']
            self.env[f'{st}.{fld}'] = AV([ITE(better, a, b) for a, b in zip(new.c, cur.c)], cur.n)
            self.ver[f'{st}.{fld}'] = self.ver.get(f'{st}.{fld}', 0) + 1
        self.env[st + '.fx'] = V(ITE(better, f, old), 'Real', 'double')
        return V(better, 'Bool', 'bool')

    def h_done_obs(self, wp, node, args, obj):
        if len(args) != 4:
            raise Unsupported(f'{self.name}: done with {len(args)} arguments')
        st = self.state_var(args[0])
        ok = self.conv(self.ev(args[1]), 'Bool', 'bool').t
        cv = self.conv(self.ev(args[2]), 'Bool', 'bool').t
        ret = self.fresh('Bool', 'done', 'bool')
        valid = self.fresh('Bool', 'valid', 'bool')
        # PROVED contract of solver_t::done (target solver_done): ret == (converged || !(iter_ok && valid(state)))
        self.assume(f'(= {ret.t} (or {cv} (not (and {ok} {valid.t}))))')
        self.dones.append({'state': st, 'iter_ok': ok, 'converged': cv, 'ret': ret.t, 'guard': self.guard,
                           'evals_before': len(self.evals), 'fx': self.env[st + '.fx'].t})
        return ret

    # ------------------------------------------------------------------------------------------- Eigen::Map aliases
    def decl_hook(self, wp, v, init):
        if is_type(v, STATE_RX) and not qual(v.get('type')).rstrip().endswith('&') and self.state_ctor(v.get('name'), init):
            return True
        if init and re.search(MAP_RX, strip_cv(type_str(v))):
            u = unwrap(init[0])
            while u.get('kind') in ('CXXConstructExpr', 'MaterializeTemporaryExpr', 'CXXBindTemporaryExpr', 'ImplicitCastExpr', 'ExprWithCleanups') \
                    and len(u.get('inner', [])) == 1:
                u = unwrap(u['inner'][0])
            if u.get('kind') == 'CXXMemberCallExpr' and u['inner'][0].get('name') in ('vector', 'matrix', 'array') and len(u['inner']) == 1:
                key = self.lkey(u['inner'][0]['inner'][0])
                if key is not None and key in self.ver and isinstance(self.env.get(key), (AV, MV)):
                    self.alias[v['name']] = key
                    self.note('Eigen::Map of a stored tensor -> alias')
                    return True
            raise Unsupported(f'{self.name}: Eigen::Map {v["name"]} that is not tensor.vector() / tensor.matrix() of a stored tensor')
        return super().decl_hook(wp, v, init)

    def key_of(self, node):
        u = unwrap(node)
        if u.get('kind') == 'CXXMemberCallExpr' and u['inner'][0].get('name') == 'noalias' and len(u['inner']) == 1:
            return self.key_of(u['inner'][0]['inner'][0])
        return super().key_of(node)

    # ------------------------------------------------------------------------------------------- operators
    def eigen_member(self, n):
        me = n['inner'][0]
        if me.get('kind') == 'MemberExpr' and me.get('name') == 'noalias' and len(n['inner']) == 1:
            return self.ev(me['inner'][0])
        return super().eigen_member(n)

    def eigen_operator(self, n):
        inner = n['inner']
        op = unwrap(inner[0]).get('referencedDecl', {}).get('name')
        args = inner[1:]
        if op == 'operator=' and len(args) == 2:
            u = unwrap(args[0])
            if u.get('kind') == 'CXXMemberCallExpr' and u['inner'][0].get('name') == 'noalias':
                key = self.lkey(args[0])
                if outer_template(type_str(args[1])) == 'Product' and key is not None and self.mentions(args[1], key):
                    raise Unsupported(f'{self.name}: {key}.noalias() = product that reads {key}: undefined by Eigen\'s aliasing rules')
        if op in ('operator*=', 'operator/=') and len(args) == 2:
            key = self.lkey(args[0])
            if key is not None and isinstance(self.env.get(key), MV):
                s = real_of(self, self.ev(args[1]))
                if op == 'operator/=':
                    self.oblige('real-model division is defined (divisor non-zero)', f'(not (= {s} 0.0))', n)
                old = self.env[key]
                self.env[key] = MV(t_mscale(old.m, s, op[-2]))
                self.ver[key] = self.ver.get(key, 0) + 1
                self.written = getattr(self, 'written', set()) | {key}
                self.note('matrix ' + op + ' scalar')
                return self.env[key]
        if op in ('operator+=', 'operator-=') and len(args) == 2 and 'ArrayWrapper' in type_str(args[0]):
            key = self.lkey(args[0])
            if key is not None and isinstance(self.env.get(key), AV):
                rhs = self.ev(args[1])
                if isinstance(rhs, V):           # Eigen ArrayBase::operator+=(const Scalar&): every coefficient
                    s = real_of(self, rhs)
                    cur = self.env[key]
                    self.write_array(key, AV([f'({op[-2]} {t} {s})' for t in cur.c], cur.n))
                    self.note('array ' + op + ' scalar')
                    return self.env[key]
        if op == 'operator()' and len(args) == 2:
            o = self.ev(args[0])
            if isinstance(o, MV):
                # tensor_t<.., 2>::operator()(index): the LINEAR index into the row-major storage (include/nano/tensor/tensor.h)
                k = lit_int(self.ev(args[1]).t)
                if k is None or not 0 <= k < o.rows * o.cols:
                    raise Unsupported(f'{self.name}: linear index into a matrix that is symbolic / out of range')
                self.oblige('array index within bounds', 'true', n)
                return V(o.m[k // o.cols][k % o.cols], 'Real', 'double')
        return super().eigen_operator(n)

    def ev(self, n):
        if n.get('kind') == 'CXXTemporaryObjectExpr' and len(n.get('inner', [])) == 1 and (is_type(n, MAT_RX) or is_type(n, VEC_RX)):
            return self.ev(n['inner'][0])          # matrix_t{expression}: a tensor constructed from an Eigen expression holds its value
        return super().ev(n)

    def loop(self, n):
        """the main loop written as `for (init; cond; inc)`: the same walk as for `while (cond)` (init before the head, inc after the body)"""
        if n.get('kind') == 'ForStmt' and not getattr(self, 'in_main', False):
            init, condvar, cond, inc, body = n['inner']
            if condvar:
                raise Unsupported(f'{self.name}: main loop with a condition variable')
            if init:
                self.ex(init)
            self.in_main = True
            if self.scenario != 'first':
                self.head(self)
            self.entry_env = dict(self.env)
            if cond:
                self.ev(cond)
            self.ex(body)
            if inc and self.guard != 'false':
                self.ev(inc)
            self.end_env, self.end_guard = dict(self.env), self.guard
            raise Stop()
        return super().loop(n)

    def mentions(self, node, key):
        for x in astload.walk(node):
            if x.get('kind') == 'DeclRefExpr':
                nm = x.get('referencedDecl', {}).get('name')
                if self.alias.get(nm, nm) == key:
                    return True
        return False


# ------------------------------------------------------------------------------------------------- textbook
def tb_update(n, x, H, g, f, fbest):
    """deep-cut ellipsoid update from the loop-head values: (alpha, x+, H+)"""
    nn = f'{n}.0'
    gHg = t_dot(g, t_matvec(H, g))
    root = f'(nv_sqrt {gHg})'
    alpha = f'(/ (- {f} {fbest}) {root})'
    Hg = t_matvec(H, g)
    tau = f'(/ (+ 1.0 (* {nn} {alpha})) (+ {nn} 1.0))'
    xn = [f'(- {xi} (/ (* {tau} {hi}) {root}))' for xi, hi in zip(x, Hg)]
    gH = t_matvec(t_transpose(H), g)
    sigma = f'(/ (* 2.0 (+ 1.0 (* {nn} {alpha}))) (* (+ {nn} 1.0) (+ 1.0 {alpha})))'
    delta = f'(* (/ (* {nn} {nn}) (- (* {nn} {nn}) 1.0)) (- 1.0 (* {alpha} {alpha})))'
    Hn = t_mscale(t_madd(H, t_mscale(t_mscale(t_outer(Hg, gH), gHg, '/'), sigma), '-'), delta)
    return gHg, alpha, xn, Hn


def sym(M):
    n = len(M)
    return conj([f'(= {M[i][j]} {M[j][i]})' for i in range(n) for j in range(i + 1, n)])


def head_state(n):
    def head(wp):
        wp.new_state('state', 'best')
        wp.new_vec('x', 'x')
        wp.new_vec('g', 'g')
        wp.env['f'] = wp.const('|f|', 'Real', 'double')
        wp.input_matrix('H', 'H', n, n)
        wp.owned.add('H')
    return head


def walk(n, first):
    name = f'ellipsoid_iteration[n={n}{",first" if first else ""}]'

    def setup(wp):
        pass
    fn = astload.find_definition(TU, FLT, 'do_minimize')
    wp = EllWP(name, n, TU, scenario='first' if first else 'generic', head=None if first else head_state(n))
    for key, p in wp.bind_params(fn):
        if key == 'x0':
            wp.new_vec('x0', 'x0')
        else:
            wp.env[key] = Opaque('Param', key)
    wp.post = lambda w, rv: []
    try:
        wp.run(fn, astload.REPO + '/' + TU)
    except Stop:
        pass
    else:
        raise Unsupported(f'{name}: do_minimize has no main while loop')
    return wp, fn


def iteration_vcs(n, first, info, thorough=False):
    path = astload.REPO + '/' + TU
    wp, fn = walk(n, first)
    name = wp.name
    line = fn.get('loc', {}).get('line') or fn.get('_line')
    if n == 1 and first:
        info.append(fninfo('ellipsoid_iteration', 'solver_ellipsoid_t::do_minimize (one iteration of the main loop)', path, fn))
    e = wp.entry_env
    need = {'x': AV, 'g': AV, 'H': MV, 'state.x': AV}
    for k, ty in need.items():
        if not isinstance(e.get(k), ty):
            raise Unsupported(f'{name}: no {ty.__name__} named {k} at the loop head')
    for k in ('f', 'state.fx'):
        if not isinstance(e.get(k), V):
            raise Unsupported(f'{name}: no scalar named {k} at the loop head')
    x0, g0, H0, f0, fb0 = list(e['x'].c), list(e['g'].c), [list(r) for r in e['H'].m], e['f'].t, e['state.fx'].t
    eps = wp.params.get('solver::epsilon')
    R = wp.params.get('solver::ellipsoid::R')
    if eps is None or R is None:
        raise Unsupported(f'{name}: the parameters solver::epsilon / solver::ellipsoid::R are not read')
    gHg, alpha, xn, Hn = tb_update(n, x0, H0, g0, f0, fb0)
    meps = '(/ 1.0 4503599627370496.0)'
    # hypotheses: the loop invariant f_best <= f (generic scenario; in the first iteration f is the value of the best state itself)
    hyps = [f'(<= {fb0} {f0})']
    g = Vcg(wp, name, hyps=hyps + list(wp.facts), bound=f'dimension n = {n}', path=path)
    out = g.from_wp()
    degenerate = f'(< {gHg} {meps})'
    # ---- the calls of one iteration
    d_deg = [d for d in wp.dones if d['evals_before'] == 0]
    d_end = [d for d in wp.dones if d['evals_before'] == 1]
    shape_ok = len(wp.dones) == 2 and len(d_deg) == 1 and len(d_end) == 1 and len(wp.evals) == 1 and len(wp.updates) == 1
    if first:
        I = [[('1.0' if i == j else '0.0') for j in range(n)] for i in range(n)]
        want = t_mscale(I, R.t if n == 1 else f'(* {R.t} {R.t})')
        xs = list(wp.env['x0'].c) if isinstance(wp.env.get('x0'), AV) else None
        claim = conj([eqs(flat(H0), flat(want)), eqs(x0, xs) if xs else 'false', eqs(x0, e['state.x'].c), f'(= {f0} {fb0})', eqs(g0, e['state.gx'].c)])
        out.append(g.vc('initial-state: H is R^2 I (n >= 2) / the half width R (n == 1), x is x0, (f, g) and the best state are the first evaluation',
                        [], claim, line=line))
    if not shape_ok:
        out.append(g.vc(f'calls: one iteration makes {len(wp.evals)} evaluation(s), {len(wp.updates)} update_if_better and {len(wp.dones)} done calls '
                        '(expected: done on the degenerate path; else one vgrad, one update_if_better, one done)', [], 'false', line=line))
        return out
    dd, de, ev, up = d_deg[0], d_end[0], wp.evals[0], wp.updates[0]
    out.append(g.vc('degenerate: g\'Hg (of the loop-head H and g) < machine epsilon <=> done(state, true, true) without a step, and the loop is left',
                    [], conj([f'(= {dd["guard"]} {degenerate})', f'(=> {dd["guard"]} (and {dd["iter_ok"]} {dd["converged"]}))',
                              f'(=> {degenerate} (not {wp.end_guard}))', f'(= {ev["guard"]} (not {degenerate}))']), line=line))
    step = [f'(not {degenerate})']
    if n == 1:
        want_x = [f'(ite (< {g0[0]} 0.0) (+ {x0[0]} {H0[0][0]}) (- {x0[0]} {H0[0][0]}))']
        want_H = [[f'(/ {H0[0][0]} 2.0)']]
        out.append(g.vc('bisection: n == 1: x+ == x + H if g < 0 else x - H (H is the half width of the interval)', step, eqs(ev['at'], want_x), line=line))
        out.append(g.vc('bisection: n == 1: H+ == H / 2', step + [wp.end_guard], eqs(flat(wp.end_env['H'].m), flat(want_H)), line=line))
    else:
        root = f'(nv_sqrt {gHg})'
        # generalisation (linalg.Vcg.vc(abstract=..)): the two update identities do not depend on what alpha, sqrt(g'Hg) and g'Hg are made of, only on
        # alpha >= 0 (so 1 + alpha != 0), sqrt(g'Hg) > 0 and g'Hg > 0, which the lemma establishes on the real terms (with the facts about sqrt)
        lem = [f'(> {gHg} 0.0)', f'(> {root} 0.0)', f'(>= {alpha} 0.0)']
        out.append(g.vc('lemma: on the step path g\'Hg > 0, sqrt(g\'Hg) > 0 and alpha = (f - f_best) / sqrt(g\'Hg) >= 0', step, conj(lem), line=line))
        ab = ([alpha, root, gHg], 'deepcut')
        out.append(g.vc('centre: x+ == x - (1 + n alpha) / (n + 1) * H g / sqrt(g\'Hg), alpha = (f - f_best) / sqrt(g\'Hg), all from the loop-head (OLD) H',
                        step + lem, eqs(ev['at'], xn), line=line, abstract=ab))
        Hend = wp.end_env['H'].m
        for i in range(n):          # one obligation per entry: the conjunction of all n^2 entries does not finish
            for j in range(n):
                out.append(g.vc(f'shape[{i},{j}]: H+ == n^2/(n^2 - 1) (1 - alpha^2) (H - 2 (1 + n alpha) / ((n + 1)(1 + alpha)) H g g\' H / (g\'Hg)), all from the loop-head H',
                                step + lem + [wp.end_guard], f'(= {Hend[i][j]} {Hn[i][j]})', line=line, abstract=ab))
        out.append(g.vc('symmetric: H symmetric => H+ symmetric', step + lem + [wp.end_guard, sym(H0)], sym(Hend), line=line, abstract=ab))
    if n == 2 and not first and thorough:
        out += containment_vcs(g, wp, x0, g0, H0, f0, fb0, ev['at'], wp.end_env['H'].m, step + lem + [wp.end_guard], line)
    xe = wp.end_env
    out.append(g.vc('evaluation: the function is evaluated once, at x+, into (f, g); update_if_better gets (x+, g+, f+) for the best state',
                    step, conj(['true' if ev['x_key'] == 'x' and ev['g_key'] == 'g' and up['state'] == 'state' else 'false',
                                eqs(up['x'], ev['at']), eqs(up['g'], ev['g']), f'(= {up["f"]} {ev["f"]})',
                                f'(=> {wp.end_guard} {conj([eqs(xe["x"].c, ev["at"]), eqs(xe["g"].c, ev["g"]), "(= " + xe["f"].t + " " + ev["f"] + ")"])})']), line=line))
    out.append(g.vc('stop-quantity: done(state, isfinite(f+), sqrt(g\'Hg) < epsilon) with g\'Hg of the loop-head H and g (the pair that produced the step)',
                    step, conj(['true' if de['state'] == 'state' else 'false', f'(= {de["iter_ok"]} {ev["finite"]})',
                                f'(= {de["converged"]} (< (nv_sqrt {gHg}) {eps.t}))', f'(= {de["guard"]} (not {degenerate}))',
                                f'(= {wp.end_guard} (and (not {degenerate}) (not {de["ret"]})))']), line=line))
    out.append(g.vc('best-below: an iteration that continues re-establishes f_best <= f (so alpha >= 0 and 1 + alpha != 0 in the next one)',
                    [wp.end_guard], f'(<= {xe["state.fx"].t} {xe["f"].t})', line=line))
    out.append(g.canary([wp.end_guard]))
    return out


def containment_vcs(g, wp, x, gr, H, f, fb, xp, Hp, base, line):
    """(n == 2, thorough tier, bonus) the DEFINING property of the deep-cut update, on the code's own x+ and H+:
         H symmetric positive definite,  z in E(x, H) = {x + H v : v'Hv <= 1},  g'(z - x) <= -(f - f_best)  (z is at least as good as the best point, f convex),
         0 <= alpha < 1      =>      z in E(x+, H+):  there is w with  H+ w == z - x+  and  w'(z - x+) <= 1.
    No inverse is needed: z is given through v = H^-1 (z - x), and the witness is w = (1/delta) (v + tau g/s + rho g (g'Hv + tau s) / (g'Hg)), s = sqrt(g'Hg),
    tau = (1 + n alpha)/(n + 1), delta = n^2/(n^2 - 1) (1 - alpha^2), sigma = 2 (1 + n alpha)/((n + 1)(1 + alpha)), rho = sigma / (1 - sigma)  (Sherman-Morrison).
    The proof is a chain of obligations (each a VC; later ones take the CONCLUSIONS of earlier ones as hypotheses):
      witness        H+ w == z - x+                                                   (rational identity in the code's x+, H+)
      cauchy-schwarz (g'Hv)^2 <= (g'Hg)(v'Hv)                                         (H positive definite; n = 2: the Gram determinant is det(H) det[g v]^2)
      expansion      w'(z - x+) == (1/delta) (q + 2 tau t + tau^2 + rho (t + tau)^2),  q = v'Hv,  t = g'Hv / s
      scalar         q <= 1, t <= -alpha, t^2 <= q, 0 <= alpha < 1  =>  (1/delta) (q + 2 tau t + tau^2 + rho (t + tau)^2) <= 1
      containment    w'(z - x+) <= 1   from the three conclusions above"""
    n = 2
    if not (H[0][1] != H[1][0] and all(isinstance(t, str) for r in H for t in r)):
        raise Unsupported(f'{wp.name}: containment: the loop-head H is not a matrix of distinct constants')
    h10, h01 = H[1][0], H[0][1]
    S = lambda t: t.replace(h10, h01)                   # H symmetric (a hypothesis of the claim): one constant for both off-diagonal entries
    H = [[S(t) for t in r] for r in H]
    xp, Hp = [S(t) for t in xp], [[S(t) for t in r] for r in Hp]
    gHg = t_dot(gr, t_matvec(H, gr))
    root = f'(nv_sqrt {gHg})'
    alpha = f'(/ (- {f} {fb}) {root})'
    v = [wp.leaf('v', k) for k in range(n)]
    Hv = t_matvec(H, v)
    q = t_dot(v, Hv)
    gHv = t_dot(gr, Hv)
    zx = [f'(+ {a} (- {b} {c}))' for a, b, c in zip(Hv, x, xp)]            # z - x+ == H v + (x - x+)
    tau = f'(/ (+ 1.0 (* 2.0 {alpha})) 3.0)'
    delta = f'(* (/ 4.0 3.0) (- 1.0 (* {alpha} {alpha})))'
    rho = f'(/ (* 2.0 (+ 1.0 (* 2.0 {alpha}))) (- 1.0 {alpha}))'          # sigma / (1 - sigma) for n = 2, sigma = 2 (1 + 2 alpha) / (3 (1 + alpha))
    w = [f'(/ (+ {v[k]} (/ (* {tau} {gr[k]}) {root}) (/ (* {rho} {gr[k]} (+ {gHv} (* {tau} {root}))) {gHg})) {delta})' for k in range(n)]
    pd = [f'(> {H[0][0]} 0.0)', f'(> (- (* {H[0][0]} {H[1][1]}) (* {H[0][1]} {H[1][0]})) 0.0)']
    sq = f'(= (* {root} {root}) {gHg})'
    # what the step path gives (obligation `lemma`), plus the admissible depth alpha < 1
    known = [f'(> {gHg} 0.0)', f'(> {root} 0.0)', f'(>= {alpha} 0.0)', f'(< {alpha} 1.0)', sq]
    ab = ([alpha, root], 'deepcut')                      # g'Hg stays the polynomial it is: the identities cancel it against H g g' H
    saved, g.hyps = g.hyps, []                           # the chain needs none of the facts about done() / the counters
    try:
        out = []
        for k in range(n):
            out.append(g.vc(f'containment/witness[{k}]: H+ w == z - x+ for w = (1/delta)(v + tau g/s + rho g (g\'Hv + tau s)/(g\'Hg)), z = x + H v (H symmetric)', known,
                            f'(= {t_dot(Hp[k], w)} {zx[k]})', line=line, abstract=ab, timeout=90))
        cs = f'(<= (* {gHv} {gHv}) (* {gHg} {q}))'
        out.append(g.vc('containment/cauchy-schwarz: H symmetric positive definite => (g\'Hv)^2 <= (g\'Hg)(v\'Hv)', pd, cs, line=line, timeout=120))
        t = f'(/ {gHv} {root})'
        W = t_dot(w, zx)
        form = f'(/ (+ {q} (* 2.0 {tau} {t}) (* {tau} {tau}) (* {rho} (+ {t} {tau}) (+ {t} {tau}))) {delta})'
        out.append(g.vc('containment/expansion: w\'(z - x+) == (1/delta)(q + 2 tau t + tau^2 + rho (t + tau)^2), q = v\'Hv, t = g\'Hv / sqrt(g\'Hg)', known,
                        f'(= {W} {form})', line=line, abstract=ab, timeout=90))
        cut = f'(<= {gHv} (- (* {alpha} {root})))'
        out.append(g.vc('containment/cut: the premise g\'(z - x) <= -(f - f_best) is g\'Hv <= -alpha sqrt(g\'Hg)', known + [f'(<= {gHv} (- (- {f} {fb})))'], cut, line=line))
        facts = [cs, sq, f'(> {root} 0.0)', f'(>= {alpha} 0.0)', f'(< {alpha} 1.0)', f'(<= {q} 1.0)', cut]
        out.append(g.vc('containment/scalar: q <= 1, t <= -alpha, t^2 <= q, 0 <= alpha < 1 => (1/delta)(q + 2 tau t + tau^2 + rho (t + tau)^2) <= 1', facts,
                        f'(<= {form} 1.0)', line=line, abstract=([alpha, root, gHg, gHv, q], 'scalar'), timeout=120))
        out.append(g.vc('containment: z = x + H v in E(x, H), g\'(z - x) <= -(f - f_best), 0 <= alpha < 1 => z in E(x+, H+): w\'(z - x+) <= 1 for the witness w '
                        '(from the conclusions of expansion and scalar)', [f'(= {W} {form})', f'(<= {form} 1.0)'],
                        f'(<= {W} 1.0)', line=line, abstract=([W, form], 'contain'), timeout=60))
    finally:
        g.hyps = saved
    return out
