/* C03, bounded stand-in for the CARDINALITY LEMMA assumed in specs/C03/bundle.h (nv_bundle_remove_if_ge_alphas):
 * the real nano::remove_if (include/nano/tensor/algorithm.h, the instantiation made by bundle_t::delete_largest) is run on concrete
 * buffers of capacity <= 5 with m_alphas an arbitrary permutation of m_bundleE[0,n) that satisfies std::nth_element's
 * postcondition at n - count, the threshold index being the one delete_largest computes: at least `count` entries are removed.
 * Bounded (unwinding 7, capacity 5): reported under `bounded`, never counted as discharged. */
#include "nv_base.h"
struct nv_m1 { double* p; int64_t n; };            /* tensor_t<tensor_marray_storage_t, double, 1>: a view of n doubles */
struct nv_m2 { int64_t rows, cols; };              /* rank 2 view (rows of m_bundleS): contents not modelled */
/* the predicate delete_largest hands to remove_if: `m_bundleE(i) >= thres` with thres = m_alphas(idx) captured by value
 * (this shape is checked on the AST by remove_if_hook of specs/C03/spec.py every time the bundle targets are extracted) */
struct nv_pred { const double* E; double thres; };
static _Bool nv_pred_call(const struct nv_pred* op, int64_t i) { return op->E[i] >= op->thres; }
static int64_t nv_m1_size0(const struct nv_m1* t) { return t->n; }
/* detail::copy(isrc, idst, tensor): tensor(idst) = tensor(isrc) / tensor.tensor(idst) = tensor.tensor(isrc) */
static void nv_copy1(int64_t isrc, int64_t idst, struct nv_m1* t)
{ __CPROVER_assert(0 <= isrc && isrc < t->n && 0 <= idst && idst < t->n, "remove_if: copy inside the views"); t->p[idst] = t->p[isrc]; }
static void nv_copy2(int64_t isrc, int64_t idst, struct nv_m2* t)
{ __CPROVER_assert(0 <= isrc && isrc < t->rows && 0 <= idst && idst < t->rows, "remove_if: row copy inside the view"); }
