"""C03 / C02: stop-test protocol of csearch_t::search and of the proximal bundle solvers (specs/C03/protocol.h)"""
import os
import sys
for d in ('solver', 'C02'):
    sys.path.insert(0, os.path.join(os.path.dirname(os.path.abspath(__file__)), '..', d))
import common
import nonls
import vectrack
from core import Fn, Target
from cxx2c import unwrap, qual, strip_cv

H = 'specs/C03/protocol.h'
TYPES = [(r'^nano::bundle_t$', 'struct nv_pbundle'), (r'^nano::csearch_t$', 'struct nv_csearch'),
         (r'^((nano::)?csearch_t::)?point_t$', 'struct nv_point'), (r'^nano::csearch_status$', 'int32_t')] + nonls.TYPES
OPAQUE = list(common.OPAQUE) + [r'basic_string|^(nano::)?string_t$', r'proximity_t', r'^(nano::)?nesterov_sequence[12]_t$']
MEMBERS = [(r'^solve\|nano::bundle_t', 'nv_pb_solve({self})'), (r'^econverged\|nano::bundle_t', 'nv_pb_econverged({self}, {0})'),
           (r'^sconverged\|nano::bundle_t', 'nv_pb_sconverged({self}, {0})'),
           (r'^x\|nano::bundle_t', 'nv_pb_x'), (r'^gx\|nano::bundle_t', 'nv_pb_gx'), (r'^fx\|nano::bundle_t', 'nv_pb_fx'),
           (r'^delta\|nano::bundle_t', 'nv_pb_delta({self})'), (r'^smeared_e\|nano::bundle_t', 'nv_pb_smeared_e({self})'),
           (r'^dot\|.*tensor', 'nv_gy_dot()'), (r'^dot\|Eigen::', 'nv_s_dot()'),
           (r'^search\|nano::csearch_t', '(*csearch_search({self}, {&0}, {1}, {2}, {3}, {&4}))'), (r'^(miu|reset)\|.*(proximity_t|nesterov_sequence)', '@nondet')] + nonls.MEMBERS
CALLS = [(r'^operator\(\)\|[^|]*\|[^|]*\(lambda at', '@nondet'), (r'^infinity\|double \(\)', 'nv_dbl_inf()'),
         (r'^make\|nano::bundle_t \(', 'nv_pb_make({&0})'), (r'^make\|nano::csearch_t \(', 'nv_cs_make({&0})')] + nonls.CALLS


def vec_of(P, a):
    u = unwrap(a)
    while u.get('kind') in ('CXXConstructExpr', 'MaterializeTemporaryExpr', 'CXXBindTemporaryExpr') and len(u.get('inner', [])) == 1:
        u = unwrap(u['inner'][0])
    return P.addr(u)


def triple_hook(P, n):
    """bundle.moveto / bundle.append / state.update(y, gy, fy) and sequence.update(z): the vector_cmap_t arguments are
    views of the caller's vectors (the conversion is looked through)"""
    if n.get('kind') != 'CXXMemberCallExpr':
        return None
    me = n['inner'][0]
    nm = me.get('name')
    obj = me['inner'][0]
    ot = strip_cv(qual(obj['type']))
    args = n['inner'][1:]
    sel = lambda: P.expr(obj) if me.get('isArrow') else P.addr(obj)
    if ot == 'nano::bundle_t' and nm in ('moveto', 'append') and len(args) == 3:
        P.note(f'bundle.{nm}(y, gy, fy)')
        return f'nv_pb_{nm}({sel()}, {vec_of(P, args[0])}, {vec_of(P, args[1])}, {P.expr(args[2])})'
    if ot == 'nano::solver_state_t' and nm == 'update' and len(args) == 5 and all(unwrap(a).get('kind') == 'CXXDefaultArgExpr' for a in args[3:]):
        P.note('state.update(x, gx, fx)')
        return f'nv_state_update3({sel()}, {vec_of(P, args[0])}, {vec_of(P, args[1])}, {P.expr(args[2])})'
    if 'nesterov_sequence' in ot and nm == 'update' and len(args) == 1:
        P.note('sequence.update(z)')
        return '(*nv_seq_update())'
    return None


def status_write_hook(P, n):
    """every assignment to a csearch_status object records the evaluation count (ghost nv_status_at)"""
    if n.get('kind') != 'BinaryOperator' or n.get('opcode') != '=':
        return None
    lhs = n['inner'][0]
    if strip_cv(qual(lhs.get('type', {}))) not in ('nano::csearch_status',) and 'csearch_status' not in lhs.get('type', {}).get('qualType', ''):
        return None
    if getattr(P, '_in_status_hook', False):
        return None
    P._in_status_hook = True
    try:
        P.note('write of m_point.m_status -> nv_status_at')
        return f'(({P.expr(lhs)} = {P.expr(n["inner"][1])}), (void)(nv_status_at = nv_ver_counter))'
    finally:
        P._in_status_hook = False


def point_binding_hook(P, n, ind):
    """const auto& [t, status, y, gy, fy] = csearch.search(..): the bindings name the members of the returned point_t (read
    from the BindingDecls); the point is not modified while they are in use, so they are printed as copies"""
    if n.get('kind') != 'DeclStmt':
        return None
    ds = [v for v in n.get('inner', []) if v.get('kind') == 'DecompositionDecl']
    if not ds:
        return None
    v = ds[0]
    init = [x for x in v.get('inner', []) if x.get('kind') != 'BindingDecl'][0]
    if 'point_t' not in qual(init.get('type', {})) + init.get('type', {}).get('qualType', ''):
        return None
    p = '  ' * ind
    P.tmp += 1
    t = f'nv_dec{P.tmp}'
    out = f'{p}struct nv_point* {t} = {P.addr(init)};\n' + P.after(p)
    for b in [x for x in v.get('inner', []) if x.get('kind') == 'BindingDecl']:
        me = b['inner'][0]
        if me.get('kind') != 'MemberExpr':
            return None
        out += f'{p}{P.ctype(me["type"])} {b["name"]} = {t}->{me["name"]};\n'
    P.note('structured binding of point_t -> member copies')
    return out


def fn(cname, tu, name, flt, self_struct, select=None, lambda_index=None, captures=False, extra_hooks=(), pre_hooks=()):
    vt = vectrack.VecTrack(extracted_lambdas=['apply_nesterov_sequence'])
    return Fn(cname, tu, name, flt=flt, select=select, self_struct=self_struct, types=TYPES, calls=CALLS, members=MEMBERS,
              hooks=list(pre_hooks) + [nonls.vgrad_hook, triple_hook, status_write_hook, vt.expr_hook] + list(common.HOOKS) + list(extra_hooks),
              stmt_hooks=[point_binding_hook, vt.stmt_hook], opaque=OPAQUE, aggregates=['struct nv_tuple_b_f64'],
              lambda_index=lambda_index, captures=captures)


def search():
    return fn('csearch_search', 'src/solver/csearch.cpp', 'search', 'csearch_t::search', 'struct nv_csearch')


def rqb_move_hook(P, n):
    """rqb: state.update(y, gy, fy) -> nv_rqb_move(&state, &bundle, &csearch, ..): the stub names the solver's bundle and curve search
    (locals of solver_rqb_t::do_minimize) to state the obligation that the move is a descent-tested trial of the last search"""
    if n.get('kind') != 'CXXMemberCallExpr':
        return None
    me = n['inner'][0]
    args = n['inner'][1:]
    if me.get('name') != 'update' or strip_cv(qual(me['inner'][0]['type'])) != 'nano::solver_state_t' or len(args) != 5:
        return None
    if not all(unwrap(a).get('kind') == 'CXXDefaultArgExpr' for a in args[3:]):
        return None
    P.note('rqb: state.update(y, gy, fy) -> nv_rqb_move')
    return f'nv_rqb_move({P.addr(me["inner"][0])}, &bundle, &csearch, {vec_of(P, args[0])}, {vec_of(P, args[1])}, {P.expr(args[2])})'


def rqb():
    return fn('rqb_do_minimize', 'src/solver/rqb.cpp', 'do_minimize', 'solver_rqb_t::do_minimize', 'struct nv_solver', pre_hooks=[rqb_move_hook])


FPBA_SEL = lambda d: True
FPBA_TU = 'src/solver/fpba.cpp'
FPBA_FLT = 'base_solver_fpba_t'


def fpba_select(d):
    # one of the two explicit instantiations (nesterov_sequence1_t / 2_t): the body is the same template text
    return True


def fpba():
    import astload
    f = fn('fpba_do_minimize', FPBA_TU, 'do_minimize', FPBA_FLT, 'struct nv_solver', select=FPBA_PICK)
    # the call of the lambda names the captured variables literally (capture order is checked against the extracted lambda)
    f.calls = [(r'^operator\(\)\|[^|]*\|[^|]*\(lambda at', 'fpba_nesterov({&1}, {&2}, {3}, &state, &sequence, function, &gx, &bundle)')] + f.calls
    return f


def fpba_lambda():
    return fn('fpba_nesterov', FPBA_TU, 'do_minimize', FPBA_FLT, None, select=FPBA_PICK, lambda_index=0, captures=True)


def FPBA_PICK(d):
    import astload
    # CXXMethodDecl of the class template specialisation for nesterov_sequence1_t: clang prints the specialisation's
    # methods without template arguments of their own; the lambda's closure type names the instantiation
    txt = str(d.get('mangledName', ''))
    return 'nesterov_sequence1_t' in txt


def ellipsoid():
    cname, tu, flt, kw = [b for b in nonls.BODIES if b[0] == 'ellipsoid_do_minimize'][0]
    return Target('ellipsoid_stop_test', [nonls.body(cname, tu, flt, **kw), common.fn_done()], nonls.H, replace=['solver_done'], defines=['NV_C03'],
                  note='ellipsoid: converged => the stopping test was evaluated in the returning iteration')


def state_ctor():
    """solver_state_t{function, x0}: the initial status is max_iters (the value-initialised member `m_status{}` is the FIRST enumerator,
    read from /repo's AST): rqb / fpba / ellipsoid set a status only through solver_t::done, so an exhausted budget is reported as
    max_iters and `converged` only when done() decided it (shared target of specs/solver, also run by C01 / C02)"""
    return [t for t in common.targets(['NV_C03']) if t.name == 'state_ctor'][0]


def targets(defines=()):
    done = common.fn_done
    return [Target('csearch_search', [search()], H, defines=defines),
            Target('rqb_do_minimize', [rqb(), search(), done()], H, replace=['csearch_search', 'solver_done'], defines=defines),
            Target('fpba_nesterov', [fpba_lambda()], H, defines=defines),
            Target('fpba_do_minimize', [fpba(), fpba_lambda(), search(), done()], H, replace=['csearch_search', 'solver_done', 'fpba_nesterov'], defines=defines, cbmc_flags=['--object-bits', '10'])]
