import astload
import protocol
import lemma
import numerics
from core import Fn, Target
from cxx2c import unwrap, Unsupported, qual

H = 'specs/C03/bundle.h'
SRC = 'src/solver/bundle.cpp'
TYPES = [(r'^nano::matrix_t$|tensor_t<nano::tensor_vector_storage_t, double, 2', 'struct nv_mat'),
         (r'^nano::vector_t$|tensor_t<nano::tensor_vector_storage_t, double, 1', 'struct nv_t1d'),
         (r'tensor_t<nano::tensor_(c|m)(map|array)_storage_t, double, 1', 'struct nv_slice1'),
         (r'^nano::logger_t$', 'struct nv_logger'), (r'^Eigen::PlainObjectBase<Eigen::Matrix<double, -1, 1, 0>>::Scalar$', 'double')]
OPAQUE = [r'Eigen::', r'program::solver_t']


def remove_if_hook(P, n):
    """bundle_t::remove_if(lambda): the lambda's shape selects the stub; the threshold index is printed from the AST"""
    if n.get('kind') != 'CXXMemberCallExpr' or n['inner'][0].get('name') != 'remove_if':
        return None
    lam = unwrap(n['inner'][1])
    while lam.get('kind') != 'LambdaExpr' and lam.get('inner'):
        lam = unwrap(lam['inner'][0]) if len(lam['inner']) == 1 else next((x for x in lam['inner'] if x.get('kind') == 'LambdaExpr'), {'kind': '?'})
    if lam.get('kind') != 'LambdaExpr':
        raise Unsupported('remove_if argument is not a lambda')
    op = [m for m in astload.walk(lam) if m.get('kind') == 'CXXMethodDecl' and m.get('name') == 'operator()'][0]
    body = [c for c in op['inner'] if c.get('kind') == 'CompoundStmt'][0]
    ret = unwrap(body['inner'][0]['inner'][0])
    # init-captures appear as expression children of the LambdaExpr between the closure class and the body
    inits = [unwrap(x) for x in lam['inner'][1:-1] if unwrap(x).get('kind') not in ('CXXThisExpr', 'DeclRefExpr')]
    if len(inits) == 1 and ret.get('kind') == 'BinaryOperator' and ret.get('opcode') == '>=':
        lhs, rhs = unwrap(ret['inner'][0]), unwrap(ret['inner'][1])
        init = inits[0]

        def is_elem(e, member):
            return e.get('kind') == 'CXXOperatorCallExpr' and any(m.get('kind') == 'MemberExpr' and m.get('name') == member for m in astload.walk(e['inner'][1]))
        # predicate must be m_bundleE(i) >= thres with the single init-capture thres = m_alphas(<index expression>)
        if is_elem(lhs, 'm_bundleE') and rhs.get('kind') == 'DeclRefExpr' and rhs['referencedDecl'].get('kind') == 'VarDecl' and is_elem(init, 'm_alphas'):
            P.note('remove_if(m_bundleE(i) >= m_alphas(idx))')
            return f'nv_bundle_remove_if_ge_alphas(self, {P.expr(init["inner"][2])})'
    P.note('remove_if(<other predicate>)')
    P.check_pure(body, 'predicate of remove_if')
    return 'nv_bundle_remove_if_any(self)'


MEMBERS = [(r'^size\|nano::bundle_t', 'bundle_size'), (r'^capacity\|nano::bundle_t', 'bundle_capacity'),
           (r'^size\|.*tensor_base_t<double, 1', 'nv_t1d_size'),
           (r'^delete_inactive\|', 'bundle_delete_inactive'), (r'^delete_largest\|', 'bundle_delete_largest'),
           (r'^store_aggregate\|', 'bundle_store_aggregate'), (r'^append_aggregate\|', 'bundle_append_aggregate'),
           (r'^append\|nano::bundle_t.*#4', 'bundle_append4'),
           (r'^smeared_e\|', '@nondet'),
           (r'^tensor\|.*tensor_vector_storage_t, double, 2', 'nv_mat_row'), (r'^vector\|.*tensor_vector_storage_t, double, 2', 'nv_mat_row'),
           (r'^slice\|.*tensor_vector_storage_t, double, 1', None),
           (r'^begin\|.*tensor_vector_storage_t, double, 1', '{*self}.p'),
           (r'^dot\|', '@nondet')]


def slice_hook(P, n):
    if n.get('kind') != 'CXXMemberCallExpr' or n['inner'][0].get('name') != 'slice':
        return None
    obj = unwrap(n['inner'][0]['inner'][0])
    nm = obj.get('name')
    if nm == 'm_bundleE':
        return f'nv_slice_E(&self->m_bundleE, {P.expr(n["inner"][1])}, {P.expr(n["inner"][2])})'
    if nm == 'm_alphas':
        return f'nv_slice_A(&self->m_alphas, {P.expr(n["inner"][1])}, {P.expr(n["inner"][2])})'
    return None


CALLS = [(r'^operator\(\)\|.*tensor_vector_storage_t, double, 1', '{0}.p[{1}]'),
         (r'^operator=\|[^|]*\((const )?(nano::)?tensor_t<nano::tensor_(c|m)(map|array)_storage_t, double, 1[^|]*\|nano::tensor_t<nano::tensor_(c|m)(map|array)_storage_t, double, 1>\|#2', 'nv_slice_assign({0}, {1})'),
         (r'^operator=\|.*\|nano::tensor_t<nano::tensor_(c|m)(map|array)_storage_t, double, 1>\|#2', 'nv_slice_store_erased({0})'),
         (r'^operator=\|.*\|nano::tensor_t<nano::tensor_vector_storage_t, double, 1>\|#2', 'nv_t1d_assign_erased({&0})'),
         (r'^nth_element\|', 'nv_nth_element({0}, {1}, {2})'),
         (r'^epsilon0\|', 'nv_epsilon0()'), (r'^min\|const long &', 'nv_imin({0}, {1})')]
COMMON = dict(self_struct='struct nv_bundle', types=TYPES, calls=CALLS, members=[m for m in MEMBERS if m[1] is not None],
              hooks=[remove_if_hook, slice_hook], opaque=OPAQUE)


def nparams(k):
    return lambda d: len([c for c in d['inner'] if c['kind'] == 'ParmVarDecl']) == k


def fn(cname, name, flt=None, select=None, tu=SRC):
    return Fn(cname, tu, name, flt=flt or ('bundle_t::' + name), select=select, **COMMON)


def build(tier):
    cap = lambda: fn('bundle_capacity', 'capacity', tu='drivers/inst_bundle.cpp', flt='nano::bundle_t')
    size = lambda: fn('bundle_size', 'size', tu='drivers/inst_bundle.cpp', flt='nano::bundle_t')
    di = lambda: fn('bundle_delete_inactive', 'delete_inactive')
    dl = lambda: fn('bundle_delete_largest', 'delete_largest')
    sa = lambda: fn('bundle_store_aggregate', 'store_aggregate')
    aa = lambda: fn('bundle_append_aggregate', 'append_aggregate')
    a4 = lambda: fn('bundle_append4', 'append', select=nparams(4))
    a3 = lambda: fn('bundle_append3', 'append', select=nparams(3))
    mv = lambda: fn('bundle_moveto', 'moveto')
    acc = ['bundle_capacity', 'bundle_size']
    # constructor / stopping tests: the state is seen as (point, gradient, value); smeared_e() / smeared_s() are ghosts
    ckw = dict(COMMON)
    ckw['types'] = TYPES + [(r'^nano::solver_state_t$', 'struct nv_cstate')]
    ckw['members'] = [(r'^x\|nano::solver_state_t', 'nv_cstate_x'), (r'^gx\|nano::solver_state_t', 'nv_cstate_gx'), (r'^fx\|nano::solver_state_t', 'nv_cstate_fx'),
                      (r'^smeared_e\|', 'nv_smeared_e'), (r'^lpNorm\|', 'nv_smeared_s_norm()')] + COMMON['members']
    ckw['calls'] = [(r'^ctor\|nano::matrix_t\|void \(long, long\)|^ctor\|.*tensor_vector_storage_t, double, 2.*\|void \(long, long\)', 'nv_mat_make({0}, {1})'),
                    (r'^ctor\|(nano::vector_t|.*tensor_vector_storage_t, double, 1[^|]*)\|void \(long\)', 'nv_t1d_make({0})'),
                    (r'^ctor\|.*tensor_c(map|array)_storage_t, double, 1', 'nv_slice_of({&0})'), (r'^sqrt\|', 'nv_usqrt({0})')] + COMMON['calls']
    ctor = Fn('bundle_ctor', SRC, 'bundle_t', flt='bundle_t::bundle_t', kinds=('CXXConstructorDecl',), **ckw)
    econv = Fn('bundle_econverged', SRC, 'econverged', flt='bundle_t::econverged', **ckw)
    sconv = Fn('bundle_sconverged', SRC, 'sconverged', flt='bundle_t::sconverged', **ckw)
    targets = [
        Target('bundle_capacity', [cap()], H), Target('bundle_size', [size()], H),
        Target('bundle_delete_inactive', [di(), size(), cap()], H, replace=acc),
        Target('bundle_store_aggregate', [sa(), size(), cap()], H, replace=acc),
        Target('bundle_append_aggregate', [aa(), size(), cap()], H, replace=acc),
        Target('bundle_delete_largest', [dl(), sa(), aa(), size(), cap()], H, replace=acc + ['bundle_store_aggregate', 'bundle_append_aggregate']),
        Target('bundle_append4', [a4(), di(), dl(), size(), cap()], H, replace=acc + ['bundle_delete_inactive', 'bundle_delete_largest']),
        Target('bundle_append3', [a3(), a4()], H, replace=['bundle_append4']),
        Target('bundle_moveto', [mv(), a4()], H, replace=['bundle_append4']),
        Target('bundle_ctor', [ctor, a4()], H, replace=['bundle_append4']),
        Target('bundle_econverged', [econv, size(), cap()], H, replace=acc), Target('bundle_sconverged', [sconv, size(), cap()], H, replace=acc),
    ] + protocol.targets(['NV_C03']) + [protocol.ellipsoid(), protocol.state_ctor()]
    num_vcs, num_bounded, num_info = numerics.build(tier)
    return {
        'targets': targets, 'vcs': num_vcs, 'bounded': [lemma.target()] + num_bounded, 'functions': num_info,
        'undecided': list(numerics.build.undecided),
        'decided': ['bundle_t representation invariant 0 < m_size < capacity() after append / moveto (and from m_size >= 0, as the constructor uses append); every index written into m_bundleE / m_bundleS / m_alphas lies in [0, capacity()); delete_largest reads m_alphas inside [0, size()) and a full bundle loses at least `count` entries',
                    'bundle_t constructor: capacity() = max_size + 1 >= 3 slots in all three buffers (the shape NV_BUNDLE_SHAPE every other contract assumes), centre copied from the state, invariant established by the first append',
                    'econverged / sconverged: smeared_e <= epsilon * sqrt(dimension of x), |smeared_s|_2 <= epsilon * sqrt(dimension of x) (the formula of the property; sqrt uninterpreted)',
                    'csearch_t::search: the returned (y, gy, fy) is one evaluation; converged => both stopping tests were evaluated true with the caller\'s epsilon on the bundle version returned by its last solve; non-finite fy => failed; a status that makes a claim about the returned point was decided in this call after the last evaluation (pins the repair 778c4d3); descent_step / cutting_plane_step / null_step are reported only for a trial that passed the corresponding tests of this call (sufficient descent f(centre) - fy >= m1*delta; gy.(y-x) >= -m2*delta; sconverged or s.(y-x) >= -m4*delta; e <= m3*delta) on the quantities computed for that trial; the proximity centre is not moved; at most one evaluation beyond max_evals',
                    'rqb / fpba1,2 do_minimize: converged => the curve search decided converged for the final bundle; rqb: the returned state is the bundle\'s proximity centre; fpba: the returned (best) value is not above a finite centre value',
                    'ellipsoid: converged => g\'Hg < machine epsilon was computed after the last evaluation, or sqrt(g\'Hg) < epsilon was evaluated after the last evaluation on that iteration\'s g\'Hg',
                    'BOUNDED (dimension n = 1, 2, 3; reals; specs/C03/ellipsoid_num.py): one iteration of solver_ellipsoid_t::do_minimize from the state its own prefix builds AND from an arbitrary loop-head state (x, H, g, f, best state with f_best <= f): the new centre and shape equal the textbook deep-cut update alpha = (f - f_best)/sqrt(g\'Hg), x+ = x - (1 + n alpha)/(n + 1) H g / sqrt(g\'Hg), H+ = n^2/(n^2 - 1) (1 - alpha^2) (H - 2 (1 + n alpha)/((n + 1)(1 + alpha)) H g g\' H / (g\'Hg)), both computed from the OLD H; H+ stays symmetric; n == 1 is bisection (x+ = x -/+ H, H+ = H/2); the initial shape is R^2 I (R for n == 1) around x0; the function is evaluated exactly once per iteration, at x+, and update_if_better gets (x+, g+, f+); the quantity handed to done() as `converged` is sqrt(g\'Hg) < epsilon of the H and g that produced the step, the degenerate exit tests g\'Hg of the loop-head H and g against machine epsilon; an iteration that continues re-establishes f_best <= f (hence alpha >= 0, 1 + alpha != 0); every division / sqrt of the body is defined.  THOROUGH tier, n = 2 (bonus): the defining property of the update on the code\'s own x+ and H+: for H symmetric positive definite, z = x + H v with v\'Hv <= 1 (z in E(x, H)), g\'(z - x) <= -(f - f_best) and 0 <= alpha < 1 there is w with H+ w == z - x+ and w\'(z - x+) <= 1 (z in E(x+, H+)); proved as a chain witness / cauchy-schwarz / expansion / cut / scalar / containment, no matrix inverse involved',
                    'BOUNDED (n <= 3, at most 3 bundle entries, capacity 4; reals; specs/C03/bundle_num.py): the linearisation-error identity that keeps the cutting-plane model a lower bound. With the ghost (y_i, f_i, g_i) per entry and the invariant E(i) == f(centre) - (f_i + g_i.(centre - y_i)), S(i) == g_i: bundle_t::append(serious) re-bases every retained entry (E\'(i) == fy - (f_i + g_i.(y - y_i)), S\'(i) == g_i) and appends (0, gy); append(null) keeps the entries and appends E == f(centre) - (fy + gy.(centre - y)), S == gy; moveto hands (y, gy, fy, true) to append while the centre is still the old one and then installs (y, gy, fy): the invariant holds for the NEW centre; append(y, gy, fy) hands (y, gy, fy, false) on; store_aggregate writes exactly sum alpha_i E(i), sum alpha_i S(i) over the entries [0, size()) into slot capacity()-1 (with sum alpha_i == 1: the alpha-combination of the entries\' cutting planes at every point z); append_aggregate copies that slot into entry size(); econverged / sconverged compare exactly these alpha-weighted combinations of the CURRENT buffers (sum alpha_i E(i), |sum alpha_i S(i)|_2) with epsilon sqrt(n); the inline accessors size / capacity / e / alpha / S / smeared_e / smeared_s of bundle.h are walked at each call',
                    'BOUNDED (n <= 2 quick, n = 3 thorough; reals): bundle_t::solve for 1 and 2 entries (the branches that do not call the QP solver): the multipliers sum to 1 and are non-negative, nothing else changes, and for 2 entries with S(0) != S(1) they minimise the dual of the proximal bundle problem 1/2 |sum alpha_i S(i)|^2 + miu sum alpha_i E(i) over the simplex'],
        'not_decided': ['the certificate f(x)-f* <= 2 eps sqrt(n)(1+|x-x*|): follows from the cutting-plane model being a lower bound, a convex-analysis argument about values', 'ellipsoid always converges',
                        'the QP solve for 3 and more entries (bundle_t::solve through program::solver_t: that the multipliers it leaves are the simplex-constrained minimiser, in particular sum alpha_i == 1 and alpha_i >= 0; for 2 entries with equal sub-gradients the code relies on IEEE inf / NaN and std::isfinite, outside the real model), the proximity parameter, delta() / proximal(), the Nesterov sequences of fpba: erased numerics',
                        'that delete_inactive / delete_largest (nano::remove_if on the three buffers, std::nth_element) keep the (E, S) pair of every retained entry together: assumed by the append obligations (the size / capacity side of it is proved by the CBMC targets)',
                        'the ellipsoid update and the linearisation-error identities in floating point (rounding, cancellation), for n > 3 / more than 3 bundle entries (the formula obligations are BOUNDED stand-ins over the reals), and Eigen storage aliasing in `H = expression of H`',
                        'ellipsoid: that the minimiser stays inside the ellipsoid for n != 2 (the containment property of the deep-cut update is shown at n = 2 only, thorough tier, bounded), that H stays positive definite, and that alpha < 1 (x* inside the initial radius; for alpha >= 1 the cut misses the ellipsoid, H+ is no longer positive definite and a later iteration leaves through one of the two stopping tests: observed natively for f = |x0 - 5| + 2|x1 + 3| from x0 = 0 with R = 0.5, 1, 2: status converged after 36 evaluations at f - f* = 9.9, 8.8, 6.5, while R = 10 converges to (5, -3); this is outside the quantifier of the property, which places x* inside the initial radius)'],
        'assumptions': ['cardinality lemma for std::nth_element + nano::remove_if (entries at or after the partition point are >= any element at or before it), stated in specs/C03/bundle.h; checked on the real nano::remove_if for capacities <= 5 by the bounded target lemma_remove_if_cardinality_bounded',
                        'CBMC targets: contents of m_bundleS, smeared_e/smeared_s and the QP solve are erased (the formula obligations of specs/C03/bundle_num.py keep them, at bounded sizes)',
                        'formula obligations (specs/C03/ellipsoid_num.py, bundle_num.py): double is treated as real; Eigen / nano tensor operators (+ - * / on vectors and matrices, products, transpose, dot, norm, lpNorm<2>, identity, .array() += scalar, matrix *= / /= scalar, tensor.slice(b, e), matrix.vector(i) / .tensor(i) as row views, the linear index H(0) of a rank-2 tensor) have their mathematical meaning and a right-hand side is evaluated before it is assigned (also under .noalias() when the right-hand side is coefficient-wise at the top: nested products are evaluated into temporaries); tensor.vector() / .matrix() are Eigen::Map views of the tensor\'s own storage (a local initialised with one is another name of the tensor)',
                        'formula obligations, ellipsoid: function.vgrad(x, g) is one evaluation at x (arbitrary value, arbitrary g, an arbitrary `isfinite` flag); solver_state_t{function, x0} is one evaluation at x0; update_if_better(x, g, f) replaces the state by (x, g, f) iff f is finite and below the stored value (src/solver/state.cpp, not walked); solver_t::done returns converged || !(iter_ok && valid) (PROVED: target solver_done); hypothesis of the generic scenario: f_best <= f at the loop head (re-established by the obligation best-below)',
                        'formula obligations, bundle: delete_inactive / delete_largest at the head of append leave SOME bundle that satisfies the linearisation invariant for the unchanged centre (the walk continues from an arbitrary such bundle); sum alpha_i == 1 (guarantee of the QP solve; shown for the analytic branches of solve with 1 and 2 entries) is a hypothesis of the aggregate-plane lemma only; solve with 2 entries: S(0) != S(1), and std::isfinite of a quotient with a non-zero divisor is true',
                        'protocol view of bundle_t (specs/C03/protocol.h nv_pb_*): solve / append / moveto change the bundle version, moveto stores (y, gy, fy) as the centre, econverged / sconverged are functions of the current bundle and epsilon (transcribed from specs/C03/bundle.h and src/solver/bundle.cpp)',
                        'vector identities and the deterministic-function prophecy of specs/C02/nonls.h'],
        'trusted': [],
    }


_REPLAYED = {}


def replay(rp):
    """the size/capacity invariant is replayed on the real solvers: rqb / fpba1 / fpba2 with bundle::max_size 2 and 3
    (the smallest bundles) on the library's non-smooth convex benchmarks under valgrind; a write past the bundle buffers
    or a read of uninitialised multipliers reproduces the violation"""
    import subprocess
    import replaylib
    out = {'reproduced': False, 'runs': []}
    import os
    if '[' in rp.get('target', '') and ('/mut_C03_' in os.environ.get('NV_SCRATCH', '') or os.environ.get('NV_NO_NATIVE_REPLAY')):
        # canary-mutation self test of the thorough tier (it only looks at the refuted obligation) / mutation loops
        out['skipped'] = 'canary-mutation run / NV_NO_NATIVE_REPLAY'
        return out
    if rp.get('target', '').startswith('ellipsoid_iteration'):
        # formula obligations of the ellipsoid solver: the real solver runs on a fixed convex function with a spy function_t that records every
        # evaluation; the driver re-runs the textbook deep-cut / bisection recurrence on the recorded (x, f, g) and compares the next evaluation point
        if 'ellipsoid' not in _REPLAYED:
            exe = replaylib.build_with_library('replay/C03_ellipsoid_replay.cpp', 'C03_ellipsoid_replay')
            _REPLAYED['ellipsoid'] = replaylib.run_driver(exe, [])
        rc, so, se = _REPLAYED['ellipsoid']
        out['runs'].append({'exit': rc, 'output': so.strip()[:3000]})
        out['reproduced'] = rc == 1
        if rc != 1:
            out['note'] = 'the evaluation points on the replay function agree with the textbook recurrence: the refuted clause does not show in this scenario'
        return out
    if '[' in rp.get('target', ''):
        out['note'] = 'bounded formula obligation of bundle_t: the replay file carries the verifier output (SMT model) only'
        return out
    if any(k in rp.get('target', '') for k in ('csearch', 'rqb')):
        # step-status protocol of the curve search: RQB acting on a status that was not decided for the returned trial returns a
        # value above the starting value on convex functions with a tiny budget
        exe = replaylib.build_with_library('replay/C02_rqb_replay.cpp', 'C02_rqb_replay')
        rc, so, se = replaylib.run_driver(exe, [10, 40], timeout=600)
        out['runs'].append({'exit': rc, 'output': so.strip()[-3000:]})
        out['reproduced'] = rc == 1
        return out
    if not any(k in rp.get('target', '') for k in ('bundle', 'lemma')):
        out['note'] = 'no native scenario for this target: the replay file carries the verifier output only'
        return out
    exe = replaylib.build_with_library('replay/C03_replay.cpp', 'C03_replay')
    for msize in (2, 3):
        r = subprocess.run(['valgrind', '-q', '--error-exitcode=9', exe, str(msize)], capture_output=True, text=True, timeout=1200)
        inv = r.stderr.count('Invalid write') + r.stderr.count('Invalid read')
        uninit = r.stderr.count('uninitialised')
        first = next((ln for ln in r.stderr.splitlines() if 'bundle_t' in ln), '')
        out['runs'].append({'max_size': msize, 'exit': r.returncode, 'invalid_accesses': inv, 'uninitialised_reads': uninit, 'first_frame': first.strip()})
        if r.returncode == 9 or inv + uninit > 0:
            out['reproduced'] = True
    return out
