"""bounded concrete check of the cardinality lemma assumed in specs/C03/bundle.h (see specs/C03/lemma.h)"""
import re

import astload
from core import Fn, Target

H = 'specs/C03/lemma.h'
HARNESS = r'''
#define NV_CAPACITY 5
int main(void)
{
  double E[NV_CAPACITY], A[NV_CAPACITY];
  int64_t perm[NV_CAPACITY];
  int64_t n, d;
  const int64_t count = 2;                          /* delete_largest(2) */
  /* a full bundle: size() + 1 == capacity(), capacity in [3, 5] */
  __CPROVER_assume(2 <= n && n <= NV_CAPACITY - 1 && 0 <= d && d <= 4);
  for (int64_t i = 0; i < NV_CAPACITY; ++i) { __CPROVER_assume(E[i] == E[i]); }        /* linearisation errors are numbers */
  /* m_alphas[0,n) = m_bundleE[0,n) followed by std::nth_element(begin, begin + (n - count), begin + n):
   * a permutation with everything before the partition point <= *nth <= everything after it */
  const int64_t k = n - count;
  for (int64_t i = 0; i < NV_CAPACITY; ++i)
  {
    __CPROVER_assume(0 <= perm[i] && perm[i] < NV_CAPACITY && (i >= n || perm[i] < n));
    for (int64_t j = 0; j < i; ++j) { __CPROVER_assume(perm[j] != perm[i]); }
    A[i] = E[perm[i]];
  }
  for (int64_t i = 0; i < NV_CAPACITY; ++i)
  {
    if (i < n) { __CPROVER_assume(i < k ? A[i] <= A[k] : A[k] <= A[i]); }
  }
  /* thres = m_alphas(idx) for ANY index at or before the partition point (the hypothesis of the assumed lemma; delete_largest's
   * own index std::min(count, size() - count) is proved to be one by the bundle_delete_largest target) */
  int64_t idx;
  __CPROVER_assume(0 <= idx && idx <= k);
  struct nv_pred op; op.E = E; op.thres = A[idx];
  struct nv_m1 e; e.p = E; e.n = n;
  struct nv_m2 s; s.rows = n; s.cols = d;
  struct nv_m1 a; a.p = A; a.n = n;
  nv_thrown = 0;
  int64_t r = nv_remove_if(&op, &e, &s, &a);
  __CPROVER_assert(0 <= r && r <= n, "remove_if returns the number of kept entries");
  __CPROVER_assert(r <= n - count, "CARDINALITY LEMMA: a full bundle loses at least `count` entries");
  __CPROVER_assert(0, "nv_canary: end of harness reachable");
  return 0;
}
'''


def lambda_line(d):
    m = re.search(r'bundle\.cpp:(\d+):', ' '.join(astload.template_args(d)))
    return int(m.group(1)) if m else -1


def target():
    docs = astload.dump('src/solver/bundle.cpp', 'nano::remove_if')
    lines = [lambda_line(d) for d in astload.find_definitions(docs, 'remove_if', ('FunctionDecl',))]
    last = max(lines) if lines else -1          # delete_largest's lambda is the later one in the file (delete_inactive's comes first)
    f = Fn('nv_remove_if', 'src/solver/bundle.cpp', 'remove_if', flt='nano::remove_if', select=lambda d: lambda_line(d) == last and last > 0,
           kinds=('FunctionDecl',),
           types=[(r'\(lambda at [^)]*bundle\.cpp:\d+:\d+\)', 'struct nv_pred'),
                  (r'tensor_t<nano::tensor_marray_storage_t, double, 1', 'struct nv_m1'), (r'tensor_t<nano::tensor_marray_storage_t, double, 2', 'struct nv_m2')],
           calls=[(r'^operator\(\)\|', 'nv_pred_call({&0}, {1})'), (r'^forward\|', '{0}'),
                  (r'^size\|.*tensor_marray_storage_t, double, 1', 'nv_m1_size0({&0})'),
                  (r'^copy\|[^|]*tensor_marray_storage_t, double, 1', 'nv_copy1({0}, {1}, {&2})'),
                  (r'^copy\|[^|]*tensor_marray_storage_t, double, 2', 'nv_copy2({0}, {1}, {&2})')],
           uf_float=False, ret='int64_t')
    return Target('lemma_remove_if_cardinality_bounded', [f], H, enforce_none=True, harness=HARNESS, unwind=7, loops=0,
                  note='bounded (capacity <= 5, unwinding 7): real nano::remove_if + nondeterministic nth_element permutation')
