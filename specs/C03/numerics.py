"""C03, numerics: the numeric MECHANISMS the eps-optimality certificate rests on, as SMT obligations over the reals on the REAL code
(ellipsoid_num.py: one iteration of the ellipsoid solver; bundle_num.py: linearisation errors, aggregation, smeared quantities of bundle_t).

Obligations at a FIXED dimension / bundle size are BOUNDED stand-ins (returned through `bounded=[...]`: a failure is a violation, a success is
never counted as `discharged`)."""
import os
import sys

for d in ('C01', 'C06'):
    sys.path.insert(0, os.path.join(os.path.dirname(os.path.abspath(__file__)), '..', d))
import astload                      # noqa: E402
import core                         # noqa: E402
from cxx2c import Unsupported       # noqa: E402

import ellipsoid_num                # noqa: E402


def guarded(job, what):
    def run():
        try:
            return job()
        except Unsupported as e:
            raise astload.ExtractionError(f'{what}: {e}')
        except (KeyError, IndexError, TypeError, AttributeError, ValueError) as e:
            raise astload.ExtractionError(f'{what}: the walk of the real code left the shape the contract is written for ({type(e).__name__}: {e})')
    return run


def build(tier):
    info = []
    thorough = tier == 'thorough'
    jobs = []
    astload.dump(ellipsoid_num.TU, ellipsoid_num.FLT)          # one clang run, before the walks
    for n in (1, 2, 3):
        for first in (True, False):
            jobs.append(guarded(lambda n=n, first=first: ellipsoid_num.iteration_vcs(n, first, info, thorough), f'ellipsoid iteration n={n}'))
    bounded = []
    for r in [j() for j in jobs]:
        bounded += r
    seen = {}
    for f in info:
        seen[f['c_name']] = f
    return [], bounded, list(seen.values())
