"""C03, numerics: the numeric MECHANISMS the eps-optimality certificate rests on, as SMT obligations over the reals on the REAL code
(ellipsoid_num.py: one iteration of the ellipsoid solver; bundle_num.py: linearisation errors, aggregation, smeared quantities of bundle_t).

Obligations at a FIXED dimension / bundle size are BOUNDED stand-ins (returned through `bounded=[...]`: a failure is a violation, a success is
never counted as `discharged`)."""
import os
import sys

for d in ('C01', 'C06'):
    sys.path.insert(0, os.path.join(os.path.dirname(os.path.abspath(__file__)), '..', d))
import astload                      # noqa: E402
import core                         # noqa: E402
from cxx2c import Unsupported       # noqa: E402

import ellipsoid_num                # noqa: E402
import bundle_num                   # noqa: E402


def guarded(job, what):
    def run():
        try:
            return job()
        except Unsupported as e:
            raise astload.ExtractionError(f'{what}: {e}')
        except (KeyError, IndexError, TypeError, AttributeError, ValueError) as e:
            raise astload.ExtractionError(f'{what}: the walk of the real code left the shape the contract is written for ({type(e).__name__}: {e})')
    return run


def build(tier):
    info = []
    thorough = tier == 'thorough'
    jobs = []
    astload.dump(ellipsoid_num.TU, ellipsoid_num.FLT)          # one clang run, before the walks
    for n in (1, 2, 3):
        for first in (True, False):
            jobs.append(guarded(lambda n=n, first=first: ellipsoid_num.iteration_vcs(n, first, info, thorough), f'ellipsoid iteration n={n}'))
    # bundle_t: dimension n of x, m entries, capacity 4 (= bundle::max_size 3; m == 3 is the full bundle that delete_largest aggregates)
    astload.dump(bundle_num.TU, bundle_num.FLT)
    cap = 4
    for n, m in ((1, 0), (1, 1), (2, 0), (2, 1), (2, 2), (3, 2)):
        for serious in (True, False):
            jobs.append(guarded(lambda n=n, m=m, serious=serious: bundle_num.append4_vcs(n, m, cap, serious, info), f'bundle append n={n} m={m}'))
    for n, m in ((1, 1), (2, 0), (2, 1), (3, 2)):
        for which in ('moveto', 'append'):
            jobs.append(guarded(lambda n=n, m=m, which=which: bundle_num.caller_vcs(which, n, m, cap, info), f'bundle {which} n={n} m={m}'))
    for n, m in ((1, 1), (2, 2), (2, 3), (3, 3)):
        jobs.append(guarded(lambda n=n, m=m: bundle_num.aggregate_vcs(n, m, cap, info), f'bundle store_aggregate n={n} m={m}'))
        jobs.append(guarded(lambda n=n, m=m: bundle_num.converged_vcs(n, m, cap, info), f'bundle e/sconverged n={n} m={m}'))
    for n, m in ((1, 0), (2, 1), (3, 2)):
        jobs.append(guarded(lambda n=n, m=m: bundle_num.append_aggregate_vcs(n, m, cap, info), f'bundle append_aggregate n={n} m={m}'))
    # bundle_t::solve: the analytic branches (1 and 2 entries); the n = 3 minimiser identity takes 10-30 s: thorough tier
    for n, m in ((2, 1), (1, 2), (2, 2)) + (((3, 2),) if thorough else ()):
        jobs.append(guarded(lambda n=n, m=m: bundle_num.solve_vcs(n, m, cap, info), f'bundle solve n={n} m={m}'))
    # a walk that leaves the shape its contract is written for (e.g. under a change of the library that the CBMC targets
    # refute) makes THAT family undecided, not the whole property: the other targets are still built and run
    bounded = []
    build.undecided = []
    for j in jobs:
        try:
            bounded += j()
        except astload.ExtractionError as e:
            what = str(e).split(':')[0]
            build.undecided.append((what, str(e)))
    seen = {}
    for f in info:
        seen[f['c_name']] = f
    return [], bounded, list(seen.values())


build.undecided = []
