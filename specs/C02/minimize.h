/* C02: solver_t::minimize (src/solver.cpp): a dimension mismatch throws before any evaluation; otherwise the function's
 * statistics are cleared and then (only then) the solver body runs.  This discharges the precondition
 * `nv_ver_counter == 0` (NV_MINIMIZE_REQUIRES) that every do_minimize contract assumes. */
#include "../solver/solver.h"
int64_t nv_fn_dim, nv_x0_dim;       /* ghost: function.size(), x0.size() */
_Bool nv_body_called;               /* ghost: do_minimize was entered */
static int64_t nv_fn_size(const struct nv_function* f) { return nv_fn_dim; }
static int64_t nv_x0_size(const struct nv_opaque* x) { return nv_x0_dim; }
/* function_t::clear_statistics(): fcalls() = gcalls() = 0 (the ghost evaluation counter is the function's counter) */
static void nv_fn_clear_statistics(const struct nv_function* f) { nv_ver_counter = 0; }
/* the virtual do_minimize: every body is verified under NV_MINIMIZE_REQUIRES; here its precondition is an obligation */
static struct nv_state nv_do_minimize(const struct nv_solver* self, const struct nv_function* f, const struct nv_opaque* x0, const struct nv_logger* l)
{
  __CPROVER_assert(NV_SOLVER_PARAMS_OK && nv_ver_counter == 0, "do_minimize precondition (NV_MINIMIZE_REQUIRES): statistics cleared, parameters in their domains");
  __CPROVER_assert(nv_fn_dim == nv_x0_dim, "do_minimize is entered only with a starting point of the function's dimension");
  __CPROVER_assert(!nv_body_called, "do_minimize is entered once");
  nv_body_called = 1;
  struct nv_state s = nv_state_make(f, x0);
  uint64_t more = nv_nondet_uint64_t(); __CPROVER_assume(more < 2000000000u);
  nv_ver_counter += more;
  return s;
}
#define NV_CONTRACT_solver_minimize \
__CPROVER_requires(NV_SOLVER_PARAMS_OK && NV_COUNTER_OK && !nv_body_called && __CPROVER_is_fresh(self, sizeof(*self)) && __CPROVER_is_fresh(function, sizeof(*function)) && __CPROVER_is_fresh(x0, sizeof(*x0))) \
__CPROVER_assigns(nv_ver_counter, nv_body_called, nv_thrown) \
__CPROVER_ensures((nv_fn_dim != nv_x0_dim) == nv_thrown) \
__CPROVER_ensures(nv_thrown ==> (!nv_body_called && nv_ver_counter == __CPROVER_old(nv_ver_counter))) \
__CPROVER_ensures(!nv_thrown ==> nv_body_called)
