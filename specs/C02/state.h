/* C02: the shared bookkeeping of nano::solver_state_t (src/solver/state.cpp) on its *implementation* view:
 *   update_if_better (both overloads), value_test, update_calls, valid.
 * Vectors are ghost identities (which point / which gradient is stored), the value m_fx is a real double: the
 * subtraction `m_fx - fx` of update_if_better is IEEE (this header is used with uf_float=False), because the property's
 * "strict decrease" is a statement about the comparison fx < m_fx, not about the code's `df > 0`. */
#include "nv_base.h"
struct nv_vec { uint64_t id; _Bool fin; };                 /* vector_t: ghost identity + "all coefficients finite" */
struct nv_function { int64_t fcalls, gcalls; };            /* function_t: only its evaluation counters */
struct nv_vecd { double* p; uint64_t n; int32_t tag; double last; };    /* std::vector<double>: tag 1 = m_history_df, 2 = m_history_dx; ghost last = the value pushed last */
struct nv_sstate
{
  struct nv_function* m_function;
  struct nv_vec m_x, m_gx; double m_fx;
  struct nv_vec m_ceq, m_cineq, m_meq, m_mineq;
  int32_t m_status; int64_t m_fcalls, m_gcalls;
  struct nv_vecd m_history_df, m_history_dx;
  /* ghost: identities of (m_x, m_gx) for which update_constraints() recomputed the stored constraint values */
  uint64_t cons_x, cons_gx;
};
#define NV_DBL_MAX 1.7976931348623157e308
#define NV_FMAXM(a, b) (((a) < (b)) ? (b) : (a))      /* std::max(a, b) */

/* ---- assumed contracts of the dependencies ---- */
static int64_t nv_fn_fcalls(const struct nv_function* f) { return f->fcalls; }
static int64_t nv_fn_gcalls(const struct nv_function* f) { return f->gcalls; }
/* vector_t::operator=(const vector_t&): the destination holds the source's coefficients */
static void nv_vec_assign(struct nv_vec* dst, const struct nv_vec* src) { *dst = *src; }
/* tensor_t::all_finite() */
static _Bool nv_vec_all_finite(const struct nv_vec* v) { return v->fin; }
/* solver_state_t::update_constraints() (private; C05 proves what it computes): recomputes the stored constraint values
 * and the Lagrangian gradient from the *current* (m_x, m_gx) */
static void nv_update_constraints(struct nv_sstate* s) { s->cons_x = s->m_x.id; s->cons_gx = s->m_gx.id; }
/* std::vector<double>::push_back: the length grows by one (the writer side tracks the length and the value pushed last) */
static void nv_vecd_push_back(struct nv_vecd* v, double x) { v->n = v->n + 1; v->last = x; }
static uint64_t nv_vecd_size(const struct nv_vecd* v) { return v->n; }
/* std::vector<double>::operator[](i): i < size() is the caller's obligation (undefined behaviour otherwise) */
uint64_t nv_w_df_idx;      /* witness: the last index read from m_history_df */
static double nv_vecd_at(const struct nv_vecd* v, uint64_t i)
{
  __CPROVER_assert(i < v->n, "std::vector<double>::operator[]: index < size()");
  if (v->tag == 1) nv_w_df_idx = i;
  return v->p[i];
}
/* std::numeric_limits<double>::max() / lowest() / std::isfinite / std::max<double> */
static double nv_dbl_max(void) { return NV_DBL_MAX; }
static double nv_dbl_lowest(void) { return -NV_DBL_MAX; }
static _Bool nv_isfinite(double a) { return NV_FINITE(a); }
static double nv_fmax(double a, double b) { return (a < b) ? b : a; }

/* ---- update_calls: the reported counters are the function's counters at the time of the call */
#define NV_CONTRACT_state_update_calls \
__CPROVER_requires(__CPROVER_is_fresh(self, sizeof(*self)) && __CPROVER_is_fresh(self->m_function, sizeof(struct nv_function))) \
__CPROVER_assigns(self->m_fcalls, self->m_gcalls) \
__CPROVER_ensures(self->m_fcalls == self->m_function->fcalls && self->m_gcalls == self->m_function->gcalls)

/* ---- valid(): true only if the value is finite (and the point, the gradient, the constraint values are) */
#define NV_CONTRACT_state_valid \
__CPROVER_requires(__CPROVER_is_fresh(self, sizeof(*self))) \
__CPROVER_assigns() \
__CPROVER_ensures(__CPROVER_return_value ==> (NV_FINITE(self->m_fx) && self->m_x.fin)) \
__CPROVER_ensures(__CPROVER_return_value == (NV_FINITE(self->m_fx) && self->m_x.fin && self->m_gx.fin && self->m_ceq.fin && self->m_cineq.fin && self->m_meq.fin && self->m_mineq.fin))

/* ---- update_if_better(x, gx, fx) (C02, DESIGN 7):
 *   isfinite(fx) && fx < m_fx  =>  the triple (x, gx, fx) is stored (and the constraint values recomputed from it), true;
 *   otherwise                   =>  the triple is unchanged, false;
 *   always: the best value never increases, both histories grow by exactly one, the counters are refreshed. */
#define NV_UIB_BETTER (NV_FINITE(fx) && fx < __CPROVER_old(self->m_fx))
#define NV_UIB_COMMON(GXID) \
__CPROVER_assigns(self->m_x, self->m_gx, self->m_fx, self->m_fcalls, self->m_gcalls, self->m_history_df.n, self->m_history_dx.n, self->m_history_df.last, self->m_history_dx.last, self->cons_x, self->cons_gx) \
__CPROVER_ensures(__CPROVER_return_value == NV_UIB_BETTER) \
__CPROVER_ensures(NV_UIB_BETTER ==> (self->m_x.id == x->id && self->m_x.fin == x->fin && self->m_gx.id == (GXID) && NV_SAME(self->m_fx, fx))) \
__CPROVER_ensures(NV_UIB_BETTER ==> (self->cons_x == x->id && self->cons_gx == (GXID))) \
__CPROVER_ensures(!NV_UIB_BETTER ==> (self->m_x.id == __CPROVER_old(self->m_x.id) && self->m_x.fin == __CPROVER_old(self->m_x.fin) && self->m_gx.id == __CPROVER_old(self->m_gx.id) \
                                     && NV_SAME(self->m_fx, __CPROVER_old(self->m_fx)) && self->cons_x == __CPROVER_old(self->cons_x) && self->cons_gx == __CPROVER_old(self->cons_gx))) \
__CPROVER_ensures(!(self->m_fx > __CPROVER_old(self->m_fx))) \
__CPROVER_ensures(NV_FINITE(__CPROVER_old(self->m_fx)) ==> (NV_FINITE(self->m_fx) && self->m_fx <= __CPROVER_old(self->m_fx))) \
__CPROVER_ensures(self->m_history_df.n == __CPROVER_old(self->m_history_df.n) + 1 && self->m_history_dx.n == __CPROVER_old(self->m_history_dx.n) + 1) \
/* the recorded improvement is positive (what value_test looks for) exactly when the state was replaced */ \
__CPROVER_ensures((self->m_history_df.last > 0.0) == __CPROVER_return_value) \
__CPROVER_ensures(self->m_fcalls == self->m_function->fcalls && self->m_gcalls == self->m_function->gcalls)
#define NV_UIB_PRE \
__CPROVER_requires(__CPROVER_is_fresh(self, sizeof(*self)) && __CPROVER_is_fresh(self->m_function, sizeof(struct nv_function)) && __CPROVER_is_fresh(x, sizeof(*x)))
#define NV_CONTRACT_state_update_if_better3 NV_UIB_PRE __CPROVER_requires(__CPROVER_is_fresh(gx, sizeof(*gx))) NV_UIB_COMMON(gx->id)
/* update_if_better(x, fx): the stored (sub-)gradient is kept */
#define NV_CONTRACT_state_update_if_better2 NV_UIB_PRE NV_UIB_COMMON(__CPROVER_old(self->m_gx.id))

/* ---- value_test(patience) (doc comment in include/nano/solver/state.h + the three cases in the body):
 *   w := the most recent index with df > 0 (witness nv_w_df_idx = last index read from m_history_df);
 *   no improvement recorded             -> (size >= patience ? 0 : max double);
 *   improvement within the last patience -> max(df[w], dx[w]);   otherwise -> 0.
 * "most recent" is stated at the ghost index nv_g: every index with df > 0 is <= w. */
uint64_t nv_g;
#define NV_VT_N (self->m_history_df.n)
#define NV_VT_HAS (NV_VT_N > 0 && nv_w_df_idx < NV_VT_N && self->m_history_df.p[nv_w_df_idx] > 0.0)
#define NV_CONTRACT_state_value_test \
__CPROVER_requires(__CPROVER_is_fresh(self, sizeof(*self)) && self->m_history_df.n == self->m_history_dx.n && self->m_history_df.n <= 2000000000u \
  && __CPROVER_is_fresh(self->m_history_df.p, (self->m_history_df.n > 0 ? self->m_history_df.n : 1) * sizeof(double)) \
  && __CPROVER_is_fresh(self->m_history_dx.p, (self->m_history_dx.n > 0 ? self->m_history_dx.n : 1) * sizeof(double)) \
  && self->m_history_df.tag == 1 && self->m_history_dx.tag == 2 && 1 <= patience && patience <= 1000000) \
__CPROVER_assigns(nv_w_df_idx) \
__CPROVER_ensures((nv_g < NV_VT_N && self->m_history_df.p[nv_g] > 0.0) ==> (NV_VT_HAS && nv_g <= nv_w_df_idx)) \
__CPROVER_ensures(!NV_VT_HAS ==> __CPROVER_return_value == ((NV_VT_N >= (uint64_t)patience) ? 0.0 : NV_DBL_MAX)) \
__CPROVER_ensures((NV_VT_HAS && nv_w_df_idx + (uint64_t)patience >= NV_VT_N) ==> NV_SAME(__CPROVER_return_value, NV_FMAXM(self->m_history_df.p[nv_w_df_idx], self->m_history_dx.p[nv_w_df_idx]))) \
__CPROVER_ensures((NV_VT_HAS && nv_w_df_idx + (uint64_t)patience < NV_VT_N) ==> __CPROVER_return_value == 0.0)
#define NV_LOOP_state_value_test_1 \
__CPROVER_assigns(it, ii, dd, nv_w_df_idx) \
__CPROVER_loop_invariant(it <= self->m_history_df.n && ii == self->m_history_df.n && dd == NV_DBL_MAX) \
__CPROVER_loop_invariant((nv_g < self->m_history_df.n && nv_g >= it) ==> !(self->m_history_df.p[nv_g] > 0.0)) \
__CPROVER_loop_invariant((it < self->m_history_df.n) ==> (nv_w_df_idx == it && !(self->m_history_df.p[it] > 0.0))) \
__CPROVER_decreases(it)
