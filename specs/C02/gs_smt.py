"""C02 (f <= f0 mechanism of the gradient sampling solvers): the part of base_solver_gs_t<sampler, preconditioner>::do_minimize
(src/solver/gsample.cpp) that composes the pieces proved in precond_smt.py, walked with back end B over the reals:

  * the sampling radius handed to `precond.update(sampler, state, epsilonk)` is > 0 at EVERY call (precondition of lbfgs_update): epsilon0 > 0
    by its registered domain, the only other write is `epsilonk *= theta_epsilon` with theta_epsilon in (0, 1): a product of positive reals;
  * the matrix handed to `lsearch.step(x, g, state, H)` is `precond.H()` of the SAME preconditioner object that was updated in this iteration
    (precondition H positive semi-definite of gsample_step_decreases_value), and no other statement of the body moves the state.

Everything else of the body (vectors, sampler, preconditioner, state) is opaque; the protocol of the body is the CBMC target gs_do_minimize.
Double is treated as Real."""
import re
import astload
import nvwp
from core import VC
from nvwp import V, AND, NOT, OR, Unsupported
from wplib import IdEnvWP, reach_vc
from cxx2c import unwrap, qual, strip_cv

TU = 'src/solver/gsample.cpp'
# registered domains (src/solver/gsample.cpp, base_solver_gs_t constructor): read from the source text so that a changed domain is seen
DOMAIN_RX = r'make_scalar\(\s*basename \+ "(\w+)",\s*([^,]+),\s*(LT|LE),\s*([^,]+),\s*(LT|LE),\s*([^)]+)\)'


def domains():
    src = open(astload.resolve_tu(TU)).read()
    out = {}
    for m in re.finditer(DOMAIN_RX, src):
        out[m.group(1)] = (m.group(2).strip(), m.group(3), m.group(5), m.group(6).strip())
    return out


def lit(x):
    x = x.strip()
    try:
        f = float(x)
    except ValueError:
        return None
    return nvwp.real_lit(x) if hasattr(nvwp, 'real_lit') else f'{f!r}'


def string_lits(n):
    return [x['value'].strip('"') for x in astload.walk(n) if x.get('kind') == 'StringLiteral']


def h_param_value(wp, n, args, obj):
    """parameter("solver::name") / parameter(basename + "name") .value<T>(): a constant inside its registered domain"""
    lits = string_lits(obj)
    if not lits:
        raise Unsupported('parameter(..) without a string literal')
    name = re.sub(r'\W+', '_', lits[-1].split('::')[-1])
    key = 'param.' + name
    if key in wp.env:
        return wp.env[key]
    if name == 'max_evals':
        v = wp.const('p_max_evals', 'Int', 'long')
        wp.assume('(and (<= 10 p_max_evals) (<= p_max_evals 1000000000))')
    else:
        v = wp.const('p_' + name, 'Real', 'double')
        dom = wp.domains.get(name)
        if name == 'epsilon':
            wp.assume('(> p_epsilon 0.0)')
        elif dom is not None:
            lo, lop, hop, hi = dom
            for b, op, side in ((lo, lop, 'lo'), (hi, hop, 'hi')):
                t = lit(b)
                if t is None:
                    continue        # symbolic bound (numeric_limits max): no constraint
                rel = {'LT': '<', 'LE': '<='}[op]
                wp.assume(f'({rel} {t} {v.t})' if side == 'lo' else f'({rel} {v.t} {t})')
            wp.note(f'parameter {name}: registered domain {lo} {lop} . {hop} {hi}')
        else:
            raise Unsupported(f'parameter {name}: no registered domain found in {TU}')
    wp.env[key] = v
    return v


def opaque_decl_hook(wp, v, init):
    if v.get('kind') != 'VarDecl':
        return False
    q = strip_cv(v['type'].get('qualType', '')) + ' ' + strip_cv(v['type'].get('desugaredQualType', ''))
    if re.search(r'::RealScalar|::Scalar\b', q) or re.match(r'^(double|float|long|int|bool)\b', q):
        return False
    if re.search(r'basic_string|string_t|tensor_t<|vector_t|solver_state_t|sampler_t|preconditioner_t|lsearch_t|Eigen::', q):
        # the initialiser may be a constructor call on erased operands: not evaluated (the CBMC target accounts for its effects)
        wp.env[v['name']] = V(v['name'], 'Opaque', None)
        return True
    return False


def declname(n):
    u = unwrap(n)
    while u.get('kind') in ('MaterializeTemporaryExpr', 'CXXBindTemporaryExpr', 'ImplicitCastExpr', 'CXXConstructExpr') and len(u.get('inner', [])) == 1:
        u = unwrap(u['inner'][0])
    return u.get('referencedDecl', {}).get('name') if u.get('kind') == 'DeclRefExpr' else None


def h_precond_update(wp, n, args, obj):
    real = [a for a in args if unwrap(a).get('kind') != 'CXXDefaultArgExpr']
    if len(real) == 3:
        eps = wp.conv(wp.ev(real[2]), 'Real', 'double')
        wp.oblige('radius_positive: the sampling radius handed to precond.update(sampler, state, epsilon) is > 0', f'(> {eps.t} 0.0)', n)
        # path condition under which THIS iteration updated the preconditioner object (reset at every loop head, see inv)
        wp.updated = (declname(obj), OR(wp.updated[1], wp.guard) if wp.updated[0] == declname(obj) else wp.guard)
        return V('0', 'Int', 'int')
    if len(real) == 1:
        wp.ev(real[0])
        return V('0', 'Int', 'int')
    raise Unsupported('preconditioner update with an unexpected number of arguments')


def h_lsearch_step(wp, n, args, obj):
    H = unwrap(args[3])
    while H.get('kind') in ('MaterializeTemporaryExpr', 'CXXBindTemporaryExpr', 'ImplicitCastExpr') and len(H.get('inner', [])) == 1:
        H = unwrap(H['inner'][0])
    own = H.get('kind') == 'CXXMemberCallExpr' and H['inner'][0].get('name') == 'H' and declname(H['inner'][0]['inner'][0]) is not None \
        and declname(H['inner'][0]['inner'][0]) == wp.updated[0]
    wp.oblige('own_H: lsearch.step is handed H() of the preconditioner that was updated with the positive radius in this iteration',
              AND('true' if own else 'false', wp.updated[1]), n)
    return wp.fresh('Real', 'alphak', 'double')


def h_calls(wp, n, args, obj):
    """function_t::fcalls() / gcalls(): evaluation counters, far below 2^62"""
    v = wp.fresh('Int', 'calls', 'long')
    wp.assume(f'(and (<= 0 {v.t}) (< {v.t} 4611686018427387904))')
    return v


def h_noop(wp, n, args, obj):
    return V('0', 'Int', 'int')


def h_fresh(sort, ctype):
    return lambda wp, n, args, obj: wp.fresh(sort, 'v', ctype)


def h_state_mutator(wp, n, args, obj):
    raise Unsupported('the body moves the state outside lsearch.step')


def h_call_fresh_real(wp, n, args, callee):
    return wp.fresh('Real', 'c', 'double')


def h_machine_eps(wp, n, args, callee):
    return V('(/ 1.0 4503599627370496.0)', 'Real', 'double')


def pick(d):
    return 'lbfgs_preconditioner_t' in str(d.get('mangledName', '')) and 'fixed_sampler_t' in str(d.get('mangledName', ''))


def body():
    fn = astload.find_definition(TU, 'base_solver_gs_t', 'do_minimize', pick)
    ST = r'(const )?nano::solver_state_t'
    wp = IdEnvWP('gs_do_minimize_radius', real=True,
                 calls=[(r'^scat\|', h_noop), (r'^epsilon\|', h_machine_eps)],
                 members=[(r'^(value|value_pair)\|', h_param_value), (r'^size\|nano::function_t', h_fresh('Int', 'long')),
                          (r'^(fcalls|gcalls)\|nano::function_t', h_calls),
                          (r'^sample\|', h_noop), (r'^descent\|', h_noop), (r'^update\|.*preconditioner_t', h_precond_update),
                          (r'^all_finite\|', h_fresh('Bool', 'bool')), (r'^gradient_test\|' + ST, h_fresh('Real', 'double')),
                          (r'^done\|', h_fresh('Bool', 'bool')), (r'^lpNorm\|', h_fresh('Real', 'double')),
                          (r'^step\|.*gsample::lsearch_t', h_lsearch_step), (r'^valid\|' + ST, h_fresh('Bool', 'bool')),
                          (r'^(status|update_calls)\|' + ST, h_noop), (r'^update(_if_better)?\|' + ST, h_state_mutator),
                          (r'^type_id\|', h_noop)])
    wp.domains = domains()
    wp.decl_hooks = (opaque_decl_hook,)
    for key, p in wp.bind_params(fn):
        wp.env[key] = V(key, 'Opaque', None)
    wp.updated = (None, 'false')

    # the radius variable is found by its role (the third argument of the 3-argument preconditioner update), not by its name
    radius = None
    for x in astload.walk(fn):
        if x.get('kind') == 'CXXMemberCallExpr' and x['inner'][0].get('name') == 'update' and 'preconditioner_t' in qual(x['inner'][0]['inner'][0].get('type', {})):
            real = [a for a in x['inner'][1:] if unwrap(a).get('kind') != 'CXXDefaultArgExpr']
            if len(real) == 3 and declname(real[2]):
                radius = declname(real[2])
    if radius is None:
        raise Unsupported('no precond.update(sampler, state, <radius variable>) call found')

    def inv(w):
        w.updated = (None, 'false')          # called on entry, at the loop head and after the body: nothing is carried into an iteration
        return [('radius_invariant: the sampling radius is positive', f'(> {w.env[radius].t} 0.0)')]
    wp.invariants = {1: inv}
    wp.post = lambda w, rv: []
    wp.run(fn, astload.resolve_tu(TU))
    return wp


def vcs():
    f = astload.resolve_tu(TU)
    try:
        wp = body()
    except (Unsupported, astload.ExtractionError) as e:
        return [VC(f'gs_do_minimize_radius/extraction: {e}'[:300], '(this is not an SMT script: the symbolic execution stopped)\n', about=str(e))]
    out = wp.vcs(wp.name, f, 'base_solver_gs_t::do_minimize: positive sampling radius at every preconditioner update; the line search gets the preconditioner\'s own H')
    out.append(reach_vc(wp, wp.name, f))
    return out


if __name__ == '__main__':
    for vc in vcs():
        print(vc.name, vc.verify().get('status'))
