"""C02: the constrained solvers (linear / quadratic penalty, augmented Lagrangian) and the inner solves through solver_t::minimize
(specs/C02/penalty.h)"""
import os
import re
import sys
sys.path.insert(0, os.path.join(os.path.dirname(os.path.abspath(__file__)), '..', 'solver'))
import common
import vectrack
import nonls
from core import Fn, Target, VC
from cxx2c import unwrap, qual, Unsupported
from hooks import string_literal_of

H = 'specs/C02/penalty.h'
PF = r'^(nano::)?(linear_penalty_function_t|quadratic_penalty_function_t|augmented_lagrangian_function_t|penalty_function_t)$'
RSOLVER = r'unique_ptr<nano::solver_t|^(nano::)?rsolver_t$|unique_ptr<nano::solver_(lbfgs|osga)_t|^nano::solver_(lbfgs|osga)_t$'
TYPES = [(PF, 'struct nv_pf'), (RSOLVER, 'struct nv_isolver'), (r'^nano::solver_type$', 'int32_t')] + nonls.TYPES


def obj_param_hook(this_is_object):
    """`obj.parameter("a::b::name").value<T>()` and `obj.parameter("a::b::name") = v` on ANOTHER solver object (or, with this_is_object, on
    `*this` of a function whose self is such an object) -> nv_isolver_get_name(&obj) / nv_isolver_set_name(&obj, v); calls on the `this` of
    an outer solver are left to hooks.param_hook (nv_param_name())"""
    def param_call(n):
        n = unwrap(n)
        if n.get('kind') != 'CXXMemberCallExpr' or n['inner'][0].get('name') != 'parameter' or len(n['inner']) < 2:
            return None
        lit = string_literal_of(n['inner'][1])
        if lit is None:
            return None
        return n['inner'][0], re.sub(r'\W+', '_', lit.split('::')[-1])

    def objaddr(P, me):
        o = me['inner'][0]
        if unwrap(o).get('kind') == 'CXXThisExpr':
            return 'self' if this_is_object else None
        return P.expr(o) if me.get('isArrow') else P.addr(o)

    def h(P, n):
        if n.get('kind') == 'CXXMemberCallExpr' and n['inner'][0].get('kind') == 'MemberExpr' and n['inner'][0].get('name') in ('value', 'value_pair'):
            pc = param_call(n['inner'][0]['inner'][0])
            if pc is None:
                return None
            oa = objaddr(P, pc[0])
            if oa is None:
                return None
            P.note(f'<solver object>.parameter("..::{pc[1]}").value() -> nv_isolver_get_{pc[1]}')
            return f'nv_isolver_get_{pc[1]}({oa})'
        if n.get('kind') == 'CXXOperatorCallExpr' and unwrap(n['inner'][0]).get('referencedDecl', {}).get('name') == 'operator=':
            pc = param_call(n['inner'][1])
            if pc is None:
                return None
            oa = objaddr(P, pc[0])
            if oa is None:
                return None
            P.note(f'<solver object>.parameter("..::{pc[1]}") = v -> nv_isolver_set_{pc[1]} (may throw)')
            P.may_throw = True
            P.pending_throw = True
            return f'nv_isolver_set_{pc[1]}({oa}, {P.expr(n["inner"][2])})'
        return None
    return h


def update_hook(P, n):
    """bstate.update(x) / bstate.update(x, lambda, miu): the member template update<tvector> = one evaluation of the state's own function at x
    (the multipliers only enter m_meq / m_mineq); update(x, gx, fx): the triple is stored as given"""
    if n.get('kind') != 'CXXMemberCallExpr':
        return None
    me = n['inner'][0]
    if me.get('name') != 'update' or 'solver_state_t' not in me['inner'][0].get('type', {}).get('qualType', ''):
        return None
    args = n['inner'][1:]
    obj = me['inner'][0]
    oa = P.expr(obj) if me.get('isArrow') else P.addr(obj)
    if len(args) == 3:
        P.note('state.update(x[, multipliers])')
        return f'nv_state_update_x({oa}, {P.addr(args[0])})'
    if len(args) == 5:
        P.note('state.update(x, gx, fx[, multipliers])')
        return f'nv_state_update3({oa}, {nonls.vec_of(P, args[0])}, {nonls.vec_of(P, args[1])}, {P.expr(args[2])})'
    return None


MEMBERS = [(r'^function\|.*penalty_function_t', 'nv_pf_function'), (r'^penalty\|.*penalty_function_t', 'nv_pf_set_penalty({self}, {0})'),
           (r'^minimize\|nano::solver_penalty_t', 'penalty_minimize({self}, {&0}, {&1}, {&2})!'),
           (r'^more_precise\|nano::solver_t', 'solver_more_precise!'),
           (r'^(ceq|cineq)\|nano::solver_state_t', '@nondet'),
           (r'^done\|', 'solver_done')] + nonls.MEMBERS
CALLS = [(r'^converged\|', '@nondet'), (r'^make_solver\|', 'make_solver(&({&0})->base, {1}, {2})!'),
         (r'^make_ro1\|', '@nondet'), (r'^make_criterion\|', '@nondet'), (r'^make_full_vector\|', 'nv_vec_fresh()'),
         (r'^ctor\|(nano::)?(linear_penalty_function_t|quadratic_penalty_function_t|augmented_lagrangian_function_t)\|', 'nv_pf_make({&0})')] + nonls.CALLS


def minimize_arg_hook(P, n):
    """solver->minimize(penalty_function, x, logger): the function handed in is the function_t base sub-object of the penalty function"""
    if n.get('kind') != 'CXXMemberCallExpr':
        return None
    me = n['inner'][0]
    if me.get('name') != 'minimize' or 'solver_t' not in qual(me['inner'][0]['type']) or 'penalty' in qual(me['inner'][0]['type']):
        return None
    if unwrap(me['inner'][0]).get('kind') == 'CXXThisExpr':
        return None
    args = n['inner'][1:]
    f = unwrap(args[0])
    if not re.search(PF, re.sub(r'^const\s+', '', qual(f.get('type', {})).strip().rstrip('&').strip())):
        raise Unsupported('solver->minimize(<function>, ..): the function is not a penalty function object')
    obj = me['inner'][0]
    oa = P.expr(obj) if me.get('isArrow') else P.addr(obj)
    P.note('solver->minimize(penalty_function, x, logger)')
    P.may_throw = True
    P.pending_throw = True
    return f'solver_minimize({oa}, &({P.addr(f)})->base, {P.addr(args[1])}, {P.addr(args[2])})'


def outer_fn(cname, tu, name, flt):
    vt = vectrack.VecTrack()
    return Fn(cname, tu, name, flt=flt, self_struct='struct nv_solver', types=TYPES, calls=CALLS, members=MEMBERS,
              hooks=[nonls.vgrad_hook, update_hook, minimize_arg_hook, obj_param_hook(False), vt.expr_hook] + list(common.HOOKS), stmt_hooks=[vt.stmt_hook],
              opaque=list(common.OPAQUE), aggregates=['struct nv_tuple_b_f64', 'struct nv_tuple_f64_f64'])


def fn_penalty_minimize():
    return outer_fn('penalty_minimize', 'src/solver/penalty.cpp', 'minimize', 'solver_penalty_t::minimize')


def fn_solver_minimize():
    members = [(r'^size\|nano::function_t', 'nv_fn_size_dim'), (r'^size\|.*tensor', 'nv_x0_size'),
               (r'^clear_statistics\|nano::function_t', 'nv_fn_clear_statistics'), (r'^do_minimize\|', 'nv_do_minimize_virtual')] + nonls.MEMBERS
    return Fn('solver_minimize', 'src/solver.cpp', 'minimize', flt='solver_t::minimize', self_struct='struct nv_isolver', types=TYPES,
              calls=nonls.CALLS, members=members, hooks=list(common.HOOKS), opaque=list(common.OPAQUE), aggregates=['struct nv_tuple_b_f64'])


def fn_more_precise():
    return Fn('solver_more_precise', 'src/solver.cpp', 'more_precise', flt='solver_t::more_precise', self_struct='struct nv_isolver', types=TYPES,
              calls=nonls.CALLS, members=nonls.MEMBERS, hooks=[obj_param_hook(True)], opaque=list(common.OPAQUE))


def fn_make_solver():
    calls = [(r'^make_solver\|', 'make_solver_T({0}, {1})!')] + nonls.CALLS
    return Fn('make_solver', 'src/solver.cpp', 'make_solver', flt='solver_t::make_solver', types=TYPES,
              calls=calls, members=nonls.MEMBERS, hooks=[obj_param_hook(False)], opaque=list(common.OPAQUE))


def fn_make_solver_T(cname='make_solver_T', cls='nano::solver_lbfgs_t'):
    import astload
    calls = [(r'^make_unique\|', 'nv_isolver_new()'), (r'^ctor\|std::unique_ptr<nano::solver_t>\|void \(unique_ptr<nano::solver_(lbfgs|osga)_t', '{0}'), (r'^operator==\|', '@nondet')] + nonls.CALLS
    members = [(r'^type\|', '@nondet'), (r'^lsearchk\|', '@drop')] + nonls.MEMBERS
    return Fn(cname, 'src/solver.cpp', 'make_solver', flt='make_solver', select=lambda d: astload.template_args(d) == [cls],
              types=TYPES, calls=calls, members=members, hooks=[obj_param_hook(False)], opaque=list(common.OPAQUE), ret='struct nv_isolver')


def do_minimize_fn(cname, cls):
    return outer_fn(cname, 'src/solver/penalty.cpp', 'do_minimize', cls + '::do_minimize')


def fn_al():
    return outer_fn('al_do_minimize', 'src/solver/augmented.cpp', 'do_minimize', 'solver_augmented_lagrangian_t::do_minimize')


def targets():
    d = ['NV_C02']
    inner = ['solver_done', 'solver_minimize', 'solver_more_precise', 'make_solver']
    deps = lambda: [common.fn_done(), fn_solver_minimize(), fn_more_precise(), fn_make_solver()]
    ts = [Target('solver_minimize_inner', [fn_solver_minimize()], H, defines=d,
                 note='solver_t::minimize re-proved over per-object parameters / per-function counters: the contract the outer loops of the constrained solvers use'),
          Target('solver_more_precise', [fn_more_precise()], H, defines=d),
          Target('make_solver_lbfgs', [fn_make_solver_T()], H, defines=d, enums=[('src/solver.cpp', 'nano::solver_type')]),
          Target('make_solver_osga', [fn_make_solver_T('make_solver_T_osga', 'nano::solver_osga_t')], H, defines=d, enums=[('src/solver.cpp', 'nano::solver_type')]),
          Target('make_solver', [fn_make_solver(), fn_make_solver_T()], H, replace=['make_solver_T'], defines=d, enums=[('src/solver.cpp', 'nano::solver_type')]),
          Target('penalty_minimize', [fn_penalty_minimize()] + deps(), H, replace=inner, defines=d, cbmc_flags=['--object-bits', '10'])]
    for cname, cls in (('linear_penalty_do_minimize', 'solver_linear_penalty_t'), ('quadratic_penalty_do_minimize', 'solver_quadratic_penalty_t')):
        ts.append(Target(cname, [do_minimize_fn(cname, cls), fn_penalty_minimize()] + deps(), H, replace=['penalty_minimize'] + inner, defines=d))
    ts.append(Target('al_do_minimize_c02', [fn_al()] + deps(), H, enforce='al_do_minimize', replace=inner, defines=d + ['NV_MAX_OUTERS=1000'], cbmc_flags=['--object-bits', '10']))
    return ts


def vcs():
    """the ledger of the inner solves is a sum of equal terms: fcalls + gcalls <= 2 + n (max_evals + overshoot + 1), n <= max_outer_iters (induction step, over Int)"""
    return [VC('lemma/penalty_budget_ledger: equal terms sum to a product',
               '(declare-const n Int)(declare-const m Int)(declare-const c Int)(declare-const acc Int)(declare-const ev Int)\n'
               '(assert (and (>= n 0) (>= m 10) (>= c 0)))\n'
               '; hypothesis at n inner solves: the ledger is n (m + c) and the evaluations obey the loop invariant NV_PEN_BUDGET\n'
               '(assert (= acc (* n (+ m c))))(assert (<= ev (+ 2 n acc)))\n'
               '; one more inner solve with the same max_evals m: ledger' ' and the evaluations of one outer iteration (contract of solver_minimize + one update)\n'
               '(declare-const acc1 Int)(declare-const ev1 Int)(assert (= acc1 (+ acc m c)))(assert (<= ev1 (+ ev (- (+ m c) 1) 2)))\n'
               '(assert (not (and (= acc1 (* (+ n 1) (+ m c))) (<= ev1 (+ 2 (+ n 1) acc1)) (<= ev1 (+ 2 (* (+ n 1) (+ m c 1)))))))',
               about='NV_PEN_BUDGET (specs/C02/penalty.h): total evaluations of the objective <= 2 + n (max_evals + NV_INNER_OVERSHOOT + 1)')]
