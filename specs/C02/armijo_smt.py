"""C02, "the value is not larger than the starting value" for the line-search solvers: the arithmetic half, over the reals.

The Armijo formula is the one C07 proves equal to the extracted solver_state_t::has_armijo (specs/C07/pred_smt.FORMULAS); no code is
extracted here.  The protocol half (every accepted iterate of gd / cgd / lbfgs / quasi is the state of a successful lsearch_t::get, so
the accepted values form a chain) is NOT closed: see not_decided in spec.py."""
import os
import sys
sys.path.insert(0, os.path.join(os.path.dirname(os.path.abspath(__file__)), '..', 'C07'))
from core import VC


def vcs():
    import pred_smt
    armijo = pred_smt.FORMULAS['has_armijo'][1]
    approx = pred_smt.FORMULAS['has_approx_armijo'][1]
    hdr = '(declare-const f_t Real)(declare-const f_0 Real)(declare-const step_size Real)(declare-const c1 Real)(declare-const g0d Real)(declare-const epsilon Real)\n'
    return [VC('lemma/armijo_decrease: Armijo at a positive step along a descent direction is a strict decrease', hdr +
               f'(assert (and (> step_size 0.0) (> c1 0.0) (< g0d 0.0)))\n(assert {armijo})\n(assert (not (< f_t f_0)))',
               about='t > 0, c1 > 0, g0.d < 0, f_t <= f_0 + t*c1*(g0.d)  =>  f_t < f_0 (reals)', group='armijo'),
            VC('lemma/armijo_zero_step: with t = 0 Armijo only gives f_t <= f_0 (why C07 proves "the step handed to do_get > 0")', hdr +
               f'(assert (and (= step_size 0.0) (> c1 0.0) (< g0d 0.0)))\n(assert {armijo})\n(assert (not (<= f_t f_0)))',
               about='boundary case', group='armijo'),
            VC('lemma/approx_armijo_slack: the approximate Armijo rule of CG_DESCENT admits an increase of at most epsilon per accepted step', hdr +
               f'(assert (>= epsilon 0.0))\n(assert {approx})\n(assert (not (<= (- f_t f_0) epsilon)))',
               about='the allowance 5e-4*(1+|f|) of the property statement is this epsilon summed over the accepted steps', group='armijo'),
            VC('lemma/accepted_chain: a chain of non-increasing accepted values stays below the starting value (induction step)',
               '(declare-const f0 Real)(declare-const fk Real)(declare-const fk1 Real)\n(assert (and (<= fk f0) (<= fk1 fk)))\n(assert (not (<= fk1 f0)))',
               about='induction over the accepted iterates', group='armijo')]
