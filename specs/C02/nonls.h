/* C02: do_minimize of the solvers that do not use a line search (ellipsoid, sgm, cocob, osga, pgm/dgm/fgm, asga2/4,
 * sda/wda): they evaluate `f = function.vgrad(x, g)` themselves and keep the best point with
 * `state.update_if_better(x, g, f)`.  Vectors carry a ghost identity (specs/solver/vectrack.py accounts for every
 * possible write, mechanically from the AST); the function is a deterministic map from points to values, modelled by
 * the prophecy field `fval` that every vector identity is born with. */
#ifndef NV_NONLS_H
#define NV_NONLS_H
#include <stdint.h>
uint64_t nv_gcount;                     /* ghost: evaluations that also computed a gradient (function_t::gcalls()) */
#define NV_GCOUNT nv_gcount
#define NV_DONE_EXTRA_REQUIRES (nv_gcount <= nv_ver_counter)
#include "../solver/solver.h"
/* optional third ghost counter fcalls() + gcalls() kept by every stub that models evaluations (specs/C02/penalty.h defines it: sums of two
 * 64-bit counters inside loop invariants are out of the SAT back end's reach, a counter of its own is not) */
#ifndef NV_FG_BUMP
#define NV_FG_BUMP(k)
#endif
/* same predicate as NV_FINITE (nv_base.h), through CBMC's classification builtin instead of a floating-point subtraction */
#define NV_ISFIN(x) (__CPROVER_isfinited(x))

struct nv_vec
{
  uint64_t id;        /* ghost identity of the coefficients (never 0); fresh whenever they may have been written */
  double   fval;      /* ghost (prophecy): the value of the function at this point */
  _Bool    fin;       /* ghost: all coefficients finite */
  uint64_t grad_of;   /* ghost: identity of the point whose (sub-)gradient this vector holds, 0 if unknown */
};
/* ghost records of the ellipsoid stopping test (used by C03; see specs/C03) */
const void* nv_obj;                    /* ghost: identity of the function whose values the prophecy field `fval` holds (the one to minimise) */
struct nv_rec { double arg, res; uint64_t at; };
struct nv_rec nv_sqrt_rec, nv_dot_rec;

/* a vector with unknown contents.  ASSUMPTION (DESIGN 7, C02): the function is non-finite at non-finite points */
static struct nv_vec nv_vec_fresh(void)
{
  struct nv_vec v; v.id = nv_nondet_uint64_t(); __CPROVER_assume(v.id != 0);
  v.fval = nv_nondet_double(); v.fin = nv_nondet__Bool(); v.grad_of = 0;
  __CPROVER_assume(v.fin || !NV_ISFIN(v.fval));
  return v;
}
static void nv_vec_touch(struct nv_vec* v) { *v = nv_vec_fresh(); }
static _Bool nv_vec_all_finite(const struct nv_vec* v) { return v->fin; }

/* function_t::vgrad(x, gx): one evaluation; returns the value at x and writes the (sub-)gradient at x into gx;
 * fcalls() counts every evaluation, gcalls() those with a gradient buffer (src/function.cpp) */
static double nv_fn_vgrad2(const struct nv_function* f, const struct nv_vec* x, struct nv_vec* g)
{
  nv_ver_counter = nv_ver_counter + 1; nv_gcount = nv_gcount + 1; NV_FG_BUMP(2);
  g->id = nv_nondet_uint64_t(); __CPROVER_assume(g->id != 0);
  g->fval = nv_nondet_double(); g->fin = nv_nondet__Bool(); __CPROVER_assume(g->fin || !NV_ISFIN(g->fval));
  g->grad_of = x->id;
  return x->fval;
}
static double nv_fn_vgrad1(const struct nv_function* f, const struct nv_vec* x)
{ nv_ver_counter = nv_ver_counter + 1; NV_FG_BUMP(1); return x->fval; }
static int64_t nv_fn_fcalls(const struct nv_function* f) { return (int64_t)nv_ver_counter; }
static int64_t nv_fn_gcalls(const struct nv_function* f) { return (int64_t)nv_gcount; }

/* solver_state_t{function, x0}: one evaluation (value and gradient) at x0, status max_iters, counters copied;
 * valid() implies a finite value and point (proved for solver_state_t::valid in specs/C02/state.h) */
static struct nv_state nv_bstate_make(const struct nv_function* f, const struct nv_vec* x0)
{
  struct nv_state s;
  nv_ver_counter = nv_ver_counter + 1; nv_gcount = nv_gcount + 1; NV_FG_BUMP(2);
  s.m_function = (const void*)f;
  s.ver = x0->id; s.eval_ver = s.ver; s.fx_ver = s.ver; s.origin = 0; s.t = 0.0; s.xfin = x0->fin; s.m_fx = x0->fval;
  s.valid = nv_nondet__Bool(); __CPROVER_assume(!s.valid || (NV_ISFIN(s.m_fx) && s.xfin));
  s.dg = nv_nondet_double(); s.gtest = nv_nondet_double(); s.feas = nv_nondet_double(); s.cons_ver = s.ver;
  s.m_status = NVE_solver_status_max_iters; s.m_fcalls = (int64_t)nv_ver_counter; s.m_gcalls = (int64_t)nv_gcount;
  return s;
}
/* state.x() / state.gx(): copies of the stored point / (sub-)gradient */
static struct nv_vec nv_state_x(const struct nv_state* s)
{
  struct nv_vec v; v.id = s->ver; v.fin = s->xfin; v.grad_of = 0;
  v.fval = nv_nondet_double(); if (s->fx_ver == s->ver) v.fval = s->m_fx;
  return v;
}
static struct nv_vec nv_state_gx(const struct nv_state* s)
{ struct nv_vec v = nv_vec_fresh(); v.grad_of = (s->eval_ver == s->ver) ? s->ver : 0; return v; }

/* state.update_if_better(x, gx, fx) / (x, fx): the contract proved in specs/C02/state.h, transcribed to this model:
 *   isfinite(fx) && fx < m_fx => the triple is stored, true; otherwise nothing but the counters changes, false.
 * The ghosts record whether the stored value / gradient belong to the stored point. */
static _Bool nv_state_uib(struct nv_state* s, const struct nv_vec* x, const struct nv_vec* g, double fx)
{
  nv_state_update_calls(s);
  if (NV_ISFIN(fx) && fx < s->m_fx)
  {
    s->ver = x->id; s->m_fx = fx; s->xfin = x->fin; s->cons_ver = s->ver;
    s->fx_ver = NV_SAME(fx, x->fval) ? x->id : 0;
    s->eval_ver = (g != 0 && NV_SAME(fx, x->fval) && g->grad_of == x->id) ? x->id : 0;
    s->valid = nv_nondet__Bool(); __CPROVER_assume(!s->valid || (NV_ISFIN(s->m_fx) && s->xfin));
    s->gtest = nv_nondet_double();
    return 1;
  }
  return 0;
}
static _Bool nv_state_uib3(struct nv_state* s, const struct nv_vec* x, const struct nv_vec* g, double fx) { return nv_state_uib(s, x, g, fx); }
static _Bool nv_state_uib2(struct nv_state* s, const struct nv_vec* x, double fx) { return nv_state_uib(s, x, (const struct nv_vec*)0, fx); }

/* solver_state_t::update(x, gx, fx) (src/solver/state.cpp): the triple is stored as given, counters refreshed, returns valid() */
static _Bool nv_state_update3(struct nv_state* s, const struct nv_vec* x, const struct nv_vec* g, double fx)
{
  s->ver = x->id; s->m_fx = fx; s->xfin = x->fin; s->cons_ver = s->ver;
  s->fx_ver = NV_SAME(fx, x->fval) ? x->id : 0;
  s->eval_ver = (NV_SAME(fx, x->fval) && g->grad_of == x->id) ? x->id : 0;
  s->valid = nv_nondet__Bool(); __CPROVER_assume(!s->valid || (NV_ISFIN(s->m_fx) && s->xfin));
  s->gtest = nv_nondet_double();
  nv_state_update_calls(s);
  return s->valid;
}
/* erased scalar numerics (results of <cmath> on values computed from erased vectors) */
/* std::sqrt / Eigen dot on erased operands: the value is unknown; the call is recorded (argument, result, evaluation count) */
static double nv_sqrt(double a) { double r = nv_nondet_double(); nv_sqrt_rec.arg = a; nv_sqrt_rec.res = r; nv_sqrt_rec.at = nv_ver_counter; return r; }
static double nv_sqrt_plain(double a) { return nv_nondet_double(); }
static double nv_dot(void) { double r = nv_nondet_double(); nv_dot_rec.res = r; nv_dot_rec.at = nv_ver_counter; return r; }
static double nv_pow(double a, double b) { return nv_nondet_double(); }
static double nv_exp(double a) { return nv_nondet_double(); }
static double nv_dbl_epsilon(void) { return 2.220446049250313e-16; }
static double nv_dbl_max(void) { return 1.7976931348623157e308; }
static double nv_dbl_inf(void) { return __builtin_inf(); }
static int64_t nv_fn_size(const struct nv_function* f) { int64_t n = nv_nondet_int64_t(); __CPROVER_assume(n >= 1); return n; }

/* ---- contract of the bodies (property C02) ---- */
double nv_f0;                          /* ghost: the value at the starting point */
#define NV_NONLS_REQUIRES \
__CPROVER_requires(NV_SOLVER_PARAMS_OK && nv_ver_counter == 0 && nv_gcount == 0 && __CPROVER_is_fresh(self, sizeof(*self)) && __CPROVER_is_fresh(function, sizeof(*function)) && nv_obj == (const void*)function) \
/* "every starting point with a finite value" */ \
__CPROVER_requires(__CPROVER_is_fresh(x0, sizeof(*x0)) && x0->id != 0 && x0->fin && NV_ISFIN(x0->fval) && NV_SAME(nv_f0, x0->fval))
#define NV_COUNTS2_OK(s) ((s).m_fcalls >= 0 && (uint64_t)(s).m_fcalls <= nv_ver_counter && (s).m_gcalls >= 0 && (uint64_t)(s).m_gcalls <= nv_gcount)
#define NV_NONLS_ENSURES(CONSISTENT, ITER_EVALS) \
__CPROVER_ensures(NV_STATUS_OK(NV_RET.m_status)) \
/* the reported value (and sub-gradient, where the solver stores one) is the function at the reported point */ \
__CPROVER_ensures(NV_RET.ver != 0 && CONSISTENT(NV_RET)) \
__CPROVER_ensures(NV_COUNTS2_OK(NV_RET)) \
/* unless failed, the returned point and value are finite */ \
__CPROVER_ensures(NV_RET.m_status != NVE_solver_status_failed ==> (NV_ISFIN(NV_RET.m_fx) && NV_RET.xfin)) \
/* the best value never exceeds the starting value */ \
__CPROVER_ensures(NV_RET.m_fx <= nv_f0) \
/* budget: the evaluations exceed max_evals by at most one outer iteration's worth */ \
__CPROVER_ensures(nv_gcount <= nv_ver_counter && nv_ver_counter < 2000000000u && nv_ver_counter + nv_gcount < (uint64_t)nv_max_evals + 2 * (ITER_EVALS))
#define NV_CONS_FULL(s) ((s).eval_ver == (s).ver && (s).fx_ver == (s).ver)
#define NV_CONS_VALUE(s) ((s).fx_ver == (s).ver)
#define NV_NONLS_ASSIGNS __CPROVER_assigns(nv_ver_counter, nv_gcount)
#define NV_ELLIPSOID_GHOSTS , nv_sqrt_rec, nv_dot_rec
#define NV_NONLS_ASSIGNS_X __CPROVER_assigns(nv_ver_counter, nv_gcount NV_ELLIPSOID_GHOSTS)
/* C03 (ellipsoid): converged => the stopping test was evaluated in the iteration that returns: either g'Hg < machine epsilon was
 * computed after the last evaluation, or the value compared with epsilon is sqrt of the g'Hg of that iteration (the g'Hg computed
 * right before the last evaluation).  WHEN the square root is taken inside the iteration is immaterial (sqrt is a function of its
 * argument): a maintainer may hoist it into a local -- demanding "after the last evaluation" was a false alarm (benign C03-3) */
#if defined(NV_C03)
#define NV_ELLIPSOID_C03 \
__CPROVER_ensures(NV_RET.m_status == NVE_solver_status_converged ==> ( \
     (nv_dot_rec.res < 2.220446049250313e-16 && nv_dot_rec.at == nv_ver_counter) \
  || (nv_sqrt_rec.res < nv_epsilon && NV_SAME(nv_sqrt_rec.arg, nv_dot_rec.res) && nv_sqrt_rec.at >= nv_dot_rec.at && nv_dot_rec.at + 1 == nv_ver_counter))) \
/* C03 "the ellipsoid method always reports converged" (exit protocol): the loop is left without a decision of solver_t::done (status \
 * still max_iters) only because the evaluation budget is exhausted; in particular the degenerate-ellipsoid exit (g'Hg < machine \
 * epsilon) reports converged (or failed for an invalid state), never max_iters */ \
__CPROVER_ensures(NV_RET.m_status == NVE_solver_status_max_iters ==> nv_ver_counter + nv_gcount >= (uint64_t)nv_max_evals)
#else
#define NV_ELLIPSOID_C03
#endif
/* loop invariant: the best state is an untested (max_iters), consistent, finite state not above the starting value */
#define NV_BEST(s, CONSISTENT) ((s).m_status == NVE_solver_status_max_iters && (s).ver != 0 && CONSISTENT(s) && NV_ISFIN((s).m_fx) && (s).xfin \
  && (s).m_fx <= nv_f0 && NV_COUNTS2_OK(s))
#define NV_BUDGET2(ITER_EVALS) (1 <= nv_ver_counter && nv_gcount <= nv_ver_counter && nv_ver_counter < 2000000000u && nv_ver_counter + nv_gcount < (uint64_t)nv_max_evals + 2 * (ITER_EVALS))
#define NV_DECREASES2 __CPROVER_decreases((uint64_t)nv_max_evals + 100000 - nv_ver_counter - nv_gcount)

/* solver_t::done re-proved in this configuration (separate gradient counter) */

/* ---- sgm */
static double nv_param_power(void) { return nv_nondet_double(); }
static int64_t nv_param_patience(void) { int64_t p = nv_nondet_int64_t(); __CPROVER_assume(10 <= p && p <= 1000000); return p; }
#define NV_CONTRACT_sgm_do_minimize NV_NONLS_REQUIRES NV_NONLS_ASSIGNS NV_NONLS_ENSURES(NV_CONS_FULL, 1)
#define NV_LOOP_sgm_do_minimize_1 \
__CPROVER_assigns(state, x, g, iteration, nv_ver_counter, nv_gcount) \
__CPROVER_loop_invariant(NV_BEST(state, NV_CONS_FULL) && NV_BUDGET2(1)) \
__CPROVER_loop_invariant(0 <= iteration && 2 * (uint64_t)iteration + 2 <= nv_ver_counter + nv_gcount) \
NV_DECREASES2

/* ---- ellipsoid */
static double nv_param_R(void) { return nv_nondet_double(); }
#define NV_CONTRACT_ellipsoid_do_minimize NV_NONLS_REQUIRES NV_NONLS_ASSIGNS_X NV_NONLS_ENSURES(NV_CONS_FULL, 1) NV_ELLIPSOID_C03
#define NV_LOOP_ellipsoid_do_minimize_1 \
__CPROVER_assigns(state, x, g, f, nv_ver_counter, nv_gcount NV_ELLIPSOID_GHOSTS) \
__CPROVER_loop_invariant(NV_BEST(state, NV_CONS_FULL) && NV_BUDGET2(1)) \
NV_DECREASES2

/* ---- cocob */
static double nv_param_L0_smooth(void) { return nv_nondet_double(); }
static double nv_param_L0_nonsmooth(void) { return nv_nondet_double(); }
#define NV_CONTRACT_cocob_do_minimize NV_NONLS_REQUIRES NV_NONLS_ASSIGNS NV_NONLS_ENSURES(NV_CONS_FULL, 1)
#define NV_LOOP_cocob_do_minimize_1 \
__CPROVER_assigns(state, x, gx, L, G, theta, reward, nv_ver_counter, nv_gcount) \
__CPROVER_loop_invariant(NV_BEST(state, NV_CONS_FULL) && NV_BUDGET2(1)) \
NV_DECREASES2

/* ---- osga: update_if_better(x, fx) keeps the sub-gradient of the starting point, so only (x, f) is consistent;
 * the pair (xb, fb) of the best trial point is carried across iterations: fb is the value at xb */
static double nv_param_lambda(void) { return nv_nondet_double(); }
static double nv_param_alpha_max(void) { return nv_nondet_double(); }
static struct nv_tuple_f64_f64 nv_param_kappas(void) { struct nv_tuple_f64_f64 t; t._0 = nv_nondet_double(); t._1 = nv_nondet_double(); return t; }
#define NV_CONTRACT_osga_do_minimize NV_NONLS_REQUIRES NV_NONLS_ASSIGNS NV_NONLS_ENSURES(NV_CONS_VALUE, 2)
#define NV_LOOP_osga_do_minimize_1 \
__CPROVER_assigns(state, h, gamma, u, eta, alpha, xb, fb, g, x, x_prime, h_hat, u_hat, u_prime, nv_ver_counter, nv_gcount) \
__CPROVER_loop_invariant(NV_BEST(state, NV_CONS_VALUE) && NV_BUDGET2(2)) \
__CPROVER_loop_invariant(xb.id != 0 && NV_SAME(fb, xb.fval)) \
NV_DECREASES2

/* ---- universal gradient methods pgm / dgm / fgm: an inner "line-search" loop of at most lsearch_max_iters trial
 * evaluations; the best state is updated only with the triple of the last trial, and only if that trial succeeded */
static double nv_param_L0(void) { return nv_nondet_double(); }
#ifndef NV_LS_MAX
#define NV_LS_MAX 100
#endif
static int64_t nv_param_lsearch_max_iters(void) { int64_t p = nv_nondet_int64_t(); __CPROVER_assume(10 <= p && p <= NV_LS_MAX); return p; }
/* (x, g, f) is one evaluation: f is the value at x, g the (sub-)gradient at x (and x obeys the model's non-finite-point assumption) */
#define NV_TRIPLE(x, g, f) ((x).id != 0 && ((x).fin || !NV_ISFIN((x).fval)) && NV_SAME(f, (x).fval) && (g).grad_of == (x).id)
#define NV_INNER_COUNT(k, FPER, GPER) \
  (nv_ver_counter >= __CPROVER_loop_entry(nv_ver_counter) + (uint64_t)(k) && nv_ver_counter <= __CPROVER_loop_entry(nv_ver_counter) + (FPER) * (uint64_t)(k) \
   && nv_gcount >= __CPROVER_loop_entry(nv_gcount) + (uint64_t)(k) && nv_gcount <= __CPROVER_loop_entry(nv_gcount) + (GPER) * (uint64_t)(k) && nv_gcount <= nv_ver_counter)
#define NV_CONTRACT_pgm_do_minimize NV_NONLS_REQUIRES NV_NONLS_ASSIGNS NV_NONLS_ENSURES(NV_CONS_FULL, NV_LS_MAX)
#define NV_LOOP_pgm_do_minimize_1 \
__CPROVER_assigns(state, L, xk, xk1, gxk, gxk1, fxk, fxk1, nv_ver_counter, nv_gcount) \
__CPROVER_loop_invariant(NV_BEST(state, NV_CONS_FULL) && NV_BUDGET2(NV_LS_MAX)) \
NV_DECREASES2
#define NV_LOOP_pgm_do_minimize_2 \
__CPROVER_assigns(k, xk1, gxk1, fxk1, iter_ok, M, nv_ver_counter, nv_gcount) \
__CPROVER_loop_invariant(0 <= k && k <= lsearch_max_iterations && NV_INNER_COUNT(k, 1, 1) && (iter_ok ==> (k >= 1 && NV_TRIPLE(xk1, gxk1, fxk1)))) \
__CPROVER_decreases(lsearch_max_iterations - k)
#define NV_CONTRACT_dgm_do_minimize NV_NONLS_REQUIRES NV_NONLS_ASSIGNS NV_NONLS_ENSURES(NV_CONS_FULL, 2 * NV_LS_MAX)
#define NV_LOOP_dgm_do_minimize_1 \
__CPROVER_assigns(state, L, yk, xk1, gxk, gxk1, gphi, fxk1, nv_ver_counter, nv_gcount) \
__CPROVER_loop_invariant(NV_BEST(state, NV_CONS_FULL) && NV_BUDGET2(2 * NV_LS_MAX)) \
NV_DECREASES2
#define NV_LOOP_dgm_do_minimize_2 \
__CPROVER_assigns(k, xk1, gxk1, fxk1, yk, iter_ok, M, nv_ver_counter, nv_gcount) \
__CPROVER_loop_invariant(0 <= k && k <= lsearch_max_iterations && NV_INNER_COUNT(k, 2, 1) && (iter_ok ==> (k >= 1 && NV_TRIPLE(xk1, gxk1, fxk1)))) \
__CPROVER_decreases(lsearch_max_iterations - k)
#define NV_CONTRACT_fgm_do_minimize NV_NONLS_REQUIRES NV_NONLS_ASSIGNS NV_NONLS_ENSURES(NV_CONS_FULL, 2 * NV_LS_MAX)
#define NV_LOOP_fgm_do_minimize_1 \
__CPROVER_assigns(state, L, Ak, ak1, vk, yk, yk1, xk1, gxk1, gyk1, fxk1, fyk1, nv_ver_counter, nv_gcount) \
__CPROVER_loop_invariant(NV_BEST(state, NV_CONS_FULL) && NV_BUDGET2(2 * NV_LS_MAX)) \
NV_DECREASES2
#define NV_LOOP_fgm_do_minimize_2 \
__CPROVER_assigns(k, ak1, xk1, gxk1, fxk1, yk1, gyk1, fyk1, iter_ok, M, nv_ver_counter, nv_gcount) \
__CPROVER_loop_invariant(0 <= k && k <= lsearch_max_iterations && NV_INNER_COUNT(2 * k, 1, 1) && (iter_ok ==> (k >= 1 && NV_TRIPLE(yk1, gyk1, fyk1)))) \
__CPROVER_decreases(lsearch_max_iterations - k)

/* ---- asga2 / asga4: the best state is updated with the triple of the last inner trial, successful or not; at least one
 * trial is made (lsearch_max_iters >= 10).  A starting point that already passes the gradient test is returned as is. */
static double nv_param_gamma1(void) { return nv_nondet_double(); }
static double nv_param_gamma2(void) { return nv_nondet_double(); }
#define NV_ASGA_LOOP1(VARS) \
__CPROVER_assigns(state, Lk, Sk, VARS, nv_ver_counter, nv_gcount) \
__CPROVER_loop_invariant(NV_BEST(state, NV_CONS_FULL) && NV_BUDGET2(2 * NV_LS_MAX)) \
NV_DECREASES2
#define NV_ASGA_LOOP2(VARS, X, G, F) \
__CPROVER_assigns(p, Lk1, sk1, Sk1, iter_ok, VARS, nv_ver_counter, nv_gcount) \
__CPROVER_loop_invariant(0 <= p && p <= lsearch_max_iters && NV_INNER_COUNT(2 * p, 1, 1) && (iter_ok ==> p >= 1) && (p >= 1 ==> NV_TRIPLE(X, G, F))) \
__CPROVER_decreases(lsearch_max_iters - p)
#define NV_CONTRACT_asga2_do_minimize NV_NONLS_REQUIRES NV_NONLS_ASSIGNS NV_NONLS_ENSURES(NV_CONS_FULL, 2 * NV_LS_MAX)
#define NV_LOOP_asga2_do_minimize_1 NV_ASGA_LOOP1(fxk NV_COMMA xk NV_COMMA xk1 NV_COMMA gxk1 NV_COMMA zk NV_COMMA zk1 NV_COMMA yk NV_COMMA gyk NV_COMMA sum_skgyk)
#define NV_LOOP_asga2_do_minimize_2 NV_ASGA_LOOP2(yk NV_COMMA gyk NV_COMMA zk1 NV_COMMA xk1 NV_COMMA gxk1 NV_COMMA fxk1, xk1, gxk1, fxk1)
#define NV_CONTRACT_asga4_do_minimize NV_NONLS_REQUIRES NV_NONLS_ASSIGNS NV_NONLS_ENSURES(NV_CONS_FULL, 2 * NV_LS_MAX)
#define NV_LOOP_asga4_do_minimize_1 NV_ASGA_LOOP1(fyk NV_COMMA vk NV_COMMA yk NV_COMMA xk1 NV_COMMA yk1 NV_COMMA uk1 NV_COMMA gxk1 NV_COMMA gyk1 NV_COMMA sum_skgk)
#define NV_LOOP_asga4_do_minimize_2 NV_ASGA_LOOP2(xk1 NV_COMMA gxk1 NV_COMMA uk1 NV_COMMA yk1 NV_COMMA gyk1 NV_COMMA fyk1, yk1, gyk1, fyk1)

/* ---- primal-dual sub-gradient methods sda / wda (one body) */
static double nv_param_D(void) { return nv_nondet_double(); }
#define NV_CONTRACT_pdsgm_do_minimize NV_NONLS_REQUIRES NV_NONLS_ASSIGNS NV_NONLS_ENSURES(NV_CONS_FULL, 1)
#define NV_LOOP_pdsgm_do_minimize_1 \
__CPROVER_assigns(state, x, gx, nv_ver_counter, nv_gcount) \
__CPROVER_loop_invariant(NV_BEST(state, NV_CONS_FULL) && NV_BUDGET2(1)) \
NV_DECREASES2

/* ---- solver_penalty_t::minimize, the two penalty do_minimize bodies and solver_augmented_lagrangian_t::do_minimize: specs/C02/penalty.h */
/* solver_state_t::update(x) (include/nano/solver/state.h): m_x = x; m_fx = m_function->vgrad(m_x, m_gx): one evaluation of the
 * state's own function at x (value and gradient), then update(m_x, m_gx, m_fx, ..) = update_calls(), update_constraints(); returns valid() */
static _Bool nv_state_update_x(struct nv_state* s, const struct nv_vec* x)
{
  nv_ver_counter = nv_ver_counter + 1; nv_gcount = nv_gcount + 1; NV_FG_BUMP(2);
  s->ver = x->id; s->xfin = x->fin; s->eval_ver = s->ver; s->cons_ver = s->ver;
  if (s->m_function == nv_obj) { s->m_fx = x->fval; s->fx_ver = s->ver; }
  else { s->m_fx = nv_nondet_double(); s->fx_ver = 0; }
  s->valid = nv_nondet__Bool(); __CPROVER_assume(!s->valid || (NV_ISFIN(s->m_fx) && s->xfin));
  s->gtest = nv_nondet_double();
  nv_state_update_calls(s);
  return s->valid;
}
static double nv_param_epsilon0(void) { return nv_nondet_double(); }

/* ---- gradient sampling solvers gs / ags / gs-lbfgs / ags-lbfgs: base_solver_gs_t<sampler, preconditioner>::do_minimize and the
 * perturbed line search gsample::lsearch_t::step (src/solver/gsample/lsearch.h).  The state moves only by state.update(x). */
struct nv_gs_lsearch { double m_beta, m_gamma; int64_t m_max_iters; struct nv_opaque m_perturbation; };
/* lsearch_t{n, solver, basename}: parameters copied; <basename>lsearch_max_iters has the domain (0, 100] */
static struct nv_gs_lsearch nv_gs_lsearch_make(void)
{ struct nv_gs_lsearch l; l.m_beta = nv_nondet_double(); l.m_gamma = nv_nondet_double(); l.m_max_iters = nv_nondet_int64_t(); __CPROVER_assume(1 <= l.m_max_iters && l.m_max_iters <= 100); return l; }
/* sampler.sample(state, epsilon): evaluates the function (value and gradient) at the sampled points: at least one, at most 2n */
static void nv_gs_sample(void)
{ uint64_t k = nv_nondet_uint64_t(); __CPROVER_assume(1 <= k && k <= 2000000u); nv_ver_counter = nv_ver_counter + k; nv_gcount = nv_gcount + k; NV_FG_BUMP(2 * k); }
static struct nv_function* nv_state_function(const struct nv_state* s) { return (struct nv_function*)s->m_function; }
static double nv_param_miu0(void) { return nv_nondet_double(); }
static double nv_param_epsilon0(void);
static double nv_param_theta_miu(void) { return nv_nondet_double(); }
static double nv_param_theta_epsilon(void) { return nv_nondet_double(); }
/* (the last conjunct is the contract of solver_state_t::valid(), specs/C02/state.h: valid => finite value and point) */
#define NV_GS_STATE(s) ((s).ver != 0 && (s).m_function == nv_obj && NV_CONS_FULL(s) && NV_COUNTS2_OK(s) && (!(s).valid || (NV_ISFIN((s).m_fx) && (s).xfin)))
#define NV_CONTRACT_gs_lsearch_step \
__CPROVER_requires(__CPROVER_is_fresh(self, sizeof(*self)) && __CPROVER_is_fresh(x, sizeof(*x)) && __CPROVER_is_fresh(g, sizeof(*g)) && __CPROVER_is_fresh(state, sizeof(*state)) \
  && __CPROVER_is_fresh(H, sizeof(*H)) && __CPROVER_is_fresh(state->m_function, sizeof(struct nv_function)) \
  && 1 <= self->m_max_iters && self->m_max_iters <= 100 && NV_GS_STATE(*state) && nv_gcount <= nv_ver_counter && nv_ver_counter < 2000000000u) \
__CPROVER_assigns(*x, *state, nv_ver_counter, nv_gcount) \
__CPROVER_ensures(NV_GS_STATE(*state) && state->m_status == __CPROVER_old(state->m_status)) \
/* the state is either untouched or the evaluation at the (new) point x */ \
__CPROVER_ensures((state->ver == __CPROVER_old(state->ver) && NV_SAME(state->m_fx, __CPROVER_old(state->m_fx)) && state->xfin == __CPROVER_old(state->xfin) && state->valid == __CPROVER_old(state->valid)) || state->ver == x->id) \
__CPROVER_ensures(nv_ver_counter > __CPROVER_old(nv_ver_counter) && nv_ver_counter - __CPROVER_old(nv_ver_counter) <= 102 && nv_gcount >= __CPROVER_old(nv_gcount) && nv_gcount <= __CPROVER_old(nv_gcount) + 1 && nv_gcount <= nv_ver_counter)
#define NV_GS_STEP_LOOP \
__CPROVER_assigns(iters, t, fx, *x, nv_ver_counter) \
__CPROVER_loop_invariant(0 <= iters && iters <= self->m_max_iters && nv_ver_counter == __CPROVER_loop_entry(nv_ver_counter) + (uint64_t)iters) \
__CPROVER_decreases(self->m_max_iters - iters)
#define NV_LOOP_gs_lsearch_step_1 NV_GS_STEP_LOOP
#define NV_LOOP_gs_lsearch_step_2 NV_GS_STEP_LOOP
/* do_minimize: the claims of NV_NONLS_ENSURES except f <= f0 (the state moves by state.update after an Armijo-like test: numerics) */
#define NV_CONTRACT_gs_do_minimize NV_NONLS_REQUIRES NV_NONLS_ASSIGNS \
__CPROVER_ensures(NV_STATUS_OK(NV_RET.m_status)) \
__CPROVER_ensures(NV_GS_STATE(NV_RET)) \
/* "unless the status is failed the returned point and value are finite".  Refuted before the library repair 16a363d (genuine defect, \
 * replay/C02_gs_replay.cpp): lsearch_t::step moves the state to a trial point accepted by `fx < state.fx() - t * df` (true for \
 * fx = -inf); when the budget test then ended the loop the state was returned with status max_iters without a valid() test */ \
__CPROVER_ensures(NV_RET.m_status != NVE_solver_status_failed ==> (NV_ISFIN(NV_RET.m_fx) && NV_RET.xfin)) \
__CPROVER_ensures(nv_gcount <= nv_ver_counter && nv_ver_counter < 2000000000u && nv_ver_counter + nv_gcount < (uint64_t)nv_max_evals + 2 * 2000000u + 104)
#define NV_LOOP_gs_do_minimize_1 \
__CPROVER_assigns(x, g, miuk, epsilonk, state, nv_ver_counter, nv_gcount) \
__CPROVER_loop_invariant(NV_GS_STATE(state) && state.m_status == NVE_solver_status_max_iters) \
__CPROVER_loop_invariant(1 <= nv_ver_counter && nv_gcount <= nv_ver_counter && nv_ver_counter < 2000000000u && nv_ver_counter + nv_gcount < (uint64_t)nv_max_evals + 2 * 2000000u + 104) \
__CPROVER_decreases((uint64_t)nv_max_evals + 5000000u - nv_ver_counter - nv_gcount)
#endif
