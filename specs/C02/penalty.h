/* C02: the three constrained solvers (src/solver/penalty.cpp, src/solver/augmented.cpp) under the contract of the property:
 *   solver_penalty_t::minimize (the outer loop shared by linear-penalty / quadratic-penalty), the two do_minimize bodies that call it,
 *   solver_augmented_lagrangian_t::do_minimize, and -- for the inner solves -- solver_t::minimize (src/solver.cpp) itself, extracted
 *   and PROVED here against the contract the outer loops then use for `solver->minimize(penalty_function, x, logger)` (replace=).
 *
 * Two function objects exist in these bodies: the OBJECTIVE (`function`, identity nv_obj) and the penalty function built on it.
 *   - the prophecy field `fval` of a vector is the objective's value there (specs/C02/nonls.h); the ghosts fx_ver / eval_ver of a
 *     state speak about the objective only: a state of the penalty function carries fx_ver = eval_ver = 0 (nothing claimed);
 *   - evaluation counters: nv_ver_counter / nv_gcount are the objective's fcalls() / gcalls(); nv_pen_fcalls / nv_pen_gcalls the
 *     penalty function's.  ASSUMED (src/function/penalty.cpp, the kernels are C05's): one evaluation of a penalty function evaluates
 *     the objective exactly once, with the same gradient buffer. */
#ifndef NV_PENALTY_H
#define NV_PENALTY_H
#include <stdint.h>
uint64_t nv_fg;                          /* ghost: fcalls() + gcalls() of the objective (kept by every stub that models evaluations) */
#define NV_FG_BUMP(k) (nv_fg = nv_fg + (k))
#include "nonls.h"

uint64_t nv_pen_fcalls, nv_pen_gcalls, nv_pen_sum;   /* ghost: fcalls() / gcalls() of the penalty function object, and their sum */
int64_t nv_fn_dim, nv_x0_dim;            /* ghost: function.size() (objective and penalty function alike), size of the vectors handled */
/* ghost budget ledger of the inner solves: how many do_minimize bodies were entered, the sum of (max_evals + overshoot of one inner
 * outer iteration) they were entitled to, and whether every one of them ran with the OUTER solver's max_evals */
uint64_t nv_inner_solves, nv_inner_budget; _Bool nv_inner_same_budget;

/* the inner solver object behind rsolver_t (an lbfgs or osga solver): the two parameters the outer loops set / change */
struct nv_isolver { double epsilon; int64_t max_evals; };
#define NV_ISOLVER_OK(s) (10 <= (s)->max_evals && (s)->max_evals <= 1000000000 && (s)->epsilon > 0.0)
static double nv_isolver_get_epsilon(const struct nv_isolver* s) { return s->epsilon; }
static int64_t nv_isolver_get_max_evals(const struct nv_isolver* s) { return s->max_evals; }
/* parameter_t::operator=(value): stores the value if it lies in the registered domain (C19), throws otherwise:
 * solver::epsilon in (0, 0.1], solver::max_evals in [10, 1e9] (src/solver.cpp, solver_t::solver_t) */
static void nv_isolver_set_epsilon(struct nv_isolver* s, double v) { if (!(0.0 < v && v <= 1e-1)) { nv_thrown = 1; return; } s->epsilon = v; }
static void nv_isolver_set_max_evals(struct nv_isolver* s, int64_t v) { if (!(10 <= v && v <= 1000000000)) { nv_thrown = 1; return; } s->max_evals = v; }
/* std::make_unique<tsolver>(): a solver with its registered default parameters (solver::epsilon = 1e-8, solver::max_evals = 1000) */
static struct nv_isolver nv_isolver_new(void) { struct nv_isolver s; s.epsilon = 1e-8; s.max_evals = 1000; return s; }

/* penalty_function_t and the three classes derived from it: a function_t (base sub-object) built on the objective */
struct nv_pf { struct nv_function base; const struct nv_function* m_function; double m_penalty; };
static struct nv_function* nv_pf_function(const struct nv_pf* pf) { return (struct nv_function*)pf->m_function; }
static void nv_pf_set_penalty(struct nv_pf* pf, double p) { pf->m_penalty = p; }
/* {linear, quadratic}_penalty_function_t{function}, augmented_lagrangian_function_t{function, lambda, miu}: m_function(function) */
static struct nv_pf nv_pf_make(const struct nv_function* f) { struct nv_pf pf; pf.base.dummy = 0; pf.m_function = f; pf.m_penalty = 1.0; return pf; }

/* ---- solver_t::minimize(function, x0, logger) (src/solver.cpp) as the outer loops use it: `function` is NOT the objective.
 * function_t::size(), tensor size(), function_t::clear_statistics() (clears the counters of the function it is called on) */
static int64_t nv_fn_size_dim(const struct nv_function* f) { return nv_fn_dim; }
static int64_t nv_x0_size(const struct nv_vec* x) { return nv_x0_dim; }
static void nv_fn_clear_statistics(const struct nv_function* f)
{ if ((const void*)f == nv_obj) { nv_ver_counter = 0; nv_gcount = 0; nv_fg = 0; } else { nv_pen_fcalls = 0; nv_pen_gcalls = 0; nv_pen_sum = 0; } }
/* one outer iteration of an inner solver beyond its budget, in fcalls + gcalls: lbfgs one line search (NV_ENSURES_C02 in
 * specs/solver/solver.h: 2 * evaluations < max_evals + 2 * NV_LS_MAX_EVALS + 2), osga 4 (NV_NONLS_ENSURES(NV_CONS_VALUE, 2)) */
#define NV_INNER_OVERSHOOT (2 * NV_LS_MAX_EVALS + 2)
/* the virtual do_minimize behind solver_t::minimize.  Its precondition (NV_MINIMIZE_REQUIRES / NV_NONLS_REQUIRES: parameters in their
 * domains, statistics of the function to minimise cleared) is an OBLIGATION here; what it returns is what the bodies make_solver can
 * select are proved to return (lbfgs_do_minimize: NV_ENSURES_C02, osga_do_minimize: NV_NONLS_ENSURES), restated over the parameters of
 * the solver object and the counters of the function object at hand (ASSUMPTION: that restatement, i.e. virtual dispatch reaches one of
 * the verified bodies).  Nothing is claimed about the objective: the returned state is a state of `f`. */
static struct nv_state nv_do_minimize_virtual(const struct nv_isolver* self, const struct nv_function* f, const struct nv_vec* x0, const struct nv_logger* l)
{
  __CPROVER_assert(NV_ISOLVER_OK(self), "do_minimize precondition: solver parameters in their domains");
  __CPROVER_assert(nv_pen_fcalls == 0 && nv_pen_gcalls == 0 && nv_pen_sum == 0, "do_minimize precondition: the statistics of the function to minimise were cleared");
  __CPROVER_assert(nv_fn_dim == nv_x0_dim, "do_minimize is entered only with a starting point of the function's dimension");
  struct nv_state s = nv_state_default();
  uint64_t kf = nv_nondet_uint64_t(), kg = nv_nondet_uint64_t();
  uint64_t ks = kf + kg;
  __CPROVER_assume(1 <= kf && kg <= kf && kf <= 2000000000u && ks < (uint64_t)self->max_evals + NV_INNER_OVERSHOOT);
  nv_pen_fcalls = kf; nv_pen_gcalls = kg; nv_pen_sum = ks;
  nv_ver_counter = nv_ver_counter + kf; nv_gcount = nv_gcount + kg; nv_fg = nv_fg + ks;      /* every evaluation of f evaluates the objective once */
  nv_inner_solves = nv_inner_solves + 1; nv_inner_budget = nv_inner_budget + (uint64_t)self->max_evals + NV_INNER_OVERSHOOT;
  nv_inner_same_budget = (nv_inner_same_budget != 0) && (self->max_evals == nv_max_evals);
  s.ver = nv_nondet_uint64_t(); __CPROVER_assume(s.ver != 0);
  s.eval_ver = 0; s.fx_ver = 0; s.cons_ver = 0; s.m_function = f; s.xfin = nv_nondet__Bool(); s.m_fx = nv_nondet_double();
  s.valid = nv_nondet__Bool(); __CPROVER_assume(!s.valid || (NV_ISFIN(s.m_fx) && s.xfin));
  s.m_status = nv_nondet_int32_t(); __CPROVER_assume(NV_STATUS_OK(s.m_status));
  __CPROVER_assume(s.m_status == NVE_solver_status_failed || (NV_ISFIN(s.m_fx) && s.xfin));
  s.m_fcalls = nv_nondet_int64_t(); s.m_gcalls = nv_nondet_int64_t();
  __CPROVER_assume(0 <= s.m_fcalls && (uint64_t)s.m_fcalls <= kf && 0 <= s.m_gcalls && (uint64_t)s.m_gcalls <= kg);
  s.gtest = nv_nondet_double(); s.feas = nv_nondet_double(); s.dg = nv_nondet_double();
  return s;
}
#define NV_LEDGER_OK (nv_inner_solves <= 1000 && nv_inner_budget <= nv_inner_solves * 1000200002ull)
#define NV_CONTRACT_solver_minimize \
__CPROVER_requires(__CPROVER_is_fresh(self, sizeof(*self)) && __CPROVER_is_fresh(function, sizeof(*function)) && __CPROVER_is_fresh(x0, sizeof(*x0)) \
  && !nv_thrown && NV_ISOLVER_OK(self) && (const void*)function != nv_obj && nv_gcount <= nv_ver_counter && nv_ver_counter < 2000000000000ull && nv_fg < 4000000000000ull && NV_LEDGER_OK) \
__CPROVER_assigns(nv_ver_counter, nv_gcount, nv_fg, nv_pen_fcalls, nv_pen_gcalls, nv_pen_sum, nv_inner_solves, nv_inner_budget, nv_inner_same_budget, nv_thrown) \
/* a dimension mismatch throws before any evaluation */ \
__CPROVER_ensures((nv_fn_dim != nv_x0_dim) == (nv_thrown != 0)) \
__CPROVER_ensures(nv_thrown ==> (nv_ver_counter == __CPROVER_old(nv_ver_counter) && nv_gcount == __CPROVER_old(nv_gcount) && nv_fg == __CPROVER_old(nv_fg) && nv_inner_solves == __CPROVER_old(nv_inner_solves) \
  && nv_inner_budget == __CPROVER_old(nv_inner_budget) && nv_inner_same_budget == __CPROVER_old(nv_inner_same_budget))) \
/* otherwise: the statistics of `function` count exactly this solve, which stays within the solver's own max_evals plus one of its outer iterations */ \
__CPROVER_ensures(!nv_thrown ==> (1 <= nv_pen_fcalls && nv_pen_gcalls <= nv_pen_fcalls && nv_pen_fcalls <= 2000000000u && nv_pen_sum == nv_pen_fcalls + nv_pen_gcalls && nv_pen_sum < (uint64_t)self->max_evals + NV_INNER_OVERSHOOT)) \
__CPROVER_ensures(!nv_thrown ==> (nv_ver_counter == __CPROVER_old(nv_ver_counter) + nv_pen_fcalls && nv_gcount == __CPROVER_old(nv_gcount) + nv_pen_gcalls && nv_fg == __CPROVER_old(nv_fg) + nv_pen_sum)) \
__CPROVER_ensures(!nv_thrown ==> (nv_inner_solves == __CPROVER_old(nv_inner_solves) + 1 && nv_inner_budget == __CPROVER_old(nv_inner_budget) + (uint64_t)self->max_evals + NV_INNER_OVERSHOOT \
  && (nv_inner_same_budget != 0) == (__CPROVER_old(nv_inner_same_budget) != 0 && self->max_evals == nv_max_evals))) \
/* the returned state is a state of `function` (not of the objective) with one of the three statuses, finite unless failed, whose counters are `function`'s */ \
__CPROVER_ensures(!nv_thrown ==> (NV_STATUS_OK(NV_RET.m_status) && NV_RET.ver != 0 && NV_RET.m_function == function && NV_RET.fx_ver == 0 && NV_RET.eval_ver == 0)) \
__CPROVER_ensures(!nv_thrown ==> ((NV_RET.m_status != NVE_solver_status_failed ==> (NV_ISFIN(NV_RET.m_fx) && NV_RET.xfin)) && (!NV_RET.valid || (NV_ISFIN(NV_RET.m_fx) && NV_RET.xfin)))) \
__CPROVER_ensures(!nv_thrown ==> (0 <= NV_RET.m_fcalls && (uint64_t)NV_RET.m_fcalls <= nv_pen_fcalls && 0 <= NV_RET.m_gcalls && (uint64_t)NV_RET.m_gcalls <= nv_pen_gcalls))

/* ---- solver_t::more_precise(epsilon_factor) (src/solver.cpp): only solver::epsilon changes (the evaluation budget of the next inner solve
 * is the one make_solver set); may throw when the product leaves the parameter's domain (recorded in DESIGN 11.3: epsilon underflow) */
#define NV_CONTRACT_solver_more_precise \
__CPROVER_requires(__CPROVER_is_fresh(self, sizeof(*self))) \
__CPROVER_assigns(self->epsilon, nv_thrown) \
__CPROVER_ensures(self->max_evals == __CPROVER_old(self->max_evals)) \
__CPROVER_ensures(!nv_thrown ==> (0.0 < self->epsilon && self->epsilon <= 1e-1)) \
__CPROVER_ensures(nv_thrown ==> NV_SAME(self->epsilon, __CPROVER_old(self->epsilon)))

/* ---- ::make_solver<tsolver>(epsilon, max_evals) (src/solver.cpp, behind solver_t::make_solver): a new solver whose solver::max_evals is the
 * value handed in (or an exception when a value is outside its parameter's domain) */
struct nv_isolver make_solver_T(double epsilon, int64_t max_evals);   /* (called by make_solver, whose callers use make_solver's contract) */
#define NV_CONTRACT_make_solver_T \
__CPROVER_requires(1) \
__CPROVER_assigns(nv_thrown) \
__CPROVER_ensures(!nv_thrown ==> (NV_RET.max_evals == max_evals && NV_RET.epsilon == epsilon && NV_ISOLVER_OK(&NV_RET)))
/* solver_t::make_solver(function, epsilon, max_evals): selects lbfgs / osga by function.smooth(); both go through ::make_solver<T> */
#define NV_CONTRACT_make_solver NV_CONTRACT_make_solver_T
#define NV_CONTRACT_make_solver_T_osga NV_CONTRACT_make_solver_T

/* ---- parameters of the outer solvers (domains from the constructors in src/solver/penalty.cpp, src/solver/augmented.cpp) */
static double nv_param_eta(void) { return nv_nondet_double(); }
static double nv_param_epsilonK(void) { double v = nv_nondet_double(); __CPROVER_assume(0.0 < v && v <= 1.0); return v; }
static double nv_param_penalty0(void) { return nv_nondet_double(); }
static double nv_param_tau(void) { return nv_nondet_double(); }
static double nv_param_gamma(void) { return nv_nondet_double(); }
static double nv_param_miu_max(void) { return nv_nondet_double(); }
/* solver::augmented::lambda is a pair (osga's scalar `lambda` of nonls.h is not used by these bodies) */
static struct nv_tuple_f64_f64 nv_param_lambda_pair(void) { struct nv_tuple_f64_f64 r; r._0 = nv_nondet_double(); r._1 = nv_nondet_double(); return r; }
#define nv_param_lambda nv_param_lambda_pair
#ifndef NV_MAX_OUTERS
#define NV_MAX_OUTERS 100        /* solver::penalty::max_outer_iters in [10, 100]; solver::augmented::max_outer_iters in [10, 1000] */
#endif
int64_t nv_max_outers;
static int64_t nv_param_max_outer_iters(void) { return nv_max_outers; }

/* ---- the contract of the property for the outer loops */
/* the reported (x, fx, gx) is one evaluation of the OBJECTIVE at the reported point, the stored constraint values were recomputed at that
 * point, the reported counters are the objective's and never exceed the evaluations of the objective performed */
#define NV_PEN_STATE(s) ((s).ver != 0 && (s).m_function == nv_obj && NV_CONS_FULL(s) && (s).cons_ver == (s).ver && NV_COUNTS2_OK(s))
/* budget: "per inner solve" (property text).  Every inner solve runs with the OUTER max_evals (the solver is made once, more_precise only
 * touches epsilon), there are at most max_outer_iters of them, each costs the objective less than max_evals + one inner outer iteration,
 * and each outer iteration adds at most one evaluation of the objective of its own (bstate.update, value and gradient): with n = nv_inner_solves
 *     fcalls + gcalls (ghost nv_fg) <= 2 + n + nv_inner_budget,   nv_inner_budget = n * (max_evals + NV_INNER_OVERSHOOT)   (ledger + lemma in penalty.py)
 * i.e. at most max_evals + NV_INNER_OVERSHOOT + 1 per outer iteration, and n <= max_outer_iters */
#define NV_PEN_BUDGET (nv_gcount <= nv_ver_counter && nv_inner_solves <= (uint64_t)nv_max_outers && (nv_inner_same_budget != 0) \
  && nv_fg <= 2 + nv_inner_solves + nv_inner_budget && nv_ver_counter <= 1 + nv_inner_solves + nv_inner_budget && NV_LEDGER_OK)
#define NV_PEN_REQUIRES(FN) \
__CPROVER_requires(NV_SOLVER_PARAMS_OK && 10 <= nv_max_outers && nv_max_outers <= NV_MAX_OUTERS && nv_ver_counter == 0 && nv_gcount == 0 && nv_fg == 0 && __CPROVER_is_fresh(self, sizeof(*self)) \
  && nv_inner_solves == 0 && nv_inner_budget == 0 && nv_inner_same_budget == 1 \
  /* solver_t::minimize checked function.size() == x0.size(); the penalty function has the objective's dimension and every vector handed \
     on (bstate.x()) has the dimension of x0 (asserted by solver_state_t::update) */ \
  && nv_fn_dim == nv_x0_dim && nv_obj == (const void*)(FN)) \
/* "every starting point with a finite value" */ \
__CPROVER_requires(__CPROVER_is_fresh(x0, sizeof(*x0)) && x0->id != 0 && x0->fin && NV_ISFIN(x0->fval))
#define NV_PEN_LEDGER , nv_fg, nv_pen_fcalls, nv_pen_gcalls, nv_pen_sum, nv_inner_solves, nv_inner_budget, nv_inner_same_budget, nv_thrown
#define NV_PEN_ENSURES \
__CPROVER_ensures(!nv_thrown ==> NV_STATUS_OK(NV_RET.m_status)) \
__CPROVER_ensures(!nv_thrown ==> NV_PEN_STATE(NV_RET)) \
__CPROVER_ensures(!nv_thrown ==> (NV_RET.m_status != NVE_solver_status_failed ==> (NV_ISFIN(NV_RET.m_fx) && NV_RET.xfin))) \
__CPROVER_ensures(!nv_thrown ==> NV_PEN_BUDGET)
/* loop invariant shared by the two outer loops */
#define NV_PEN_INV(OUTER) (0 <= (OUTER) && (OUTER) <= max_outers && max_outers == nv_max_outers && !nv_thrown && NV_PEN_STATE(bstate) && bstate.m_status == NVE_solver_status_max_iters \
  && NV_ISFIN(bstate.m_fx) && bstate.xfin && NV_ISOLVER_OK(&solver) && solver.max_evals == nv_max_evals \
  && 1 <= nv_ver_counter && nv_inner_solves == (uint64_t)(OUTER) && NV_PEN_BUDGET)

/* ---- solver_penalty_t::minimize(penalty_function, x0, logger) */
#define NV_CONTRACT_penalty_minimize \
__CPROVER_requires(__CPROVER_is_fresh(penalty_function, sizeof(*penalty_function)) && __CPROVER_is_fresh(penalty_function->m_function, sizeof(struct nv_function))) \
NV_PEN_REQUIRES(penalty_function->m_function) \
__CPROVER_assigns(nv_ver_counter, nv_gcount, penalty_function->m_penalty NV_PEN_LEDGER) \
NV_PEN_ENSURES
#define NV_LOOP_penalty_minimize_1 \
__CPROVER_assigns(outer, penalty, solver.epsilon, bstate, penalty_function->m_penalty, nv_ver_counter, nv_gcount NV_PEN_LEDGER) \
__CPROVER_loop_invariant(NV_PEN_INV(outer)) \
__CPROVER_decreases(max_outers - outer)

/* ---- solver_linear_penalty_t::do_minimize / solver_quadratic_penalty_t::do_minimize: the penalty function handed to minimize() is built on
 * `function`, so the contract of minimize() is the contract of the property for `function` */
#define NV_PEN_DO_MINIMIZE \
__CPROVER_requires(__CPROVER_is_fresh(function, sizeof(*function))) NV_PEN_REQUIRES(function) \
__CPROVER_assigns(nv_ver_counter, nv_gcount NV_PEN_LEDGER) \
NV_PEN_ENSURES
#define NV_CONTRACT_linear_penalty_do_minimize NV_PEN_DO_MINIMIZE
#define NV_CONTRACT_quadratic_penalty_do_minimize NV_PEN_DO_MINIMIZE

/* ---- solver_augmented_lagrangian_t::do_minimize (C05 proves converged => feasible for the same body over specs/C05/augmented.h) */
#define NV_CONTRACT_al_do_minimize NV_PEN_DO_MINIMIZE
#define NV_LOOP_al_do_minimize_1 \
__CPROVER_assigns(outer, ro, old_criterion, lambda, miu, solver.epsilon, bstate, penalty_function.m_penalty, nv_ver_counter, nv_gcount NV_PEN_LEDGER) \
__CPROVER_loop_invariant(NV_PEN_INV(outer) && penalty_function.m_function == function) \
__CPROVER_decreases(max_outers - outer)
#endif
