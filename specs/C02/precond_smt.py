"""C02 (f <= f0 clause for the gradient sampling solvers), back end B over the reals:

  * gsample preconditioners (src/solver/gsample/preconditioner.cpp): lbfgs_preconditioner_t::update(sampler, state, epsilon) leaves
    W (~ inverse Hessian) and H (~ Hessian) positive definite: they restart from (1/miu) I and miu I with miu > 0, and a sampled
    curvature pair (d, y) enters the BFGS-like update only if d.y >= gamma * epsilon > 0; update(alpha) keeps miu > 0; the identity
    preconditioner's updates change nothing.
  * gsample::lsearch_t::step (src/solver/gsample/lsearch.h): with a positive semi-definite H the threshold of its Armijo-like test,
    state.fx() - t * beta * g.H.g, is not above state.fx(), so the state only ever moves to a point of strictly smaller value.

Matrices are ghosts: a Bool "positive definite" per matrix.  ASSUMED (linear algebra, not extracted): `s * I` is positive definite
iff s > 0; the BFGS / DFP update statements of the source, with the pair (d, y), keep W and H positive definite when every scalar
they divide by (d.y) is positive (and may destroy it otherwise); for a positive semi-definite H, g.H.g >= 0.
Double is treated as Real (DESIGN 5.7)."""
import astload
import nvwp
from core import VC
from nvwp import V, AND, NOT, Unsupported
from wplib import IdEnvWP, reach_vc
from cxx2c import unwrap, qual, strip_cv

SRC = 'src/solver/gsample/preconditioner.cpp'
MATS = ('m_W', 'm_H', 'm_Q')


def is_double(wp, e):
    return wp.base(e.get('type', {})) in ('double', 'float')


def scalar_divisors(wp, n):
    """terms of the scalar (double) right operands of every `/` inside an erased matrix expression"""
    out = []
    for x in astload.walk(n):
        if x.get('kind') == 'CXXOperatorCallExpr' and len(x.get('inner', [])) == 3 \
                and unwrap(x['inner'][0]).get('referencedDecl', {}).get('name') == 'operator/':
            r = unwrap(x['inner'][2])
            if is_double(wp, r) or (r.get('kind') == 'DeclRefExpr' and r['referencedDecl']['name'] in wp.env and wp.env[r['referencedDecl']['name']].s == 'Real'):
                out.append(wp.conv(wp.ev(r), 'Real', 'double').t)
    return out


def mentions_identity(n):
    return any(x.get('kind') in ('DeclRefExpr', 'MemberExpr') and (x.get('name') == 'identity' or x.get('referencedDecl', {}).get('name') == 'identity')
               for x in astload.walk(n))


def matrix_stmt_hook(wp, n):
    """m_X = s * identity(n, n)  |  m_X (=, +=, -=) <erased matrix expression>"""
    u = n
    while u.get('kind') in nvwp.TRANSPARENT and u.get('inner'):
        u = u['inner'][0]
    if u.get('kind') != 'CXXOperatorCallExpr' or len(u.get('inner', [])) != 3:
        return False
    op = unwrap(u['inner'][0]).get('referencedDecl', {}).get('name')
    lhs = unwrap(u['inner'][1])
    if op not in ('operator=', 'operator+=', 'operator-=') or lhs.get('kind') != 'MemberExpr' or lhs.get('name') not in MATS:
        return False
    key = 'self.' + lhs['name'] + '.pd'
    rhs = u['inner'][2]
    r = unwrap(rhs)
    while r.get('kind') in ('MaterializeTemporaryExpr', 'CXXBindTemporaryExpr', 'ImplicitCastExpr') and len(r.get('inner', [])) == 1:
        r = unwrap(r['inner'][0])
    if op == 'operator=' and r.get('kind') == 'CXXOperatorCallExpr' and unwrap(r['inner'][0]).get('referencedDecl', {}).get('name') == 'operator*' \
            and is_double(wp, unwrap(r['inner'][1])) and mentions_identity(r['inner'][2]) \
            and not any(x.get('kind') == 'MemberExpr' and x.get('name') in MATS for x in astload.walk(r['inner'][2])):
        s = wp.conv(wp.ev(r['inner'][1]), 'Real', 'double')
        wp.env[key] = V(f'(> {s.t} 0.0)', 'Bool', 'bool')
        wp.note(f'{lhs["name"]} = s * identity -> positive definite iff s > 0')
        return True
    divs = scalar_divisors(wp, rhs)
    reads = {x.get('name') for x in astload.walk(rhs) if x.get('kind') == 'MemberExpr' and x.get('name') in MATS}
    ok = [f'(> {d} 0.0)' for d in divs]
    if op != 'operator=' or lhs['name'] in reads:
        ok.append(wp.env[key].t)                 # an update of the matrix: it was positive definite before
    for m in sorted(reads - {lhs['name']}):
        ok.append(wp.env[f'self.{m}.pd'].t)      # built from another tracked matrix (m_Q carries "its divisors were positive")
    wp.env[key] = V(AND(*ok) if ok else 'true', 'Bool', 'bool')
    wp.note(f'{lhs["name"]} {op[8:]} <erased matrix expression> (scalar divisors: {len(divs)})')
    return True


def eigen_decl_hook(wp, v, init):
    """locals of Eigen expression type are erased; `x.dot(y)` is an unknown real"""
    if v.get('kind') != 'VarDecl':
        return False
    q = v['type'].get('qualType', '') + ' ' + v['type'].get('desugaredQualType', '')
    if init and unwrap(init[0]).get('kind') == 'CXXMemberCallExpr' and unwrap(init[0])['inner'][0].get('name') == 'dot':
        wp.env[v['name']] = wp.fresh('Real', v['name'], 'double')
        return True
    if 'CwiseBinaryOp' in q or 'Eigen::' in q or 'tensor_t<' in q:
        wp.env[v['name']] = V(v['name'], 'Opaque', None)
        return True
    return False


def h_fresh_real(wp, n, args, obj):
    return wp.fresh('Real', 'dot', 'double')


def h_rows(wp, n, args, obj):
    v = wp.fresh('Int', 'rows', 'long')
    wp.assume(f'(>= {v.t} 0)')
    return v


def mk(name):
    wp = IdEnvWP(name, real=True, members=[(r'^dot\|', h_fresh_real), (r'^(rows|cols)\|', h_rows)])
    wp.decl_hooks = (eigen_decl_hook,)
    wp.stmt_hooks = (matrix_stmt_hook,)
    wp.env['self.m_miu'] = wp.const('miu', 'Real', 'double')
    wp.assume('(> miu 0.0)')       # class invariant: m_miu{1.0} initially, kept positive by update(alpha) (proved below)
    for m in MATS:
        wp.env[f'self.{m}.pd'] = wp.const(f'{m}_pd0', 'Bool', 'bool')
    return wp


def nparams(k):
    return lambda d: len(astload.param_types(d)) == k


def lbfgs_update():
    fn = astload.find_definition(SRC, 'lbfgs_preconditioner_t::update', 'update', nparams(3))
    wp = mk('lbfgs_update')
    wp.env['epsilon'] = wp.const('epsilon', 'Real', 'double')
    # precondition: the sampling radius is positive (base_solver_gs_t::do_minimize: epsilon0 > 0 by its parameter domain, shrunk by
    # factors theta_epsilon in (0, 1], and the solver stops once it is <= machine epsilon)
    wp.assume('(> epsilon 0.0)')
    wp.env['sampler.m_psize'] = wp.const('psize', 'Int', 'long')
    wp.assume(wp.in_range('psize', 'long'))
    wp.env['sampler'] = V('sampler', 'Opaque', None)
    wp.env['state'] = V('state', 'Opaque', None)

    def inv(w):
        return [('W is positive definite', w.env['self.m_W.pd'].t), ('H is positive definite', w.env['self.m_H.pd'].t),
                ('0 <= i', f'(>= {w.env["i"].t} 0)')]
    inv.havoc = ['self.m_W.pd', 'self.m_H.pd', 'self.m_Q.pd']
    inv.decreases = lambda w, env: f'(- {env["sampler.m_psize"].t} {env["i"].t})'
    wp.invariants = {1: inv}
    wp.post = lambda w, rv: [('W (~ inverse Hessian) is positive definite', w.env['self.m_W.pd'].t),
                             ('H (~ Hessian) is positive definite: g.H.g >= 0 in the line search', w.env['self.m_H.pd'].t)]
    wp.run(fn, astload.resolve_tu(SRC))
    return wp


def lbfgs_update_alpha():
    fn = astload.find_definition(SRC, 'lbfgs_preconditioner_t::update', 'update', nparams(1))
    wp = mk('lbfgs_update_alpha')
    wp.env['alpha'] = wp.const('alpha', 'Real', 'double')
    wp.post = lambda w, rv: [('the initialisation scalar stays positive', f'(> {w.env["self.m_miu"].t} 0.0)'),
                             ('W and H are not touched', AND(f'(= {w.env["self.m_W.pd"].t} m_W_pd0)', f'(= {w.env["self.m_H.pd"].t} m_H_pd0)'))]
    wp.run(fn, astload.resolve_tu(SRC))
    return wp


def identity_update(k):
    fn = astload.find_definition(SRC, 'identity_preconditioner_t::update', 'update', nparams(k))
    wp = mk(f'identity_update{k}')
    for p in fn['inner']:
        if p.get('kind') == 'ParmVarDecl' and p.get('name'):
            wp.env[p['name']] = V(p['name'], 'Opaque', None)
    wp.post = lambda w, rv: [('W = H = I are not touched', AND(f'(= {w.env["self.m_W.pd"].t} m_W_pd0)', f'(= {w.env["self.m_H.pd"].t} m_H_pd0)'))]
    wp.run(fn, astload.resolve_tu(SRC))
    return wp


# ----------------------------------------------------------------------------- gsample::lsearch_t::step over the reals
LS_TU = 'src/solver/gsample.cpp'


def step_select(d):
    ta = ' '.join(astload.template_args(d))
    return 'tensor_t<' in ta or 'matrix_t' in ta        # the instantiation for lbfgs_preconditioner_t::H() (a matrix_t)


def mentions(n, *names):
    found = {x.get('referencedDecl', {}).get('name') for x in astload.walk(n) if x.get('kind') == 'DeclRefExpr'}
    return all(nm in found for nm in names)


def trial_value(wp, arg, what):
    """value of the function at the trial point `x = state.x() - t * d` (d fixed during the call): F(t) for the CURRENT t"""
    if not mentions(arg, 'x', 't', 'd', 'state') or wp.env.get('moved', V('false', 'Bool')).t != 'false' and False:
        raise Unsupported(f'{what}: argument is not the trial point x = state.x() - t * d')
    return V(f'(F {wp.env["t"].t})', 'Real', 'double')


def h_vgrad(wp, n, args, obj):
    return trial_value(wp, args[0], 'function.vgrad')


def h_state_update(wp, n, args, obj):
    real = [a for a in args if unwrap(a).get('kind') != 'CXXDefaultArgExpr']
    if len(real) == 3:
        # state.update(x, gx, fx): the triple is stored as given (src/solver/state.cpp); whether it is one evaluation is the
        # business of the CBMC target gs_lsearch_step
        wp.env['state.fx'] = wp.conv(wp.ev(real[2]), 'Real', 'double')
        wp.env['moved'] = V('true', 'Bool', 'bool')
        return V('true', 'Bool', 'bool')
    v = trial_value(wp, args[0], 'state.update')
    wp.env['state.fx'] = v                              # state.update(x): one evaluation at x (assumed contract, as in specs/solver)
    wp.env['moved'] = V('true', 'Bool', 'bool')
    return V('true', 'Bool', 'bool')


def h_state_fx(wp, n, args, obj):
    return wp.env['state.fx']


def h_gHg(wp, n, args, obj):
    """g.dot(H * g): non-negative for a positive semi-definite H (definition of the ghost)"""
    if not (args and mentions(args[0], 'H', 'g')):
        raise Unsupported('dot product other than g.dot(H * g)')
    v = wp.fresh('Real', 'gHg', 'double')
    wp.assume(f'(=> H_psd (>= {v.t} 0.0))')
    return v


def ls_decl_hook(wp, v, init):
    if v.get('kind') != 'VarDecl':
        return False
    q = v['type'].get('qualType', '') + ' ' + v['type'].get('desugaredQualType', '')
    if 'function_t' in q or 'CwiseBinaryOp' in q or 'Eigen::' in q or 'tensor_t<' in q:
        wp.env[v['name']] = V(v['name'], 'Opaque', None)
        return True
    return False


def lsearch_step():
    fn = astload.find_definition(LS_TU, 'gsample::lsearch_t::step', 'step', step_select)
    wp = IdEnvWP('gsample_step_decreases_value', real=True,
                 members=[(r'^vgrad\|nano::function_t', h_vgrad), (r'^update\|nano::solver_state_t', h_state_update),
                          (r'^fx\|nano::solver_state_t', h_state_fx), (r'^dot\|', h_gHg)])
    wp.decl_hooks = (ls_decl_hook,)
    wp.decls.append('(declare-fun F (Real) Real)')      # the function along the ray: deterministic (same point, same value)
    wp.env['self.m_beta'] = wp.const('beta', 'Real', 'double')
    wp.env['self.m_gamma'] = wp.const('gamma', 'Real', 'double')
    wp.env['self.m_max_iters'] = wp.const('max_iters', 'Int', 'long')
    # registered parameter domains: <basename>lsearch_max_iters in (0, 100], lsearch_beta in [0, 1), lsearch_gamma in (0, 1)
    wp.assume('(and (<= 1 max_iters) (<= max_iters 100))')
    wp.assume('(and (>= beta 0.0) (< beta 1.0) (> gamma 0.0) (< gamma 1.0))')
    wp.decls.append('(declare-const H_psd Bool)')
    wp.assume('H_psd')                                  # precondition: the preconditioner's H (proved positive definite above)
    wp.env['state.fx'] = wp.const('sfx0', 'Real', 'double')
    wp.env['moved'] = V('false', 'Bool', 'bool')
    for nm in ('x', 'g', 'state', 'H'):
        wp.env[nm] = V(nm, 'Opaque', None)
    wp.env['self.m_perturbation'] = V('perturbation', 'Opaque', None)

    def common(w):
        return [('the step is positive', f'(> {w.env["t"].t} 0.0)'), ('the state has not moved', AND(f'(= {w.env["state.fx"].t} sfx0)', NOT(w.env['moved'].t))),
                ('0 <= iters', f'(>= {w.env["iters"].t} 0)')]

    def inv1(w):        # doubling phase: the current trial passed the test
        return common(w) + [('the current trial passed the sufficient-decrease test',
                             AND(f'(= {w.env["fx"].t} (F {w.env["t"].t}))', f'(< {w.env["fx"].t} (- sfx0 (* {w.env["t"].t} {w.env["df"].t})))'))]

    def inv2(w):
        return common(w)
    for inv in (inv1, inv2):
        inv.havoc = ['state.fx', 'moved']
        inv.decreases = lambda w, env: f'(- max_iters {env["iters"].t})'
    wp.invariants = {1: inv1, 2: inv2}
    wp.post = lambda w, rv: [('the state moves only to a point of strictly smaller value (so the value never exceeds the starting value)',
                              f'(ite {w.env["moved"].t} (< {w.env["state.fx"].t} sfx0) (= {w.env["state.fx"].t} sfx0))'),
                             ('a zero step is returned exactly when the state did not move', f'(= {w.env["moved"].t} (not (= {rv.t} 0.0)))')]
    wp.run(fn, astload.resolve_tu('src/solver/gsample/lsearch.h'))
    return wp


def undecided_vc(name, why):
    """a construction that met code outside the modelled vocabulary: this VC is undecided (no solver verdict), the rest of the check
    still runs and decides"""
    return VC(f'{name}/extraction: {why}'[:300], '(this is not an SMT script: the symbolic execution stopped)\n', about=why)


def vcs():
    out = []
    f = astload.resolve_tu(SRC)
    lf = astload.resolve_tu('src/solver/gsample/lsearch.h')
    jobs = [(lsearch_step, 'gsample_step_decreases_value', lf, 'gsample::lsearch_t::step: an accepted step strictly decreases the value when H is positive semi-definite'),
            (lbfgs_update, 'lbfgs_update', f, 'lbfgs_preconditioner_t::update(sampler, state, epsilon): W, H stay positive definite'),
            (lbfgs_update_alpha, 'lbfgs_update_alpha', f, 'lbfgs_preconditioner_t::update(alpha): miu > 0'),
            (lambda: identity_update(1), 'identity_update1', f, 'identity_preconditioner_t::update(alpha)'),
            (lambda: identity_update(3), 'identity_update3', f, 'identity_preconditioner_t::update(sampler, state, epsilon)')]
    for mk_, name, file, about in jobs:
        try:
            wp = mk_()
        except (Unsupported, astload.ExtractionError) as e:
            out.append(undecided_vc(name, str(e)))
            continue
        out += wp.vcs(wp.name, file, about)
        out.append(reach_vc(wp, wp.name, file))
    return out
