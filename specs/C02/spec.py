import os
import sys
sys.path.insert(0, os.path.join(os.path.dirname(os.path.abspath(__file__)), '..', 'solver'))
import common
import statefns
import nonls
sys.path.insert(0, os.path.join(os.path.dirname(os.path.abspath(__file__)), '..', 'C03'))
import protocol
import precond_smt
import penalty
import armijo_smt
import gs_smt
import pen_evals_smt


def build(tier):
    prox = protocol.targets(['NV_C02'])
    return {
        'targets': common.targets(['NV_C02']) + statefns.targets() + nonls.targets() + penalty.targets() + prox, 'vcs': precond_smt.vcs() + penalty.vcs() + armijo_smt.vcs() + gs_smt.vcs() + pen_evals_smt.vcs(),
        'decided': ['solver_t::done decision protocol; lsearch_t::get; do_minimize of gd / cgd-* / lbfgs / bfgs,dfp,sr1,hoshino,fletcher (17 solvers share these four bodies): status in {converged, max_iters, failed}; unless failed the returned state is valid (finite value and point); the reported (x, f, g) is one consistent evaluation; reported evaluation counts <= evaluations performed; the budget loop terminates and overshoots max_evals by at most one line search (<= 10*max_iterations evaluations, C07: CG_DESCENT alone may take 7*max_iterations+1)',
                    'contract refinement lemma: the C07 contract of lsearchk_t::get implies the contract the solvers rely on',
                    'solver_state_t::update_if_better (both overloads): isfinite(fx) && fx < m_fx <=> the triple (x, gx, fx) is stored (constraint values recomputed from it) and true is returned, otherwise the triple is unchanged; the best value never increases; both histories grow by exactly one and record a positive improvement exactly when the state was replaced (IEEE subtraction, not uninterpreted); value_test(patience) = its three documented cases for every history (loop contract, all indices in bounds); update_calls; valid() => finite value and point',
                    'solver_t::minimize: a dimension mismatch throws before any evaluation; the statistics are cleared before do_minimize (discharges the precondition nv_ver_counter == 0 of every body contract)',
                    'do_minimize of sgm, ellipsoid, cocob, osga, pgm, dgm, fgm, asga2, asga4, sda/wda (pdsgm), fpba1/2 (+ its nesterov lambda), rqb, gs/ags/gs-lbfgs/ags-lbfgs (+ gsample::lsearch_t::step): status in {converged, max_iters, failed}; the reported value (and sub-gradient, except osga which keeps the starting sub-gradient) is the function at the reported point -- vectors carry ghost identities, every possible write is accounted for from the AST (specs/solver/vectrack.py); reported counts <= evaluations performed (separate value / gradient counters); unless failed the value and the point are finite; ret.fx <= f(x0) for the update_if_better solvers; the budget loop terminates and overshoots max_evals by at most one outer iteration (inner trial loops bounded by their registered parameter domains)',
                    'the three constrained solvers (specs/C02/penalty.h): solver_penalty_t::minimize (the outer loop shared by linear-penalty / quadratic-penalty), solver_linear_penalty_t::do_minimize and solver_quadratic_penalty_t::do_minimize (construct the penalty function on `function`, call minimize), solver_augmented_lagrangian_t::do_minimize: status in {converged, max_iters, failed}; the reported (x, fx, gx) is one evaluation of the ORIGINAL objective at the reported point (not of the penalised function), the stored constraint values were recomputed at that point, the reported counters are the objective\'s and <= its evaluations performed; unless failed the value and the point are finite; the outer loop terminates (max_outer_iters - outer decreases)',
                    'inner solves of the constrained solvers through the contract PROVED here for solver_t::minimize (target solver_minimize_inner, used with replace=): a dimension mismatch throws before any evaluation, otherwise the statistics of the function handed in are cleared and the virtual body runs once under its precondition; solver_t::more_precise changes solver::epsilon only; ::make_solver<lbfgs|osga> / solver_t::make_solver return a solver whose solver::max_evals is the value handed in',
                    'one evaluation of a penalty / augmented-Lagrangian function is exactly one evaluation of the objective with the caller\'s own point and gradient buffer (back end B on penalty_vgrad<op> x2, augmented_lagrangian_function_t::do_vgrad, and the two forwarding do_vgrad bodies of src/function/penalty.cpp): the link between the objective\'s and the penalty function\'s counters that the budget ledger uses',
                    'budget of the constrained solvers, per outer iteration: exactly one inner solve per outer iteration (at most max_outer_iters of them), every one with the OUTER solver::max_evals (made once, only epsilon is changed afterwards), each costing the objective fcalls+gcalls < max_evals + 2*NV_LS_MAX_EVALS + 2 (one outer iteration of the inner solver), plus at most one evaluation of the objective by the outer loop itself: fcalls + gcalls <= 2 + n*(max_evals + 2*NV_LS_MAX_EVALS + 3) after n outer iterations (ghost ledger in CBMC + induction lemma over Int); the total is NOT bounded by max_evals: the code hands the full max_evals to every inner solve',
                    'f <= f0 for gd / cgd-* / lbfgs / quasi-Newton with an Armijo-exit line search (backtrack, LeMarechal, More-Thuente, Fletcher; ghost kind flag nv_ls_armijo_exit, false for CG_DESCENT): (i) lemmas over the reals: Armijo (the formula C07 proves equal to has_armijo) with t > 0, c1 > 0 and a descent direction is a strict decrease, the approximate Armijo rule admits at most epsilon per step, chain induction; (ii) lsearchk_t::get / the virtual do_get of C07 export "success => Armijo evaluated true on the returned state against the entry state with the returned step and c1" under the kind flag (C07 re-proved); (iii) refinement lemma: that contract plus the imported facts gives "success => new value finite and <= value on entry", lsearch_t::get passes it on; (iv) loop contracts of the four bodies: every accepted iterate (cstate and pstate) is finite and <= f(x0) (ghost nv_ls_f0 recorded when the first state is built); returned state with status max_iters => fx <= f(x0)',
                    'returned state with status converged => fx <= f(x0) for the same four bodies, through the strengthened contract of solver_t::done: status converged => iter_ok (and valid), !iter_ok => failed, converged && iter_ok && valid => converged.  REPAIRED DEFECT (specs/C02/FINDING_failed_lsearch_converged.md, `fixed:` line in known_findings.txt): before the repair `(converged && step_ok)` a FAILED line search left the state at its last trial point and done(state, iter_ok = false, converged = true) reported converged (smooth quartic, backtracking with max_iterations = 1: converged at a local maximum 2.34 above the start; replay/C02_failed_lsearch_converged.cpp); on the unrepaired solver.cpp solver_done.postcondition.6 / .7 are refuted (the bodies use done() by contract)',
                    'f <= f0 mechanism of the gradient sampling solvers, over the reals (SMT): lbfgs_preconditioner_t::update(sampler, state, epsilon) leaves W and H positive definite (restart from (1/miu) I, miu I with miu > 0; a curvature pair is admitted only with d.y >= gamma*epsilon > 0), update(alpha) keeps miu > 0, the identity preconditioner is never modified; gsample::lsearch_t::step with a positive semi-definite H moves the state only to a point of strictly smaller value (both loops, deterministic function along the ray)',
                    'composition inside base_solver_gs_t::do_minimize (back end B over the reals, real body, instantiation <fixed_sampler_t, lbfgs_preconditioner_t>): the sampling radius handed to precond.update(sampler, state, epsilonk) is > 0 at every call (epsilon0 > 0 and theta_epsilon in (0, 1] by their registered domains, read from the constructor on every run; loop invariant epsilonk > 0), and lsearch.step is handed H() of the very preconditioner object updated with that radius on every path of the same iteration; no other statement of the body moves the state',
                    'f <= f0 mechanism of RQB: csearch_t::search reports descent_step / cutting_plane_step / null_step only for a trial that passed the corresponding tests in this call (sufficient descent f(centre) - fy >= m1*delta for the serious steps), and solver_rqb_t::do_minimize moves its state only to such a trial of the last search'],
        'not_decided': ['f <= f0 for the line-search solvers paired with CG_DESCENT (its approximate-Wolfe exit admits an increase of epsilon per step; the cumulative allowance 5e-4*(1+|f|) of the statement is not derived), and in IEEE arithmetic (the Armijo step is a lemma over the reals); for RQB the last step delta >= 0 (erased numerics); for the gradient sampling solvers the pieces are now composed inside do_minimize (gs_do_minimize_radius) but the chain f <= f0 over the iterations is not stated as one obligation, and the sampler / adaptive-sampler instantiations other than <fixed_sampler_t, lbfgs_preconditioner_t> are not walked', 'the numeric overshoot bound 1100+8n (the proved bounds are per outer iteration in evaluations, see NV_NONLS_ENSURES)',
                        'constrained solvers: an exception escaping from solver_t::more_precise / parameter assignment (epsilon leaving its domain, DESIGN 11.3) ends the run without a state: every clause is conditional on no exception',
                        'gs_do_minimize is extracted for the instantiation <fixed_sampler_t, identity_preconditioner_t> of base_solver_gs_t::do_minimize; ags / gs-lbfgs / ags-lbfgs share the template body but their instantiations are not extracted separately; every other registered solver id of src/solver.cpp has a body target'],
        'assumptions': ['f <= f0 chain (specs/solver/refine.h imports, each proved elsewhere or listed here): valid() => finite value (C02 state_valid); a successful line search returns a step > 0 (C07 lsearchk_get_ieee given the do_get clause, step/ over the reals for backtrack / LeMarechal / Fletcher; for More-Thuente it rests on its stpmin clamp, not re-proved here); has_armijo is its formula (C07 pred/has_armijo) and implies a decrease (lemma/armijo_decrease, double treated as real); the ghost kind flag nv_ls_armijo_exit: virtual dispatch of do_get reaches an implementation whose proved contract has the Armijo exit (backtrack, LeMarechal, Fletcher: CBMC contracts of C07; More-Thuente: advertised/morethuente_do_get over the reals)',
                        'solver_state_t{function, x0} and state.update(x) are one evaluation at the given point; function_t::fcalls()/gcalls() count exactly those evaluations (assumed contracts)',
                        'all vector algebra of the solvers is erased (listed per run under dropped_statements); erased expressions are checked to have no side effect on modelled objects',
                        'the function is a deterministic map from points to values (prophecy field fval of a vector identity) and is non-finite at non-finite points (DESIGN 7, C02)',
                        'assumed contracts transcribed from proved ones: state.update_if_better (specs/C02/state.h -> nv_state_uib), bundle_t::moveto/append/solve/econverged/sconverged and the bundle constructor (specs/C03/bundle.h -> protocol view nv_pb_*), state.update(x, gx, fx) stores the triple as given',
                        'erased callees are pure by signature: asga solve_sk1 / lsearch_done, osga proxy_t, pdsgm model_t, proximity_t, nesterov_sequence_t, gsample sampler / preconditioner / perturbation (sampler.sample evaluates the function between 1 and 2n times with gradients)',
                        'constrained solvers: virtual dispatch of do_minimize inside solver_t::minimize reaches one of the verified bodies (lbfgs / osga, the two make_solver can select); what such a body guarantees (NV_ENSURES_C02 / NV_NONLS_ENSURES) is restated over the parameters of the inner solver object and the counters of the function object handed in (nv_do_minimize_virtual, specs/C02/penalty.h); the returned state is a state of the penalty function: nothing about the objective is assumed of it',
                        'constrained solvers: the penalty function has the objective\'s dimension and bstate.x() the dimension of x0; parameter_t::operator= stores an in-domain value and throws otherwise (C19); the ghost nv_fg (fcalls+gcalls of the objective) is bumped by every stub that models evaluations together with the two counters',
                        'linear algebra behind the ghost flag positive definite (specs/C02/precond_smt.py): s*I is positive definite iff s > 0; the BFGS / DFP update statements of lbfgs_preconditioner_t::update keep W and H positive definite when every scalar they divide by (d.y) is positive; g.H.g >= 0 for a positive semi-definite H; double treated as real in these VCs'],
        'trusted': [],
    }


def replay(rp):
    """protocol counterexamples of solver_t::done / do_minimize are driven on the real solvers by a scripted function"""
    import replaylib
    out = {'reproduced': False, 'runs': []}
    if 'lbfgs_update' in rp['target'] or 'step_decreases_value' in rp['target']:
        exe = replaylib.build_with_library('replay/C02_gslbfgs_replay.cpp', 'C02_gslbfgs_replay')
        rc, so, se = replaylib.run_driver(exe, [300], timeout=600)
        out['runs'].append({'exit': rc, 'output': so.strip()[-3000:]})
        out['reproduced'] = rc == 1
        return out
    if 'gs_' in rp['target']:
        exe = replaylib.build_with_library('replay/C02_gs_replay.cpp', 'C02_gs_replay')
        rc, so, se = replaylib.run_driver(exe, [])
        out['runs'].append({'exit': rc, 'output': so.strip()[:3000]})
        out['reproduced'] = rc == 1
        return out
    if 'rqb' in rp['target'] or 'csearch' in rp['target']:
        exe = replaylib.build_with_library('replay/C02_rqb_replay.cpp', 'C02_rqb_replay')
        rc, so, se = replaylib.run_driver(exe, [10, 40])
        out['runs'].append({'exit': rc, 'output': so.strip()[-3000:]})
        out['reproduced'] = rc == 1
        return out
    if not any(k in rp['target'] for k in ('solver_done', 'do_minimize')):
        out['note'] = 'no scripted function for this target: the replay file carries the verifier output only'
        return out
    exe = replaylib.build_with_library('replay/C02_replay.cpp', 'C02_replay')
    rc, so, se = replaylib.run_driver(exe, [])
    out['runs'].append({'exit': rc, 'output': so.strip()[:3000]})
    out['reproduced'] = rc == 1
    # "a failed iteration is never converged" (solver_done postconditions 6 / 7, f <= f0 of the four line-search bodies): smooth quartic,
    # backtracking with max_iterations = 1: the left-over trial state of the failed line search is a local maximum above f(x0)
    exe = replaylib.build_with_library('replay/C02_failed_lsearch_converged.cpp', 'C02_failed_lsearch_converged')
    rc, so, se = replaylib.run_driver(exe, [])
    out['runs'].append({'driver': 'C02_failed_lsearch_converged', 'exit': rc, 'output': so.strip()[:3000]})
    out['reproduced'] = out['reproduced'] or rc == 1
    return out
