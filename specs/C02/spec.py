import os
import sys
sys.path.insert(0, os.path.join(os.path.dirname(os.path.abspath(__file__)), '..', 'solver'))
import common
import statefns
import nonls
sys.path.insert(0, os.path.join(os.path.dirname(os.path.abspath(__file__)), '..', 'C03'))
import protocol


def build(tier):
    return {
        'targets': common.targets(['NV_C02']) + statefns.targets() + nonls.targets() + [t for t in protocol.targets(['NV_C02']) if t.name != 'csearch_search'],   # csearch_t::search itself: ./check C03 'vcs': [],
        'decided': ['solver_t::done decision protocol; lsearch_t::get; do_minimize of gd / cgd-* / lbfgs / bfgs,dfp,sr1,hoshino,fletcher (17 solvers share these four bodies): status in {converged, max_iters, failed}; unless failed the returned state is valid (finite value and point); the reported (x, f, g) is one consistent evaluation; reported evaluation counts <= evaluations performed; the budget loop terminates and overshoots max_evals by at most one line search (<= 4*max_iterations evaluations, C07)',
                    'contract refinement lemma: the C07 contract of lsearchk_t::get implies the contract the solvers rely on'],
        'not_decided': ['f <= f0 for line-search solvers (Armijo arithmetic)', 'the numeric overshoot bound 1100+8n', 'the other solver bodies (ellipsoid, sgm, cocob, osga, universal, asga, pdsgm, gsample, rqb, fpba, penalty, augmented): see DESIGN'],
        'assumptions': ['solver_state_t{function, x0} and state.update(x) are one evaluation at the given point; function_t::fcalls()/gcalls() count exactly those evaluations (assumed contracts)',
                        'all vector algebra of the solvers is erased (listed per run under dropped_statements); erased expressions are checked to have no side effect on modelled objects',
                        'solver_t::minimize clears the statistics before do_minimize (evaluation counter starts at 0)'],
        'trusted': [],
    }


def replay(rp):
    """protocol counterexamples of solver_t::done / do_minimize are driven on the real solvers by a scripted function"""
    import replaylib
    out = {'reproduced': False, 'runs': []}
    if not any(k in rp['target'] for k in ('solver_done', 'do_minimize')):
        out['note'] = 'no scripted function for this target: the replay file carries the verifier output only'
        return out
    exe = replaylib.build_with_library('replay/C02_replay.cpp', 'C02_replay')
    rc, so, se = replaylib.run_driver(exe, [])
    out['runs'].append({'exit': rc, 'output': so.strip()[:3000]})
    out['reproduced'] = rc == 1
    return out
