"""C02: solver_state_t bookkeeping functions of src/solver/state.cpp on the implementation view (specs/C02/state.h)"""
import astload
from core import Fn, Target

H = 'specs/C02/state.h'
SRC = 'src/solver/state.cpp'
TYPES = [(r'^nano::vector_t$|tensor_t<nano::tensor_vector_storage_t, double, 1', 'struct nv_vec'),
         (r'^nano::function_t$', 'struct nv_function'), (r'^nano::solver_status$', 'int32_t'),
         (r'^(nano::solver_state_t::)?scalars_t$|^std::vector<double', 'struct nv_vecd')]
OPAQUE = [r'Eigen::']
TYPES.append((r'Eigen::.*::RealScalar$', 'double'))
MEMBERS = [(r'^(fcalls)\|nano::function_t', 'nv_fn_fcalls'), (r'^(gcalls)\|nano::function_t', 'nv_fn_gcalls'),
           (r'^update_calls\|nano::solver_state_t', 'state_update_calls'),
           (r'^update_constraints\|nano::solver_state_t', 'nv_update_constraints'),
           (r'^update_if_better\|nano::solver_state_t[ *]*\|#3', 'state_update_if_better3'),
           (r'^push_back\|std::vector<double', 'nv_vecd_push_back({self}, {0})'), (r'^size\|std::vector<double', 'nv_vecd_size'),
           (r'^all_finite\|', 'nv_vec_all_finite')]
CALLS = [(r'^isfinite\|', 'nv_isfinite({0})'), (r'^max\|double \(\)', 'nv_dbl_max()'), (r'^lowest\|double \(\)', 'nv_dbl_lowest()'),
         (r'^max\|const double &', 'nv_fmax({0}, {1})'),
         (r'^operator=\|.*\|nano::tensor_t<nano::tensor_vector_storage_t, double, 1>\|#2', 'nv_vec_assign({&0}, {&1})'),
         (r'^operator\[\]\|.*\|std::vector<double', 'nv_vecd_at({&0}, {1})')]
KW = dict(self_struct='struct nv_sstate', types=TYPES, calls=CALLS, members=MEMBERS, opaque=OPAQUE, uf_float=False)


def nparams(k):
    return lambda d: len([c for c in d['inner'] if c['kind'] == 'ParmVarDecl']) == k


def fn(cname, name, select=None):
    return Fn(cname, SRC, name, flt='solver_state_t::' + name, select=select, **KW)


def targets():
    uc = lambda: fn('state_update_calls', 'update_calls')
    u3 = lambda: fn('state_update_if_better3', 'update_if_better', nparams(3))
    u2 = lambda: fn('state_update_if_better2', 'update_if_better', nparams(2))
    return [Target('state_update_calls', [uc()], H),
            Target('state_valid', [fn('state_valid', 'valid')], H),
            Target('state_update_if_better3', [u3(), uc()], H, replace=['state_update_calls']),
            # the 2-argument overload passes the state's own m_gx as gx (aliasing): the 3-argument body is inlined
            Target('state_update_if_better2', [u2(), u3(), uc()], H, replace=['state_update_calls']),
            Target('state_value_test', [fn('state_value_test', 'value_test')], H), minimize_target()]


def minimize_target():
    """solver_t::minimize over the shared solver model (specs/solver/solver.h)"""
    import common
    kw = dict(common.COMMON)
    kw['members'] = [(r'^size\|nano::function_t', 'nv_fn_size'), (r'^size\|.*tensor', 'nv_x0_size'),
                     (r'^clear_statistics\|nano::function_t', 'nv_fn_clear_statistics'),
                     (r'^do_minimize\|', 'nv_do_minimize')] + list(common.MEMBERS)
    f = Fn('solver_minimize', 'src/solver.cpp', 'minimize', flt='solver_t::minimize', self_struct='struct nv_solver', **kw)
    return Target('solver_minimize', [f], 'specs/C02/minimize.h')
