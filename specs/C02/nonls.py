"""C02: do_minimize of the non line-search solvers over ghost-identified vectors (specs/C02/nonls.h)"""
import os
import sys
sys.path.insert(0, os.path.join(os.path.dirname(os.path.abspath(__file__)), '..', 'solver'))
import common
import vectrack
from core import Fn, Target
from cxx2c import unwrap

H = 'specs/C02/nonls.h'
VEC = r'^nano::vector_t$|tensor_t<nano::tensor_vector_storage_t, double, 1'
TYPES = [(VEC, 'struct nv_vec'), (r'::RealScalar$|::Scalar$', 'double'), (r'^std::tuple<double, double>$', 'struct nv_tuple_f64_f64'),
         (r'tuple_element<[01], (const )?std::tuple<double, double>>::type', 'double')] + list(common.TYPES)
MEMBERS = [(r'^fcalls\|nano::function_t', 'nv_fn_fcalls'), (r'^gcalls\|nano::function_t', 'nv_fn_gcalls'),
           (r'^size\|nano::function_t', 'nv_fn_size'), (r'^(smooth|strong_convexity)\|nano::function_t', '@nondet'),
           (r'^x\|nano::solver_state_t', 'nv_state_x({self})'), (r'^gx\|nano::solver_state_t', 'nv_state_gx({self})'),
           (r'^update_if_better\|nano::solver_state_t\|#3', 'nv_state_uib3'),
           (r'^update_if_better\|nano::solver_state_t\|#2', 'nv_state_uib2'),
           (r'^value_test\|nano::solver_state_t', '@nondet'),
           (r'^(lpNorm|dot|squaredNorm|norm|size)\|.*tensor', '@nondet'), (r'^all_finite\|.*tensor', 'nv_vec_all_finite')] + list(common.MEMBERS)
CALLS = [(r'^ctor\|nano::solver_state_t\|void \(const nano::function_t &', 'nv_bstate_make({&0}, {&1})'),
         (r'^(sqrt)\|', 'nv_sqrt_plain({0})'), (r'^pow\|', 'nv_pow({0}, {1})'), (r'^exp\|', 'nv_exp({0})'),
         (r'^epsilon\|double \(\)', 'nv_dbl_epsilon()'), (r'^max\|double \(\)', 'nv_dbl_max()'),
         (r'^epsilon0\|', 'nv_dbl_epsilon()')] + list(common.CALLS)


def vgrad_hook(P, n):
    """function.vgrad(x[, gx]): the default argument (no gradient buffer) selects the value-only evaluation"""
    if n.get('kind') != 'CXXMemberCallExpr' or n['inner'][0].get('name') != 'vgrad':
        return None
    me = n['inner'][0]
    obj = me['inner'][0]
    fobj = P.expr(obj) if me.get('isArrow') else P.addr(obj)
    args = n['inner'][1:]

    def vec(a):
        u = unwrap(a)
        while u.get('kind') in ('CXXConstructExpr', 'MaterializeTemporaryExpr', 'CXXBindTemporaryExpr') and len(u.get('inner', [])) == 1:
            u = unwrap(u['inner'][0])
        return P.addr(u)
    if len(args) == 2 and unwrap(args[1]).get('kind') != 'CXXDefaultArgExpr':
        P.note('function.vgrad(x, gx)')
        return f'nv_fn_vgrad2({fobj}, {vec(args[0])}, {vec(args[1])})'
    P.note('function.vgrad(x)')
    return f'nv_fn_vgrad1({fobj}, {vec(args[0])})'


# file-local helpers of asga.cpp: pure by signature (scalars by value, vectors by const reference); results unknown
ASGA_CALLS = [(r'^solve_sk1\|', '@nondet'), (r'^lsearch_done\|', '@nondet')]


def body(cname, tu, flt, extra_opaque=(), extra_members=(), extra_calls=(), extra_types=(), select=None):
    vt = vectrack.VecTrack()
    f = Fn(cname, tu, 'do_minimize', flt=flt, select=select, self_struct='struct nv_solver', types=list(extra_types) + TYPES,
           calls=list(extra_calls) + CALLS, members=list(extra_members) + MEMBERS, hooks=[vgrad_hook, vt.expr_hook] + list(common.HOOKS),
           stmt_hooks=[vt.stmt_hook], opaque=list(common.OPAQUE) + list(extra_opaque), aggregates=['struct nv_tuple_b_f64'])
    return f


BODIES = [('sgm_do_minimize', 'src/solver/sgm.cpp', 'solver_sgm_t::do_minimize', {}),
          ('ellipsoid_do_minimize', 'src/solver/ellipsoid.cpp', 'solver_ellipsoid_t::do_minimize', {'extra_members': [(r'^dot\|Eigen::', 'nv_dot()')], 'extra_calls': [(r'^(sqrt)\|', 'nv_sqrt({0})')]}),
          ('cocob_do_minimize', 'src/solver/cocob.cpp', 'solver_cocob_t::do_minimize', {}),
          ('osga_do_minimize', 'src/solver/osga.cpp', 'solver_osga_t::do_minimize', {'extra_opaque': [r'proxy_t']}),
          ('pgm_do_minimize', 'src/solver/universal.cpp', 'solver_pgm_t::do_minimize', {}),
          ('dgm_do_minimize', 'src/solver/universal.cpp', 'solver_dgm_t::do_minimize', {}),
          ('fgm_do_minimize', 'src/solver/universal.cpp', 'solver_fgm_t::do_minimize', {}),
          ('asga2_do_minimize', 'src/solver/asga.cpp', 'solver_asga2_t::do_minimize', {'extra_calls': ASGA_CALLS}),
          ('asga4_do_minimize', 'src/solver/asga.cpp', 'solver_asga4_t::do_minimize', {'extra_calls': ASGA_CALLS}),
          ('pdsgm_do_minimize', 'src/solver/pdsgm.cpp', 'solver_pdsgm_t::do_minimize', {'extra_opaque': [r'model_t']})]


def targets():
    ts = [Target('solver_done_nonls', [common.fn_done()], H, enforce='solver_done', defines=['NV_C02'],
                 note='solver_t::done re-proved with a separate gradient-evaluation counter')]
    for cname, tu, flt, kw in BODIES:
        defs = ['NV_C02'] + (['NV_LS_MAX=1000'] if cname.startswith('asga') else [])   # asga::lsearch_max_iters in [10, 1000]
        ts.append(Target(cname, [body(cname, tu, flt, **kw), common.fn_done()], H, replace=['solver_done'], defines=defs))
    ts += gs_targets()
    return ts


def vec_of(P, a):
    """address of the vector a vector_cmap_t / vector_map_t argument is a view of (the conversion is looked through)"""
    u = unwrap(a)
    while u.get('kind') in ('CXXConstructExpr', 'MaterializeTemporaryExpr', 'CXXBindTemporaryExpr') and len(u.get('inner', [])) == 1:
        u = unwrap(u['inner'][0])
    return P.addr(u)


def penalty_update_hook(P, n):
    """bstate.update(x): the member template update<tvector>(x, {}, {}) = one evaluation of the state's function at x"""
    if n.get('kind') != 'CXXMemberCallExpr':
        return None
    me = n['inner'][0]
    if me.get('name') != 'update' or 'solver_state_t' not in me['inner'][0].get('type', {}).get('qualType', ''):
        return None
    args = n['inner'][1:]
    if len(args) == 3 and all(unwrap(a).get('kind') == 'CXXDefaultArgExpr' for a in args[1:]):
        obj = me['inner'][0]
        P.note('state.update(x)')
        return f'nv_state_update_x({P.expr(obj) if me.get("isArrow") else P.addr(obj)}, {P.addr(args[0])})'
    if len(args) == 5 and all(unwrap(a).get('kind') == 'CXXDefaultArgExpr' for a in args[3:]):
        obj = me['inner'][0]
        P.note('state.update(x, gx, fx)')
        return f'nv_state_update3({P.expr(obj) if me.get("isArrow") else P.addr(obj)}, {vec_of(P, args[0])}, {vec_of(P, args[1])}, {P.expr(args[2])})'
    return None


def penalty_target():
    vt = vectrack.VecTrack()
    members = [(r'^function\|.*penalty_function_t', 'nv_pf_function'), (r'^penalty\|.*penalty_function_t', '@drop'),
               (r'^minimize\|nano::solver_t', 'nv_inner_minimize({&1})'), (r'^more_precise\|nano::solver_t', '@drop'),
               (r'^done\|', 'solver_done')] + MEMBERS
    calls = [(r'^converged\|', '@nondet'), (r'^make_solver\|', '@nondet')] + CALLS
    f = Fn('penalty_minimize', 'src/solver/penalty.cpp', 'minimize', flt='solver_penalty_t::minimize', self_struct='struct nv_solver',
           types=TYPES, calls=calls, members=members, hooks=[vgrad_hook, penalty_update_hook, vt.expr_hook] + list(common.HOOKS),
           stmt_hooks=[vt.stmt_hook], opaque=list(common.OPAQUE) + [r'penalty_function_t', r'unique_ptr<nano::solver_t|^(nano::)?rsolver_t$'],
           aggregates=['struct nv_tuple_b_f64'])
    return Target('penalty_minimize', [f, common.fn_done()], H, replace=['solver_done'], defines=['NV_C02'])


GS_TYPES = [(r'^(nano::)?gsample::lsearch_t$', 'struct nv_gs_lsearch')] + TYPES
GS_OPAQUE = list(common.OPAQUE) + [r'basic_string|^(nano::)?string_t$', r'^(nano::)?(gsample::)?(fixed_sampler_t|adaptive_sampler_t|identity_preconditioner_t|lbfgs_preconditioner_t|perturbation_t)$',
                                   r'^(nano::)?(gsample::)?identity_preconditioner_t::storage_t$|^storage_t$']
GS_MEMBERS = [(r'^sample\|.*gsample::', 'nv_gs_sample()'), (r'^function\|nano::solver_state_t', 'nv_state_function'),
              (r'^gradient_test\|nano::solver_state_t\|#1', '@nondet'),
              (r'^step\|.*gsample::lsearch_t', 'gs_lsearch_step({self}, {&0}, {&1}, {&2}, {&3})')] + MEMBERS
GS_CALLS = [(r'^ctor\|(nano::)?gsample::lsearch_t\|', 'nv_gs_lsearch_make()')] + CALLS


def gs_param_hook(P, n):
    """parameter(basename + "name").value<T>() -> nv_param_name(): the parameter's own name is the string literal of the sum"""
    import re as _re
    import astload as _al
    if n.get('kind') != 'CXXMemberCallExpr':
        return None
    me = n['inner'][0]
    if me.get('kind') != 'MemberExpr' or me.get('name') not in ('value', 'value_pair'):
        return None
    obj = unwrap(me['inner'][0])
    if obj.get('kind') != 'CXXMemberCallExpr' or obj['inner'][0].get('name') != 'parameter' or len(obj['inner']) < 2:
        return None
    lits = [x['value'].strip('"') for x in _al.walk(obj['inner'][1]) if x.get('kind') == 'StringLiteral']
    if len(lits) != 1:
        return None
    nm = 'nv_param_' + _re.sub(r'\W+', '_', lits[0].split('::')[-1])
    P.note(f'parameter(<prefix> + "{lits[0]}") -> {nm}()')
    return f'{nm}()'


def gs_fn(cname, tu, name, flt, self_struct, select=None):
    vt = vectrack.VecTrack()
    return Fn(cname, tu, name, flt=flt, select=select, self_struct=self_struct, types=GS_TYPES, calls=GS_CALLS, members=GS_MEMBERS,
              hooks=[vgrad_hook, penalty_update_hook, vt.expr_hook] + list(common.HOOKS) + [gs_param_hook], stmt_hooks=[vt.stmt_hook], opaque=GS_OPAQUE,
              aggregates=['struct nv_tuple_b_f64'])


def gs_pick(d):
    return 'fixed_sampler_t' in str(d.get('mangledName', '')) and 'identity_preconditioner_t' in str(d.get('mangledName', ''))


def gs_targets():
    step = lambda: gs_fn('gs_lsearch_step', 'src/solver/gsample.cpp', 'step', 'gsample::lsearch_t::step', 'struct nv_gs_lsearch', select=gs_pick_step)
    body_ = gs_fn('gs_do_minimize', 'src/solver/gsample.cpp', 'do_minimize', 'base_solver_gs_t', 'struct nv_solver', select=gs_pick)
    return [Target('gs_lsearch_step', [step()], H, defines=['NV_C02']),
            Target('gs_do_minimize', [body_, step(), common.fn_done()], H, replace=['solver_done', 'gs_lsearch_step'], defines=['NV_C02'])]


def gs_pick_step(d):
    import astload
    ta = astload.template_args(d)
    return any('Matrix' in a or 'matrix' in a or 'storage' in a or 'Diagonal' in a for a in ta) and not any('tensor_t' in a for a in ta)
