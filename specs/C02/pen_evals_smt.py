"""C02, constrained solvers: one evaluation of a penalty / augmented-Lagrangian function is exactly ONE evaluation of the objective, with the
caller's own point and gradient buffer (so fcalls() and gcalls() of the objective advance exactly as the penalty function's do): the link between
the two pairs of counters that specs/C02/penalty.h relies on.  Back end B on the real bodies of src/function/penalty.cpp:
  penalty_vgrad<op> (both instantiations), augmented_lagrangian_function_t::do_vgrad, {linear, quadratic}_penalty_function_t::do_vgrad.
Only the call structure is looked at: every value is opaque / a fresh real; the formulas are C05's business."""
import astload
import nvwp
from core import VC
from nvwp import V, AND, NOT, OR, Unsupported
from wplib import IdEnvWP, reach_vc
from cxx2c import unwrap, qual, strip_cv

SRC = 'src/function/penalty.cpp'


def declname(n):
    u = unwrap(n)
    while u.get('kind') in ('MaterializeTemporaryExpr', 'CXXBindTemporaryExpr', 'ImplicitCastExpr', 'CXXConstructExpr') and len(u.get('inner', [])) == 1:
        u = unwrap(u['inner'][0])
    return u.get('referencedDecl', {}).get('name') if u.get('kind') == 'DeclRefExpr' else None


def opaque_decl_hook(wp, v, init):
    q = strip_cv(qual(v['type']))
    if 'tensor_t<' in q or 'vector_t' in q or 'constraint' in q or 'variant' in q or q.startswith('(lambda') or 'function_t' in q:
        wp.env[v['name']] = V(v['name'], 'Opaque', None)
        return True
    return False


def erase_stmt_hook(wp, n):
    """`gx += <Eigen expression>`: no call of the objective inside (checked), otherwise not looked at"""
    u = n
    while u.get('kind') in nvwp.TRANSPARENT and u.get('inner'):
        u = u['inner'][0]
    if u.get('kind') == 'CXXOperatorCallExpr' and unwrap(u['inner'][0]).get('referencedDecl', {}).get('name') in ('operator+=', 'operator-=', 'operator='):
        lhs = declname(u['inner'][1])
        if lhs == 'gx':
            if any(x.get('kind') == 'CXXMemberCallExpr' and x['inner'][0].get('name') == 'vgrad' for x in astload.walk(u)):
                raise Unsupported('an evaluation inside a gradient update')
            return True
    return False


def mk(name, objective):
    """objective(obj node) -> True when the object of a vgrad member call is the objective"""
    wp = IdEnvWP(name, real=True,
                 calls=[(r'^vgrad\|', lambda w, n, a, c: w.fresh('Real', 'fc', 'double')), (r'^is_equality\|', lambda w, n, a, c: w.fresh('Bool', 'eq', 'bool')),
                        (r'^fabs\|', lambda w, n, a, c: w.fresh('Real', 'abs', 'double')),
                        (r'^operator\(\)\|', lambda w, n, a, c: w.fresh('Real', 'elem', 'double'))],
                 members=[(r'^vgrad\|(const )?nano::function_t', None), (r'^penalty\|', lambda w, n, a, o: w.fresh('Real', 'rho', 'double')),
                          (r'^size\|', lambda w, n, a, o: w.fresh('Int', 'size', 'long')),
                          (r'^function\|', lambda w, n, a, o: V('objective', 'Opaque', None)), (r'^constraints\|', lambda w, n, a, o: V('constraints', 'Opaque', None))])
    wp.evals = []          # (path condition, point is the caller's x, buffer is the caller's gx, inside the loop)
    wp.in_loop = False

    def h_obj_vgrad(w, n, args, obj):
        if not objective(obj):
            raise Unsupported('vgrad on an object that is not the objective')
        w.evals.append((w.guard, declname(args[0]) == 'x', len(args) > 1 and declname(args[1]) == 'gx', w.in_loop))
        return w.fresh('Real', 'fobj', 'double')
    wp.members[0] = (r'^vgrad\|(const )?nano::function_t', h_obj_vgrad)
    wp.decl_hooks = (opaque_decl_hook,)
    wp.stmt_hooks = (erase_stmt_hook,)
    wp.real_div_check = False
    return wp


def claims(wp, rv=None):
    outside = [e for e in wp.evals if not e[3]]
    once = 'false'
    if outside:
        gs = [e[0] for e in outside]
        once = AND(OR(*gs), *[NOT(AND(gs[i], gs[j])) for i in range(len(gs)) for j in range(i + 1, len(gs))])
    return [('one_objective_evaluation: the objective is evaluated exactly once on every path that returns', once),
            ('same_arguments: with the caller\'s point x and gradient buffer gx', 'true' if all(e[1] and e[2] for e in wp.evals) and wp.evals else 'false'),
            ('no_evaluation_per_constraint: no evaluation of the objective inside the loop over the constraints', 'false' if any(e[3] for e in wp.evals) else 'true')]


def loop_inv(wp):
    calls = [0]

    def inv(w):
        # nvwp.loop calls the invariant on entry, at the loop head (in front of the body) and after the body: the body is what lies between
        # the second and the third call
        calls[0] += 1
        w.in_loop = calls[0] in (1, 2)
        return []
    return inv


def walk(name, fn, objective, about, counters=()):
    wp = mk(name, objective)
    for key, p in wp.bind_params(fn):
        wp.env[key] = V(key, 'Opaque', None)
    inv = loop_inv(wp)
    if counters:
        inv.assume_only = [lambda w: AND(*[f'(and (<= 0 {w.env[c].t}) (< {w.env[c].t} 4611686018427387904))' for c in counters])]
    wp.invariants = {1: inv}
    wp.post = lambda w, rv: claims(w, rv)
    wp.run(fn, astload.resolve_tu(SRC))
    vcs = wp.vcs(name, astload.resolve_tu(SRC), about)
    vcs.append(reach_vc(wp, name, astload.resolve_tu(SRC)))
    return vcs


def is_param(name):
    return lambda obj: declname(obj) == name


def is_function_call(obj):
    u = unwrap(obj)
    return u.get('kind') == 'CXXMemberCallExpr' and u['inner'][0].get('name') == 'function'


def wrapper(name, cls, about):
    """{linear, quadratic}_penalty_function_t::do_vgrad: returns penalty_vgrad(function(), x, gx, op), called once"""
    fn = astload.find_definition(SRC, cls + '::do_vgrad', 'do_vgrad')
    calls = [x for x in astload.walk([c for c in fn['inner'] if c['kind'] == 'CompoundStmt'][0]) if x.get('kind') == 'CallExpr'
             and unwrap(x['inner'][0]).get('referencedDecl', {}).get('name') == 'penalty_vgrad']
    rets = [x for x in astload.walk([c for c in fn['inner'] if c['kind'] == 'CompoundStmt'][0]) if x.get('kind') == 'ReturnStmt']
    top = [r for r in rets if r.get('inner') and any(y is calls[0] for y in astload.walk(r))] if len(calls) == 1 else []
    ok = len(calls) == 1 and len(top) == 1 and is_function_call(calls[0]['inner'][1]) and declname(calls[0]['inner'][2]) == 'x' and declname(calls[0]['inner'][3]) == 'gx'
    # a syntactic fact about a two-statement function, reported as a VC so that it is counted and refutable
    return [VC(f'{name}/forwards: returns penalty_vgrad(function(), x, gx, op), called exactly once', f'(assert (not {"true" if ok else "false"}))', about=about)]


def vcs():
    out = []
    try:
        docs = astload.dump(SRC, 'penalty_vgrad')
        cands = [d for d in astload.find_definitions(docs, 'penalty_vgrad') if astload.template_args(d)]
        if not cands:
            raise astload.ExtractionError('penalty_vgrad: no instantiation found')
        for k, fn in enumerate(cands[:2]):
            out += walk(f'penalty_vgrad_evals#{k}', fn, is_param('function'), 'penalty_vgrad<op>: one evaluation of the objective per call')
        al = astload.find_definition(SRC, 'augmented_lagrangian_function_t::do_vgrad', 'do_vgrad')
        out += walk('al_do_vgrad_evals', al, is_function_call, 'augmented_lagrangian_function_t::do_vgrad: one evaluation of the objective per call', counters=('ilambda', 'imiu'))
        out += wrapper('linear_penalty_do_vgrad', 'linear_penalty_function_t', 'linear penalty do_vgrad forwards to penalty_vgrad')
        out += wrapper('quadratic_penalty_do_vgrad', 'quadratic_penalty_function_t', 'quadratic penalty do_vgrad forwards to penalty_vgrad')
    except (Unsupported, astload.ExtractionError, KeyError, IndexError) as e:
        out.append(VC(f'pen_evals/extraction: {e!r}'[:300], '(this is not an SMT script: the symbolic execution stopped)\n', about=str(e)))
    return out


if __name__ == '__main__':
    for vc in vcs():
        print(vc.name[:160], vc.verify().get('status'))
