/* C15: contracts of the scalar / array readers and writers of include/nano/core/stream.h */
#ifndef NV_C15_CONTRACTS_H
#define NV_C15_CONTRACTS_H
#include "stream.h"

#define NV_MAXCOUNT (1LL << 40)
#define NV_SP0 __CPROVER_old(stream->pos)
#define NV_AVAIL0 (__CPROVER_old(stream->len) - NV_SP0)
#define NV_IS_FRAME __CPROVER_ensures(stream->len == __CPROVER_old(stream->len))
#define NV_IS_GHOSTS nv_gh

/* ---- read(stream, scalar&): one field of sizeof(scalar) bytes; accepted => the scalar is the little-endian value at the
 * old position and the position advanced by exactly sizeof(scalar); a failed stream stays failed; a short stream fails. */
#define NV_READ_SCALAR(T, W, VAL) \
__CPROVER_requires(NV_IS_OK(stream) && __CPROVER_is_fresh(scalar, sizeof(T))) \
__CPROVER_assigns(stream->pos, stream->fail, *scalar, NV_IS_GHOSTS) \
__CPROVER_ensures(__CPROVER_return_value == stream) \
__CPROVER_ensures(__CPROVER_old(stream->fail) ==> stream->fail) \
__CPROVER_ensures(NV_SP0 <= stream->pos && stream->pos <= stream->len) \
__CPROVER_ensures((NV_AVAIL0 < W) ==> stream->fail) \
__CPROVER_ensures((!__CPROVER_old(stream->fail) && NV_AVAIL0 >= W) ==> (!stream->fail && stream->pos == NV_SP0 + W && *scalar == VAL(stream, NV_SP0))) \
__CPROVER_ensures(nv_nfields == __CPROVER_old(nv_nfields) + 1 && (__CPROVER_old(nv_nfields) == nv_g ==> (nv_f_off == NV_SP0 && nv_f_w == W))) \
NV_IS_FRAME
#define NV_CONTRACT_read_u32 NV_READ_SCALAR(uint32_t, 4, NV_LE32)
#define NV_CONTRACT_read_i32 NV_READ_SCALAR(int32_t, 4, NV_I32LE)
#define NV_CONTRACT_read_u64 NV_READ_SCALAR(uint64_t, 8, NV_LE64)
#define NV_CONTRACT_read_char NV_READ_SCALAR(char, 1, NV_I8LE)

/* ---- read_cast<int32_t>(stream, long& scalar): reads an int32 field and widens it; on failure the scalar is still
 * assigned (the value-initialised 0 or a partial value): only the accepted case is constrained */
#define NV_CONTRACT_read_cast_i32_i64 \
__CPROVER_requires(NV_IS_OK(stream) && __CPROVER_is_fresh(scalar, sizeof(int64_t))) \
__CPROVER_assigns(stream->pos, stream->fail, *scalar, NV_IS_GHOSTS) \
__CPROVER_ensures(__CPROVER_return_value == stream) \
__CPROVER_ensures(__CPROVER_old(stream->fail) ==> stream->fail) \
__CPROVER_ensures(NV_SP0 <= stream->pos && stream->pos <= stream->len) \
__CPROVER_ensures((NV_AVAIL0 < 4) ==> stream->fail) \
__CPROVER_ensures((!__CPROVER_old(stream->fail) && NV_AVAIL0 >= 4) ==> (!stream->fail && stream->pos == NV_SP0 + 4 && *scalar == NV_I32LE(stream, NV_SP0))) \
__CPROVER_ensures(nv_nfields == __CPROVER_old(nv_nfields) + 1 && (__CPROVER_old(nv_nfields) == nv_g ==> (nv_f_off == NV_SP0 && nv_f_w == 4))) \
NV_IS_FRAME

/* ---- read_cast<int32_t>(stream, long* data, count): `count` int32 fields, element nv_k (ghost: every element) is the
 * widened int32 at offset 4*nv_k; accepted <=> the stream was good and held 4*count more bytes */
uint64_t nv_k;
/* ghost name for "the int32 stored where element nv_k comes from" (CBMC allows no function call, hence no uninterpreted
 * stream content, inside a loop invariant: the value is named by a precondition that only defines this ghost) */
int64_t nv_kval;
#define NV_CONTRACT_read_cast_n \
__CPROVER_requires(NV_IS_OK(stream) && count <= NV_MAXCOUNT && __CPROVER_is_fresh(data, count > 0 ? 8 * count : 1)) \
__CPROVER_requires(nv_k <= NV_MAXCOUNT && nv_kval == NV_I32LE(stream, stream->pos + 4 * (int64_t)nv_k)) \
__CPROVER_requires(nv_nfields <= NV_MAXCOUNT) \
__CPROVER_assigns(stream->pos, stream->fail, __CPROVER_object_whole(data), NV_IS_GHOSTS) \
__CPROVER_ensures(__CPROVER_return_value == stream) \
__CPROVER_ensures(__CPROVER_old(stream->fail) ==> stream->fail) \
__CPROVER_ensures(NV_SP0 <= stream->pos && stream->pos <= stream->len) \
__CPROVER_ensures((NV_AVAIL0 < 4 * (int64_t)count) ==> stream->fail) \
__CPROVER_ensures((!__CPROVER_old(stream->fail) && NV_AVAIL0 >= 4 * (int64_t)count) ==> (!stream->fail && stream->pos == NV_SP0 + 4 * (int64_t)count)) \
__CPROVER_ensures((!stream->fail && nv_k < count) ==> data[nv_k] == NV_I32LE(stream, NV_SP0 + 4 * (int64_t)nv_k)) \
__CPROVER_ensures(nv_nfields == __CPROVER_old(nv_nfields) + count) \
__CPROVER_ensures((!stream->fail && nv_g >= __CPROVER_old(nv_nfields) && nv_g - __CPROVER_old(nv_nfields) < count) ==> (nv_f_off == NV_SP0 + 4 * (int64_t)(nv_g - __CPROVER_old(nv_nfields)) && nv_f_w == 4)) \
NV_IS_FRAME
#ifndef NV_INLINE_LOOPS
#define NV_LP0 __CPROVER_loop_entry(stream->pos)
#define NV_LF0 __CPROVER_loop_entry(nv_nfields)
#define NV_LOOP_read_cast_n_1 \
__CPROVER_assigns(i, stream->pos, stream->fail, __CPROVER_object_whole(data), NV_IS_GHOSTS) \
__CPROVER_loop_invariant(i <= count && NV_LP0 <= stream->pos && stream->pos <= stream->len \
  && (__CPROVER_loop_entry(stream->fail) ==> stream->fail) \
  && (stream->fail ? (__CPROVER_loop_entry(stream->fail) || (__CPROVER_loop_entry(stream->len) - NV_LP0) < 4 * (int64_t)i) \
                   : (stream->pos == NV_LP0 + 4 * (int64_t)i)) \
  && ((!stream->fail && nv_k < i) ==> data[nv_k] == nv_kval) \
  && nv_nfields == NV_LF0 + i \
  && ((!stream->fail && nv_g >= NV_LF0 && nv_g - NV_LF0 < i) ==> (nv_f_off == NV_LP0 + 4 * (int64_t)(nv_g - NV_LF0) && nv_f_w == 4))) \
__CPROVER_decreases(count - i)
#endif

/* ---- read(stream, scalar* data, count): ONE field of sizeof(scalar)*count bytes (the tensor content); accepted => the
 * block at data holds exactly the slice [pos, pos + sizeof*count) of the stream.  The obligations that the count is not
 * negative, that sizeof*count does not overflow and that data holds count scalars are asserted where they arise (in the
 * extracted multiplication and in the istream::read stub). */
#define NV_READ_PTR(W) \
__CPROVER_requires(NV_IS_OK(stream) && 0 <= count && count <= NV_MAXCOUNT && (count == 0 || __CPROVER_is_fresh(data, W * count))) \
__CPROVER_assigns(stream->pos, stream->fail, NV_IS_GHOSTS) __CPROVER_assigns(count > 0: __CPROVER_object_whole(data)) \
__CPROVER_ensures(__CPROVER_return_value == stream) \
__CPROVER_ensures(__CPROVER_old(stream->fail) ==> stream->fail) \
__CPROVER_ensures(NV_SP0 <= stream->pos && stream->pos <= stream->len) \
__CPROVER_ensures((NV_AVAIL0 < W * count) ==> stream->fail) \
__CPROVER_ensures((!__CPROVER_old(stream->fail) && NV_AVAIL0 >= W * count) ==> (!stream->fail && stream->pos == NV_SP0 + W * count)) \
__CPROVER_ensures((!stream->fail && count > 0) ==> (nv_c_ptr == data && nv_c_n == W * count && nv_c_id == NV_SLICE(NV_SP0, W * count))) \
__CPROVER_ensures(nv_nfields == __CPROVER_old(nv_nfields) + 1 && (__CPROVER_old(nv_nfields) == nv_g ==> (nv_f_off == NV_SP0 && nv_f_w == W * count))) \
NV_IS_FRAME
#define NV_CONTRACT_read_ptr_f64 NV_READ_PTR(8)
#define NV_CONTRACT_read_ptr_i64 NV_READ_PTR(8)
#endif
