/* C15: contracts of the scalar / array readers and writers of include/nano/core/stream.h */
#ifndef NV_C15_CONTRACTS_H
#define NV_C15_CONTRACTS_H
#include "stream.h"

#define NV_MAXCOUNT (1LL << 40)
#define NV_SP0 __CPROVER_old(stream->pos)
#define NV_AVAIL0 (__CPROVER_old(stream->len) - NV_SP0)
#define NV_IS_FRAME __CPROVER_ensures(stream->len == __CPROVER_old(stream->len))
#define NV_IS_GHOSTS nv_gh

/* ---- read(stream, scalar&): one field of sizeof(scalar) bytes; accepted => the scalar is the little-endian value at the
 * old position and the position advanced by exactly sizeof(scalar); a failed stream stays failed; a short stream fails. */
#define NV_READ_SCALAR(T, W, VAL) \
__CPROVER_requires(NV_IS_OK(stream) && __CPROVER_is_fresh(scalar, sizeof(T))) \
__CPROVER_assigns(stream->pos, stream->fail, *scalar, NV_IS_GHOSTS) \
__CPROVER_ensures(__CPROVER_return_value == stream) \
__CPROVER_ensures(__CPROVER_old(stream->fail) ==> stream->fail) \
__CPROVER_ensures(NV_SP0 <= stream->pos && stream->pos <= stream->len) \
__CPROVER_ensures((NV_AVAIL0 < W) ==> stream->fail) \
__CPROVER_ensures((!__CPROVER_old(stream->fail) && NV_AVAIL0 >= W) ==> (!stream->fail && stream->pos == NV_SP0 + W && *scalar == VAL(stream, NV_SP0))) \
__CPROVER_ensures(nv_nfields == __CPROVER_old(nv_nfields) + 1 && (__CPROVER_old(nv_nfields) == nv_g ==> (nv_f_off == NV_SP0 && nv_f_w == W))) \
NV_IS_FRAME
#define NV_CONTRACT_read_u32 NV_READ_SCALAR(uint32_t, 4, NV_LE32)
#define NV_CONTRACT_read_i32 NV_READ_SCALAR(int32_t, 4, NV_I32LE)
#define NV_CONTRACT_read_u64 NV_READ_SCALAR(uint64_t, 8, NV_LE64)
#define NV_CONTRACT_read_char NV_READ_SCALAR(char, 1, NV_I8LE)

/* ---- read_cast<int32_t>(stream, long& scalar): reads an int32 field and widens it; on failure the scalar is still
 * assigned (the value-initialised 0 or a partial value): only the accepted case is constrained */
#define NV_CONTRACT_read_cast_i32_i64 \
__CPROVER_requires(NV_IS_OK(stream) && __CPROVER_is_fresh(scalar, sizeof(int64_t))) \
__CPROVER_assigns(stream->pos, stream->fail, *scalar, NV_IS_GHOSTS) \
__CPROVER_ensures(__CPROVER_return_value == stream) \
__CPROVER_ensures(__CPROVER_old(stream->fail) ==> stream->fail) \
__CPROVER_ensures(NV_SP0 <= stream->pos && stream->pos <= stream->len) \
__CPROVER_ensures((NV_AVAIL0 < 4) ==> stream->fail) \
__CPROVER_ensures((!__CPROVER_old(stream->fail) && NV_AVAIL0 >= 4) ==> (!stream->fail && stream->pos == NV_SP0 + 4 && *scalar == NV_I32LE(stream, NV_SP0))) \
__CPROVER_ensures(nv_nfields == __CPROVER_old(nv_nfields) + 1 && (__CPROVER_old(nv_nfields) == nv_g ==> (nv_f_off == NV_SP0 && nv_f_w == 4))) \
NV_IS_FRAME

/* ---- read_cast<int32_t>(stream, long* data, count): `count` int32 fields, element nv_k (ghost: every element) is the
 * widened int32 at offset 4*nv_k; accepted <=> the stream was good and held 4*count more bytes */
uint64_t nv_k;
/* ghost name for "the int32 stored where element nv_k comes from" (CBMC allows no function call, hence no uninterpreted
 * stream content, inside a loop invariant: the value is named by a precondition that only defines this ghost) */
int64_t nv_kval;
#define NV_CONTRACT_read_cast_n \
__CPROVER_requires(NV_IS_OK(stream) && count <= NV_MAXCOUNT && __CPROVER_is_fresh(data, count > 0 ? 8 * count : 1)) \
__CPROVER_requires(nv_k <= NV_MAXCOUNT && nv_kval == NV_I32LE(stream, stream->pos + 4 * (int64_t)nv_k)) \
__CPROVER_requires(nv_nfields <= NV_MAXCOUNT) \
__CPROVER_assigns(stream->pos, stream->fail, __CPROVER_object_whole(data), NV_IS_GHOSTS) \
__CPROVER_ensures(__CPROVER_return_value == stream) \
__CPROVER_ensures(__CPROVER_old(stream->fail) ==> stream->fail) \
__CPROVER_ensures(NV_SP0 <= stream->pos && stream->pos <= stream->len) \
__CPROVER_ensures((NV_AVAIL0 < 4 * (int64_t)count) ==> stream->fail) \
__CPROVER_ensures((!__CPROVER_old(stream->fail) && NV_AVAIL0 >= 4 * (int64_t)count) ==> (!stream->fail && stream->pos == NV_SP0 + 4 * (int64_t)count)) \
__CPROVER_ensures((!stream->fail && nv_k < count) ==> data[nv_k] == NV_I32LE(stream, NV_SP0 + 4 * (int64_t)nv_k)) \
__CPROVER_ensures(nv_nfields == __CPROVER_old(nv_nfields) + count) \
__CPROVER_ensures((!stream->fail && nv_g >= __CPROVER_old(nv_nfields) && nv_g - __CPROVER_old(nv_nfields) < count) ==> (nv_f_off == NV_SP0 + 4 * (int64_t)(nv_g - __CPROVER_old(nv_nfields)) && nv_f_w == 4)) \
NV_IS_FRAME
#define NV_LP0 __CPROVER_loop_entry(stream->pos)
#define NV_LF0 __CPROVER_loop_entry(nv_nfields)
#ifndef NV_INLINE_LOOPS
#define NV_LOOP_read_cast_n_1 \
__CPROVER_assigns(i, stream->pos, stream->fail, __CPROVER_object_whole(data), NV_IS_GHOSTS) \
__CPROVER_loop_invariant(i <= count && NV_LP0 <= stream->pos && stream->pos <= stream->len \
  && (__CPROVER_loop_entry(stream->fail) ==> stream->fail) \
  && (stream->fail ? (__CPROVER_loop_entry(stream->fail) || (__CPROVER_loop_entry(stream->len) - NV_LP0) < 4 * (int64_t)i) \
                   : (stream->pos == NV_LP0 + 4 * (int64_t)i)) \
  && ((!stream->fail && nv_k < i) ==> data[nv_k] == nv_kval) \
  && nv_nfields == NV_LF0 + i \
  && ((!stream->fail && nv_g >= NV_LF0 && nv_g - NV_LF0 < i) ==> (nv_f_off == NV_LP0 + 4 * (int64_t)(nv_g - NV_LF0) && nv_f_w == 4))) \
__CPROVER_decreases(count - i)
#endif

/* ---- read(stream, scalar* data, count): ONE field of sizeof(scalar)*count bytes (the tensor content); accepted => the
 * block at data holds exactly the slice [pos, pos + sizeof*count) of the stream.  The obligations that the count is not
 * negative, that sizeof*count does not overflow and that data holds count scalars are asserted where they arise (in the
 * extracted multiplication and in the istream::read stub). */
#define NV_READ_PTR(W) \
__CPROVER_requires(NV_IS_OK(stream) && 0 <= count && count <= NV_MAXCOUNT && (count == 0 || __CPROVER_is_fresh(data, W * count))) \
__CPROVER_assigns(stream->pos, stream->fail, NV_IS_GHOSTS) __CPROVER_assigns(count > 0: __CPROVER_object_whole(data)) \
__CPROVER_ensures(__CPROVER_return_value == stream) \
__CPROVER_ensures(__CPROVER_old(stream->fail) ==> stream->fail) \
__CPROVER_ensures(NV_SP0 <= stream->pos && stream->pos <= stream->len) \
__CPROVER_ensures((NV_AVAIL0 < W * count) ==> stream->fail) \
__CPROVER_ensures((!__CPROVER_old(stream->fail) && NV_AVAIL0 >= W * count) ==> (!stream->fail && stream->pos == NV_SP0 + W * count)) \
__CPROVER_ensures((!stream->fail && count > 0) ==> (nv_c_ptr == data && nv_c_n == W * count && nv_c_id == NV_SLICE(NV_SP0, W * count))) \
__CPROVER_ensures(nv_nfields == __CPROVER_old(nv_nfields) + 1 && (__CPROVER_old(nv_nfields) == nv_g ==> (nv_f_off == NV_SP0 && nv_f_w == W * count))) \
NV_IS_FRAME
#define NV_CONTRACT_read_ptr_f64 NV_READ_PTR(8)
#define NV_CONTRACT_read_ptr_i64 NV_READ_PTR(8)

/* ================================================================================================ writers */
/* the 32-bit two's complement pattern of a signed value (what a narrowing to int32 stores) */
#define NV_LOW32(x) ((uint64_t)((int64_t)(x) & 0xffffffffLL))
#define NV_OP0 __CPROVER_old(stream->pos)
/* ---- write(stream, scalar): one field of sizeof(scalar) bytes holding the scalar's value; a failed stream stays failed
 * and inserts nothing; the sink may fail at any call (then nothing is claimed but fail) */
#define NV_WRITE_SCALAR(W, VAL) \
__CPROVER_requires(NV_OS_OK(stream)) \
__CPROVER_assigns(stream->pos, stream->fail, nv_gh) \
__CPROVER_ensures(__CPROVER_return_value == stream) \
__CPROVER_ensures(__CPROVER_old(stream->fail) ==> stream->fail) \
__CPROVER_ensures(stream->fail ? stream->pos == NV_OP0 : stream->pos == NV_OP0 + W) \
__CPROVER_ensures(nv_nfields == __CPROVER_old(nv_nfields) + 1 && (__CPROVER_old(nv_nfields) == nv_g ==> (nv_f_off == NV_OP0 && nv_f_w == W && nv_f_val == VAL)))
#define NV_CONTRACT_write_u32 NV_WRITE_SCALAR(4, (uint64_t)scalar)
#define NV_CONTRACT_write_u64 NV_WRITE_SCALAR(8, scalar)
#define NV_CONTRACT_write_i32 NV_WRITE_SCALAR(4, NV_LOW32(scalar))

/* ---- write(stream, const scalar* data, count): ONE field of sizeof(scalar)*count bytes whose content is the block's */
#define NV_WRITE_PTR(W) \
__CPROVER_requires(NV_OS_OK(stream) && 0 <= count && count <= NV_MAXCOUNT && (count == 0 || __CPROVER_is_fresh(data, W * count))) \
__CPROVER_assigns(stream->pos, stream->fail, nv_gh) \
__CPROVER_ensures(__CPROVER_return_value == stream) \
__CPROVER_ensures(__CPROVER_old(stream->fail) ==> stream->fail) \
__CPROVER_ensures(stream->fail ? stream->pos == NV_OP0 : stream->pos == NV_OP0 + W * count) \
__CPROVER_ensures(nv_nfields == __CPROVER_old(nv_nfields) + 1 && (__CPROVER_old(nv_nfields) == nv_g ==> (nv_f_off == NV_OP0 && nv_f_w == W * count))) \
__CPROVER_ensures((__CPROVER_old(nv_nfields) == nv_g && count > 0 && __CPROVER_old(nv_c_ptr) == data && __CPROVER_old(nv_c_n) == W * count) ==> nv_f_cid == __CPROVER_old(nv_c_id))
#define NV_CONTRACT_write_ptr_f64 NV_WRITE_PTR(8)
#define NV_CONTRACT_write_ptr_i64 NV_WRITE_PTR(8)
#define NV_CONTRACT_write_ptr_i8 NV_WRITE_PTR(1)

/* ---- write_cast<int32_t>(stream, const long* data, count): `count` int32 fields, field k holds data[k] NARROWED to 32
 * bits (the value itself iff it fits an int32: the tensor writer's precondition).  Failures of the individual writes
 * are not looked at by write_cast; the stream state carries them. */
#define NV_CONTRACT_write_cast_n \
__CPROVER_requires(NV_OS_OK(stream) && count <= NV_MAXCOUNT && __CPROVER_is_fresh(data, count > 0 ? 8 * count : 1) && nv_nfields <= NV_MAXCOUNT) \
__CPROVER_assigns(stream->pos, stream->fail, nv_gh) \
__CPROVER_ensures(__CPROVER_return_value == stream) \
__CPROVER_ensures(__CPROVER_old(stream->fail) ==> stream->fail) \
__CPROVER_ensures(NV_OP0 <= stream->pos && (!stream->fail ==> stream->pos == NV_OP0 + 4 * (int64_t)count)) \
__CPROVER_ensures(nv_nfields == __CPROVER_old(nv_nfields) + count) \
__CPROVER_ensures((!stream->fail && nv_g >= __CPROVER_old(nv_nfields) && nv_g - __CPROVER_old(nv_nfields) < count) ==> \
  (nv_f_off == NV_OP0 + 4 * (int64_t)(nv_g - __CPROVER_old(nv_nfields)) && nv_f_w == 4 && nv_f_val == NV_LOW32(data[nv_g - __CPROVER_old(nv_nfields)])))
#ifndef NV_INLINE_LOOPS
#define NV_LOOP_write_cast_n_1 \
__CPROVER_assigns(i, stream->pos, stream->fail, nv_gh) \
__CPROVER_loop_invariant(i <= count && NV_LP0 <= stream->pos \
  && (__CPROVER_loop_entry(stream->fail) ==> stream->fail) && (!stream->fail ==> stream->pos == NV_LP0 + 4 * (int64_t)i) \
  && nv_nfields == NV_LF0 + i \
  && ((!stream->fail && nv_g >= NV_LF0 && nv_g - NV_LF0 < i) ==> (nv_f_off == NV_LP0 + 4 * (int64_t)(nv_g - NV_LF0) && nv_f_w == 4 && nv_f_val == NV_LOW32(data[nv_g - NV_LF0])))) \
__CPROVER_decreases(count - i)
#endif

/* ================================================================================================ detail::hash */
/* hash_combine(seed, h) = seed ^ (h + c + (seed << 6) + (seed >> 2)): for a fixed seed it is INJECTIVE in h (ghost second
 * value nv_h2): altering one element always changes the running hash at that step (corruption of a single scalar is
 * detected unless a later step collides) */
uint64_t nv_h2;
#define NV_COMBINE(seed, h) ((seed) ^ ((h) + 0x9e3779b9 + ((seed) << 6) + ((seed) >> 2)))
#define NV_CONTRACT_hash_combine \
__CPROVER_assigns() \
__CPROVER_ensures(__CPROVER_return_value == NV_COMBINE(seed, hash)) \
__CPROVER_ensures((hash != nv_h2) ==> __CPROVER_return_value != NV_COMBINE(seed, nv_h2))
/* detail::hash(data, size): reads exactly data[0, size) (pointer checks), terminates, hashes nothing for size <= 0 (value 0:
 * this is the clause the tensor reader/writer stubs rely on) and is the fold of hash_combine over the bit patterns */
#define NV_HASH_CONTRACT(T) \
__CPROVER_requires(size <= NV_MAXCOUNT && (size <= 0 || __CPROVER_is_fresh(data, sizeof(T) * size))) \
__CPROVER_assigns() \
__CPROVER_ensures((size <= 0) ==> __CPROVER_return_value == 0) \
__CPROVER_ensures((size == 1) ==> __CPROVER_return_value == NV_COMBINE(0, NV_BITS(data[0])))
#define NV_HASH_LOOP \
__CPROVER_assigns(i, hash) \
__CPROVER_loop_invariant(0 <= i && (size <= 0 ? i == 0 : i <= size) && (i == 0 ==> hash == 0) && ((i == 1 && size >= 1) ==> hash == NV_COMBINE(0, NV_BITS(data[0])))) \
__CPROVER_decreases(size - i)

/* ================================================================================================ read(string), read(vector<T>) */
/* Containers are abstracted to "ghost index instead of arrays": std::string / std::vector<int32_t> -> { n, kcell, other }
 * where kcell is the element at the ghost index nv_k (stands for every element) and `other` absorbs every other
 * element.  An iterator is (container, index); dereferencing it asserts index < size() (memory safety of the element
 * access) and yields kcell or other.  No heap block of symbolic size is modelled.
 * ASSUMED contract of resize(n): either throws (std::length_error / std::bad_alloc: always possible, certain above the
 * address space) or the container holds exactly n elements. */
struct nv_string { uint64_t n; char kcell; char other; };
struct nv_vec_i32 { uint64_t n; int32_t kcell; int32_t other; };
struct nv_sit { struct nv_string* c; uint64_t i; };
struct nv_vit { struct nv_vec_i32* c; uint64_t i; };
#define NV_MAXBYTES (1ULL << 47)
static void nv_string_resize(struct nv_string* s, uint64_t n)
{
  if (n > NV_MAXBYTES || nv_nondet__Bool()) { nv_thrown = 1; return; }
  s->n = n;
}
static void nv_vec_i32_resize(struct nv_vec_i32* v, uint64_t n)
{
  if (n > NV_MAXBYTES / 4 || nv_nondet__Bool()) { nv_thrown = 1; return; }
  v->n = n;
}
static struct nv_sit nv_string_begin(struct nv_string* s) { struct nv_sit it; it.c = s; it.i = 0; return it; }
static struct nv_sit nv_string_end(struct nv_string* s) { struct nv_sit it; it.c = s; it.i = s->n; return it; }
static char* nv_sit_deref(const struct nv_sit* it)
{
  __CPROVER_assert(it->i < it->c->n, "C15 string iterator is dereferenced inside the string");
  return it->i == nv_k ? &it->c->kcell : &it->c->other;
}
static struct nv_vit nv_vec_i32_begin(struct nv_vec_i32* s) { struct nv_vit it; it.c = s; it.i = 0; return it; }
static struct nv_vit nv_vec_i32_end(struct nv_vec_i32* s) { struct nv_vit it; it.c = s; it.i = s->n; return it; }
static int32_t* nv_vit_deref(const struct nv_vit* it)
{
  __CPROVER_assert(it->i < it->c->n, "C15 vector iterator is dereferenced inside the vector");
  return it->i == nv_k ? &it->c->kcell : &it->c->other;
}
#define NV_OKAY (!nv_thrown && !stream->fail)
/* read(stream, std::string&): uint32 length, then that many chars one by one.  accepted => the string has the stored
 * length, every char (ghost index nv_k) is the stored one, exactly 4 + length bytes were consumed; failure propagates:
 * a stream that had failed, or holds fewer than 4 + length bytes, is never reported good. */
#define NV_CONTRACT_read_string \
__CPROVER_requires(NV_IS_OK(stream) && __CPROVER_is_fresh(string, sizeof(struct nv_string)) && nv_nfields <= NV_MAXCOUNT) \
__CPROVER_requires(nv_k <= NV_MAXCOUNT && nv_kval == NV_I8LE(stream, stream->pos + 4 + (int64_t)nv_k)) \
__CPROVER_assigns(stream->pos, stream->fail, *string, nv_thrown, nv_gh) \
__CPROVER_ensures(nv_thrown || __CPROVER_return_value == stream) \
__CPROVER_ensures(__CPROVER_old(stream->fail) ==> stream->fail) \
__CPROVER_ensures(NV_SP0 <= stream->pos && stream->pos <= stream->len) \
__CPROVER_ensures((NV_AVAIL0 < 4) ==> stream->fail) \
__CPROVER_ensures((NV_OKAY && NV_AVAIL0 >= 4) ==> (string->n == NV_LE32(stream, NV_SP0) && stream->pos == NV_SP0 + 4 + (int64_t)string->n)) \
__CPROVER_ensures((NV_OKAY && nv_k < string->n) ==> (int64_t)string->kcell == nv_kval) \
__CPROVER_ensures((!nv_thrown && NV_AVAIL0 >= 4 && NV_AVAIL0 < 4 + (int64_t)NV_LE32(stream, NV_SP0)) ==> stream->fail) \
__CPROVER_ensures(NV_OKAY ==> nv_nfields == __CPROVER_old(nv_nfields) + 1 + string->n) \
/* a stream without a complete length field leaves the string alone (no resize to a garbage length) */ \
__CPROVER_ensures((__CPROVER_old(stream->fail) || NV_AVAIL0 < 4) ==> string->n == __CPROVER_old(string->n)) \
NV_IS_FRAME
#define NV_LOOP_read_string_1 \
__CPROVER_assigns(__begin1.i, stream->pos, stream->fail, string->kcell, string->other, nv_gh) \
__CPROVER_loop_invariant(__begin1.c == string && __end1.c == string && __end1.i == string->n && __begin1.i <= string->n \
  && NV_LP0 <= stream->pos && stream->pos <= stream->len \
  && (stream->fail ? (__CPROVER_loop_entry(stream->fail) || __CPROVER_loop_entry(stream->len) - NV_LP0 < (int64_t)__begin1.i) : (stream->pos == NV_LP0 + (int64_t)__begin1.i)) \
  && ((!stream->fail && nv_k < __begin1.i) ==> (int64_t)string->kcell == nv_kval) \
  && nv_nfields == NV_LF0 + __begin1.i) \
__CPROVER_decreases(__end1.i - __begin1.i)

/* read(stream, std::vector<int32_t>&): uint64 count, then the elements; stops at the first failing element */
#define NV_CONTRACT_read_vec_i32 \
__CPROVER_requires(NV_IS_OK(stream) && __CPROVER_is_fresh(values, sizeof(struct nv_vec_i32)) && nv_nfields <= NV_MAXCOUNT) \
__CPROVER_requires(nv_k <= NV_MAXCOUNT && nv_kval == NV_I32LE(stream, stream->pos + 8 + 4 * (int64_t)nv_k)) \
__CPROVER_assigns(stream->pos, stream->fail, *values, nv_thrown, nv_gh) \
__CPROVER_ensures(nv_thrown || __CPROVER_return_value == stream) \
__CPROVER_ensures(__CPROVER_old(stream->fail) ==> stream->fail) \
__CPROVER_ensures(NV_SP0 <= stream->pos && stream->pos <= stream->len) \
__CPROVER_ensures((NV_AVAIL0 < 8) ==> stream->fail) \
__CPROVER_ensures((NV_OKAY && NV_AVAIL0 >= 8) ==> (values->n == NV_LE64(stream, NV_SP0) && stream->pos == NV_SP0 + 8 + 4 * (int64_t)values->n)) \
__CPROVER_ensures((NV_OKAY && nv_k < values->n) ==> (int64_t)values->kcell == nv_kval) \
__CPROVER_ensures((!nv_thrown && NV_AVAIL0 >= 8 && (NV_LE64(stream, NV_SP0) > NV_MAXBYTES / 4 || NV_AVAIL0 < 8 + 4 * (int64_t)NV_LE64(stream, NV_SP0))) ==> stream->fail) \
__CPROVER_ensures(NV_OKAY ==> nv_nfields == __CPROVER_old(nv_nfields) + 1 + values->n) \
/* a stream without a complete count field leaves the vector alone (no resize to a garbage count) */ \
__CPROVER_ensures((__CPROVER_old(stream->fail) || NV_AVAIL0 < 8) ==> values->n == __CPROVER_old(values->n)) \
NV_IS_FRAME
#define NV_LOOP_read_vec_i32_1 \
__CPROVER_assigns(__begin0.i, stream->pos, stream->fail, values->kcell, values->other, nv_gh) \
__CPROVER_loop_invariant(__begin0.c == values && __end0.c == values && __end0.i == values->n && __begin0.i <= values->n \
  && NV_LP0 <= stream->pos && stream->pos <= stream->len \
  && !stream->fail && stream->pos == NV_LP0 + 4 * (int64_t)__begin0.i \
  && ((nv_k < __begin0.i) ==> (int64_t)values->kcell == nv_kval) \
  && nv_nfields == NV_LF0 + __begin0.i) \
__CPROVER_decreases(__end0.i - __begin0.i)

/* ---- write(stream, std::string_view): uint32 length then the characters (the counterpart of read(string)): success => two
 * fields (4 bytes holding the length, then `length` bytes from data()), position advanced by 4 + length.
 * Stated precondition: the length fits the uint32 it is stored in (a string of 4 GiB or more would be truncated). */
struct nv_sv { const char* p; uint64_t n; };
#define NV_CONTRACT_write_ptr_char NV_WRITE_PTR_U(1)
#define NV_WRITE_PTR_U(W) \
__CPROVER_requires(NV_OS_OK(stream) && count <= NV_MAXCOUNT && (count == 0 || __CPROVER_is_fresh(data, W * count))) \
__CPROVER_assigns(stream->pos, stream->fail, nv_gh) \
__CPROVER_ensures(__CPROVER_return_value == stream) \
__CPROVER_ensures(__CPROVER_old(stream->fail) ==> stream->fail) \
__CPROVER_ensures(stream->fail ? stream->pos == NV_OP0 : stream->pos == NV_OP0 + W * (int64_t)count) \
__CPROVER_ensures(nv_nfields == __CPROVER_old(nv_nfields) + 1 && (__CPROVER_old(nv_nfields) == nv_g ==> (nv_f_off == NV_OP0 && nv_f_w == W * (int64_t)count)))
#define NV_CONTRACT_write_string \
__CPROVER_requires(NV_OS_OK(stream) && __CPROVER_is_fresh(string, sizeof(struct nv_sv)) && string->n <= 0xffffffffULL && (string->n == 0 || __CPROVER_is_fresh(string->p, string->n)) && nv_nfields == 0) \
__CPROVER_assigns(stream->pos, stream->fail, nv_gh) \
__CPROVER_ensures(__CPROVER_return_value == stream) \
__CPROVER_ensures(__CPROVER_old(stream->fail) ==> stream->fail) \
__CPROVER_ensures(!stream->fail ==> (stream->pos == NV_OP0 + 4 + (int64_t)string->n && nv_nfields == 2)) \
__CPROVER_ensures((!stream->fail && nv_g == 0) ==> (nv_f_off == NV_OP0 && nv_f_w == 4 && nv_f_val == string->n)) \
__CPROVER_ensures((!stream->fail && nv_g == 1) ==> (nv_f_off == NV_OP0 + 4 && nv_f_w == (int64_t)string->n))
#endif
