/* C15 prelude of the core/stream.h targets (symbolic counts, loop contracts on) */
#include "stream.h"
#include "contracts.h"
