/* C15 prelude: detail::hash<long, long> */
#include "stream.h"
#define NV_BITS(x) ((uint64_t)(x))
#include "contracts.h"
#define NV_CONTRACT_hash_i64 NV_HASH_CONTRACT(int64_t)
#define NV_LOOP_hash_i64_1 NV_HASH_LOOP
