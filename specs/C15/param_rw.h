/* C15 (a): parameter_t::read / parameter_t::write of src/parameter.cpp -- variant storage, one arm per type tag.
 *
 * wire format of a parameter:   tag(int32)  name(uint32 length + chars)  then, per tag:
 *    -1 (std::monostate)  nothing
 *     0 (enum_t)          value(uint32 length + chars)  domain(std::vector<std::string>: uint64 count + the strings)
 *     1 / 2 (range_t<int64> / range_t<double>)            value(8) min(8) max(8) minLE(4) maxLE(4)
 *     3 / 4 (pair_range_t<int64> / pair_range_t<double>)  value1(8) value2(8) min(8) max(8) minLE(4) maxLE(4) valueLE(4)
 *     5 (string_t)        value(uint32 length + chars)
 * C model:  parameter_t -> struct nv_parameter { m_name, m_storage },  storage_t (std::variant) -> struct nv_storage { index, a1 .. a6 }
 * (engine convention of hooks.variant_*: index + one member per alternative, order read from clang's type),
 * LEorLT -> int32_t (1 = LE, 0 = LT; make_comp / make_flag are the assumed one-liners of parameter.h),
 * std::string -> struct nv_pstr { id, n } (content identity + length), std::vector<std::string> -> struct nv_pstrs { id, bytes }
 * (content identity + serialised size).  doubles are compared by bit pattern (a NaN bound round-trips as itself). */
#ifndef NV_C15_PARAM_RW_H
#define NV_C15_PARAM_RW_H
#include "stream.h"
#include "contracts.h"

union nv_bits64 { double d; uint64_t u; };
#define NV_DBITS(x) (((union nv_bits64){ .d = (x) }).u)

struct nv_pstr { uint64_t id; uint64_t n; };
struct nv_pstrs { uint64_t id; int64_t bytes; };
struct nv_irange { int64_t m_value, m_min, m_max; int32_t m_mincomp, m_maxcomp; };
struct nv_frange { double m_value, m_min, m_max; int32_t m_mincomp, m_maxcomp; };
struct nv_iprange { int64_t m_value1, m_value2, m_min, m_max; int32_t m_mincomp, m_valcomp, m_maxcomp; };
struct nv_fprange { double m_value1, m_value2, m_min, m_max; int32_t m_mincomp, m_valcomp, m_maxcomp; };
struct nv_enum { struct nv_pstr m_value; struct nv_pstrs m_domain; };
struct nv_storage { uint8_t index; struct nv_enum a1; struct nv_irange a2; struct nv_frange a3; struct nv_iprange a4; struct nv_fprange a5; struct nv_pstr a6; };
struct nv_parameter { struct nv_pstr m_name; struct nv_storage m_storage; };

/* ASSUMED (as in parameter.h): make_comp(flag) = (flag != 0) ? LE : LT, make_flag(comp) = holds LE ? 1 : 0 */
static int32_t nv_make_comp(uint32_t flag) { return flag != 0U ? 1 : 0; }
static uint32_t nv_make_flag(int32_t comp) { return comp == 1 ? 1U : 0U; }

/* content of the stream seen as strings / string vectors: arbitrary but fixed functions of the offset (like NV_LE32 / NV_LE64) */
uint64_t __CPROVER_uninterpreted_strid(int64_t off, uint64_t n);     /* identity of the n chars at off */
uint64_t __CPROVER_uninterpreted_vecid(int64_t off);                 /* identity of the std::vector<std::string> serialised at off */
uint64_t __CPROVER_uninterpreted_vecpay(int64_t off);                /* its serialised size beyond the uint64 count */
#define NV_STRID(o, n) __CPROVER_uninterpreted_strid(o, n)
#define NV_VECID(o) __CPROVER_uninterpreted_vecid(o)
#define NV_VECBYTES(o) ((int64_t)(8 + (__CPROVER_uninterpreted_vecpay(o) & 0x3fffffffffffULL)))   /* in [8, 2^46 + 8): no stream is longer */
_Bool nv_alloc_failed;      /* ghost: an exception came from an allocation (std::bad_alloc / length_error), not from the stream */

/* ASSUMED contract of nano::read(stream, std::string&) -- the abstraction (content identity instead of the ghost-index element) of
 * what target read_string proves on the real function: uint32 length, then that many chars; a failed stream does nothing; a
 * stream without a complete length fails and leaves the string alone; resize may throw; a short string fails; accepted =>
 * the string is the stored one and exactly 4 + length bytes were consumed.  Logged as two fields: length(4), chars(length). */
static struct nv_istream* nv_read_pstr(struct nv_istream* s, struct nv_pstr* str)
{
  if (nv_nfields == nv_g) { nv_f_off = s->pos; nv_f_w = 4; }
  nv_nfields = nv_nfields + 1;
  if (s->fail) return s;
  if (s->len - s->pos < 4) { s->pos = s->len; s->fail = 1; return s; }
  uint64_t n = NV_LE32(s, s->pos);
  s->pos = s->pos + 4;
  if (nv_nondet__Bool()) { nv_thrown = 1; nv_alloc_failed = 1; return s; }
  if (nv_nfields == nv_g) { nv_f_off = s->pos; nv_f_w = (int64_t)n; }
  nv_nfields = nv_nfields + 1;
  str->n = n;
  if (s->len - s->pos < (int64_t)n) { str->id = nv_nondet_uint64_t(); s->pos = s->len; s->fail = 1; return s; }
  str->id = NV_STRID(s->pos, n);
  s->pos = s->pos + (int64_t)n;
  return s;
}
/* ASSUMED contract of nano::read(stream, std::vector<std::string>&): one logical field of NV_VECBYTES(pos) >= 8 bytes; failed stream:
 * nothing; may throw (resize); short => fail; accepted => the vector is the stored one, exactly that many bytes consumed */
static struct nv_istream* nv_read_pstrs(struct nv_istream* s, struct nv_pstrs* v)
{
  if (nv_nfields == nv_g) { nv_f_off = s->pos; nv_f_w = NV_VECBYTES(s->pos); }
  nv_nfields = nv_nfields + 1;
  if (s->fail) return s;
  if (nv_nondet__Bool()) { nv_thrown = 1; nv_alloc_failed = 1; return s; }
  if (s->len - s->pos < NV_VECBYTES(s->pos)) { v->id = nv_nondet_uint64_t(); v->bytes = nv_nondet_int64_t(); s->pos = s->len; s->fail = 1; return s; }
  v->id = NV_VECID(s->pos); v->bytes = NV_VECBYTES(s->pos);
  s->pos = s->pos + v->bytes;
  return s;
}
/* ASSUMED contract of nano::write(stream, std::string_view) (the real function: target write_string): two fields, uint32 length and the
 * chars, or failure.  Under NV_ROUNDTRIP the bytes written DEFINE the content the reader will see (ostream::write followed by
 * istream::read of the same buffer returns the same bytes: assumed contract of std::stringstream). */
static struct nv_ostream* nv_write_pstr(struct nv_ostream* s, const struct nv_pstr* str)
{
  if (nv_nfields == nv_g) { nv_f_off = s->pos; nv_f_w = 4; nv_f_val = str->n; }
  nv_nfields = nv_nfields + 1;
  if (nv_nfields == nv_g) { nv_f_off = s->pos + 4; nv_f_w = (int64_t)str->n; nv_f_cid = str->id; }
  nv_nfields = nv_nfields + 1;
  if (s->fail) return s;
  if (nv_nondet__Bool() || s->pos > NV_MAXLEN - 4 - (int64_t)str->n) { s->fail = 1; return s; }
#ifdef NV_ROUNDTRIP
  __CPROVER_assume(NV_LE32(s, s->pos) == (uint32_t)str->n && NV_STRID(s->pos + 4, str->n) == str->id);
#endif
  s->pos = s->pos + 4 + (int64_t)str->n;
  return s;
}
static struct nv_ostream* nv_write_pstrs(struct nv_ostream* s, const struct nv_pstrs* v)
{
  if (nv_nfields == nv_g) { nv_f_off = s->pos; nv_f_w = v->bytes; nv_f_cid = v->id; }
  nv_nfields = nv_nfields + 1;
  if (s->fail) return s;
  if (nv_nondet__Bool() || s->pos > NV_MAXLEN - v->bytes) { s->fail = 1; return s; }
#ifdef NV_ROUNDTRIP
  __CPROVER_assume(NV_VECID(s->pos) == v->id && NV_VECBYTES(s->pos) == v->bytes);
#endif
  s->pos = s->pos + v->bytes;
  return s;
}

/* ---------------------------------------------------------------------------------------------- scalar fields */
#define NV_I64LE(s, o) ((__int128)(NV_LE64(s, o) ^ 0x8000000000000000ULL) - ((__int128)1 << 63))
#define NV_BITS64(x) ((uint64_t)((__int128)(x) & (((__int128)1 << 64) - 1)))
#define NV_FLAG(s, o) (NV_LE32(s, o) != 0 ? 1 : 0)
#define NV_RET __CPROVER_return_value
#define NV_CONTRACT_read_i64 NV_READ_SCALAR(int64_t, 8, NV_I64LE)
/* read(stream, double&): the 8 bytes at the old position become the object representation of the double */
#define NV_CONTRACT_read_f64 \
__CPROVER_requires(NV_IS_OK(stream) && __CPROVER_is_fresh(scalar, sizeof(double))) \
__CPROVER_assigns(stream->pos, stream->fail, *scalar, NV_IS_GHOSTS) \
__CPROVER_ensures(__CPROVER_return_value == stream) \
__CPROVER_ensures(__CPROVER_old(stream->fail) ==> stream->fail) \
__CPROVER_ensures(NV_SP0 <= stream->pos && stream->pos <= stream->len) \
__CPROVER_ensures((NV_AVAIL0 < 8) ==> stream->fail) \
__CPROVER_ensures((!__CPROVER_old(stream->fail) && NV_AVAIL0 >= 8) ==> (!stream->fail && stream->pos == NV_SP0 + 8 && NV_DBITS(*scalar) == NV_LE64(stream, NV_SP0))) \
__CPROVER_ensures(nv_nfields == __CPROVER_old(nv_nfields) + 1 && (__CPROVER_old(nv_nfields) == nv_g ==> (nv_f_off == NV_SP0 && nv_f_w == 8))) \
NV_IS_FRAME
#define NV_CONTRACT_write_i64 NV_WRITE_SCALAR(8, NV_BITS64(scalar))
#define NV_CONTRACT_write_f64 NV_WRITE_SCALAR(8, NV_DBITS(scalar))

/* ---------------------------------------------------------------------------------------------- the wire layout per tag
 * (shared by reader and writer contracts: "per type tag the reader consumes exactly the fields the writer produced, same order, same
 * widths").  j = index of the field inside the record part (after tag and name). */
#define NV_IS_RANGE(t) ((t) == 1 || (t) == 2)
#define NV_IS_PAIR(t) ((t) == 3 || (t) == 4)
#define NV_REC_N(t) (NV_IS_RANGE(t) ? 5 : 7)
#define NV_REC_BYTES(t) (NV_IS_RANGE(t) ? 32 : 44)
#define NV_REC_W(t, j) ((int64_t)((j) < (NV_IS_RANGE(t) ? 3 : 4) ? 8 : 4))
#define NV_REC_OFF(t, j) ((int64_t)(NV_IS_RANGE(t) ? ((j) < 3 ? 8 * (j) : 24 + 4 * ((j) - 3)) : ((j) < 4 ? 8 * (j) : 32 + 4 * ((j) - 4))))
/* number of logged fields of a whole parameter with tag t: tag, name (2), then the record */
#define NV_PAR_NFIELDS(t) ((t) == -1 ? 3 : (t) == 0 ? 6 : (t) == 5 ? 5 : 3 + NV_REC_N(t))

/* ---------------------------------------------------------------------------------------------- range helpers (double) */
#define NV_PARAM_READ_COMMON(N) \
__CPROVER_requires(NV_IS_OK(stream) && __CPROVER_is_fresh(name, sizeof(struct nv_pstr)) && nv_nfields <= 16) \
__CPROVER_assigns(stream->pos, stream->fail, nv_thrown, nv_gh) \
__CPROVER_ensures(__CPROVER_old(stream->fail) ==> nv_thrown) \
__CPROVER_ensures((NV_AVAIL0 < N) ==> nv_thrown) \
__CPROVER_ensures((!__CPROVER_old(stream->fail) && NV_AVAIL0 >= N) ==> !nv_thrown) \
__CPROVER_ensures(!nv_thrown ==> (!stream->fail && stream->pos == NV_SP0 + N)) \
__CPROVER_ensures(NV_SP0 <= stream->pos && stream->pos <= stream->len) NV_IS_FRAME
#define NV_F64AT(o) NV_LE64(stream, o)
#define NV_CONTRACT_param_read_frange NV_PARAM_READ_COMMON(32) \
__CPROVER_ensures(!nv_thrown ==> (NV_DBITS(NV_RET.m_value) == NV_F64AT(NV_SP0) && NV_DBITS(NV_RET.m_min) == NV_F64AT(NV_SP0 + 8) && NV_DBITS(NV_RET.m_max) == NV_F64AT(NV_SP0 + 16) \
  && NV_RET.m_mincomp == NV_FLAG(stream, NV_SP0 + 24) && NV_RET.m_maxcomp == NV_FLAG(stream, NV_SP0 + 28))) \
__CPROVER_ensures((!nv_thrown && nv_g >= __CPROVER_old(nv_nfields) && nv_g < __CPROVER_old(nv_nfields) + 5) ==> \
  (nv_f_off == NV_SP0 + NV_REC_OFF(2, nv_g - __CPROVER_old(nv_nfields)) && nv_f_w == NV_REC_W(2, nv_g - __CPROVER_old(nv_nfields))))
#define NV_CONTRACT_param_read_fprange NV_PARAM_READ_COMMON(44) \
__CPROVER_ensures(!nv_thrown ==> (NV_DBITS(NV_RET.m_value1) == NV_F64AT(NV_SP0) && NV_DBITS(NV_RET.m_value2) == NV_F64AT(NV_SP0 + 8) \
  && NV_DBITS(NV_RET.m_min) == NV_F64AT(NV_SP0 + 16) && NV_DBITS(NV_RET.m_max) == NV_F64AT(NV_SP0 + 24) \
  && NV_RET.m_mincomp == NV_FLAG(stream, NV_SP0 + 32) && NV_RET.m_maxcomp == NV_FLAG(stream, NV_SP0 + 36) && NV_RET.m_valcomp == NV_FLAG(stream, NV_SP0 + 40))) \
__CPROVER_ensures((!nv_thrown && nv_g >= __CPROVER_old(nv_nfields) && nv_g < __CPROVER_old(nv_nfields) + 7) ==> \
  (nv_f_off == NV_SP0 + NV_REC_OFF(4, nv_g - __CPROVER_old(nv_nfields)) && nv_f_w == NV_REC_W(4, nv_g - __CPROVER_old(nv_nfields))))

#define NV_WF_PSTR(s) ((s).n <= 0xffffffffULL)
#define NV_COMP_OK(c) ((c) == 0 || (c) == 1)
#define NV_PARAM_WRITE_COMMON(T, N) \
__CPROVER_requires(NV_OS_OK(stream) && __CPROVER_is_fresh(name, sizeof(struct nv_pstr)) && NV_WF_PSTR(*name) && __CPROVER_is_fresh(param, sizeof(*param)) && nv_nfields == 0) \
__CPROVER_requires(NV_COMP_OK(param->m_mincomp) && NV_COMP_OK(param->m_maxcomp)) \
__CPROVER_assigns(stream->pos, stream->fail, nv_thrown, nv_gh) \
__CPROVER_ensures(__CPROVER_old(stream->fail) ==> nv_thrown) \
__CPROVER_ensures(!nv_thrown ==> (!stream->fail && stream->pos == NV_OP0 + 8 + (int64_t)name->n + N && nv_nfields == 3 + NV_REC_N(T))) \
__CPROVER_ensures((!nv_thrown && nv_g == 0) ==> (nv_f_off == NV_OP0 && nv_f_w == 4 && nv_f_val == NV_LOW32(type))) \
__CPROVER_ensures((!nv_thrown && nv_g == 1) ==> (nv_f_off == NV_OP0 + 4 && nv_f_w == 4 && nv_f_val == name->n)) \
__CPROVER_ensures((!nv_thrown && nv_g == 2) ==> (nv_f_off == NV_OP0 + 8 && nv_f_w == (int64_t)name->n && nv_f_cid == name->id)) \
__CPROVER_ensures((!nv_thrown && nv_g >= 3 && nv_g < 3 + NV_REC_N(T)) ==> (nv_f_off == NV_OP0 + 8 + (int64_t)name->n + NV_REC_OFF(T, nv_g - 3) && nv_f_w == NV_REC_W(T, nv_g - 3)))
#define NV_WVAL(g, val) ((!nv_thrown && nv_g == (g)) ==> nv_f_val == (val))
#define NV_CONTRACT_param_write_frange NV_PARAM_WRITE_COMMON(2, 32) \
__CPROVER_ensures(NV_WVAL(3, NV_DBITS(param->m_value)) && NV_WVAL(4, NV_DBITS(param->m_min)) && NV_WVAL(5, NV_DBITS(param->m_max))) \
__CPROVER_ensures(NV_WVAL(6, (uint64_t)param->m_mincomp) && NV_WVAL(7, (uint64_t)param->m_maxcomp))
#define NV_CONTRACT_param_write_fprange NV_PARAM_WRITE_COMMON(4, 44) __CPROVER_requires(NV_COMP_OK(param->m_valcomp)) \
__CPROVER_ensures(NV_WVAL(3, NV_DBITS(param->m_value1)) && NV_WVAL(4, NV_DBITS(param->m_value2)) && NV_WVAL(5, NV_DBITS(param->m_min)) && NV_WVAL(6, NV_DBITS(param->m_max))) \
__CPROVER_ensures(NV_WVAL(7, (uint64_t)param->m_mincomp) && NV_WVAL(8, (uint64_t)param->m_maxcomp) && NV_WVAL(9, (uint64_t)param->m_valcomp))

/* ---------------------------------------------------------------------------------------------- parameter_t::read
 * what the stream says (all in terms of the content functions at the OLD position): */
#define NV_TAG NV_I32LE(stream, NV_SP0)
#define NV_NLEN ((int64_t)NV_LE32(stream, NV_SP0 + 4))
#define NV_E (NV_SP0 + 8 + NV_NLEN)                      /* end of the name = start of the record part */
#define NV_SLEN ((int64_t)NV_LE32(stream, NV_E))         /* tags 0 and 5: length of the value string */
#define NV_E2 (NV_E + 4 + NV_SLEN)                       /* tag 0: start of the domain vector */
#define NV_PAR_END(t) ((t) == -1 ? NV_E : (t) == 0 ? NV_E2 + NV_VECBYTES(NV_E2) : (t) == 5 ? NV_E2 : NV_E + NV_REC_BYTES(t))
#define NV_ST (self->m_storage)
#define NV_OKTAG(t) (!nv_thrown && NV_TAG == (t))
#define NV_IRANGE_IS(r, o) ((r).m_value == NV_I64LE(stream, o) && (r).m_min == NV_I64LE(stream, (o) + 8) && (r).m_max == NV_I64LE(stream, (o) + 16) \
  && (r).m_mincomp == NV_FLAG(stream, (o) + 24) && (r).m_maxcomp == NV_FLAG(stream, (o) + 28))
#define NV_FRANGE_IS(r, o) (NV_DBITS((r).m_value) == NV_F64AT(o) && NV_DBITS((r).m_min) == NV_F64AT((o) + 8) && NV_DBITS((r).m_max) == NV_F64AT((o) + 16) \
  && (r).m_mincomp == NV_FLAG(stream, (o) + 24) && (r).m_maxcomp == NV_FLAG(stream, (o) + 28))
#define NV_IPRANGE_IS(r, o) ((r).m_value1 == NV_I64LE(stream, o) && (r).m_value2 == NV_I64LE(stream, (o) + 8) && (r).m_min == NV_I64LE(stream, (o) + 16) && (r).m_max == NV_I64LE(stream, (o) + 24) \
  && (r).m_mincomp == NV_FLAG(stream, (o) + 32) && (r).m_maxcomp == NV_FLAG(stream, (o) + 36) && (r).m_valcomp == NV_FLAG(stream, (o) + 40))
#define NV_FPRANGE_IS(r, o) (NV_DBITS((r).m_value1) == NV_F64AT(o) && NV_DBITS((r).m_value2) == NV_F64AT((o) + 8) && NV_DBITS((r).m_min) == NV_F64AT((o) + 16) && NV_DBITS((r).m_max) == NV_F64AT((o) + 24) \
  && (r).m_mincomp == NV_FLAG(stream, (o) + 32) && (r).m_maxcomp == NV_FLAG(stream, (o) + 36) && (r).m_valcomp == NV_FLAG(stream, (o) + 40))
/* the contract of parameter_t::read is stated as the assertions of the harness of target parameter_read (specs/C15/paramrw.py: READ_HARNESS):
 * DFCC enforcement of the same clauses over the fresh *self did not finish in 300 s, the plain harness takes seconds (engine/README.md, C16 notes) */

/* ---------------------------------------------------------------------------------------------- parameter_t::write */
#define NV_PAR_WF(p) ((p)->m_storage.index <= 6 && NV_WF_PSTR((p)->m_name) && NV_WF_PSTR((p)->m_storage.a1.m_value) && NV_WF_PSTR((p)->m_storage.a6) \
  && 8 <= (p)->m_storage.a1.m_domain.bytes && (p)->m_storage.a1.m_domain.bytes < (1LL << 46) + 8 \
  && NV_COMP_OK((p)->m_storage.a2.m_mincomp) && NV_COMP_OK((p)->m_storage.a2.m_maxcomp) && NV_COMP_OK((p)->m_storage.a3.m_mincomp) && NV_COMP_OK((p)->m_storage.a3.m_maxcomp) \
  && NV_COMP_OK((p)->m_storage.a4.m_mincomp) && NV_COMP_OK((p)->m_storage.a4.m_maxcomp) && NV_COMP_OK((p)->m_storage.a4.m_valcomp) \
  && NV_COMP_OK((p)->m_storage.a5.m_mincomp) && NV_COMP_OK((p)->m_storage.a5.m_maxcomp) && NV_COMP_OK((p)->m_storage.a5.m_valcomp))
#define NV_WTAG ((int32_t)NV_ST.index - 1)
#define NV_WE (NV_OP0 + 8 + (int64_t)self->m_name.n)
#define NV_WOK(t) (!nv_thrown && NV_WTAG == (t))
#define NV_WFIELD(t, g, off, w) ((NV_WOK(t) && nv_g == (g)) ==> (nv_f_off == (off) && nv_f_w == (w)))
#define NV_WV(t, g, val) ((NV_WOK(t) && nv_g == (g)) ==> nv_f_val == (val))
#define NV_WEND(t) ((t) == -1 ? NV_WE : (t) == 0 ? NV_WE + 4 + (int64_t)NV_ST.a1.m_value.n + NV_ST.a1.m_domain.bytes : (t) == 5 ? NV_WE + 4 + (int64_t)NV_ST.a6.n : NV_WE + NV_REC_BYTES(t))
#define NV_CONTRACT_parameter_write \
__CPROVER_requires(NV_OS_OK(stream) && __CPROVER_is_fresh(self, sizeof(struct nv_parameter)) && NV_PAR_WF(self) && nv_nfields == 0) \
__CPROVER_assigns(stream->pos, stream->fail, nv_thrown, nv_gh) \
__CPROVER_ensures(__CPROVER_old(stream->fail) ==> nv_thrown) \
__CPROVER_ensures(!nv_thrown ==> (!stream->fail && __CPROVER_return_value == stream)) \
/* tag = index - 1, then the name, for every alternative */ \
__CPROVER_ensures((!nv_thrown && nv_g == 0) ==> (nv_f_off == NV_OP0 && nv_f_w == 4 && nv_f_val == NV_LOW32(NV_WTAG))) \
__CPROVER_ensures((!nv_thrown && nv_g == 1) ==> (nv_f_off == NV_OP0 + 4 && nv_f_w == 4 && nv_f_val == self->m_name.n)) \
__CPROVER_ensures((!nv_thrown && nv_g == 2) ==> (nv_f_off == NV_OP0 + 8 && nv_f_w == (int64_t)self->m_name.n && nv_f_cid == self->m_name.id)) \
/* exactly the bytes / fields of that alternative's layout */ \
__CPROVER_ensures(!nv_thrown ==> (stream->pos == NV_WEND(NV_WTAG) && nv_nfields == NV_PAR_NFIELDS(NV_WTAG))) \
/* numeric arms: offsets and widths of the shared layout table, values = the members in wire order */ \
__CPROVER_ensures((!nv_thrown && NV_WTAG >= 1 && NV_WTAG <= 4 && nv_g >= 3 && nv_g < 3 + NV_REC_N(NV_WTAG)) ==> (nv_f_off == NV_WE + NV_REC_OFF(NV_WTAG, nv_g - 3) && nv_f_w == NV_REC_W(NV_WTAG, nv_g - 3))) \
__CPROVER_ensures(NV_WV(1, 3, NV_BITS64(NV_ST.a2.m_value)) && NV_WV(1, 4, NV_BITS64(NV_ST.a2.m_min)) && NV_WV(1, 5, NV_BITS64(NV_ST.a2.m_max)) && NV_WV(1, 6, (uint64_t)NV_ST.a2.m_mincomp) && NV_WV(1, 7, (uint64_t)NV_ST.a2.m_maxcomp)) \
__CPROVER_ensures(NV_WV(2, 3, NV_DBITS(NV_ST.a3.m_value)) && NV_WV(2, 4, NV_DBITS(NV_ST.a3.m_min)) && NV_WV(2, 5, NV_DBITS(NV_ST.a3.m_max)) && NV_WV(2, 6, (uint64_t)NV_ST.a3.m_mincomp) && NV_WV(2, 7, (uint64_t)NV_ST.a3.m_maxcomp)) \
__CPROVER_ensures(NV_WV(3, 3, NV_BITS64(NV_ST.a4.m_value1)) && NV_WV(3, 4, NV_BITS64(NV_ST.a4.m_value2)) && NV_WV(3, 5, NV_BITS64(NV_ST.a4.m_min)) && NV_WV(3, 6, NV_BITS64(NV_ST.a4.m_max)) \
  && NV_WV(3, 7, (uint64_t)NV_ST.a4.m_mincomp) && NV_WV(3, 8, (uint64_t)NV_ST.a4.m_maxcomp) && NV_WV(3, 9, (uint64_t)NV_ST.a4.m_valcomp)) \
__CPROVER_ensures(NV_WV(4, 3, NV_DBITS(NV_ST.a5.m_value1)) && NV_WV(4, 4, NV_DBITS(NV_ST.a5.m_value2)) && NV_WV(4, 5, NV_DBITS(NV_ST.a5.m_min)) && NV_WV(4, 6, NV_DBITS(NV_ST.a5.m_max)) \
  && NV_WV(4, 7, (uint64_t)NV_ST.a5.m_mincomp) && NV_WV(4, 8, (uint64_t)NV_ST.a5.m_maxcomp) && NV_WV(4, 9, (uint64_t)NV_ST.a5.m_valcomp)) \
/* enum: value string (length, chars), then the domain vector; string: value string */ \
__CPROVER_ensures(NV_WFIELD(0, 3, NV_WE, 4) && NV_WV(0, 3, NV_ST.a1.m_value.n) && NV_WFIELD(0, 4, NV_WE + 4, (int64_t)NV_ST.a1.m_value.n) && ((NV_WOK(0) && nv_g == 4) ==> nv_f_cid == NV_ST.a1.m_value.id)) \
__CPROVER_ensures(NV_WFIELD(0, 5, NV_WE + 4 + (int64_t)NV_ST.a1.m_value.n, NV_ST.a1.m_domain.bytes) && ((NV_WOK(0) && nv_g == 5) ==> nv_f_cid == NV_ST.a1.m_domain.id)) \
__CPROVER_ensures(NV_WFIELD(5, 3, NV_WE, 4) && NV_WV(5, 3, NV_ST.a6.n) && NV_WFIELD(5, 4, NV_WE + 4, (int64_t)NV_ST.a6.n) && ((NV_WOK(5) && nv_g == 4) ==> nv_f_cid == NV_ST.a6.id))
#endif
