/* C15: stubs of the reader / writer symmetry targets (specs/C15/symmetry.py).  NV_NF and NV_EXPECT(g) -- the number of
 * fields and the identity of field g of the COUNTERPART body -- are generated from the counterpart's AST on every run.
 *
 * ASSUMED contract of a field transfer (::nano::read / ::nano::write of one field, any overload): on a failed stream it
 * transfers nothing and the stream stays failed; otherwise it succeeds or fails (sets failbit / badbit) -- failure may
 * happen at any field.  ASSUMED contract of a base class read/write (itself one of the symmetry targets): it reports
 * failure by exception, i.e. returns normally only with a good stream. */
#ifndef NV_C15_SYMMETRY_H
#define NV_C15_SYMMETRY_H
#include "nv_base.h"
struct nv_stream { _Bool fail; };
enum { goodbit = 0, badbit = 1, eofbit = 2, failbit = 4 };
/* nano::major_version etc. (generated nano/version.h): arbitrary constants */
int32_t major_version, minor_version, patch_version;
uint64_t nv_seq;      /* ghost: number of field transfers executed so far */
static _Bool nv_stream_not(const struct nv_stream* s) { return s->fail; }
static void nv_stream_setstate(struct nv_stream* s, int32_t state) { if (state & (failbit | badbit)) s->fail = 1; }
static struct nv_stream* nv_field(struct nv_stream* s, int id)
{
  __CPROVER_assert(nv_seq < NV_NF && id == NV_EXPECT(nv_seq),
                   "C15 symmetry: the field transferred here is the one the counterpart body (write for read, read for write) transfers at this position -- same member, same overload / wire type, same order");
  nv_seq = nv_seq + 1;
  if (s->fail || nv_nondet__Bool()) s->fail = 1;
  return s;
}
static struct nv_stream* nv_base(struct nv_stream* s, int id)
{
  __CPROVER_assert(nv_seq < NV_NF && id == NV_EXPECT(nv_seq),
                   "C15 symmetry: the base class part transferred here is the one the counterpart body transfers at this position");
  nv_seq = nv_seq + 1;
  if (s->fail || nv_nondet__Bool()) { s->fail = 1; nv_thrown = 1; }
  return s;
}
#endif
