/* C15 instance: tensor_mem_t<double, 2>.  The rank is a constant here: read_cast / write_cast loops over the dims are
 * unwound completely instead of being summarised (their summaries are proved for symbolic counts in core targets). */
#define NV_RANK 2
#define NV_SCALAR double
#define NV_INLINE_LOOPS
#include "tensor.h"
#include "contracts.h"
