"""C15: serialization round-trips; truncated / corrupted streams are rejected.

Verified text: the real templates of include/nano/tensor/stream.h and include/nano/core/stream.h, instantiated by
drivers/inst_stream.cpp and extracted by clang on every run.  std::istream / std::ostream are the byte-stream model of
specs/C15/stream.h (assumed contract of istream::read / ostream::write), detail::hash is uninterpreted.
"""
import astload
from core import Fn, Target, VC
import symmetry

TU = 'drivers/inst_stream.cpp'
D = 'specs/C15/'


def targs(*want):
    return lambda d: astload.template_args(d) == list(want)


def ptypes(*want):
    return lambda d: astload.param_types(d) == list(want) and astload.template_args(d) != []


# ------------------------------------------------------------------------------------------------ type models
T_COMMON = [(r'tdims$|^std::array<long, \d+>', 'struct nv_dims'),
            (r'tensor_t<nano::tensor_vector_storage_t, (double|long|signed char), \d|tensor_vector_storage_t<(double|long|signed char), \d|tensor_base_t<(double|long|signed char), \d', 'struct nv_tensor'),
            (r'ios_base::iostate$|_Ios_Iostate$', 'int32_t'),
            (r'Matrix<(double|long|signed char), -1, 1, 0.*>::Scalar$', 'NV_SCALAR')]
T_STL = [(r'^std::string$|^std::basic_string<char>$', 'struct nv_string'), (r'^std::vector<int>$', 'struct nv_vec_i32'),
         (r'basic_string<char>::iterator$|__normal_iterator<char \*', 'struct nv_sit'), (r'vector<int>::iterator$|__normal_iterator<int \*', 'struct nv_vit'),
         (r'basic_string<char>::size_type$', 'uint64_t')]
T_IN = T_STL + [(r'basic_istream<char|^std::istream$|basic_ios<char', 'struct nv_istream')] + T_COMMON
T_OUT = [(r'^std::string_view$|basic_string_view<char', 'struct nv_sv'), (r'basic_ostream<char|^std::ostream$|basic_ios<char', 'struct nv_ostream')] + T_COMMON

def int_muldiv_hook(P, n):
    """int64 `a * b`, `a *= b` and `a / b` with a non-constant divisor print as nv_imul / nv_idiv: the product and the quotient
    are UNINTERPRETED in CBMC (64-bit multipliers / dividers cannot be bit-blasted, DESIGN 2.4); what the code relies on
    (the division guard implies an exact, bounded product) is the SMT lemma guard_rank*; nv_idiv asserts a non-zero divisor"""
    from cxx2c import strip_cv, qual, unwrap
    k = n.get('kind')
    if k not in ('BinaryOperator', 'CompoundAssignOperator') or strip_cv(qual(n['type'])) not in ('long', 'nano::tensor_size_t'):
        return None
    op = n.get('opcode')
    a, b = n['inner']
    core = b
    while core.get('kind') in ('ImplicitCastExpr', 'CXXStaticCastExpr', 'ParenExpr', 'ConstantExpr') and core.get('inner'):
        core = core['inner'][0]
    if op == '/' and core.get('kind') not in ('UnaryExprOrTypeTraitExpr', 'IntegerLiteral'):
        P.note('int64 a / b -> nv_idiv (uninterpreted, divisor asserted non-zero)')
        return f'nv_idiv({P.expr(a)}, {P.expr(b)})'
    if op == '*':
        P.note('int64 a * b -> nv_imul (uninterpreted)')
        return f'nv_imul({P.expr(a)}, {P.expr(b)})'
    if op == '*=':
        P.note('int64 a *= b -> nv_imul (uninterpreted)')
        lhs = P.expr(a)
        return f'({lhs} = nv_imul({lhs}, {P.expr(b)}))'
    return None


# ------------------------------------------------------------------------------------------------ call maps (reader)
# functions returning std::istream& print as functions returning a pointer: a call denotes the object -> (*f(...))
# `tdims dims;` is a default-initialised std::array: indeterminate values, not zeros
C_IN = [(r'^ctor\|.*(tdims|std::array<long, \d+>)\|', '@nondet'),
        (r'^max\|long \(\) noexcept', '(INT64_MAX)'), (r'^operator\[\]\|std::array<long, \d+>::(const_)?reference', '{0}.d[{1}]'),
        (r'^read\|std::istream &\(std::istream &, unsigned int &\)', '(*read_u32({&0}, {&1}))'),
        (r'^read\|std::istream &\(std::istream &, int &\)', '(*read_i32({&0}, {&1}))'),
        (r'^read\|std::istream &\(std::istream &, unsigned long &\)', '(*read_u64({&0}, {&1}))'),
        (r'^read\|std::istream &\(std::istream &, char &\)', '(*read_char({&0}, {&1}))'),
        (r'^read\|std::istream &\(std::istream &, double \*, long\)', '(*read_ptr_f64({&0}, {1}, {2}))'),
        (r'^read\|std::istream &\(std::istream &, long \*, long\)', '(*read_ptr_i64({&0}, {1}, {2}))'),
        (r'^read_cast\|std::istream &\(std::istream &, long &\)', '(*read_cast_i32_i64({&0}, {&1}))'),
        (r'^read_cast\|std::istream &\(std::istream &, long \*, const unsigned long\)', '(*read_cast_n({&0}, {1}, {2}))'),
        (r'^read\|std::istream &\(std::istream &, std::string &\)', '(*read_string({&0}, {&1}))'),
        (r'^operator!\|bool \(\) const\|std::basic_ios<char>', 'nv_ios_not({&0})'),
        (r'^operator!=\|bool \(const __normal_iterator', '({0}.i != {1}.i)'),
        (r'^operator\+\+\|.*__normal_iterator', '(++{0}.i)'),
        (r'^operator\*\|.*__normal_iterator<char', '(*nv_sit_deref({&0}))'),
        (r'^operator\*\|.*__normal_iterator<int', '(*nv_vit_deref({&0}))'),
        (r'^hash_version\|', 'hash_version()'),
        (r'^hash\|uint64_t \(const (double|long) \*, const long\)', 'nv_hash({0}, {1})')]
M_IN = [(r'^begin\|std::(string|basic_string<char>)', 'nv_string_begin({self})'), (r'^end\|std::(string|basic_string<char>)', 'nv_string_end({self})'),
        (r'^begin\|std::vector<int>', 'nv_vec_i32_begin({self})'), (r'^end\|std::vector<int>', 'nv_vec_i32_end({self})'),
        (r'^resize\|std::(string|basic_string<char>)', 'nv_string_resize({self}, {0})!'),
        (r'^resize\|std::vector<int>', 'nv_vec_i32_resize({self}, {0})!'),
        (r'^setstate\|std::basic_ios<char>', 'nv_ios_setstate({self}, {0})'),
        (r'^read\|std::(basic_)?istream', '(*nv_istream_read({self}, {0}, {1}))'),
        (r'^data\|std::array<long', '{self}->d'),
        (r'^resize\|nano::tensor_vector_storage_t', 'nv_tensor_resize({self}, {&0})!'),
        (r'^data\|nano::tensor_vector_storage_t', 'nv_tensor_data({self})'),
        (r'^size\|nano::tensor_base_t', 'nv_tensor_size({self})'),
        (r'^dims\|nano::tensor_base_t', '{self}->m_dims')]
IN = dict(types=T_IN, calls=C_IN, members=M_IN, uf_float=False)


def rd_scalar(cname, cxx):
    return Fn(cname, TU, 'read', flt='nano::read', select=ptypes('std::istream &', cxx + ' &'), **IN)


def rd_ptr(cname, cxx):
    return Fn(cname, TU, 'read', flt='nano::read', select=ptypes('std::istream &', cxx + ' *', 'long'), **IN)


def read_u32(): return rd_scalar('read_u32', 'unsigned int')
def read_i32(): return rd_scalar('read_i32', 'int')
def read_u64(): return rd_scalar('read_u64', 'unsigned long')
def read_char(): return rd_scalar('read_char', 'char')
def read_cast1(): return Fn('read_cast_i32_i64', TU, 'read_cast', flt='nano::read_cast', select=ptypes('std::istream &', 'long &'), **IN)
def read_castn(): return Fn('read_cast_n', TU, 'read_cast', flt='nano::read_cast', select=ptypes('std::istream &', 'long *', 'const unsigned long'), **IN)
def hash_version(): return Fn('hash_version', TU, 'hash_version', flt='nano::detail::hash_version', uf_float=False)


# ------------------------------------------------------------------------------------------------ call maps (writer)
C_OUT = [(r'^max\|int \(\) noexcept', '(INT32_MAX)'), (r'^operator\[\]\|std::array<long, \d+>::(const_)?reference', '{0}.d[{1}]'),
         (r'^write\|std::ostream &\(std::ostream &, const char \*, const unsigned long\)', '(*write_ptr_char({&0}, {1}, {2}))'),
         (r'^write\|std::ostream &\(std::ostream &, unsigned int\)', '(*write_u32({&0}, {1}))'),
         (r'^write\|std::ostream &\(std::ostream &, int\)', '(*write_i32({&0}, {1}))'),
         (r'^write\|std::ostream &\(std::ostream &, unsigned long\)', '(*write_u64({&0}, {1}))'),
         (r'^write\|std::ostream &\(std::ostream &, const double \*, const long\)', '(*write_ptr_f64({&0}, {1}, {2}))'),
         (r'^write\|std::ostream &\(std::ostream &, const long \*, const long\)', '(*write_ptr_i64({&0}, {1}, {2}))'),
         (r'^write\|std::ostream &\(std::ostream &, const signed char \*, const long\)', '(*write_ptr_i8({&0}, {1}, {2}))'),
         (r'^write_cast\|std::ostream &\(std::ostream &, const long \*, const unsigned long\)', '(*write_cast_n({&0}, {1}, {2}))'),
         (r'^operator!\|bool \(\) const\|std::basic_ios<char>', 'nv_oios_not({&0})'),
         (r'^hash_version\|', 'hash_version()'),
         (r'^hash\|uint64_t \(const (double|long|signed char) \*, const long\)', 'nv_hash({0}, {1})')]
M_OUT = [(r'^size\|std::basic_string_view<char>|^size\|std::string_view', '{self}->n'), (r'^data\|std::basic_string_view<char>|^data\|std::string_view', '{self}->p'),
         (r'^setstate\|std::basic_ios<char>', 'nv_oios_setstate({self}, {0})'),
         (r'^write\|std::(basic_)?ostream', '(*nv_ostream_write({self}, {0}, {1}))'),
         (r'^data\|std::array<long', '{self}->d'),
         (r'^data\|nano::tensor_vector_storage_t', 'nv_tensor_data({self})'),
         (r'^size\|nano::tensor_base_t', 'nv_tensor_size({self})'),
         (r'^dims\|nano::tensor_base_t', '(*{self}).m_dims')]
OUT = dict(types=T_OUT, calls=C_OUT, members=M_OUT, uf_float=False)


def wr_scalar(cname, cxx):
    return Fn(cname, TU, 'write', flt='nano::write', select=ptypes('std::ostream &', cxx), **OUT)


def wr_ptr(cname, cxx):
    return Fn(cname, TU, 'write', flt='nano::write', select=ptypes('std::ostream &', 'const ' + cxx + ' *', 'const long'), **OUT)


def write_u32(): return wr_scalar('write_u32', 'unsigned int')
def write_i32(): return wr_scalar('write_i32', 'int')
def write_u64(): return wr_scalar('write_u64', 'unsigned long')
def write_ptr_char(): return Fn('write_ptr_char', TU, 'write', flt='nano::write', select=ptypes('std::ostream &', 'const char *', 'const unsigned long'), **OUT)
def write_string(): return Fn('write_string', TU, 'write', flt='nano::write', select=lambda d: astload.param_types(d) == ['std::ostream &', 'const std::string_view &'], **OUT)
def write_castn(): return Fn('write_cast_n', TU, 'write_cast', flt='nano::write_cast', select=ptypes('std::ostream &', 'const long *', 'const unsigned long'), **OUT)


def tensor_write(cname, scalar, rank):
    return Fn(cname, TU, 'write', flt='nano::write', select=targs('?', scalar, str(rank)), **OUT)


def read_string(): return Fn('read_string', TU, 'read', flt='nano::read', select=lambda d: astload.param_types(d) == ['std::istream &', 'std::string &'], **IN)
def read_vec_i32(): return Fn('read_vec_i32', TU, 'read', flt='nano::read', select=ptypes('std::istream &', 'std::vector<int> &'), **IN)
CFG_T = [(r'^nano::configurable_t$', 'struct nv_configurable'), (r'^nano::parameters_t$|^std::vector<nano::parameter_t>$|vector<parameter_t>', 'struct nv_params')]
def configurable_read():
    return Fn('configurable_read', 'src/configurable.cpp', 'read', flt='configurable_t::read', self_struct='struct nv_configurable',
              types=CFG_T + T_IN, members=M_IN, uf_float=False,
              calls=[(r'^read\|std::istream &\(std::istream &, std::vector<parameter_t> &\)', '(*nv_read_parameters({&0}, {&1}))')] + C_IN)
def configurable_write():
    return Fn('configurable_write', 'src/configurable.cpp', 'write', flt='configurable_t::write', self_struct='struct nv_configurable',
              types=CFG_T + T_OUT, members=M_OUT, uf_float=False,
              calls=[(r'^write\|std::ostream &\(std::ostream &, const std::vector<parameter_t> &\)', '(*nv_write_parameters({&0}, {&1}))')] + C_OUT)
PAR_T = [(r'parameter_t::pair_range_t<long>$', 'struct nv_iprange'), (r'parameter_t::range_t<long>$', 'struct nv_irange'), (r'^nano::LEorLT$', 'int32_t'),
         (r'^nano::string_t$', 'struct nv_string')]
PAR_C = [(r'^read\|std::istream &\(std::istream &, long &\)', '(*read_i64({&0}, {&1}))'), (r'^make_comp\|', 'nv_make_comp({0})')]
def read_i64(): return Fn('read_i64', 'src/parameter.cpp', 'read', flt='nano::read', select=ptypes('std::istream &', 'long &'), **IN)
def param_read(cname, cxx):
    return Fn(cname, 'src/parameter.cpp', 'read', flt='read', uf_float=False, types=PAR_T + T_IN, calls=PAR_C + C_IN, members=M_IN,
              select=lambda d: astload.template_args(d) == ['long'] and astload.param_types(d)[2:] == [f'parameter_t::{cxx}<long>'],
              aggregates=['struct nv_irange', 'struct nv_iprange'])
PAR_WC = [(r'^write\|std::ostream &\(std::ostream &, long\)', '(*write_i64({&0}, {1}))'),
          (r'^write\|std::ostream &\(std::ostream &, const std::string_view &\)', '(*nv_write_name({&0}))'), (r'^make_flag\|', 'nv_make_flag({0})')]
def write_i64(): return Fn('write_i64', 'src/parameter.cpp', 'write', flt='nano::write', select=ptypes('std::ostream &', 'long'), **OUT)
def param_write(cname, cxx):
    return Fn(cname, 'src/parameter.cpp', 'write', flt='write', uf_float=False, types=PAR_T + T_OUT, calls=PAR_WC + C_OUT, members=M_OUT,
              select=lambda d: astload.template_args(d) == ['long'] and astload.param_types(d)[3:] == [f'const parameter_t::{cxx}<long> &'])
def hash_combine(): return Fn('hash_combine', TU, 'hash_combine', flt='nano::detail::hash_combine', uf_float=False)
def hash_fn(cname, scalar):
    return Fn(cname, TU, 'hash', flt='nano::detail::hash', select=targs(scalar, 'long'), uf_float=False,
              calls=[(r'^hash_combine\|', 'hash_combine({0}, {1})')])


def tensor_read(cname, scalar, rank):
    return Fn(cname, TU, 'read', flt='nano::read', select=targs('?', scalar, str(rank)), hooks=[int_muldiv_hook], **IN)


CADICAL = ['--sat-solver', 'cadical']
NV_UNWIND = 6   # > max rank + 1: the dims loops of read_cast / write_cast are unwound completely (unwinding assertions on)
INST = [('f64', 'double', 1), ('f64', 'double', 2), ('f64', 'double', 4), ('i64', 'long', 1)]


def lemma_vcs():
    """consequences of the PROVED reader / writer contracts, checked by SMT over Int with nano::size uninterpreted"""
    out = []
    for rank, S in ((1, 8), (2, 8), (4, 8)):
        H = 20 + 4 * rank
        ks = range(rank)
        dz = lambda v: ' '.join([f'{v}{k}' for k in ks] + ['0'] * (4 - rank))
        common = ('(declare-fun sz (Int Int Int Int) Int)   ; nano::size(dims), whatever it computes\n'
                  '(declare-fun cV (Int) Int)                ; int32 view of the valid stream V at an offset\n'
                  '(declare-fun cP (Int) Int)                ; int32 view of the stream P given to the reader\n'
                  '(declare-const lenV Int)(declare-const lenP Int)(declare-const used Int)\n'
                  + ''.join(f'(declare-const d{k} Int)(declare-const e{k} Int)' for k in ks) + '\n'
                  # writer contract (tensor_write postconditions 2-4): V = write(t), dims d_k in [0, 2^31), len = header + S*size
                  + ''.join(f'(assert (and (<= 0 d{k}) (< d{k} 2147483648) (= (cV {8 + 4 * k}) d{k})))' for k in ks) + '\n'
                  f'(assert (= lenV (+ {H} (* {S} (sz {dz("d")})))))\n'
                  # P agrees with V on every int32 that lies entirely inside P (P is a prefix of V / V with payload bytes altered)
                  + ''.join(f'(assert (=> (<= {8 + 4 * k + 4} lenP) (= (cP {8 + 4 * k}) (cV {8 + 4 * k}))))' for k in ks) + '\n'
                  # reader contract (tensor_read postconditions 3 and 7) for an ACCEPTED P
                  + ''.join(f'(assert (= e{k} (cP {8 + 4 * k})))' for k in ks) + '\n'
                  f'(assert (and (>= (sz {dz("e")}) 0) (= used (+ {H} (* {S} (sz {dz("e")})))) (<= used lenP)))\n')
        out.append(VC(f'lemma/prefix_rank{rank}: every strict prefix of a written tensor stream is rejected',
                      common + '(assert (and (<= 0 lenP) (< lenP lenV)))', group='lemma',
                      about='tensor_read accepted => consumed = header + sizeof*size(dims read) <= len and dims = stored int32s; '
                            'the prefix has the same dims wherever it holds them, hence would need len(V) bytes'))
        out.append(VC(f'lemma/prefix_rank{rank}: vacuity guard (the whole stream can be accepted)', common + '(assert (= lenP lenV))',
                      group='lemma', expect='sat', about='vacuity guard (must be sat)'))
        out.append(VC(f'lemma/roundtrip_rank{rank}: reading a written tensor consumes exactly what was written and yields its dims',
                      common + '(assert (= lenP lenV))\n(assert (not (and (= used lenV) ' + ' '.join(f'(= e{k} d{k})' for k in ks) + ')))',
                      group='lemma', about='field sequence symmetry + int32 narrowing is lossless for dims < 2^31'))
    # the arithmetic lemma that nv_tensor_resize assumes on the terms of the reader's guard loop (repair 81b3596): nv_imul / nv_idiv
    # are uninterpreted in CBMC; here they are the integers' * and div.  By induction on k the machine products are the
    # mathematical ones (t_1 = d_0; t_k exact and guard k  =>  t_{k+1} <= M fits), so one VC over the mathematical t_k suffices.
    for rank in (1, 2, 3, 4):
        for S in (8, 1):
            M = (2 ** 63 - 1) // S
            ds = ''.join(f'(declare-const d{k} Int)' for k in range(rank))
            ts = ['1']
            for k in range(rank):
                ts.append(f'(* {ts[-1]} d{k})')
            rng = ''.join(f'(assert (and (<= (- 9223372036854775808) d{k}) (<= d{k} 9223372036854775807)))' for k in range(rank))
            guards = ''.join(f'(assert (and (>= d{k} 0) (not (and (> d{k} 0) (> {ts[k]} (div {M} d{k}))))))' for k in range(rank))
            right = 'd%d' % (rank - 1)
            for k in range(rank - 2, -1, -1):
                right = f'(* d{k} {right})'
            concl = ' '.join(f'(<= 0 {ts[k + 1]}) (<= {ts[k + 1]} {M})' for k in range(rank)) + f' (= {right} {ts[rank]})'
            out.append(VC(f'lemma/guard_rank{rank}_sizeof{S}: dims that pass the division guard have an exact product <= max_size, every running product fits',
                          ds + '\n' + rng + '\n' + guards + f'\n(assert (not (and {concl})))', group='lemma',
                          about='discharges the arithmetic assumption of nv_tensor_resize (uninterpreted * and / in CBMC)'))
        out.append(VC(f'lemma/zero_dim_rank{rank}: non-negative dimensions one of which is 0 multiply to 0 (the fact nv_tensor_resize assumes for empty shapes)',
                      ds + '\n' + ''.join(f'(assert (>= d{k} 0))' for k in range(rank)) + '(assert (or ' + ' '.join(f'(= d{k} 0)' for k in range(rank)) + ' false))'
                      + f'\n(assert (not (= {right} 0)))', group='lemma', about='discharges the zero-dimension assumption of nv_tensor_resize'))
        out.append(VC(f'lemma/guard_rank{rank}: vacuity guard (some dims pass the guard)', ds + '\n' + rng + '\n' + guards + '\n(assert (> d0 1))', group='lemma',
                      expect='sat', about='vacuity guard (must be sat)'))
    return out


def build(tier):
    targets = []
    P = D + 'core.h'
    # ---- core readers (one unit each; the tensor reader inlines the scalar ones and uses read_cast_n by contract)
    targets += [
        Target('read_u32', [read_u32()], P),
        Target('read_u64', [read_u64()], P),
        Target('read_cast_i32_i64', [read_cast1(), read_i32()], P),
        Target('read_cast_n', [read_castn(), read_cast1(), read_i32()], P, timeout=300),   # the hardest SAT instance (20 s alone): survives a loaded machine
        Target('read_ptr_f64', [rd_ptr('read_ptr_f64', 'double')], P),
    ]
    NOCONV = ['--bounds-check', '--pointer-check', '--div-by-zero-check', '--signed-overflow-check', '--pointer-overflow-check']
    targets += [
        Target('write_u32', [write_u32()], P),
        Target('write_u64', [write_u64()], P),
        Target('write_i32', [write_i32()], P),
        # write_cast narrows by design (static_cast<int32_t>): the contract says so, hence no conversion check here; the
        # tensor writer targets keep it on and discharge it from the stated dims < 2^31 precondition
        Target('write_cast_n', [write_castn(), write_i32()], P, checks=NOCONV),
        Target('write_ptr_f64', [wr_ptr('write_ptr_f64', 'double')], P),
        Target('write_string', [write_string(), write_u32(), write_ptr_char()], P),
    ]
    targets += [
        Target('read_string', [read_string(), read_u32(), read_char()], P),
        Target('read_vec_i32', [read_vec_i32(), read_u64(), read_i32()], P),
    ]
    targets += [
        Target('configurable_read', [configurable_read(), read_i32()], D + 'configurable.h'),
        Target('configurable_write', [configurable_write(), write_i32()], D + 'configurable.h'),
    ]
    targets += [
        Target('param_read_irange', [param_read('param_read_irange', 'range_t'), read_i64(), read_u32()], D + 'parameter.h'),
        Target('param_read_iprange', [param_read('param_read_iprange', 'pair_range_t'), read_i64(), read_u32()], D + 'parameter.h'),
    ]
    targets += [
        Target('param_write_irange', [param_write('param_write_irange', 'range_t'), write_i64(), write_u32(), write_i32()], D + 'parameter.h'),
        Target('param_write_iprange', [param_write('param_write_iprange', 'pair_range_t'), write_i64(), write_u32(), write_i32()], D + 'parameter.h'),
    ]
    targets += [
        Target('hash_combine', [hash_combine()], P),
        Target('hash_f64', [hash_fn('hash_f64', 'double'), hash_combine()], D + 'hash_f64.h'),
        Target('hash_i64', [hash_fn('hash_i64', 'long'), hash_combine()], D + 'hash_i64.h', checks=NOCONV),
    ]
    # ---- tensor readers / writers
    for tag, scalar, rank in INST:
        pre = f'{D}tensor_{tag}_{rank}.h'
        deps = lambda: [read_u32(), read_u64(), read_castn(), read_cast1(), read_i32(), rd_ptr('read_ptr_' + tag, scalar), hash_version()]
        targets.append(Target(f'tensor_read_{tag}_{rank}', [tensor_read('tensor_read', scalar, rank)] + deps(), pre, loops=0, unwind=NV_UNWIND, cbmc_flags=CADICAL, timeout=300))
        wdeps = [write_u32(), write_u64(), write_i32(), write_castn(), wr_ptr('write_ptr_' + tag, scalar), hash_version()]
        targets.append(Target(f'tensor_write_{tag}_{rank}', [tensor_write('tensor_write', scalar, rank)] + wdeps, pre, loops=0, unwind=NV_UNWIND, cbmc_flags=CADICAL))
        if rank <= 2:   # the obligations that pin the repair of the dims validation (they failed before 81b3596); rank 4 is covered by the main target
            targets.append(Target(f'tensor_read_dims_{tag}_{rank}', [tensor_read('tensor_read_dims', scalar, rank)] + deps(), pre, loops=0, unwind=NV_UNWIND, cbmc_flags=CADICAL))
    # the writer without the "dims fit int32" precondition, on the 1-byte scalar instance (a 2 GiB tensor): FAILS (genuine defect)
    targets.append(Target('tensor_write_dims_i8_1', [tensor_write('tensor_write_dims', 'signed char', 1), write_u32(), write_u64(), write_i32(), write_castn(),
                                                     wr_ptr('write_ptr_i8', 'signed char'), hash_version()], D + 'tensor_i8_1.h', loops=0, unwind=NV_UNWIND, cbmc_flags=CADICAL))
    # reader / writer symmetry of every serialisable class (field sequences derived from the ASTs of both bodies)
    sym_targets, sym_summary = symmetry.targets()
    targets += sym_targets
    import paramrw
    targets += paramrw.targets(tier)
    # the tensor reader once more, on back end B (integers with their own * and div): the dims guard in both directions
    import guard
    guard_vcs, guard_fns = guard.build(tier)
    return {
        'targets': targets, 'vcs': lemma_vcs() + guard_vcs, 'functions': guard_fns,
        'decided': [
            'tensor reader (double rank 1/2/4, int64 rank 1; NO assumption on the header dims since the repair 81b3596): the reader itself rejects a negative dimension and an overflowing '
            'element / byte count without touching the tensor (resize is reached at most once and only with validated dims); never reports good a stream that had failed or is short; accepted => version, rank, sizeof(scalar) '
            'were checked against the stream, every dim is the stored int32, size = nano::size(dims) >= 0, exactly header + size*sizeof bytes consumed (<= len), the stored hash was compared '
            'equal to hash(content) of exactly the payload slice, the tensor block holds that slice; istream::read always gets a non-negative count and a destination of that many bytes',
            'lemma (SMT, from the proved contracts): every strict prefix of a written tensor stream is rejected; reading a written stream consumes it exactly and yields its dims',
            'tensor writer: success => the field sequence is version 0, rank, each dim as int32, sizeof(scalar), hash(content), content -- same offsets/widths (shared layout macros) as the reader consumes; '
            'failure is sticky; ostream::write always gets a non-negative count and a readable source of that size',
            'core/stream.h: read/write of scalars, arrays, read_cast/write_cast (symbolic count, loop contracts), read(string), read(vector<int32>): exact bytes consumed, values = stored values, '
            'failure and truncation propagate (never good after a short or failed read)',
            'detail::hash: memory safe, terminates, hash of nothing is 0, one element = hash_combine(0, bits); hash_combine injective in its second argument',
            'reader/writer SYMMETRY of configurable_t, learner_t, feature_t, linear_t, gboost_model_t, single-feature / stump / hinge / table / dtree weak learners and dtree_node_t: each real body, '
            'executed with every field transfer replaced by a logging stub, transfers exactly the field sequence found in the AST of its counterpart (same members, overloads / wire types, order), '
            'succeeds only after all of them and never returns normally with a failed stream.  Sequences found on this run: ' + ' || '.join(sym_summary),
            'configurable_t::read/write: truncated / failed / newer-version stream => exception, normal return => stream good, versions stored in order, parameter list read once right after them; '
            'a complete header of the same or an older version always reaches the parameter list',
            'parameter range readers/writers (src/parameter.cpp, int64 range and pair range): throw unless every field was transferred on a good stream; members <-> wire fields in the same order '
            'in reader and writer (value(s), min, max, minLE, maxLE[, valueLE]); write(string_view): uint32 length + chars',
            'tensor writer (repair c547eaf): a dimension above INT32_MAX => failbit and nothing written; dims that fit are never refused by that guard; no precondition on the magnitude of dims',
            'lemma (SMT): dims that pass the reader\'s division guard have an exact product <= max_size and every running product fits int64 (ranks 1-4, sizeof 8 and 1)',
            'tensor reader on back end B (specs/C15/guard.py; SMT over Int, the real body of nano::read(istream&, tensor_t&) for double rank 2/3 and int8 rank 1, thorough: + double rank 1/4, int64 rank 1, int8 rank 3; '
            'both dims loops executed exactly (constant bound trank; the early exit `&& !empty` of the overflow guard is followed path by path), products and quotients are the integers\' own): SOUNDNESS accepted => version / rank / sizeof(scalar) are the writer\'s, every dim >= 0, '
            'sizeof * prod(dims) fits int64, exactly header + sizeof * prod(dims) bytes consumed (all supplied), stored hash == hash(payload slice); ROUND TRIP accepted => dims[k] of the tensor is the dim of '
            'the stream and size() is their product FOR EVERY PRIOR CONTENT of the destination (any dims / size / block, also a moved-from object); COMPLETENESS (NON-EMPTY and EMPTY tensors, separate obligations) a valid header passes the guard '
            '(payload read attempted once, at the end of the header, with count == prod(dims)) and a valid complete stream with a matching hash is ACCEPTED -- a stricter guard (> -> >=) fails these; '
            'DEFINEDNESS every division by a header-derived value has a non-zero divisor, `total *= dims[i]` never overflows, no value-changing conversion; resize is reached at most once and only with validated '
            'dims, a rejected header leaves the tensor untouched; istream::read gets a non-negative count and a block of that many scalars',
            'parameter_t::read / write (src/parameter.cpp; specs/C15/paramrw.py, param_rw.h; variant storage as {index, a1..a6}, std::visit / switch extracted arm by arm): '
            'parameter_roundtrip_alt<k> (one target per alternative written; quick tier: empty, enum, scalar pair range; thorough: all seven) = the property itself on both real bodies inlined down to istream::read / ostream::write: for EVERY well-formed parameter p (any alternative) and EVERY prior content of the '
            'destination q, write(p) then read(q) yields q == p -- same alternative (an empty parameter resets a used object), name, every member of the active record (doubles by bit pattern), enum value and domain, '
            'string value -- consumes exactly the bytes and as many fields as were written, and does not throw unless an allocation fails; '
            'parameter_read (any stream, any destination): failed stream => exception, normal return => stream good, unknown tag => exception, normal return => -1 <= tag <= 5 and the ACTIVE ALTERNATIVE IS THE ONE OF THE TAG '
            '(index == tag + 1) whatever the destination held before, the name is the stored one; '
            'parameter_write (contract enforced): old failure => exception, normal return => good; tag == index - 1, name (length, chars), then per alternative exactly the fields of the shared layout table '
            '(NV_REC_OFF / NV_REC_W / NV_PAR_NFIELDS: offsets, widths, count) with the members as values in wire order; enum: value string then domain vector; string: value string',
            'double-valued range helpers ::read / ::write (range_t<double>, pair_range_t<double>) and read(double&) / write(double): same contracts as the int64 ones, values compared by bit pattern '
            '(targets read_f64, write_f64, param_read_frange, param_read_fprange, param_write_frange, param_write_fprange): short / failed stream => exception, members <-> wire fields in the layout table\'s order',
            'repair of FINDING_empty_tensor_rejected.md (known_findings.txt `fixed:`): the COMPLETENESS (EMPTY tensor) obligations are PROVED on the repaired reader (an empty shape skips the overflow guard) and '
            'REFUTED on the reader before the repair (tensor_reader_smt_f64_3, natively replayed by replay/C15_empty_tensor_demo.cpp): they are the regression test of the repair; '
            'lemma (SMT): non-negative dimensions one of which is 0 multiply to 0 (ranks 1-4)',
            'tensor_read_dims_* and tensor_write_dims_i8_1 pin the two repaired defects: on the pre-fix library (72b52bf) they fail and replay natively (negative count handed to istream::read; '
            'header dim -2^31 for a 2^31-element tensor)',
        ],
        'not_decided': [
            'bit-identical predictions of re-read models (object graphs: learners, gboost, wlearners)',
            'detection of altered payload bytes is only as strong as the 64-bit hash: proved is that the comparison is made on exactly the payload, not that collisions are impossible',
            'header corruption is not covered by the hash at all (a corrupted dim of an empty tensor is accepted: format property, shown natively in the replay)',
            'residual after the repairs: nano::size multiplies right-to-left; an EMPTY shape is accepted whatever its other dims are (that is the repair of the empty-tensor rejection), so header dims (0, 2^31-1, 2^31-1, 2^31-1) and the inner product '
            'overflows int64 inside detail::product (undefined behaviour by the letter, UBSan reports it; the result is multiplied by 0, size() = 0) -- recorded as an assumption, not an obligation',
            'symmetry says nothing about a member that BOTH bodies forget, nor about the values transferred (only which field goes through which overload in which order)',
            'parameter_t::read against an ARBITRARY stream, per arm (every member == the field at its wire offset; exactly the tag\'s layout consumed, hence a truncated record throws at this level; completeness): '
            'written as assertions (git history of specs/C15/paramrw.py) but CBMC did not finish in 300 s, so they are NOT claimed; what stands in: the round trip on written streams, the range helpers\' own '
            'contracts (short => exception, members == fields) and the protocol clauses of parameter_read.  The AST-level symmetry walker still refuses branches (parameter_t is covered by the targets above instead)',
            'read() stores the record from the stream WITHOUT the domain check: a corrupted but complete stream yields any record -- min > max, value outside [min, max], value1 > value2, NaN / inf bounds and values, '
            'an enum value that is not in its domain, an empty domain -- i.e. parameter_t objects that no constructor or assignment would accept (proved shape: members == stored fields; nothing more is checked by the code)',
            'read(unique_ptr<T>) (factory lookup), write(vector<T>) (std::any_of + lambda), read(vector<string>): here ASSUMED contracts (stubs nv_read_pstrs / nv_write_pstrs); feature / learner / model readers: '
            'per-field critical(!read...) pattern and symmetry only; completeness of the member lists against the class definitions (task d) not done',
        ],
        'assumptions': [
            'std::istream::read(dst, n): failed stream extracts nothing; if len-pos >= n stores the n bytes at pos and advances, else sets fail and never reads at or beyond len (stub nv_istream_read)',
            'std::ostream::write(src, n): failed stream inserts nothing; otherwise appends n bytes or fails (stub nv_ostream_write)',
            'stream content is an arbitrary fixed function offset -> value (1/4/8-byte views unrelated); payload blocks are represented by a ghost content identity, their memory is not modelled',
            'detail::hash(data, n) is a deterministic function of the content of data[0,n) (uninterpreted), 0 for n <= 0 (that clause is proved on the real hash)',
            'tensor resize(dims): size() becomes nano::size(dims) (uninterpreted for rank >= 2; the exact product, >= 0, when all dims >= 0 and the product fits int64 -- also if an intermediate '
            'product of its right-to-left evaluation wraps; 0 when all dims >= 0 and one of them is 0: SMT lemma zero_dim_rank*), throws bad_alloc above 2^47 bytes or at will, negative size leaves a null block (release build), success gives a fresh block of size() scalars',
            'int64 * and / (non-constant divisor) of the reader are uninterpreted in CBMC (nv_imul / nv_idiv, with x*1, x*0 exact and the divisor asserted non-zero); the one arithmetic fact used '
            '(guard passed => exact bounded product) is assumed in nv_tensor_resize on the guard loop\'s own terms and proved by the SMT VCs lemma/guard_rank*',
            'tensor writer precondition: the tensor is a live object (dims >= 0, size() scalars at data())',
            'std::string / std::vector resize(n): throws or holds exactly n elements; containers abstracted to the element at a ghost index',
            'read/write of std::vector<parameter_t> inside configurable_t: throws, fails or consumes >= 8 bytes (stub nv_read_parameters / nv_write_parameters)',
            'nano::major/minor/patch_version are arbitrary constants',
            'symmetry targets: one transfer of a field (::nano::read / ::nano::write, any overload) on a failed stream does nothing, otherwise succeeds or sets failbit (at any field); a base class '
            'read/write returns normally only with a good stream (it is itself a symmetry target); every class type other than the stream is erased (struct nv_opaque), expressions over erased '
            'values are arbitrary; field identity = (member or variable name without m_, wire type of the resolved overload / explicit read_cast-write_cast template argument)',
            'make_comp(flag) = flag != 0 ? LE : LT, make_flag(comp) = comp is LE ? 1 : 0 (one-liners over std::variant, stubs nv_make_comp / nv_make_flag)',
            'nano::write(stream, string_view) inside the parameter writers: two fields (length, chars) or failure (stub nv_write_name; the real function is verified in target write_string)',
            'write(string_view) precondition: the length fits the uint32 it is stored in',
            'x86-64 little endian; int = 32, long = 64 bits (type_facts.cpp)',
            'back end B reader (guard.py): callees replaced by the contracts PROVED for them by the CBMC targets (read_u32 / read_u64 / read_cast_n / read_ptr_*: accepted <=> good and enough bytes, value = stored value, '
            'position advances by exactly the width; the payload read contract is used for counts up to 2^47 / sizeof, CBMC proves it for counts <= 2^40: size bound); tensor resize / size / data as in tensor.h with '
            'nano::size(dims) = the mathematical product (C16 proves nano::size; right-to-left wrap of intermediate products as above); std::bad_alloc leaves the function (no claim about the tensor then); '
            'detail::hash_version() is executed in place; sizeof(T) from the x86-64 table',
            'parameter targets: std::string = (content identity, length), std::vector<std::string> = (content identity, serialised size in [8, 2^46 + 8)); nano::read / nano::write of a string / string vector are stubs '
            '(nv_read_pstr / nv_read_pstrs / nv_write_pstr / nv_write_pstrs): failed stream does nothing, short => fail, resize may throw, accepted => stored value and exact byte count; '
            'parameter_roundtrip: the bytes appended by ostream::write DEFINE the content istream::read sees at the same offsets (std::stringstream; assume sites in nv_ostream_write / nv_write_pstr* under NV_ROUNDTRIP, '
            'guarded by the harness canary); string lengths fit uint32; LEorLT flags are 0 / 1 (a two-alternative variant is never valueless); an exception thrown by a stub lets execution continue with nv_thrown set '
            '(over-approximation: every later obligation is still checked, postconditions are guarded by nv_thrown)',
            'size bounds that keep position arithmetic inside int64: stream length <= 2^46 bytes, element counts <= 2^40, allocations above 2^47 bytes throw',
        ],
        'trusted': [],
    }


def replay(rp):
    """tensor_read_dims_*: the dims of the verifier's counterexample (values stored by resize()) are put into a real stream
    and fed to the real nano::read through a stream buffer that logs the counts istream::read hands down; then the
    canonical wrap / sign witnesses for rank 2 and 4.  Other targets: no native driver (verifier output only)."""
    import re
    import replaylib
    out = {'reproduced': False, 'runs': []}
    simple = {'read_string': 'string_reuse', 'read_vec_i32': 'string_reuse', 'hash_f64': 'payload_bits', 'hash_combine': 'payload_bits'}
    if rp.get('target') in simple:
        exe = replaylib.build_header_only('replay/C15_replay.cpp', 'C15_replay')
        rc, so, se = replaylib.run_driver(exe, [simple[rp['target']]])
        out['runs'].append({'scenario': simple[rp['target']], 'exit': rc, 'output': so.strip()})
        out['reproduced'] = rc == 1
        return out
    if rp.get('target', '').startswith('tensor_reader_smt') and any('EMPTY tensor' in fo['id'] for fo in rp['failed_obligations']):
        # FINDING_empty_tensor_rejected.md: write -> read of empty tensors with large leading dimensions on the real headers
        exe = replaylib.build_header_only('replay/C15_empty_tensor_demo.cpp', 'C15_empty_tensor_demo')
        rc, so, se = replaylib.run_driver(exe, [])
        out['runs'].append({'scenario': 'write -> read of empty tensors (1073741825 x 1073741825 x 0 doubles, ...)', 'exit': rc, 'output': so.strip()})
        out['reproduced'] = rc == 1
        return out
    if rp.get('target', '').startswith('sym_'):
        # reader / writer symmetry: round trip + every strict prefix of configured objects on the real library (needs a build)
        exe = replaylib.build_with_library('replay/C15_model_replay.cpp', 'C15_model_replay')
        rc, so, se = replaylib.run_driver(exe, [], timeout=600)
        out['runs'].append({'scenario': 'write -> read -> write and every strict prefix, real library', 'exit': rc, 'output': so.strip()[:4000]})
        out['reproduced'] = rc == 1
        return out
    if rp.get('target', '').startswith('tensor_write'):
        # (every tensor writer target: the same template; natively only the 1-byte scalar instance is small enough to build)
        # the verifier's dimension if a block of that many bytes can be mapped here (<= 4 GiB), then the smallest one: 2^31
        out['note'] = 'replayed on tensor_mem_t<int8_t, 1> (same writer template): a rank-1 tensor of that many one-byte scalars'
        exe = replaylib.build_header_only('replay/C15_replay.cpp', 'C15_replay')
        cands = []
        for fo in rp['failed_obligations']:
            for k, v in (fo.get('counterexample') or {}).items():
                if re.search(r'm_dims\.d\[0l?\]$', k):
                    try:
                        d = int(str(v).rstrip('l'))
                        if 2147483648 <= d <= 4294967296 and d not in cands:
                            cands.append(d)
                    except ValueError:
                        pass
        if 2147483648 not in cands:
            cands.append(2147483648)
        for d in cands:
            try:
                rc, so, se = replaylib.run_driver(exe, ['big_dim', d], timeout=300)
            except Exception as e:
                out['runs'].append({'dim': d, 'error': repr(e)})
                continue
            out['runs'].append({'dim': d, 'exit': rc, 'output': so.strip()})
            if rc == 1:
                out['reproduced'] = True
        return out
    m = re.match(r'tensor_read(_dims)?_(f64|i64)_(\d)$', rp.get('target', ''))
    if not m:
        out['note'] = 'no native driver for this target: the replay file carries the verifier output only'
        return out
    tag, rank = m.group(2), int(m.group(3))
    exe = replaylib.build_header_only('replay/C15_replay.cpp', 'C15_replay')
    cands = []
    for fo in rp['failed_obligations']:
        ce = fo.get('counterexample') or {}
        dims = {}
        for k, v in ce.items():
            mm = re.search(r'nv_tensor_resize::dynamic_object\$\d+\.m_dims\.d\[(\d)l?\]$', k)
            if mm:
                try:
                    dims[int(mm.group(1))] = int(str(v).rstrip('l'))
                except ValueError:
                    pass
        if len(dims) == rank:
            cands.append((fo['id'], [dims[k] for k in range(rank)]))
    # canonical witnesses of the same defect (dims are not validated): sign pair / int64 wrap to 0
    extra = {1: [[-5]], 2: [[-2, -3], [-2147483648, 1073741824]], 4: [[65536, 65536, 65536, 65536], [-1, -1, 2, 3]]}
    for d in extra.get(rank, []):
        cands.append(('canonical witness', d))
    for oid, d in cands:
        try:
            rc, so, se = replaylib.run_driver(exe, ['tensor', tag, rank] + d)
        except Exception as e:
            out['runs'].append({'obligation': oid, 'dims': d, 'error': repr(e)})
            continue
        out['runs'].append({'obligation': oid, 'dims': d, 'exit': rc, 'output': so.strip()})
        if rc == 1:
            out['reproduced'] = True
    try:
        rc, so, se = replaylib.run_driver(exe, ['corrupt_dim'])
        out['header_corruption_of_empty_tensor'] = {'exit': rc, 'output': so.strip()}
    except Exception as e:
        out['header_corruption_of_empty_tensor'] = {'error': repr(e)}
    return out
