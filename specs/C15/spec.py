"""C15: serialization round-trips; truncated / corrupted streams are rejected.

Verified text: the real templates of include/nano/tensor/stream.h and include/nano/core/stream.h, instantiated by
drivers/inst_stream.cpp and extracted by clang on every run.  std::istream / std::ostream are the byte-stream model of
specs/C15/stream.h (assumed contract of istream::read / ostream::write), detail::hash is uninterpreted.
"""
import astload
from core import Fn, Target, VC

TU = 'drivers/inst_stream.cpp'
D = 'specs/C15/'


def targs(*want):
    return lambda d: astload.template_args(d) == list(want)


def ptypes(*want):
    return lambda d: astload.param_types(d) == list(want) and astload.template_args(d) != []


# ------------------------------------------------------------------------------------------------ type models
T_COMMON = [(r'tdims$|^std::array<long, \d+>', 'struct nv_dims'),
            (r'tensor_t<nano::tensor_vector_storage_t, (double|long), \d|tensor_vector_storage_t<(double|long), \d|tensor_base_t<(double|long), \d', 'struct nv_tensor'),
            (r'ios_base::iostate$|_Ios_Iostate$', 'int32_t'),
            (r'Matrix<(double|long), -1, 1, 0.*>::Scalar$', 'NV_SCALAR')]
T_STL = [(r'^std::string$|^std::basic_string<char>$', 'struct nv_string'), (r'^std::vector<int>$', 'struct nv_vec_i32'),
         (r'basic_string<char>::iterator$|__normal_iterator<char \*', 'struct nv_sit'), (r'vector<int>::iterator$|__normal_iterator<int \*', 'struct nv_vit'),
         (r'basic_string<char>::size_type$', 'uint64_t')]
T_IN = T_STL + [(r'basic_istream<char|^std::istream$|basic_ios<char', 'struct nv_istream')] + T_COMMON
T_OUT = [(r'basic_ostream<char|^std::ostream$|basic_ios<char', 'struct nv_ostream')] + T_COMMON

# ------------------------------------------------------------------------------------------------ call maps (reader)
# functions returning std::istream& print as functions returning a pointer: a call denotes the object -> (*f(...))
C_IN = [(r'^read\|std::istream &\(std::istream &, unsigned int &\)', '(*read_u32({&0}, {&1}))'),
        (r'^read\|std::istream &\(std::istream &, int &\)', '(*read_i32({&0}, {&1}))'),
        (r'^read\|std::istream &\(std::istream &, unsigned long &\)', '(*read_u64({&0}, {&1}))'),
        (r'^read\|std::istream &\(std::istream &, char &\)', '(*read_char({&0}, {&1}))'),
        (r'^read\|std::istream &\(std::istream &, double \*, long\)', '(*read_ptr_f64({&0}, {1}, {2}))'),
        (r'^read\|std::istream &\(std::istream &, long \*, long\)', '(*read_ptr_i64({&0}, {1}, {2}))'),
        (r'^read_cast\|std::istream &\(std::istream &, long &\)', '(*read_cast_i32_i64({&0}, {&1}))'),
        (r'^read_cast\|std::istream &\(std::istream &, long \*, const unsigned long\)', '(*read_cast_n({&0}, {1}, {2}))'),
        (r'^read\|std::istream &\(std::istream &, std::string &\)', '(*read_string({&0}, {&1}))'),
        (r'^operator!\|bool \(\) const\|std::basic_ios<char>', 'nv_ios_not({&0})'),
        (r'^operator!=\|bool \(const __normal_iterator', '({0}.i != {1}.i)'),
        (r'^operator\+\+\|.*__normal_iterator', '(++{0}.i)'),
        (r'^operator\*\|.*__normal_iterator<char', '(*nv_sit_deref({&0}))'),
        (r'^operator\*\|.*__normal_iterator<int', '(*nv_vit_deref({&0}))'),
        (r'^hash_version\|', 'hash_version()'),
        (r'^hash\|uint64_t \(const (double|long) \*, const long\)', 'nv_hash({0}, {1})')]
M_IN = [(r'^begin\|std::(string|basic_string<char>)', 'nv_string_begin({self})'), (r'^end\|std::(string|basic_string<char>)', 'nv_string_end({self})'),
        (r'^begin\|std::vector<int>', 'nv_vec_i32_begin({self})'), (r'^end\|std::vector<int>', 'nv_vec_i32_end({self})'),
        (r'^resize\|std::(string|basic_string<char>)', 'nv_string_resize({self}, {0})!'),
        (r'^resize\|std::vector<int>', 'nv_vec_i32_resize({self}, {0})!'),
        (r'^setstate\|std::basic_ios<char>', 'nv_ios_setstate({self}, {0})'),
        (r'^read\|std::(basic_)?istream', '(*nv_istream_read({self}, {0}, {1}))'),
        (r'^data\|std::array<long', '{self}->d'),
        (r'^resize\|nano::tensor_vector_storage_t', 'nv_tensor_resize({self}, {&0})!'),
        (r'^data\|nano::tensor_vector_storage_t', 'nv_tensor_data({self})'),
        (r'^size\|nano::tensor_base_t', 'nv_tensor_size({self})'),
        (r'^dims\|nano::tensor_base_t', '{self}->m_dims')]
IN = dict(types=T_IN, calls=C_IN, members=M_IN, uf_float=False)


def rd_scalar(cname, cxx):
    return Fn(cname, TU, 'read', flt='nano::read', select=ptypes('std::istream &', cxx + ' &'), **IN)


def rd_ptr(cname, cxx):
    return Fn(cname, TU, 'read', flt='nano::read', select=ptypes('std::istream &', cxx + ' *', 'long'), **IN)


def read_u32(): return rd_scalar('read_u32', 'unsigned int')
def read_i32(): return rd_scalar('read_i32', 'int')
def read_u64(): return rd_scalar('read_u64', 'unsigned long')
def read_char(): return rd_scalar('read_char', 'char')
def read_cast1(): return Fn('read_cast_i32_i64', TU, 'read_cast', flt='nano::read_cast', select=ptypes('std::istream &', 'long &'), **IN)
def read_castn(): return Fn('read_cast_n', TU, 'read_cast', flt='nano::read_cast', select=ptypes('std::istream &', 'long *', 'const unsigned long'), **IN)
def hash_version(): return Fn('hash_version', TU, 'hash_version', flt='nano::detail::hash_version', uf_float=False)


# ------------------------------------------------------------------------------------------------ call maps (writer)
C_OUT = [(r'^write\|std::ostream &\(std::ostream &, unsigned int\)', '(*write_u32({&0}, {1}))'),
         (r'^write\|std::ostream &\(std::ostream &, int\)', '(*write_i32({&0}, {1}))'),
         (r'^write\|std::ostream &\(std::ostream &, unsigned long\)', '(*write_u64({&0}, {1}))'),
         (r'^write\|std::ostream &\(std::ostream &, const double \*, const long\)', '(*write_ptr_f64({&0}, {1}, {2}))'),
         (r'^write\|std::ostream &\(std::ostream &, const long \*, const long\)', '(*write_ptr_i64({&0}, {1}, {2}))'),
         (r'^write_cast\|std::ostream &\(std::ostream &, const long \*, const unsigned long\)', '(*write_cast_n({&0}, {1}, {2}))'),
         (r'^operator!\|bool \(\) const\|std::basic_ios<char>', 'nv_oios_not({&0})'),
         (r'^hash_version\|', 'hash_version()'),
         (r'^hash\|uint64_t \(const (double|long) \*, const long\)', 'nv_hash({0}, {1})')]
M_OUT = [(r'^setstate\|std::basic_ios<char>', 'nv_oios_setstate({self}, {0})'),
         (r'^write\|std::(basic_)?ostream', '(*nv_ostream_write({self}, {0}, {1}))'),
         (r'^data\|std::array<long', '{self}->d'),
         (r'^data\|nano::tensor_vector_storage_t', 'nv_tensor_data({self})'),
         (r'^size\|nano::tensor_base_t', 'nv_tensor_size({self})'),
         (r'^dims\|nano::tensor_base_t', '(*{self}).m_dims')]
OUT = dict(types=T_OUT, calls=C_OUT, members=M_OUT, uf_float=False)


def wr_scalar(cname, cxx):
    return Fn(cname, TU, 'write', flt='nano::write', select=ptypes('std::ostream &', cxx), **OUT)


def wr_ptr(cname, cxx):
    return Fn(cname, TU, 'write', flt='nano::write', select=ptypes('std::ostream &', 'const ' + cxx + ' *', 'const long'), **OUT)


def write_u32(): return wr_scalar('write_u32', 'unsigned int')
def write_i32(): return wr_scalar('write_i32', 'int')
def write_u64(): return wr_scalar('write_u64', 'unsigned long')
def write_castn(): return Fn('write_cast_n', TU, 'write_cast', flt='nano::write_cast', select=ptypes('std::ostream &', 'const long *', 'const unsigned long'), **OUT)


def tensor_write(cname, scalar, rank):
    return Fn(cname, TU, 'write', flt='nano::write', select=targs('?', scalar, str(rank)), **OUT)


def read_string(): return Fn('read_string', TU, 'read', flt='nano::read', select=lambda d: astload.param_types(d) == ['std::istream &', 'std::string &'], **IN)
def read_vec_i32(): return Fn('read_vec_i32', TU, 'read', flt='nano::read', select=ptypes('std::istream &', 'std::vector<int> &'), **IN)
def hash_combine(): return Fn('hash_combine', TU, 'hash_combine', flt='nano::detail::hash_combine', uf_float=False)
def hash_fn(cname, scalar):
    return Fn(cname, TU, 'hash', flt='nano::detail::hash', select=targs(scalar, 'long'), uf_float=False,
              calls=[(r'^hash_combine\|', 'hash_combine({0}, {1})')])


def tensor_read(cname, scalar, rank):
    return Fn(cname, TU, 'read', flt='nano::read', select=targs('?', scalar, str(rank)), **IN)


CADICAL = ['--sat-solver', 'cadical']
NV_UNWIND = 6   # > max rank + 1: the dims loops of read_cast / write_cast are unwound completely (unwinding assertions on)
INST = [('f64', 'double', 1), ('f64', 'double', 2), ('f64', 'double', 4), ('i64', 'long', 1)]


def build(tier):
    targets = []
    P = D + 'core.h'
    # ---- core readers (one unit each; the tensor reader inlines the scalar ones and uses read_cast_n by contract)
    targets += [
        Target('read_u32', [read_u32()], P),
        Target('read_u64', [read_u64()], P),
        Target('read_cast_i32_i64', [read_cast1(), read_i32()], P),
        Target('read_cast_n', [read_castn(), read_cast1(), read_i32()], P),
        Target('read_ptr_f64', [rd_ptr('read_ptr_f64', 'double')], P),
    ]
    NOCONV = ['--bounds-check', '--pointer-check', '--div-by-zero-check', '--signed-overflow-check', '--pointer-overflow-check']
    targets += [
        Target('write_u32', [write_u32()], P),
        Target('write_u64', [write_u64()], P),
        Target('write_i32', [write_i32()], P),
        # write_cast narrows by design (static_cast<int32_t>): the contract says so, hence no conversion check here; the
        # tensor writer targets keep it on and discharge it from the stated dims < 2^31 precondition
        Target('write_cast_n', [write_castn(), write_i32()], P, checks=NOCONV),
        Target('write_ptr_f64', [wr_ptr('write_ptr_f64', 'double')], P),
    ]
    targets += [
        Target('read_string', [read_string(), read_u32(), read_char()], P),
        Target('read_vec_i32', [read_vec_i32(), read_u64(), read_i32()], P),
    ]
    targets += [
        Target('hash_combine', [hash_combine()], P),
        Target('hash_f64', [hash_fn('hash_f64', 'double'), hash_combine()], D + 'hash_f64.h'),
        Target('hash_i64', [hash_fn('hash_i64', 'long'), hash_combine()], D + 'hash_i64.h', checks=NOCONV),
    ]
    # ---- tensor readers / writers
    for tag, scalar, rank in INST:
        pre = f'{D}tensor_{tag}_{rank}.h'
        deps = lambda: [read_u32(), read_u64(), read_castn(), read_cast1(), read_i32(), rd_ptr('read_ptr_' + tag, scalar), hash_version()]
        targets.append(Target(f'tensor_read_{tag}_{rank}', [tensor_read('tensor_read', scalar, rank)] + deps(), pre, loops=0, unwind=NV_UNWIND, cbmc_flags=CADICAL))
        wdeps = [write_u32(), write_u64(), write_i32(), write_castn(), wr_ptr('write_ptr_' + tag, scalar), hash_version()]
        targets.append(Target(f'tensor_write_{tag}_{rank}', [tensor_write('tensor_write', scalar, rank)] + wdeps, pre, loops=0, unwind=NV_UNWIND, cbmc_flags=CADICAL))
        if rank == 1:   # exact arithmetic (no product); for rank >= 2 the product is uninterpreted and a counterexample could be spurious
            targets.append(Target(f'tensor_read_dims_{tag}_{rank}', [tensor_read('tensor_read_dims', scalar, rank)] + deps(), pre, loops=0, unwind=NV_UNWIND, cbmc_flags=CADICAL))
    return {
        'targets': targets, 'vcs': [],
        'decided': [],
        'not_decided': [],
        'assumptions': [],
        'trusted': [],
    }
