/* C15: tensor wire format  version(4) rank(4) dims(4 x rank, int32) sizeof(scalar)(4) hash(content)(8) content.
 * Parameterised by NV_RANK and NV_SCALAR (set by the including tensor_<scalar>_<rank>.h).
 *
 * tensor_t<tensor_vector_storage_t, scalar, rank>  ->  struct nv_tensor { m_dims, data, size }   where
 *   size  models  tensor.size() == nano::size(m_dims)   (recomputed from m_dims on every call in the real code: a
 *   deterministic function of the dims, set together with them by resize()),  data models m_data.data(). */
#ifndef NV_C15_TENSOR_H
#define NV_C15_TENSOR_H
#include "stream.h"
#include <stdlib.h>

struct nv_dims { int64_t d[NV_RANK]; };
struct nv_tensor { struct nv_dims m_dims; NV_SCALAR* data; int64_t size; };
#define NV_SZ ((int64_t)sizeof(NV_SCALAR))
#define NV_HDR (20 + 4 * NV_RANK)      /* bytes before the content */
#define NV_MAXALLOC (1LL << 47)        /* x86-64 user address space: a larger allocation always throws std::bad_alloc */

/* ghost nv_size_exact (stream.h): "the size computed by the last resize() is the exact mathematical product of
 * non-negative dimensions" */

static uint64_t nv_hash(const NV_SCALAR* data, int64_t count) { return nv_hash_any(data, count, NV_SZ); }

/* nano::size(dims) = detail::product<0>(dims) = d0 * (d1 * (d2 * ...)) in int64.  For rank 1 it is d0 itself.  For rank >= 2 the
 * product is kept UNINTERPRETED (CBMC cannot bit-blast 64-bit multipliers, DESIGN 2.4; the index arithmetic itself is
 * C16's business): NV_SIZE_UF is "the value nano::size returns" (a deterministic function of the dims, whatever happens
 * on overflow) and NV_PRODOK_UF is "no partial product overflows int64".  The only arithmetic fact used is
 *   every dim >= 0 and no overflow  ==>  nano::size(dims) >= 0          (assumed; true of the integers). */
int64_t __CPROVER_uninterpreted_size(int64_t, int64_t, int64_t, int64_t);
_Bool __CPROVER_uninterpreted_prodok(int64_t, int64_t, int64_t, int64_t);
#if NV_RANK == 1
#define NV_DIMS4(f, d) f((d)[0], 0, 0, 0)
#define NV_SIZE_OF(d) ((d)[0])
#define NV_EXACT_OF(d) ((d)[0] >= 0)
#define NV_NONNEG(d) ((d)[0] >= 0)
#define NV_HASZERO(d) ((d)[0] == 0)
#elif NV_RANK == 2
#define NV_DIMS4(f, d) f((d)[0], (d)[1], 0, 0)
#define NV_NONNEG(d) ((d)[0] >= 0 && (d)[1] >= 0)
#define NV_HASZERO(d) ((d)[0] == 0 || (d)[1] == 0)
#elif NV_RANK == 3
#define NV_DIMS4(f, d) f((d)[0], (d)[1], (d)[2], 0)
#define NV_NONNEG(d) ((d)[0] >= 0 && (d)[1] >= 0 && (d)[2] >= 0)
#define NV_HASZERO(d) ((d)[0] == 0 || (d)[1] == 0 || (d)[2] == 0)
#elif NV_RANK == 4
#define NV_DIMS4(f, d) f((d)[0], (d)[1], (d)[2], (d)[3])
#define NV_NONNEG(d) ((d)[0] >= 0 && (d)[1] >= 0 && (d)[2] >= 0 && (d)[3] >= 0)
#define NV_HASZERO(d) ((d)[0] == 0 || (d)[1] == 0 || (d)[2] == 0 || (d)[3] == 0)
#else
#error "rank > 4 not instantiated"
#endif
#if NV_RANK >= 2
#define NV_SIZE_OF(d) NV_DIMS4(__CPROVER_uninterpreted_size, d)
#define NV_EXACT_OF(d) (NV_NONNEG(d) && NV_DIMS4(__CPROVER_uninterpreted_prodok, d))
#endif

/* int64 products and quotients of the extracted code (spec.py: int_muldiv_hook) are uninterpreted apart from the trivial
 * cases; nv_idiv carries the definedness obligation of the division. */
int64_t __CPROVER_uninterpreted_imul(int64_t, int64_t);
int64_t __CPROVER_uninterpreted_idiv(int64_t, int64_t);
static int64_t nv_imul(int64_t a, int64_t b)
{
  if (a == 1) return b;
  if (b == 1) return a;
  if (a == 0 || b == 0) return 0;
  return __CPROVER_uninterpreted_imul(a, b);
}
static int64_t nv_idiv(int64_t a, int64_t b)
{
  __CPROVER_assert(b != 0 && !(a == INT64_MIN && b == -1), "C15 integer division is defined (non-zero divisor, no INT64_MIN / -1)");
  return __CPROVER_uninterpreted_idiv(a, b);
}
#define NV_M (INT64_MAX / NV_SZ)      /* the reader's max_size */

/* ASSUMED contract of tensor_vector_storage_t::resize(dims):  m_dims = dims; m_data.resize(nano::size(dims)).
 *  - ghost nv_size_exact records "every dimension >= 0 and the product fits int64", in which case nano::size(dims) is that
 *    product (two's complement: also when an intermediate product of nano::size's right-to-left evaluation wraps, which
 *    after the repair needs a zero dimension in front of huge ones -- formally undefined behaviour, reported) and >= 0.
 *  - ARITHMETIC LEMMA (proved by the SMT VCs lemma/guard_rank*, instantiated here on the terms the reader's own guard
 *    loop builds): if the dims pass  d_k >= 0 and not (d_k > 0 and t_k > M / d_k)  with  t_0 = 1, t_{k+1} = t_k * d_k,
 *    then no t_k overflows, the product is exact, equals t_rank and is <= M.
 *  - Eigen's resize throws std::bad_alloc when size * sizeof(scalar) exceeds the address space or when the allocation
 *    fails (may always happen).  A negative size is *not* rejected in a release build (eigen_assert is compiled out
 *    under NDEBUG; without NDEBUG it aborts the process): the block is released and data() becomes null.
 *  - on success data() points to a fresh block of exactly size() scalars. */
static void nv_tensor_resize(struct nv_tensor* t, const struct nv_dims* dims)
{
  int64_t p = NV_SIZE_OF(dims->d);
  _Bool exact = NV_EXACT_OF(dims->d);
  if (exact) __CPROVER_assume(p >= 0);
  {
    _Bool g = 1; int64_t run = 1;
#define NV_GSTEP(k) if (!(dims->d[k] >= 0 && !(dims->d[k] > 0 && run > __CPROVER_uninterpreted_idiv(NV_M, dims->d[k])))) g = 0; run = nv_imul(run, dims->d[k]);
    NV_GSTEP(0)
#if NV_RANK >= 2
    NV_GSTEP(1)
#endif
#if NV_RANK >= 3
    NV_GSTEP(2)
#endif
#if NV_RANK >= 4
    NV_GSTEP(3)
#endif
    if (g) __CPROVER_assume(exact && p == run && p <= NV_M);
  }
  /* ARITHMETIC FACT (true of the integers and of two's complement products, also when an intermediate product wraps): non-negative
   * dimensions one of which is 0 multiply to 0.  Needed since the repair of the reader's guard (empty tensors skip the overflow
   * guard, FINDING_empty_tensor_rejected.md): an empty shape with huge leading dimensions now reaches resize. */
  if (NV_NONNEG(dims->d) && NV_HASZERO(dims->d)) __CPROVER_assume(exact && p == 0);
  t->m_dims = *dims;
  t->size = p;
  nv_size_exact = exact;
  nv_resizes = nv_resizes + 1;
  if (p > NV_MAXALLOC / NV_SZ || nv_nondet__Bool()) { nv_thrown = 1; t->data = NULL; return; }
  if (p <= 0) { t->data = NULL; return; }
  t->data = (NV_SCALAR*)malloc((size_t)p * sizeof(NV_SCALAR));
  __CPROVER_assume(t->data != NULL);
}
static NV_SCALAR* nv_tensor_data(const struct nv_tensor* t) { return t->data; }
static int64_t nv_tensor_size(const struct nv_tensor* t) { return t->size; }

/* ---- the wire layout as a function of the field index (shared by reader and writer contracts) */
#define NV_NFIELDS (5 + NV_RANK)
#define NV_FMT_OFF(g, size) ((g) <= 2 + NV_RANK ? 4 * (int64_t)(g) : (g) == 3 + NV_RANK ? 12 + 4 * NV_RANK : NV_HDR)
#define NV_FMT_W(g, size) ((g) <= 2 + NV_RANK ? 4 : (g) == 3 + NV_RANK ? 8 : NV_SZ * (size))

/* ================================================================ reader: nano::read(std::istream&, tensor_t&) */
#define NV_P0 __CPROVER_old(stream->pos)
#define NV_ACCEPTED (!nv_thrown && !stream->fail)
/* accepted and (consequence of postcondition 3 "consumed") the whole header lies inside the supplied bytes */
#define NV_ACC_HDR (NV_ACCEPTED && NV_P0 + NV_HDR <= stream->len)

#define NV_TENSOR_READ_REQUIRES \
__CPROVER_requires(NV_IS_OK(stream) && __CPROVER_is_fresh(tensor, sizeof(struct nv_tensor))) \
__CPROVER_requires(nv_nfields == 0 && nv_resizes == 0 && nv_k < NV_RANK)
#define NV_TENSOR_READ_ASSIGNS \
__CPROVER_assigns(stream->pos, stream->fail, *tensor, nv_thrown, nv_gh)

#define NV_CONTRACT_tensor_read NV_TENSOR_READ_REQUIRES NV_TENSOR_READ_ASSIGNS \
/* 1 failure is sticky: a stream that had failed is never reported good */ \
__CPROVER_ensures(__CPROVER_old(stream->fail) ==> stream->fail) \
/* 2 the get position stays inside the supplied bytes and never moves back */ \
__CPROVER_ensures(NV_P0 <= stream->pos && stream->pos <= stream->len) \
/* 3 consumed: accepted => exactly header + size*sizeof(scalar) bytes were consumed, all of them supplied (so every strict \
 *   prefix of an accepted stream is rejected: lemma VC prefix_*), the size is nano::size of the stored dims, exact and >= 0 */ \
__CPROVER_ensures(NV_ACCEPTED ==> (tensor->size >= 0 && tensor->size <= NV_M && nv_size_exact && tensor->size == NV_SIZE_OF(tensor->m_dims.d) && stream->pos == NV_P0 + NV_HDR + NV_SZ * tensor->size && stream->pos <= stream->len)) \
/* 4-6 every header field was validated against the stream content */ \
__CPROVER_ensures(NV_ACC_HDR ==> NV_LE32(stream, NV_P0) == 0) \
__CPROVER_ensures(NV_ACC_HDR ==> NV_LE32(stream, NV_P0 + 4) == NV_RANK) \
__CPROVER_ensures(NV_ACC_HDR ==> NV_LE32(stream, NV_P0 + 8 + 4 * NV_RANK) == sizeof(NV_SCALAR)) \
/* 7 every dimension of the tensor is the int32 stored in the stream (ghost index nv_k) */ \
__CPROVER_ensures(NV_ACC_HDR ==> tensor->m_dims.d[nv_k] == NV_I32LE(stream, NV_P0 + 8 + 4 * (int64_t)nv_k)) \
/* 8 the stored hash was compared equal to hash(content) of exactly the payload slice */ \
__CPROVER_ensures(NV_ACC_HDR ==> NV_LE64(stream, NV_P0 + 12 + 4 * NV_RANK) == (tensor->size > 0 ? NV_HASH(NV_SLICE(NV_P0 + NV_HDR, NV_SZ * tensor->size), tensor->size) : 0)) \
/* 9 the tensor's block holds exactly that slice */ \
__CPROVER_ensures((NV_ACCEPTED && tensor->size > 0) ==> (nv_c_ptr == tensor->data && nv_c_n == NV_SZ * tensor->size && nv_c_id == NV_SLICE(NV_P0 + NV_HDR, NV_SZ * tensor->size))) \
/* 10 field log: the reader consumed exactly the wire layout (same macros as the writer) */ \
__CPROVER_ensures(NV_ACCEPTED ==> (nv_nfields == NV_NFIELDS && (nv_g < NV_NFIELDS ==> (nv_f_off == NV_P0 + NV_FMT_OFF(nv_g, tensor->size) && nv_f_w == NV_FMT_W(nv_g, tensor->size))))) \
/* 11 the length of the stream is not touched (also by the assigns clause) */ \
__CPROVER_ensures(stream->len == __CPROVER_old(stream->len)) \
/* 12 a short stream is rejected whatever it contains */ \
__CPROVER_ensures((__CPROVER_old(stream->len) - NV_P0 < NV_HDR) ==> (nv_thrown || stream->fail)) \
/* 13 (repair 81b3596) the reader validates the dimensions ITSELF: the tensor is resized at most once and only to dimensions \
 *    that are all >= 0 with an exact product whose byte count does not overflow; otherwise the tensor is left untouched */ \
__CPROVER_ensures(nv_resizes <= 1 && (nv_resizes == 1 ==> (nv_size_exact && NV_NONNEG(tensor->m_dims.d) && tensor->size <= NV_M))) \
__CPROVER_ensures(nv_resizes == 0 ==> (tensor->size == __CPROVER_old(tensor->size) && tensor->data == __CPROVER_old(tensor->data) && tensor->m_dims.d[nv_k] == __CPROVER_old(tensor->m_dims.d[nv_k]))) \
/* 15 a complete header holding a negative dimension (ghost index) is rejected without touching the tensor */ \
__CPROVER_ensures((__CPROVER_old(stream->len) - NV_P0 >= NV_HDR && !__CPROVER_old(stream->fail) && NV_I32LE(stream, NV_P0 + 8 + 4 * (int64_t)nv_k) < 0) ==> (stream->fail && nv_resizes == 0))

/* dimension validation (separate target tensor_read_dims_*; FAILED before the repair 81b3596, kept to pin it): accepted =>
 * every dimension is non-negative and size() is their exact product; together with the obligations asserted in the
 * istream::read stub ("a negative / overflowing dimension never reaches the payload read with a bogus size") */
#define NV_CONTRACT_tensor_read_dims NV_TENSOR_READ_REQUIRES NV_TENSOR_READ_ASSIGNS \
__CPROVER_ensures(NV_ACCEPTED ==> (nv_size_exact && NV_NONNEG(tensor->m_dims.d) && tensor->size >= 0)) \
__CPROVER_ensures(nv_resizes <= 1 && (nv_resizes == 1 ==> (nv_size_exact && NV_NONNEG(tensor->m_dims.d) && tensor->size <= NV_M)))

/* ================================================================ writer: nano::write(std::ostream&, const tensor_t&) */
#define NV_I32DIM(x) (0 <= (x) && (x) <= 2147483647LL)
#if NV_RANK == 1
#define NV_DIMS_I32(d) (NV_I32DIM((d)[0]))
#elif NV_RANK == 2
#define NV_DIMS_I32(d) (NV_I32DIM((d)[0]) && NV_I32DIM((d)[1]))
#elif NV_RANK == 3
#define NV_DIMS_I32(d) (NV_I32DIM((d)[0]) && NV_I32DIM((d)[1]) && NV_I32DIM((d)[2]))
#elif NV_RANK == 4
#define NV_DIMS_I32(d) (NV_I32DIM((d)[0]) && NV_I32DIM((d)[1]) && NV_I32DIM((d)[2]) && NV_I32DIM((d)[3]))
#endif
/* the value the writer must store in field g of the layout (g < 4 + rank; the last field is the content itself) */
#define NV_FMT_VAL(g, t, cid) ((g) == 0 ? 0 : (g) == 1 ? NV_RANK : (g) < 2 + NV_RANK ? (uint64_t)(t)->m_dims.d[(g) - 2] : (g) == 2 + NV_RANK ? (uint64_t)NV_SZ \
  : ((t)->size > 0 ? NV_HASH(cid, (t)->size) : 0))
/* a live tensor object: dims >= 0, size() >= 0 scalars allocated at data(); the block's content has ghost identity nv_c_id.
 * Since the repair c547eaf the writer itself refuses a dimension that does not fit the int32 the format stores it in
 * (before: write_cast<int32_t> narrowed silently): no precondition on the magnitude of the dims any more. */
#define NV_CONTRACT_tensor_write \
__CPROVER_requires(NV_OS_OK(stream) && __CPROVER_is_fresh(tensor, sizeof(struct nv_tensor))) \
__CPROVER_requires(NV_NONNEG(tensor->m_dims.d) && 0 <= tensor->size && tensor->size <= NV_MAXALLOC / NV_SZ) \
__CPROVER_requires(tensor->size == 0 || (__CPROVER_is_fresh(tensor->data, NV_SZ * tensor->size) && nv_c_ptr == tensor->data && nv_c_n == NV_SZ * tensor->size)) \
__CPROVER_requires(nv_nfields == 0) \
__CPROVER_assigns(stream->pos, stream->fail, nv_gh) \
/* 1 failure is sticky */ \
__CPROVER_ensures(__CPROVER_old(stream->fail) ==> stream->fail) \
/* 2 success => exactly header + content bytes were appended */ \
__CPROVER_ensures(!stream->fail ==> stream->pos == NV_OP0 + NV_HDR + NV_SZ * tensor->size) \
/* 3 success => the emitted field sequence is the wire layout (same macros as the reader): count, offsets, widths */ \
__CPROVER_ensures(!stream->fail ==> (nv_nfields == NV_NFIELDS && (nv_g < NV_NFIELDS ==> (nv_f_off == NV_OP0 + NV_FMT_OFF(nv_g, tensor->size) && nv_f_w == NV_FMT_W(nv_g, tensor->size))))) \
/* 4 ... and values: version 0, rank, each dim, sizeof(scalar), hash(content), content */ \
__CPROVER_ensures((!stream->fail && nv_g < NV_NFIELDS - 1) ==> nv_f_val == NV_FMT_VAL(nv_g, tensor, __CPROVER_old(nv_c_id))) \
__CPROVER_ensures((!stream->fail && nv_g == NV_NFIELDS - 1 && tensor->size > 0) ==> nv_f_cid == __CPROVER_old(nv_c_id)) \
/* 5 the content identity is still the tensor's (nothing else was transferred) */ \
__CPROVER_ensures(nv_c_id == __CPROVER_old(nv_c_id) && nv_c_ptr == __CPROVER_old(nv_c_ptr) && nv_c_n == __CPROVER_old(nv_c_n)) \
/* 6 (repair c547eaf) a dimension that does not fit the 32-bit header field => failure and NOTHING written; \
 *   success => every dimension fits (so field 2+k IS the dimension, postcondition 4) */ \
__CPROVER_ensures(!NV_DIMS_I32(tensor->m_dims.d) ==> (stream->fail && stream->pos == NV_OP0 && nv_nfields == 0)) \
__CPROVER_ensures(!stream->fail ==> NV_DIMS_I32(tensor->m_dims.d)) \
/* 8 ... and dimensions that do fit are not refused by that guard: the first field is attempted */ \
__CPROVER_ensures((NV_DIMS_I32(tensor->m_dims.d) && !__CPROVER_old(stream->fail)) ==> nv_nfields >= 1)

/* target tensor_write_dims_* (FAILED before the repair c547eaf, kept to pin it): a live tensor whose dimension is >= 2^31 is
 * never written with a header that is not its own: success => the dim field holds the dimension; the conversion check on
 * write_cast's static_cast<int32_t>(data[i]) is discharged without any precondition on the magnitude of the dims */
#if NV_RANK == 1
#define NV_CONTRACT_tensor_write_dims \
__CPROVER_requires(NV_OS_OK(stream) && __CPROVER_is_fresh(tensor, sizeof(struct nv_tensor))) \
__CPROVER_requires(0 <= tensor->m_dims.d[0] && tensor->size == tensor->m_dims.d[0] && tensor->size <= NV_MAXALLOC / NV_SZ) \
__CPROVER_requires(tensor->size == 0 || (__CPROVER_is_fresh(tensor->data, NV_SZ * tensor->size) && nv_c_ptr == tensor->data && nv_c_n == NV_SZ * tensor->size)) \
__CPROVER_requires(nv_nfields == 0) \
__CPROVER_assigns(stream->pos, stream->fail, nv_gh) \
__CPROVER_ensures((!stream->fail && nv_g == 2) ==> nv_f_val == (uint64_t)tensor->m_dims.d[0]) \
__CPROVER_ensures((tensor->m_dims.d[0] > 2147483647LL) ==> (stream->fail && stream->pos == __CPROVER_old(stream->pos) && nv_nfields == 0)) \
__CPROVER_ensures((tensor->m_dims.d[0] <= 2147483647LL && !__CPROVER_old(stream->fail)) ==> nv_nfields >= 1)
#endif
#endif
