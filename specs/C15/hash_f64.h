/* C15 prelude: detail::hash<double, long> */
#include "stream.h"
#define NV_BITS(x) (*(const uint64_t*)&(x))
#include "contracts.h"
#define NV_CONTRACT_hash_f64 NV_HASH_CONTRACT(double)
#define NV_LOOP_hash_f64_1 NV_HASH_LOOP
