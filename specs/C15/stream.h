/* C15: byte-stream model shared by every serialization target.
 *
 * std::istream  ->  struct nv_istream { len, pos, fail }   (number of supplied bytes, get position, failbit|badbit; content: uninterpreted)
 * std::ostream  ->  struct nv_ostream { pos, fail }                 (the put position, failbit|badbit)
 *
 * ASSUMED contract of std::istream::read(dst, n) (libstdc++ basic_istream::read + sentry):
 *   a stream that already failed extracts nothing and stays failed; if len - pos >= n the n bytes bytes[pos, pos+n) are
 *   stored into dst[0, n) and pos advances by n; otherwise fail is set, at most the available bytes are stored and no
 *   byte at or beyond len is ever read.  A negative count extracts nothing and sets fail (gcount != n).
 * Header-sized fields (1, 4, 8 bytes) are really stored into the destination, so the postconditions speak about the
 * values in the stream.  Larger transfers (tensor payloads, of symbolic length) are NOT copied and the destination
 * memory is not modelled at all: a ghost record says which slice of the stream the block now holds (content identity);
 * no extracted code reads the block (detail::hash is replaced by its assumed contract), so nothing observes the
 * stale memory and no memcpy of symbolic length is ever bit-blasted.  detail::hash is an uninterpreted function of that identity (deterministic in the content).
 *
 * What the reader is *obliged* to guarantee to istream::read is asserted inside the stub (named obligations):
 *   the count is non-negative and the destination really holds `count` writable bytes. */
#ifndef NV_C15_STREAM_H
#define NV_C15_STREAM_H
#include "nv_base.h"

struct nv_istream { int64_t len; int64_t pos; _Bool fail; };
struct nv_ostream { int64_t pos; _Bool fail; };
/* std::ios_base::iostate of libstdc++ */
enum { goodbit = 0, badbit = 1, eofbit = 2, failbit = 4 };

#define NV_MAXLEN (1LL << 46) /* x86-64 user address space: no stream buffer is larger */
#define NV_IS_OK(s) (__CPROVER_is_fresh(s, sizeof(struct nv_istream)) && 0 <= (s)->pos && (s)->pos <= (s)->len && (s)->len <= NV_MAXLEN)
#define NV_OS_OK(s) (__CPROVER_is_fresh(s, sizeof(struct nv_ostream)) && 0 <= (s)->pos && (s)->pos <= NV_MAXLEN)

/* content of the stream under read: an arbitrary but fixed function from offsets to field values (uninterpreted; the
 * 1-, 4- and 8-byte views are left unrelated, which only makes the model more general).  Little-endian x86-64: these are
 * the values ostream::write stored from the in-memory representation. */
uint8_t  __CPROVER_uninterpreted_u8at(int64_t off);
uint32_t __CPROVER_uninterpreted_u32at(int64_t off);
uint64_t __CPROVER_uninterpreted_u64at(int64_t off);
#define NV_LE8(s, o) __CPROVER_uninterpreted_u8at(o)
#define NV_LE32(s, o) __CPROVER_uninterpreted_u32at(o)
#define NV_LE64(s, o) __CPROVER_uninterpreted_u64at(o)
/* the int32 / int8 stored at offset o, as a mathematical integer (two's complement, no narrowing conversion in a contract) */
#define NV_I32LE(s, o) ((int64_t)(NV_LE32(s, o) ^ 0x80000000u) - 2147483648LL)
#define NV_I8LE(s, o) ((int64_t)(NV_LE8(s, o) ^ 0x80) - 128)

/* ---- ghost field log: every istream::read / ostream::write call is one field (offset, width); the log is observed at a
 * ghost index nv_g (nondeterministic, fixed before the call: stands for "every field").  Reader and writer contracts are
 * phrased with the same layout macros, which is the statement "writer and reader emit/consume the same field sequence". */
/* all ghost state that stubs assign lives in ONE object (one assigns target: DFCC's frame checks are linear in the number
 * of targets for every single assignment) */
struct nv_ghost
{
  uint64_t nfields;        /* number of fields transferred so far */
  int64_t  f_off, f_w;     /* offset and width of field nv_g */
  uint64_t f_val;          /* writer: value of field nv_g when its width is 1, 4 or 8 */
  uint64_t f_cid;          /* writer: content identity of field nv_g when it is the identified block (c_ptr, c_n) */
  /* content identity of the most recent bulk transfer: `c_n` bytes at `c_ptr` hold content `c_id` */
  const void* c_ptr; int64_t c_n; uint64_t c_id;
  _Bool size_exact;        /* tensor.h: the last resize() computed the exact product of non-negative dimensions */
  uint64_t resizes;        /* tensor.h: number of resize() calls */
} nv_gh;
#define nv_nfields nv_gh.nfields
#define nv_f_off nv_gh.f_off
#define nv_f_w nv_gh.f_w
#define nv_f_val nv_gh.f_val
#define nv_f_cid nv_gh.f_cid
#define nv_c_ptr nv_gh.c_ptr
#define nv_c_n nv_gh.c_n
#define nv_c_id nv_gh.c_id
#define nv_size_exact nv_gh.size_exact
#define nv_resizes nv_gh.resizes
uint64_t nv_g;                /* ghost field index (input: never assigned) */
uint64_t __CPROVER_uninterpreted_slice(int64_t pos, int64_t n);     /* identity of bytes[pos, pos+n) of the stream under read */
uint64_t __CPROVER_uninterpreted_hash(uint64_t content, int64_t n); /* detail::hash as a function of content */
#define NV_SLICE(pos, n) __CPROVER_uninterpreted_slice(pos, n)
#define NV_HASH(content, n) __CPROVER_uninterpreted_hash(content, n)

/* operator! of basic_ios: fail() == failbit|badbit set */
static _Bool nv_ios_not(const struct nv_istream* s) { return s->fail; }
static _Bool nv_oios_not(const struct nv_ostream* s) { return s->fail; }
/* basic_ios::setstate(state): rdstate() |= state (exceptions mask is the default: none) */
static void nv_ios_setstate(struct nv_istream* s, int32_t state) { if (state & (failbit | badbit)) s->fail = 1; }
static void nv_oios_setstate(struct nv_ostream* s, int32_t state) { if (state & (failbit | badbit)) s->fail = 1; }

static struct nv_istream* nv_istream_read(struct nv_istream* s, char* dst, int64_t n)
{
  __CPROVER_assert(n >= 0, "C15 istream::read is given a non-negative byte count");
  __CPROVER_assert(n <= 0 || __CPROVER_w_ok(dst, n), "C15 istream::read destination holds `count` writable bytes");
  if (nv_nfields == nv_g) { nv_f_off = s->pos; nv_f_w = n; }
  nv_nfields = nv_nfields + 1;
  if (s->fail || n < 0) { s->fail = 1; return s; }
  if (s->len - s->pos < n)
  {
    /* the available bytes are still stored: a header-sized destination becomes arbitrary (over-approximates the partial store) */
    if (s->len - s->pos > 0) { if (n == 1) *(uint8_t*)dst = (uint8_t)nv_nondet_uint32_t(); else if (n == 4) *(uint32_t*)dst = nv_nondet_uint32_t(); else if (n == 8) *(uint64_t*)dst = nv_nondet_uint64_t(); }
    s->pos = s->len; s->fail = 1;
    return s;
  }
  /* never a byte at or beyond len: the n bytes taken are [pos, pos + n) with pos + n <= len */
  if (n == 1) { *(uint8_t*)dst = NV_LE8(s, s->pos); }
  else if (n == 4) { *(uint32_t*)dst = NV_LE32(s, s->pos); }
  else if (n == 8) { *(uint64_t*)dst = NV_LE64(s, s->pos); }
  if (n > 0) { nv_c_ptr = dst; nv_c_n = n; nv_c_id = NV_SLICE(s->pos, n); }
  s->pos = s->pos + n;
  return s;
}

/* ASSUMED contract of std::ostream::write(src, n): a failed stream inserts nothing; otherwise either all n bytes are
 * appended (pos advances by n) or the sink fails (badbit) -- which may happen at any call.  The stub asserts what the
 * writer owes: a non-negative count and `count` readable bytes at src. */
static struct nv_ostream* nv_ostream_write(struct nv_ostream* s, const char* src, int64_t n)
{
  __CPROVER_assert(n >= 0, "C15 ostream::write is given a non-negative byte count");
  __CPROVER_assert(n <= 0 || __CPROVER_r_ok(src, n), "C15 ostream::write source holds `count` readable bytes");
  if (nv_nfields == nv_g)
  {
    nv_f_off = s->pos; nv_f_w = n;
    if (n == 4) nv_f_val = *(const uint32_t*)src;
    else if (n == 8) nv_f_val = *(const uint64_t*)src;
    else if (n == 1) nv_f_val = *(const uint8_t*)src;
    else nv_f_val = nv_nondet_uint64_t();
    nv_f_cid = (n > 0 && src == (const char*)nv_c_ptr && n == nv_c_n) ? nv_c_id : nv_nondet_uint64_t();
  }
  nv_nfields = nv_nfields + 1;
  if (s->fail || n < 0) { s->fail = 1; return s; }
  if (nv_nondet__Bool() || s->pos > NV_MAXLEN - n) { s->fail = 1; return s; }
#ifdef NV_ROUNDTRIP
  /* round-trip targets (write, then read the same buffer back): the bytes appended here DEFINE the content function the reader
   * will see at these offsets (std::stringstream: ostream::write followed by istream::read returns the same bytes).  Offsets
   * strictly increase, so no two definitions meet; the harness canary guards against a contradictory set. */
  if (n == 4) __CPROVER_assume(NV_LE32(s, s->pos) == *(const uint32_t*)src);
  else if (n == 8) __CPROVER_assume(NV_LE64(s, s->pos) == *(const uint64_t*)src);
#endif
  s->pos = s->pos + n;
  return s;
}

/* ASSUMED contract of detail::hash(data, count) as seen by the tensor reader / writer: a deterministic function of the
 * content (uninterpreted); the content is known only if `data` is exactly the block of the last bulk transfer (reader)
 * or the block whose identity the precondition names (writer); otherwise the value is arbitrary.  count <= 0 hashes
 * nothing: the value 0 (proved on the real detail::hash in target hash_f64 / hash_i64). */
static uint64_t nv_hash_any(const void* data, int64_t count, int64_t width)
{
  if (count <= 0) return 0;
  if (data == nv_c_ptr && count <= NV_MAXLEN && count * width == nv_c_n) return NV_HASH(nv_c_id, count);
  return nv_nondet_uint64_t();
}
#endif
