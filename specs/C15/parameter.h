/* C15 prelude: the scalar-range readers / writers of src/parameter.cpp (anonymous namespace templates, tscalar = int64_t).
 * wire format of a range:       value(8) min(8) max(8) minLE(4) maxLE(4)
 * wire format of a pair range:  value1(8) value2(8) min(8) max(8) minLE(4) maxLE(4) valueLE(4)
 * parameter_t::range_t<long>       -> struct nv_irange  (same member order: InitListExpr is positional)
 * parameter_t::pair_range_t<long>  -> struct nv_iprange
 * LEorLT (std::variant<LE_t, LT_t>) -> int32_t: 1 = LE, 0 = LT */
#include "stream.h"
#include "contracts.h"
struct nv_irange { int64_t m_value, m_min, m_max; int32_t m_mincomp, m_maxcomp; };
struct nv_iprange { int64_t m_value1, m_value2, m_min, m_max; int32_t m_mincomp, m_valcomp, m_maxcomp; };
/* ASSUMED: make_comp(flag) = (flag != 0) ? LE : LT and make_flag(comp) = (comp holds LE) ? 1 : 0 (one-liners over std::variant) */
static int32_t nv_make_comp(uint32_t flag) { return flag != 0U ? 1 : 0; }
static uint32_t nv_make_flag(int32_t comp) { return comp == 1 ? 1U : 0U; }

/* the int64 stored at offset o as a mathematical integer (no narrowing conversion in a contract) */
#define NV_I64LE(s, o) ((__int128)(NV_LE64(s, o) ^ 0x8000000000000000ULL) - ((__int128)1 << 63))
#define NV_CONTRACT_read_i64 NV_READ_SCALAR(int64_t, 8, NV_I64LE)
#define NV_RET __CPROVER_return_value
#define NV_FLAG(s, o) (NV_LE32(s, o) != 0 ? 1 : 0)
/* read(name, stream, range_t<int64>): throws unless all five fields were read from a good stream; normal return => the
 * stream is good, exactly 32 bytes were consumed and every member is the stored field, in wire order */
#define NV_PARAM_READ_COMMON(N) \
__CPROVER_requires(NV_IS_OK(stream) && __CPROVER_is_fresh(name, sizeof(struct nv_string)) && nv_nfields == 0) \
__CPROVER_assigns(stream->pos, stream->fail, nv_thrown, nv_gh) \
__CPROVER_ensures(__CPROVER_old(stream->fail) ==> nv_thrown) \
__CPROVER_ensures((NV_AVAIL0 < N) ==> nv_thrown) \
__CPROVER_ensures((!__CPROVER_old(stream->fail) && NV_AVAIL0 >= N) ==> !nv_thrown) \
__CPROVER_ensures(!nv_thrown ==> (!stream->fail && stream->pos == NV_SP0 + N)) \
__CPROVER_ensures(NV_SP0 <= stream->pos && stream->pos <= stream->len) NV_IS_FRAME
#define NV_CONTRACT_param_read_irange NV_PARAM_READ_COMMON(32) \
__CPROVER_ensures(!nv_thrown ==> (NV_RET.m_value == NV_I64LE(stream, NV_SP0) && NV_RET.m_min == NV_I64LE(stream, NV_SP0 + 8) && NV_RET.m_max == NV_I64LE(stream, NV_SP0 + 16) \
  && NV_RET.m_mincomp == NV_FLAG(stream, NV_SP0 + 24) && NV_RET.m_maxcomp == NV_FLAG(stream, NV_SP0 + 28)))
#define NV_CONTRACT_param_read_iprange NV_PARAM_READ_COMMON(44) \
__CPROVER_ensures(!nv_thrown ==> (NV_RET.m_value1 == NV_I64LE(stream, NV_SP0) && NV_RET.m_value2 == NV_I64LE(stream, NV_SP0 + 8) \
  && NV_RET.m_min == NV_I64LE(stream, NV_SP0 + 16) && NV_RET.m_max == NV_I64LE(stream, NV_SP0 + 24) \
  && NV_RET.m_mincomp == NV_FLAG(stream, NV_SP0 + 32) && NV_RET.m_maxcomp == NV_FLAG(stream, NV_SP0 + 36) && NV_RET.m_valcomp == NV_FLAG(stream, NV_SP0 + 40)))

/* ---------------------------------------------------------------------------------------------- writers
 * write(name, stream, type, range): type(4) name(uint32 length + chars) then the range fields in the reader's order.
 * ASSUMED contract of nano::write(stream, std::string_view) as used here (the real function is verified in target
 * write_string to do exactly this): two fields, uint32 length and the characters, or failure; ghost nv_name_at /
 * nv_name_end record where the name was put. */
int64_t nv_name_at, nv_name_end; uint64_t nv_name_len;
static struct nv_ostream* nv_write_name(struct nv_ostream* s)
{
  nv_name_at = s->pos; nv_nfields = nv_nfields + 2;
  if (s->fail) { nv_name_end = s->pos; return s; }
  if (nv_nondet__Bool() || nv_name_len > 0xffffffffULL || s->pos > NV_MAXLEN - 4 - (int64_t)nv_name_len) { s->fail = 1; nv_name_end = s->pos; return s; }
  s->pos = s->pos + 4 + (int64_t)nv_name_len; nv_name_end = s->pos;
  return s;
}
#define NV_CONTRACT_write_i64 NV_WRITE_SCALAR(8, NV_BITS64(scalar))
/* the 64-bit two's complement pattern of a signed value, and back, without narrowing conversions */
#define NV_BITS64(x) ((uint64_t)((__int128)(x) & (((__int128)1 << 64) - 1)))
#define NV_E nv_name_end
/* field g (ghost) of the range part, g counted after the type (field 0) and the name (fields 1, 2) */
#define NV_PARAM_WRITE_COMMON(N) \
__CPROVER_requires(NV_OS_OK(stream) && __CPROVER_is_fresh(name, sizeof(struct nv_string)) && __CPROVER_is_fresh(param, sizeof(*param)) && nv_nfields == 0) \
__CPROVER_requires((param->m_mincomp == 0 || param->m_mincomp == 1) && (param->m_maxcomp == 0 || param->m_maxcomp == 1)) \
__CPROVER_assigns(stream->pos, stream->fail, nv_thrown, nv_gh, nv_name_at, nv_name_end) \
__CPROVER_ensures(__CPROVER_old(stream->fail) ==> nv_thrown) \
__CPROVER_ensures(!nv_thrown ==> (!stream->fail && nv_name_at == NV_OP0 + 4 && stream->pos == NV_E + N && nv_nfields == 3 + (N == 32 ? 5 : 7))) \
__CPROVER_ensures((!nv_thrown && nv_g == 0) ==> (nv_f_off == NV_OP0 && nv_f_w == 4 && nv_f_val == NV_LOW32(type)))
#define NV_FIELD(g, off, w, val) ((!nv_thrown && nv_g == (g)) ==> (nv_f_off == NV_E + (off) && nv_f_w == (w) && nv_f_val == (val)))
#define NV_CONTRACT_param_write_irange NV_PARAM_WRITE_COMMON(32) \
__CPROVER_ensures(NV_FIELD(3, 0, 8, NV_BITS64(param->m_value)) && NV_FIELD(4, 8, 8, NV_BITS64(param->m_min)) && NV_FIELD(5, 16, 8, NV_BITS64(param->m_max))) \
__CPROVER_ensures(NV_FIELD(6, 24, 4, (uint64_t)param->m_mincomp) && NV_FIELD(7, 28, 4, (uint64_t)param->m_maxcomp))
#define NV_CONTRACT_param_write_iprange NV_PARAM_WRITE_COMMON(44) __CPROVER_requires(param->m_valcomp == 0 || param->m_valcomp == 1) \
__CPROVER_ensures(NV_FIELD(3, 0, 8, NV_BITS64(param->m_value1)) && NV_FIELD(4, 8, 8, NV_BITS64(param->m_value2)) && NV_FIELD(5, 16, 8, NV_BITS64(param->m_min)) && NV_FIELD(6, 24, 8, NV_BITS64(param->m_max))) \
__CPROVER_ensures(NV_FIELD(7, 32, 4, (uint64_t)param->m_mincomp) && NV_FIELD(8, 36, 4, (uint64_t)param->m_maxcomp) && NV_FIELD(9, 40, 4, (uint64_t)param->m_valcomp))
