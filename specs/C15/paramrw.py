"""C15 (a): parameter_t::read / parameter_t::write (src/parameter.cpp) under contract -- variant storage, one arm per type tag.

Targets (back end A, the real bodies extracted by clang on every run; prelude specs/C15/param_rw.h):
  param_read_frange / param_read_fprange / param_write_frange / param_write_fprange    the double-valued range helpers
  parameter_read       per type tag: consumes exactly the wire fields of that tag, every member of the record is the stored field,
                       the WHOLE record (name, active alternative, every member of it) is determined by the stream -- whatever the
                       destination held before; unknown tag / short / failed stream => exception
  parameter_write      per active alternative: tag = index - 1, name, then the members in wire order; failure => exception
  parameter_roundtrip_alt<k> (k = 0..6, the alternative written)  write(p) into a stream, read it back into an ARBITRARY used object q: q == p, field by field, and the reader
                       consumed exactly what the writer produced (the property statement itself; both real bodies inlined down
                       to istream::read / ostream::write)
"""
import re

import astload
import hooks
from core import Fn, Target
from hooks import variant_alternatives, _alt_exact, _norm
from cxx2c import qual, unwrap, strip_cv, Unsupported, TRANSPARENT

TU = 'src/parameter.cpp'
H = 'specs/C15/param_rw.h'

TYPES = [(r'LEorLT$|^std::variant<nano::LE_t, nano::LT_t>$', 'int32_t'),
         (r'(^|::)pair_range_t<long\b|iprange_t$', 'struct nv_iprange'), (r'(^|::)pair_range_t<double\b|fprange_t$', 'struct nv_fprange'),
         (r'(^|::)range_t<long\b|irange_t$', 'struct nv_irange'), (r'(^|::)range_t<double\b|frange_t$', 'struct nv_frange'),
         (r'(^|::)parameter_t::enum_t$', 'struct nv_enum'), (r'(^|::)storage_t$|^std::variant<std::monostate, ', 'struct nv_storage'),
         (r'^(nano::)?parameter_t$', 'struct nv_parameter'),
         (r'^(nano::strings_t|std::vector<(std::)?(__cxx11::)?basic_string<char>.*)$', 'struct nv_pstrs'),
         (r'^(nano::string_t|std::string|std::(__cxx11::)?basic_string<char>)$', 'struct nv_pstr'),
         (r'^std::string_view$|basic_string_view<char', 'struct nv_pstr'),
         (r'basic_istream<char|^std::istream$', 'struct nv_istream'), (r'basic_ostream<char|^std::ostream$', 'struct nv_ostream'),
         (r'ios_base::iostate$|_Ios_Iostate$', 'int32_t')]
AGG = ['struct nv_irange', 'struct nv_iprange', 'struct nv_frange', 'struct nv_fprange', 'struct nv_enum']


def variant_assign_hook(P, n):
    """`v = alternative` / `v = variant_t{}` on a std::variant (operator= templates of libstdc++) -> assignment of the C model
    {index, a<k>}; the alternative is chosen by the exact type of the right-hand side (clang's overload resolution has the
    same result for the alternatives of parameter_t::storage_t, which are pairwise unrelated class types)"""
    if n.get('kind') != 'CXXOperatorCallExpr' or len(n.get('inner', [])) != 3:
        return None
    if unwrap(n['inner'][0]).get('referencedDecl', {}).get('name') != 'operator=':
        return None
    lhs, rhs = n['inner'][1], n['inner'][2]
    alts = variant_alternatives(lhs['type'])
    if alts is None:
        return None
    core = rhs
    while isinstance(core, dict) and (core.get('kind') in TRANSPARENT or core.get('kind') in ('ImplicitCastExpr',)) and core.get('inner'):
        core = core['inner'][0]
    c = P.ctype(lhs['type'])
    rt = _norm(qual(rhs['type']))
    if variant_alternatives(rt) is not None:
        if core.get('kind') in ('CXXTemporaryObjectExpr', 'CXXConstructExpr') and not core.get('inner'):
            if alts[0] != 'std::monostate':
                raise Unsupported('value-initialised variant whose first alternative is not std::monostate')
            P.note('variant = variant_t{} -> index 0 (std::monostate)')
            return f'({P.expr(lhs)} = ({c}){{.index = 0}})'
        P.note('variant = variant (copy)')
        return f'({P.expr(lhs)} = {P.expr(rhs)})'
    idx = _alt_exact(alts, rt, 'variant assignment')
    P.note(f'variant = {alts[idx]} -> index {idx}')
    return f'({P.expr(lhs)} = ({c}){{.index = {idx}, .a{idx} = {P.expr(rhs)}}})'


# ------------------------------------------------------------------------------------------------ call maps
RD_CALLS = [(r'^read\|std::istream &\(std::istream &, int &\)', '(*read_i32({&0}, {&1}))'),
            (r'^read\|std::istream &\(std::istream &, unsigned int &\)', '(*read_u32({&0}, {&1}))'),
            (r'^read\|std::istream &\(std::istream &, long &\)', '(*read_i64({&0}, {&1}))'),
            (r'^read\|std::istream &\(std::istream &, double &\)', '(*read_f64({&0}, {&1}))'),
            (r'^read\|std::istream &\(std::istream &, std::string &\)', '(*nv_read_pstr({&0}, {&1}))'),
            (r'^read\|std::istream &\(std::istream &, std::vector<(std::)?(__cxx11::)?basic_string<char>.*&\)', '(*nv_read_pstrs({&0}, {&1}))'),
            (r'^operator!\|bool \(\) const\|std::basic_ios<char>', 'nv_ios_not({&0})'),
            (r'^make_comp\|', 'nv_make_comp({0})'),
            (r'^read\|.*range_t<long>\)\|', None), ]
WR_CALLS = [(r'^write\|std::ostream &\(std::ostream &, int\)', '(*write_i32({&0}, {1}))'),
            (r'^write\|std::ostream &\(std::ostream &, unsigned int\)', '(*write_u32({&0}, {1}))'),
            (r'^write\|std::ostream &\(std::ostream &, long\)', '(*write_i64({&0}, {1}))'),
            (r'^write\|std::ostream &\(std::ostream &, double\)', '(*write_f64({&0}, {1}))'),
            (r'^write\|std::ostream &\(std::ostream &, const std::string_view &\)', '(*nv_write_pstr({&0}, {&1}))'),
            (r'^write\|std::ostream &\(std::ostream &, const std::vector<(std::)?(__cxx11::)?basic_string<char>.*&\)', '(*nv_write_pstrs({&0}, {&1}))'),
            (r'^operator!\|bool \(\) const\|std::basic_ios<char>', 'nv_oios_not({&0})'),
            (r'^make_flag\|', 'nv_make_flag({0})'),
            (r'^ctor\|.*basic_string_view<char', '{0}'), (r'^operator basic_string_view\|', '{self}')]
RD_CALLS = [c for c in RD_CALLS if c[1] is not None]
MEMBERS = [(r'^setstate\|std::basic_ios<char>', 'nv_ios_setstate({self}, {0})'),
           (r'^read\|std::(basic_)?istream', '(*nv_istream_read({self}, {0}, {1}))'),
           (r'^write\|std::(basic_)?ostream', '(*nv_ostream_write({self}, {0}, {1}))'),
           (r'^operator basic_string_view\|', '(*{self})')]

SC = {'long': 'i', 'double': 'f'}


def range_helper(kind, side, scalar):
    """the anonymous-namespace templates ::read(name, stream, range_t<T>) / ::write(name, stream, type, const range_t<T>&)"""
    cxx = 'range_t' if kind == 'r' else 'pair_range_t'
    cname = f'param_{side}_{SC[scalar]}{"" if kind == "r" else "p"}range'
    if side == 'read':
        sel = lambda d: astload.template_args(d) == [scalar] and astload.param_types(d)[2:] == [f'parameter_t::{cxx}<{scalar}>']
        return Fn(cname, TU, 'read', flt='read', uf_float=False, types=TYPES, calls=RD_CALLS, members=MEMBERS, select=sel, aggregates=AGG)
    sel = lambda d: astload.template_args(d) == [scalar] and astload.param_types(d)[3:] == [f'const parameter_t::{cxx}<{scalar}> &']
    return Fn(cname, TU, 'write', flt='write', uf_float=False, types=TYPES, calls=WR_CALLS, members=MEMBERS, select=sel)


def scalar_rw(side, cname, cxx):
    if side == 'read':
        return Fn(cname, TU, 'read', flt='nano::read', uf_float=False, types=TYPES, calls=RD_CALLS, members=MEMBERS,
                  select=lambda d: astload.param_types(d) == ['std::istream &', cxx + ' &'] and astload.template_args(d) != [])
    return Fn(cname, TU, 'write', flt='nano::write', uf_float=False, types=TYPES, calls=WR_CALLS, members=MEMBERS,
              select=lambda d: astload.param_types(d) == ['std::ostream &', cxx] and astload.template_args(d) != [])


def helper_calls(side):
    """call mappings of the four range helpers, keyed by the exact type of the record argument"""
    out = []
    for kind, cxx in (('p', 'pair_range_t'), ('r', 'range_t')):
        for scalar in ('long', 'double'):
            cname = f'param_{side}_{SC[scalar]}{"" if kind == "r" else "p"}range'
            if side == 'read':
                out.append((rf'^read\|.*\(const (nano::)?string_t &, std::istream &, (nano::)?parameter_t::{cxx}<{scalar}>\)', cname + '!^'))
            else:
                out.append((rf'^write\|void \(const (nano::)?string_t &, std::ostream &, int32_t, const (nano::)?parameter_t::{cxx}<{scalar}> &\)', cname + '!'))
    return out


def parameter_read():
    return Fn('parameter_read', TU, 'read', flt='parameter_t::read', self_struct='struct nv_parameter', uf_float=False, types=TYPES,
              calls=helper_calls('read') + RD_CALLS, members=MEMBERS, hooks=[variant_assign_hook, hooks.variant_expr_hook()], aggregates=AGG)


def parameter_write():
    return Fn('parameter_write', TU, 'write', flt='parameter_t::write', self_struct='struct nv_parameter', uf_float=False, types=TYPES,
              calls=helper_calls('write') + WR_CALLS, members=MEMBERS, hooks=[variant_assign_hook, hooks.variant_expr_hook()],
              stmt_hooks=[hooks.variant_visit_hook()], aggregates=AGG)


def rd_deps():
    return [range_helper(k, 'read', s) for k in 'rp' for s in ('long', 'double')] + \
        [scalar_rw('read', 'read_i32', 'int'), scalar_rw('read', 'read_u32', 'unsigned int'), scalar_rw('read', 'read_i64', 'long'), scalar_rw('read', 'read_f64', 'double')]


def wr_deps():
    return [range_helper(k, 'write', s) for k in 'rp' for s in ('long', 'double')] + \
        [scalar_rw('write', 'write_i32', 'int'), scalar_rw('write', 'write_u32', 'unsigned int'), scalar_rw('write', 'write_i64', 'long'), scalar_rw('write', 'write_f64', 'double')]


def _case_fix(text):
    """C (before C23) wants a statement after a case label; a hoisted `struct T tmp = call(..);` is a declaration: put an empty
    statement after every label (mechanical, changes nothing)"""
    return re.sub(r'(?m)^(\s*(?:case [^\n]*|default):)$', r'\1 ;', text)


ROUNDTRIP = r"""
#define NV_EQ_IR(a, b) ((a).m_value == (b).m_value && (a).m_min == (b).m_min && (a).m_max == (b).m_max && (a).m_mincomp == (b).m_mincomp && (a).m_maxcomp == (b).m_maxcomp)
#define NV_EQ_FR(a, b) (NV_DBITS((a).m_value) == NV_DBITS((b).m_value) && NV_DBITS((a).m_min) == NV_DBITS((b).m_min) && NV_DBITS((a).m_max) == NV_DBITS((b).m_max) && (a).m_mincomp == (b).m_mincomp && (a).m_maxcomp == (b).m_maxcomp)
#define NV_EQ_IP(a, b) ((a).m_value1 == (b).m_value1 && (a).m_value2 == (b).m_value2 && (a).m_min == (b).m_min && (a).m_max == (b).m_max && (a).m_mincomp == (b).m_mincomp && (a).m_maxcomp == (b).m_maxcomp && (a).m_valcomp == (b).m_valcomp)
#define NV_EQ_FP(a, b) (NV_DBITS((a).m_value1) == NV_DBITS((b).m_value1) && NV_DBITS((a).m_value2) == NV_DBITS((b).m_value2) && NV_DBITS((a).m_min) == NV_DBITS((b).m_min) && NV_DBITS((a).m_max) == NV_DBITS((b).m_max) && (a).m_mincomp == (b).m_mincomp && (a).m_maxcomp == (b).m_maxcomp && (a).m_valcomp == (b).m_valcomp)
int main(void)
{
  struct nv_parameter p, q;          /* p: ANY well-formed parameter; q: ANY object (used before, any alternative active) */
  struct nv_ostream os; struct nv_istream is;
  __CPROVER_assume(NV_PAR_WF(&p));
  __CPROVER_assume(p.m_storage.index == NV_ALT);      /* one target per alternative (7 targets cover index 0..6 = NV_PAR_WF) */
  __CPROVER_assume(0 <= os.pos && os.pos <= NV_MAXLEN && !os.fail);
  int64_t begin = os.pos;
  nv_thrown = 0; nv_nfields = 0; nv_alloc_failed = 0;
  parameter_write(&p, &os);
  if (!nv_thrown)
  {
    __CPROVER_assert(!os.fail, "C15 round trip: parameter_t::write returns normally only with a good stream");
    uint64_t written_fields = nv_nfields;
    is.pos = begin; is.len = os.pos; is.fail = 0;     /* the reader gets exactly the bytes the writer produced */
    nv_nfields = 0;
    parameter_read(&q, &is);
    __CPROVER_assert(!nv_thrown || nv_alloc_failed, "C15 round trip: reading back a written parameter does not throw (unless an allocation fails)");
    if (!nv_thrown)
    {
      __CPROVER_assert(!is.fail && is.pos == os.pos, "C15 round trip: the reader consumes exactly the bytes the writer produced");
      __CPROVER_assert(nv_nfields == written_fields, "C15 round trip: the reader consumes as many fields as the writer produced (per alternative)");
      __CPROVER_assert(q.m_name.id == p.m_name.id && q.m_name.n == p.m_name.n, "C15 round trip: the name read back is the name written");
      __CPROVER_assert(q.m_storage.index == p.m_storage.index, "C15 round trip: the alternative read back is the alternative written, whatever the destination held before (an empty parameter resets a used object)");
      __CPROVER_assert(p.m_storage.index != 1 || (q.m_storage.a1.m_value.id == p.m_storage.a1.m_value.id && q.m_storage.a1.m_value.n == p.m_storage.a1.m_value.n
                       && q.m_storage.a1.m_domain.id == p.m_storage.a1.m_domain.id && q.m_storage.a1.m_domain.bytes == p.m_storage.a1.m_domain.bytes), "C15 round trip: enum value and domain read back equal the ones written");
      __CPROVER_assert(p.m_storage.index != 2 || NV_EQ_IR(q.m_storage.a2, p.m_storage.a2), "C15 round trip: integer range read back equals the one written, member by member");
      __CPROVER_assert(p.m_storage.index != 3 || NV_EQ_FR(q.m_storage.a3, p.m_storage.a3), "C15 round trip: scalar range read back equals the one written, member by member (bit patterns)");
      __CPROVER_assert(p.m_storage.index != 4 || NV_EQ_IP(q.m_storage.a4, p.m_storage.a4), "C15 round trip: integer pair range read back equals the one written, member by member");
      __CPROVER_assert(p.m_storage.index != 5 || NV_EQ_FP(q.m_storage.a5, p.m_storage.a5), "C15 round trip: scalar pair range read back equals the one written, member by member (bit patterns)");
      __CPROVER_assert(p.m_storage.index != 6 || (q.m_storage.a6.id == p.m_storage.a6.id && q.m_storage.a6.n == p.m_storage.a6.n), "C15 round trip: string value read back equals the one written");
    }
  }
  __CPROVER_assert(0, "nv_canary: end of harness reachable");
  return 0;
}
"""

READ_HARNESS = r"""
#undef NV_SP0
#define NV_SP0 nv_sp0
int main(void)
{
  struct nv_parameter object;        /* ANY object: used before, any alternative active, any member values */
  struct nv_istream is;              /* ANY stream: any content, any length, any position, good or failed */
  struct nv_parameter* self = &object; struct nv_istream* stream = &is;
  __CPROVER_assume(0 <= is.pos && is.pos <= is.len && is.len <= NV_MAXLEN);
  int64_t nv_sp0 = is.pos, len0 = is.len; _Bool fail0 = is.fail;
  nv_thrown = 0; nv_nfields = 0; nv_alloc_failed = 0;
  struct nv_istream* ret = parameter_read(self, stream);
  /* 1 failure is reported by exception */
  __CPROVER_assert(!fail0 || nv_thrown, "C15 parameter_t::read: a failed stream => exception");
  __CPROVER_assert(nv_thrown || (!stream->fail && ret == stream), "C15 parameter_t::read: a normal return => the stream is good (every field transfer was tested)");
  __CPROVER_assert(NV_SP0 <= stream->pos && stream->pos <= stream->len && stream->len == len0, "C15 parameter_t::read: the position stays inside the supplied bytes");
  /* 2 unknown tag throws; the alternative is the one of the tag, whatever the object held before */
  __CPROVER_assert(nv_thrown || (-1 <= NV_TAG && NV_TAG <= 5 && NV_ST.index == NV_TAG + 1), "C15 parameter_t::read: normal return => known type tag and the active alternative is the one of the tag (index == tag + 1), whatever the destination held before");
  __CPROVER_assert(!(NV_TAG < -1 || NV_TAG > 5) || nv_thrown, "C15 parameter_t::read: an unknown type tag => exception");
  /* 3 name */
  __CPROVER_assert(nv_thrown || (self->m_name.n == (uint64_t)NV_NLEN && self->m_name.id == NV_STRID(NV_SP0 + 8, (uint64_t)NV_NLEN)), "C15 parameter_t::read: the name is the stored one");
  /* 4 exactly the layout of the tag is consumed, all of it supplied => every strict prefix of a record throws */
  __CPROVER_assert(0, "nv_canary: end of harness reachable");
  return 0;
}
"""


def targets(tier='quick'):
    def rd():
        f = parameter_read()
        f.post = _case_fix
        return [f] + rd_deps()

    def wr():
        return [parameter_write()] + wr_deps()

    def both():
        return rd() + wr()
    sc = lambda side: [scalar_rw(side, f'{side}_i32', 'int'), scalar_rw(side, f'{side}_u32', 'unsigned int'), scalar_rw(side, f'{side}_f64', 'double')]
    return [
        Target('read_f64', [scalar_rw('read', 'read_f64', 'double')], H),
        Target('write_f64', [scalar_rw('write', 'write_f64', 'double')], H),
        Target('param_read_frange', [range_helper('r', 'read', 'double')] + sc('read'), H),
        Target('param_read_fprange', [range_helper('p', 'read', 'double')] + sc('read'), H),
        Target('param_write_frange', [range_helper('r', 'write', 'double')] + sc('write'), H),
        Target('param_write_fprange', [range_helper('p', 'write', 'double')] + sc('write'), H),
        Target('parameter_read', rd, H, enforce_none=True, harness=READ_HARNESS, loops=0),
        Target('parameter_write', wr, H, enforce='parameter_write'),
    ] + [Target(f'parameter_roundtrip_alt{k}', both, H, enforce_none=True, harness=ROUNDTRIP, defines=['NV_ROUNDTRIP', f'NV_ALT={k}'], loops=0)
         # quick: empty (the reset of a used object), enum (strings, vector), scalar pair range (doubles, three flags; the integer members go
         # through the same helper template); thorough adds integer range, scalar range, integer pair range, string
         for k in range(7) if tier == 'thorough' or k in (0, 1, 5)]
