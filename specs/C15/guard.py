"""C15 (b): the real tensor reader of include/nano/tensor/stream.h on back end B (weakest preconditions -> SMT over Int).

CBMC (spec.py: tensor_read_*) keeps the int64 product and quotient of the dims guard UNINTERPRETED; here the same real body
(the instantiations of drivers/inst_stream.cpp, extracted by clang on every run) is executed symbolically with the integers'
own * and div, so the guard is decided in BOTH directions:

  soundness     accepted  =>  the header is valid (version, rank, sizeof(scalar) as written; every dim >= 0; the byte count
                sizeof(scalar) * prod(dims) fits int64), `total` IS prod(dims) (no machine product overflows), exactly
                header + sizeof * prod(dims) bytes were consumed, the stored hash equals hash(payload slice) and the tensor has
                the dims of the stream and prod(dims) elements -- for EVERY prior content of the destination;
  completeness  a valid header is never rejected by the guard: the payload read is attempted with count == prod(dims); a valid,
                complete stream whose stored hash matches is ACCEPTED (so `>` -> `>=` in the guard fails a named obligation);
  definedness   every division has a non-zero divisor, no signed overflow, no value-changing conversion (nvwp's own
                obligations on the arithmetic nodes of the real body).

Callees are replaced by the contracts PROVED for them by the CBMC targets of spec.py (read_u32, read_u64, read_cast_n,
read_ptr_*: `h_read_*` below state exactly those clauses); tensor resize / size / data and detail::hash are the assumed
contracts of specs/C15/tensor.h, here with nano::size(dims) = the mathematical product (C16 proves nano::size).
The dims loop runs `trank` times (a template constant): it is executed exactly that many times (no invariant, no bound).
"""
import re

import astload
import nvwp
from core import VC
from nvwp import V, AND, OR, NOT, IMP, ITE, lit, Unsupported
from wplib import IdEnvWP, declare_array, array_name, reach_vc
from cxx2c import unwrap, strip_cv, qual

TU = 'drivers/inst_stream.cpp'
HDR = astload.REPO + '/include/nano/tensor/stream.h'
I64MAX = 2 ** 63 - 1
MAXLEN = 2 ** 46          # stream.h: NV_MAXLEN
MAXALLOC = 2 ** 47        # tensor.h: NV_MAXALLOC (bytes): a larger allocation throws std::bad_alloc
SIZEOF = {'double': 8, 'float': 4, 'long': 8, 'unsigned long': 8, 'int': 4, 'unsigned int': 4, 'short': 2, 'unsigned short': 2,
          'signed char': 1, 'unsigned char': 1, 'char': 1, 'bool': 1, 'long long': 8, 'unsigned long long': 8}
# (tag, scalar as clang spells it, rank)
INST = [('f64', 'double', 1), ('f64', 'double', 2), ('f64', 'double', 3), ('f64', 'double', 4), ('i64', 'long', 1), ('i8', 'signed char', 1), ('i8', 'signed char', 3)]


def fold(t):
    """value of a closed integer term built from literals with + - * (the unrolled loop counter), or None"""
    t = t.strip()
    if re.fullmatch(r'\d+', t):
        return int(t)
    m = re.fullmatch(r'\(- (\d+)\)', t)
    if m:
        return -int(m.group(1))
    m = re.fullmatch(r'\(([+*-]) (.*)\)', t)
    if not m:
        return None
    parts, depth, cur = [], 0, ''
    for ch in m.group(2):
        if ch == '(':
            depth += 1
        if ch == ')':
            depth -= 1
        if ch == ' ' and depth == 0:
            parts.append(cur)
            cur = ''
        else:
            cur += ch
    parts.append(cur)
    vals = [fold(p) for p in parts if p]
    if any(v is None for v in vals) or len(vals) != 2:
        return None
    a, b = vals
    return a + b if m.group(1) == '+' else a - b if m.group(1) == '-' else a * b


def fold_cmp(t):
    """truth value of a comparison of two closed integer terms, or None"""
    if t in ('true', 'false'):
        return t == 'true'
    m = re.fullmatch(r'\((<=|>=|<|>) (.+)\)', t)
    if not m:
        return None
    body = m.group(2)
    depth, k = 0, None
    for i, ch in enumerate(body):
        if ch == '(':
            depth += 1
        if ch == ')':
            depth -= 1
        if ch == ' ' and depth == 0:
            k = i
            break
    if k is None:
        return None
    a, b = fold(body[:k]), fold(body[k + 1:])
    if a is None or b is None:
        return None
    return {'<': a < b, '<=': a <= b, '>': a > b, '>=': a >= b}[m.group(1)]


class ReaderWP(IdEnvWP):
    """IdEnvWP + constant-trip-count `for` loops executed exactly (the bound is a template constant of the instantiation) +
    sizeof(T) of the instantiated scalar type"""
    MAX_TRIPS = 16

    def ev(self, n):
        if n.get('kind') == 'UnaryExprOrTypeTraitExpr' and n.get('name') == 'sizeof':
            t = n.get('argType') or (n['inner'][0]['type'] if n.get('inner') else None)
            b = self.base(t) if t else None
            if b not in SIZEOF:
                raise Unsupported(f'{self.name}: sizeof({(t or {}).get("qualType")})')
            self.note('sizeof(T) of the instantiated scalar (x86-64 sizes, checked by drivers/type_facts.cpp)')
            return V(str(SIZEOF[b]), 'Int', 'unsigned long')
        return super().ev(n)

    def loop(self, n):
        """`for (init; cond; inc)` whose condition becomes FALSE BY CONSTANT FOLDING after finitely many iterations (a counter against a
        template constant, possibly conjoined with a symbolic condition such as `i < trank && !empty`) is executed exactly: every
        iteration runs under `guard /\ cond`, the paths on which the symbolic part of the condition is false leave the loop with the state
        they have there and are merged behind it.  Anything else falls back to the invariant rule."""
        if n.get('kind') != 'ForStmt':
            return super().loop(n)
        init, condvar, cond, inc, body = n['inner']
        if not init or not cond or not inc:
            return super().loop(n)
        saved = (dict(self.env), self.guard, len(self.obligations), len(self.facts))
        self.ex(init)
        trips, exits = 0, []
        while True:
            c = simp(self.conv(self.ev(cond), 'Bool', 'bool').t)
            if c == 'false':
                break
            trips += 1
            if trips > self.MAX_TRIPS:
                # the condition never folds to false: not a constant bound -- back to the invariant rule from the state before the loop
                self.env, self.guard = saved[0], saved[1]
                del self.obligations[saved[2]:]
                del self.facts[saved[3]:]
                return super().loop(n)
            g = self.guard
            if c != 'true':
                exits.append((AND(g, NOT(c)), dict(self.env)))
            self.guard = AND(g, c)
            self.loop_exits.append({'breaks': [], 'continues': []})
            try:
                self.ex(body)
            finally:
                ex_ = self.loop_exits.pop()
            if ex_['breaks'] or ex_['continues']:
                raise Unsupported(f'{self.name}: break / continue inside a constant-trip-count loop')
            self.ev(inc)
            for key in self.assigned_vars(inc):
                v = self.env.get(key)
                if v is not None and v.s == 'Int' and fold(v.t) is not None:
                    self.env[key] = V(lit(fold(v.t)), 'Int', v.c)
        for ge, enve in reversed(exits):
            self.env = self.merge(ge, enve, self.env)
            self.guard = OR(self.guard, ge)
        self.loops += 1
        self.note(f'for loop with a constant bound executed exactly ({trips} iterations' + (', early exits merged)' if exits else ')'))


def sexpr_parts(body):
    parts, depth, cur = [], 0, ''
    for ch in body:
        if ch == '(':
            depth += 1
        if ch == ')':
            depth -= 1
        if ch == ' ' and depth == 0:
            if cur:
                parts.append(cur)
            cur = ''
        else:
            cur += ch
    if cur:
        parts.append(cur)
    return parts


def simp(t):
    """boolean term with its closed integer comparisons decided: 'true' / 'false' / the residual term"""
    t = t.strip()
    if t in ('true', 'false'):
        return t
    c = fold_cmp(t)
    if c is not None:
        return 'true' if c else 'false'
    m = re.fullmatch(r'\((and|or|not) (.*)\)', t, re.S)
    if not m:
        return t
    parts = [simp(p) for p in sexpr_parts(m.group(2))]
    if m.group(1) == 'and':
        return AND(*parts)
    if m.group(1) == 'or':
        return OR(*parts)
    return NOT(parts[0]) if len(parts) == 1 else t


# ---------------------------------------------------------------------------------------------------- stream model
def stream_setup(wp):
    wp.decls += ['(declare-fun u32at (Int) Int)   ; the uint32 / int32 / uint64 stored in the stream at an offset (arbitrary, fixed)',
                 '(declare-fun i32at (Int) Int)', '(declare-fun u64at (Int) Int)',
                 '(declare-fun slice (Int Int) Int)   ; content identity of bytes[pos, pos + n)',
                 '(declare-fun hashof (Int Int) Int)  ; detail::hash as a function of (content identity, element count)']
    wp.env['stream'] = V('stream', 'Stream')
    wp.env['stream.len'] = wp.const('len', 'Int', 'long')
    wp.env['stream.pos'] = wp.const('pos0', 'Int', 'long')
    wp.env['stream.fail'] = wp.const('fail0', 'Bool', 'bool')
    wp.assume(f'(and (<= 0 pos0) (<= pos0 len) (<= len {MAXLEN}))')      # NV_IS_OK
    wp.env['nv.payload_reads'] = V('0', 'Int', 'long')
    wp.env['nv.payload_count'] = V('0', 'Int', 'long')
    wp.env['nv.payload_at'] = V('0', 'Int', 'long')


WIRE = {'unsigned int': (4, 'u32at', 'unsigned int'), 'int': (4, 'i32at', 'int'), 'unsigned long': (8, 'u64at', 'unsigned long')}


def stream_of(wp, node):
    u = unwrap(node)
    while u.get('kind') in nvwp.CAST_KINDS and u.get('inner'):
        u = unwrap(u['inner'][0])
    if u.get('kind') == 'DeclRefExpr':
        key = wp.loc(u)
        if wp.env.get(key) is not None and wp.env[key].s == 'Stream':
            return key
    v = wp.ev(u)          # a call that returns the stream (evaluated for its effects)
    if v.s != 'Stream':
        raise Unsupported(f'{wp.name}: expression of sort {v.s} where the stream is expected')
    return v.t


def transfer(wp, W, ok_extra='true'):
    """the common part of every proved reader contract (NV_READ_SCALAR / NV_READ_PTR / read_cast_n): accepted <=> the stream
    was good and holds W more bytes; then pos advances by exactly W; otherwise fail is set and pos stays inside [pos, len]"""
    fail, pos, ln = wp.env['stream.fail'].t, wp.env['stream.pos'].t, wp.env['stream.len'].t
    ok = AND(NOT(fail), f'(>= (- {ln} {pos}) {W})')
    stuck = wp.fresh('Int', 'pos_after_short_read', 'long')
    wp.facts.append(f'(and (<= {pos} {stuck.t}) (<= {stuck.t} {ln}))')
    wp.env['stream.pos'] = V(ITE(ok, f'(+ {pos} {W})', ITE(fail, pos, stuck.t)), 'Int', 'long')
    wp.env['stream.fail'] = V(NOT(ok), 'Bool', 'bool')
    return ok, pos


def h_read_scalar(wp, n, args, callee):
    """read(stream, scalar&) -- contract NV_READ_SCALAR proved by targets read_u32 / read_u64 / read_cast_i32_i64 (read_i32)"""
    skey = stream_of(wp, args[0])
    s, c = wp.sort_of(args[1]['type'])
    if c not in WIRE:
        raise Unsupported(f'{wp.name}: read of a {c} scalar has no proved contract here')
    W, fn, cty = WIRE[c]
    key = wp.loc(args[1])
    ok, pos = transfer(wp, W)
    val = f'({fn} {pos})'
    wp.facts.append(wp.in_range(val, cty))
    junk = wp.fresh('Int', key + '_after_failed_read', cty)      # *scalar is in the assigns clause, constrained only when accepted
    wp.facts.append(wp.in_range(junk.t, cty))
    wp.env[key] = V(ITE(ok, val, junk.t), 'Int', cty)
    return V(skey, 'Stream')


def h_read_cast_n(wp, n, args, callee):
    """read_cast<int32_t>(stream, long* data, count) -- contract NV_CONTRACT_read_cast_n (target read_cast_n): accepted <=> good and
    4 * count more bytes; then data[k] is the int32 stored at pos + 4k (every k < count)"""
    skey = stream_of(wp, args[0])
    ptr = wp.ev(args[1])
    if ptr.s != 'ArrPtr':
        raise Unsupported(f'{wp.name}: read_cast into something that is not the data() of a modelled std::array')
    cnt = fold(wp.ev(args[2]).t)
    arr = ptr.t
    if cnt is None:
        raise Unsupported(f'{wp.name}: read_cast with a non-constant count')
    if cnt > wp.env[arr].c:
        wp.oblige('read_cast: the destination array holds `count` elements', 'false', n)
        cnt = wp.env[arr].c
    txt = re.sub(r'\s+', '', wp.source_of(callee))
    if not re.search(r'read_cast<(std::)?int32_t>$', txt):
        raise Unsupported(f'{wp.name}: {txt}: the proved contract is the one of read_cast<int32_t>')
    ok, pos = transfer(wp, 4 * cnt)
    for k in range(cnt):
        val = f'(i32at (+ {pos} {4 * k}))'
        wp.facts.append(wp.in_range(val, 'int'))
        junk = wp.fresh('Int', f'{arr}_{k}_after_failed_read', 'long')
        wp.facts.append(wp.in_range(junk.t, 'long'))
        wp.env[f'{arr}.{k}'] = V(ITE(ok, val, junk.t), 'Int', 'long')
    return V(skey, 'Stream')


def h_read_ptr(wp, n, args, callee):
    """read(stream, scalar* data, count) -- contract NV_READ_PTR (targets read_ptr_*): requires 0 <= count <= NV_MAXCOUNT and a
    destination of `count` scalars (obligations HERE); accepted <=> good and sizeof * count more bytes; then the block holds exactly
    the slice [pos, pos + sizeof * count)"""
    skey = stream_of(wp, args[0])
    ptr = wp.ev(args[1])
    if ptr.s != 'TensorData':
        raise Unsupported(f'{wp.name}: payload read into something that is not tensor.data()')
    cnt = wp.conv(wp.ev(args[2]), 'Int', 'long', n)
    S = wp.S
    wp.oblige('payload read: istream::read is given a non-negative count', f'(>= {cnt.t} 0)', n)
    wp.oblige('payload read: sizeof(scalar) * count fits int64 and the proved contract of read(ptr, count) applies (count <= 2^47)',
              f'(and (<= (* {S} {cnt.t}) {I64MAX}) (<= {cnt.t} {MAXALLOC}))', n)
    wp.oblige('payload read: the destination block holds `count` scalars', f'(or (<= {cnt.t} 0) (<= {cnt.t} {wp.env["tensor.alloc"].t}))', n)
    pos = wp.env['stream.pos'].t
    g = wp.guard
    reads = wp.env['nv.payload_reads'].t
    wp.env['nv.payload_reads'] = V(f'(+ {reads} 1)', 'Int', 'long')
    wp.env['nv.payload_count'] = cnt
    wp.env['nv.payload_at'] = V(pos, 'Int', 'long')
    ok, _ = transfer(wp, f'(* {S} {cnt.t})')
    wp.env['tensor.content'] = V(ITE(AND(ok, f'(> {cnt.t} 0)'), f'(slice {pos} (* {S} {cnt.t}))', wp.fresh('Int', 'stale_content', 'long').t), 'Int', 'long')
    return V(skey, 'Stream')


def h_ios_not(wp, n, args, callee):
    stream_of(wp, args[0])
    return V(wp.env['stream.fail'].t, 'Bool', 'bool')


def h_setstate(wp, n, args, obj):
    stream_of(wp, obj)
    a = unwrap(args[0])
    while a.get('kind') in nvwp.CAST_KINDS and a.get('inner'):
        a = unwrap(a['inner'][0])
    nm = (a.get('referencedDecl') or {}).get('name')
    if nm in ('failbit', 'badbit'):
        wp.env['stream.fail'] = V('true', 'Bool', 'bool')
    elif nm not in ('goodbit', 'eofbit'):
        raise Unsupported(f'{wp.name}: setstate of {nm}')
    return V('0', 'Int', 'int')


def h_max(wp, n, args, callee):
    s, c = wp.sort_of(n['type'])
    return V(lit(nvwp.INT_RANGES[c][1]), 'Int', c)


def h_array_index(wp, n, args, callee):
    arr = array_name(wp, args[0])
    i = fold(wp.ev(args[1]).t)
    if i is None:
        raise Unsupported(f'{wp.name}: std::array subscript that is not a constant of the unrolled loop')
    if not (0 <= i < wp.env[arr].c):
        wp.oblige('std::array subscript inside the array', 'false', n)
        i = max(0, min(i, wp.env[arr].c - 1))
    key = f'{arr}.{i}'
    return key if wp.want_loc else wp.env[key]


def h_array_data(wp, n, args, obj):
    return V(array_name(wp, obj), 'ArrPtr')


def product(ts):
    out = ts[-1]
    for t in reversed(ts[:-1]):
        out = f'(* {t} {out})'       # right to left, as nano::size / detail::product<0> multiplies
    return out


def tensor_setup(wp, R, S):
    wp.R, wp.S = R, S
    wp.env['tensor'] = V('tensor', 'Tensor')
    # the destination before the call: ANY tensor object (also a moved-from one: no relation between dims, size and block)
    for k in range(R):
        wp.env[f'tensor.dims.{k}'] = wp.const(f'olddim{k}', 'Int', 'long')
        wp.assume(wp.in_range(f'olddim{k}', 'long'))
    wp.env['tensor.size'] = wp.const('oldsize', 'Int', 'long')
    wp.assume(wp.in_range('oldsize', 'long'))
    wp.env['tensor.alloc'] = wp.const('oldalloc', 'Int', 'long')
    wp.assume(f'(and (<= 0 oldalloc) (<= (* {S} oldalloc) {MAXALLOC}))')
    wp.env['tensor.content'] = wp.const('oldcontent', 'Int', 'long')
    wp.env['nv.resizes'] = V('0', 'Int', 'long')


def h_resize(wp, n, args, obj):
    """tensor.resize(dims) -- assumed contract of specs/C15/tensor.h (nv_tensor_resize): m_dims = dims, size() = nano::size(dims) = the
    exact product when every dim >= 0 and it fits int64; std::bad_alloc above 2^47 bytes or at will (the call then does not return).
    What the reader owes to it is obliged here: validated dims."""
    arr = array_name(wp, args[0])
    R, S = wp.R, wp.S
    ds = [wp.env[f'{arr}.{k}'].t for k in range(R)]
    P = product(ds)
    wp.oblige('resize is reached only with validated dims: every dim >= 0', AND(*[f'(>= {d} 0)' for d in ds]), n)
    wp.oblige('resize is reached only with validated dims: sizeof(scalar) * prod(dims) fits int64', f'(<= (* {S} {P}) {I64MAX})', n)
    throws = wp.fresh('Bool', 'resize_throws', 'bool')
    wp.facts.append(IMP(f'(> (* {S} {P}) {MAXALLOC})', throws.t))
    wp.guard = AND(wp.guard, NOT(throws.t))         # std::bad_alloc leaves the function: "reports failure (exception ...)"
    for k in range(R):
        wp.env[f'tensor.dims.{k}'] = V(ds[k], 'Int', 'long')
    wp.env['tensor.size'] = V(P, 'Int', 'long')
    wp.env['tensor.alloc'] = V(P, 'Int', 'long')
    wp.env['tensor.content'] = wp.fresh('Int', 'fresh_block', 'long')
    wp.env['nv.resizes'] = V(f'(+ {wp.env["nv.resizes"].t} 1)', 'Int', 'long')
    return V('0', 'Int', 'int')


def h_size(wp, n, args, obj):
    return wp.env['tensor.size']


def h_data(wp, n, args, obj):
    return V('tensor', 'TensorData')


def h_hash(wp, n, args, callee):
    """detail::hash(data, count): a deterministic function of the content (uninterpreted), 0 for count <= 0 (proved on the real hash)"""
    ptr = wp.ev(args[0])
    if ptr.s != 'TensorData':
        raise Unsupported(f'{wp.name}: hash of something that is not tensor.data()')
    cnt = wp.ev(args[1])
    wp.oblige('hash: the block holds `count` scalars', f'(or (<= {cnt.t} 0) (<= {cnt.t} {wp.env["tensor.alloc"].t}))', n)
    val = f'(hashof {wp.env["tensor.content"].t} {cnt.t})'
    wp.facts.append(wp.in_range(val, 'unsigned long'))
    return V(ITE(f'(<= {cnt.t} 0)', '0', val), 'Int', 'unsigned long')


CALLS = [(r'^read\|std::istream &\(std::istream &, (unsigned int|int|unsigned long) &\)', h_read_scalar),
         (r'^read_cast\|std::istream &\(std::istream &, long \*, const unsigned long\)', h_read_cast_n),
         (r'^read\|std::istream &\(std::istream &, (double|float|long|int|signed char|unsigned char|short) \*, long\)', h_read_ptr),
         (r'^operator!\|bool \(\) const\|', h_ios_not),
         (r'^max\|(long|int) \(\) noexcept', h_max),
         (r'^operator\[\]\|std::array<long, \d+>::(const_)?reference', h_array_index),
         (r'^hash\|uint64_t \(const (double|float|long|int|signed char|unsigned char|short) \*, const long\)', h_hash)]
MEMBERS = [(r'^setstate\|std::basic_ios<char>', h_setstate), (r'^data\|std::array<long', h_array_data),
           (r'^resize\|nano::tensor_vector_storage_t', h_resize), (r'^data\|nano::tensor_vector_storage_t', h_data),
           (r'^size\|(const )?nano::tensor_base_t', h_size)]


def reader_vcs(tag, scalar, R):
    name = f'tensor_reader_smt_{tag}_{R}'
    select = lambda d: astload.template_args(d) == ['?', scalar, str(R)]
    fn = astload.find_definition(TU, 'nano::read', 'read', select)
    S = SIZEOF[scalar]
    wp = ReaderWP(name, calls=CALLS, members=MEMBERS)
    wp.tu = astload.resolve_tu(TU)          # detail::hash_version() is executed in place (the real one-liner)
    wp.bind_params(fn)
    stream_setup(wp)
    tensor_setup(wp, R, S)
    HB = 20 + 4 * R
    p0 = 'pos0'
    h = [f'(i32at (+ {p0} {8 + 4 * k}))' for k in range(R)]
    for x in h:
        wp.facts.append(wp.in_range(x, 'int'))
    P = product(h)
    hv = wp.const('the_version_the_writer_stores', 'Int', 'unsigned int')      # bound below to the real hash_version()
    fields_ok = AND(f'(= (u32at {p0}) {hv.t})', f'(= (u32at (+ {p0} 4)) {R})', f'(= (u32at (+ {p0} {8 + 4 * R})) {S})')
    dims_ok = AND(*[f'(>= {x} 0)' for x in h], f'(<= (* {S} {P}) {I64MAX})')
    valid = AND('(not fail0)', f'(>= (- len {p0}) {HB})', fields_ok, dims_ok)
    stored_hash = f'(u64at (+ {p0} {12 + 4 * R}))'
    payload_hash = ITE(f'(> {P} 0)', f'(hashof (slice (+ {p0} {HB}) (* {S} {P})) {P})', '0')

    def post(wp, rv):
        e = wp.env
        acc = NOT(e['stream.fail'].t)
        out = [
            ('failure is sticky and the position stays inside the supplied bytes',
             AND(IMP('fail0', e['stream.fail'].t), f'(<= {p0} {e["stream.pos"].t})', f'(<= {e["stream.pos"].t} len)')),
            ('SOUNDNESS accepted => version, rank and sizeof(scalar) are the ones a writer of this instantiation stores', IMP(acc, AND(f'(>= (- len {p0}) {HB})', fields_ok))),
            ('SOUNDNESS accepted => every header dim >= 0 and sizeof(scalar) * prod(dims) fits int64', IMP(acc, dims_ok)),
            ('SOUNDNESS accepted => exactly header + sizeof(scalar) * prod(dims) bytes were consumed, all of them supplied',
             IMP(acc, AND(f'(= {e["stream.pos"].t} (+ {p0} {HB} (* {S} {P})))', f'(<= (+ {p0} {HB} (* {S} {P})) len)'))),
            ('SOUNDNESS accepted => the stored hash equals hash(content) of exactly the payload slice, which the tensor block now holds',
             IMP(acc, AND(f'(= {stored_hash} {payload_hash})', IMP(f'(> {P} 0)', f'(= {e["tensor.content"].t} (slice (+ {p0} {HB}) (* {S} {P})))')))),
        ]
        out += [(f'ROUND TRIP accepted => dims[{k}] of the tensor is the dim stored in the stream, for EVERY prior content of the destination',
                 IMP(acc, f'(= {e[f"tensor.dims.{k}"].t} {h[k]})')) for k in range(R)]
        out += [
            ('ROUND TRIP accepted => size() is prod(dims of the stream) and the block holds that many scalars',
             IMP(acc, AND(f'(= {e["tensor.size"].t} {P})', f'(= {e["tensor.alloc"].t} {P})'))),
        ]
        attempted = AND(f'(= {e["nv.payload_reads"].t} 1)', f'(= {e["nv.payload_count"].t} {P})', f'(= {e["nv.payload_at"].t} (+ {p0} {HB}))')
        complete = AND(f'(>= (- len {p0}) (+ {HB} (* {S} {P})))', f'(= {stored_hash} {payload_hash})')
        for what, cond in (('(NON-EMPTY tensor)', f'(> {P} 0)'), ('(EMPTY tensor)', f'(= {P} 0)')):
            out += [(f'COMPLETENESS {what} a valid header (dims >= 0, byte count fits int64) passes the guard: the payload read is attempted once, at the end of the header, with count == prod(dims)',
                     IMP(AND(valid, cond), attempted)),
                    (f'COMPLETENESS {what} a valid and complete stream whose stored hash is hash(payload) is ACCEPTED', IMP(AND(valid, cond, complete), acc))]
        out += [
            ('the tensor is resized at most once; a rejected header leaves it untouched',
             AND(f'(<= {e["nv.resizes"].t} 1)', IMP(f'(= {e["nv.resizes"].t} 0)', AND(f'(= {e["tensor.size"].t} oldsize)', *[f'(= {e[f"tensor.dims.{k}"].t} olddim{k})' for k in range(R)])))),
        ]
        return out
    wp.post = post
    # the version constant of the format: whatever the real detail::hash_version() returns (executed in place)
    ver = None
    docs = astload.dump(TU, 'nano::detail::hash_version')
    for d in astload.find_definitions(docs, 'hash_version'):
        w2 = ReaderWP(name + '/hash_version')
        w2.run(d, None)
        body = [c for c in d['inner'] if c['kind'] == 'CompoundStmt'][0]
        for x in astload.walk(body):
            if x.get('kind') == 'ReturnStmt':
                ver = fold(w2.ev(x['inner'][0]).t)
    if ver is None:
        raise astload.ExtractionError('detail::hash_version() is not a constant')
    wp.assume(f'(= {hv.t} {ver})')
    wp.run(fn, HDR)
    if wp.returns == 0:
        raise astload.ExtractionError(f'{name}: no return path')
    about = f'nano::read(std::istream&, tensor_t<{scalar}, {R}>&) on back end B: integers with their own * and div'
    vcs = wp.vcs(name, HDR, about)
    for v in vcs:
        v.group = name
        # on the reader BEFORE the repair of FINDING_empty_tensor_rejected.md the EMPTY-tensor completeness claims are refuted for rank >= 3;
        # z3-new does not find that model of the nonlinear system quickly, z3 does (the regression test of the repair relies on it)
        v.timeout = 45
    rv = reach_vc(wp, name, HDR)
    rv.group = name
    # a second vacuity guard: some stream IS accepted (valid /\ complete /\ hash matches is satisfiable)
    smt = nvwp.PRELUDE + '\n'.join(wp.decls) + '\n' + '\n'.join(f'(assert {f})' for f in wp.facts) + \
        f'\n(assert {AND(valid, f"(>= (- len {p0}) (+ {HB} (* {S} {P})))", f"(= {stored_hash} {payload_hash})", f"(> {P} 1)")})\n(check-sat)\n'
    vcs += [rv, VC(f'{name}/vacuity guard: a valid complete stream with more than one element exists', smt, about='vacuity guard (must be sat)', expect='sat', group=name)]
    info = {'c_name': name, 'cxx': f'nano::read<tensor_t<{scalar}, {R}>>', 'file': HDR, 'line': fn.get('loc', {}).get('line'), 'sha': astload.file_hash(HDR)}
    return vcs, info, dict(wp.used)


def build(tier):
    import core
    # quick: one instantiation per obligation family -- rank 1 (int8) and 2 (guard arithmetic), double rank 3 (the smallest shape class on which the
    # EMPTY-tensor completeness claims distinguish the repaired guard from the one that rejected empty tensors), int8 rank 1 (sizeof 1:
    # max_size == INT64_MAX); thorough adds double rank 1 and 4, int64 rank 1, int8 rank 3
    QUICK = (('f64', 2), ('f64', 3), ('i8', 1))
    insts = INST if tier == 'thorough' else [i for i in INST if (i[0], i[2]) in QUICK]
    astload.dump(TU, 'nano::read')
    vcs, fns = [], []
    for tag, scalar, R in insts:
        v, f, used = reader_vcs(tag, scalar, R)
        vcs += v
        fns.append(f)
    return vcs, fns
