/* C15 instance: tensor_mem_t<int8_t, 1> (writer only: the smallest scalar, so that a dimension >= 2^31 is a 2 GiB tensor) */
#define NV_RANK 1
#define NV_SCALAR int8_t
#define NV_INLINE_LOOPS
#include "tensor.h"
#include "contracts.h"
