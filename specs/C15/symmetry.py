"""C15: reader / writer SYMMETRY of every serialisable class.

For each class the real `read` body and the real `write` body are extracted (clang AST -> C) with every transfer of a
field replaced by one stub call that logs a FIELD IDENTITY:

    ::nano::read(stream, X) / ::nano::write(stream, X) / read_cast<T>(stream, X) / write_cast<T>(...)   ->  nv_field(stream, id)
    base_t::read(stream) / base_t::write(stream)                                                          ->  nv_base(stream, id)

A field identity is (name, wire type): the name is the member (or variable) the argument expression is built from with a
leading `m_` removed (so the local `type` of feature_t::read and `scat(m_type)` of feature_t::write, or
`m_major_version` and `nano::major_version`, name the same field); the wire type is the second parameter type of the
overload that clang resolved (cv/ref stripped, string_view == string), or the explicit template argument of
read_cast / write_cast (`read_cast<int64_t>(stream, m_feature)` pairs with `write(stream, static_cast<int64_t>(m_feature))`).

The expected sequence of one body is the sequence found in the AST of its COUNTERPART (never a hand-written list).  CBMC
then executes the extracted body against that sequence: every executed transfer must be the counterpart's field at that
position, a normal return must have transferred all of them, and a class `read`/`write` (which reports by exception)
must never return normally with a failed stream.  A transfer fails nondeterministically and failure is sticky, so "every
read result is tested" is checked by the verifier on the real control flow, not by the AST walk.
"""
import os
import re

import astload
import cxx2c
from astload import ExtractionError
from core import Fn, Target
from cxx2c import unwrap, strip_cv, qual, SCALARS

FIELD_FNS = ('read', 'write', 'read_cast', 'write_cast')
H = 'specs/C15/symmetry.h'

# (label, translation unit, class / function filter, kind)
CLASSES = [
    ('configurable', 'src/configurable.cpp', 'configurable_t', 'member'),
    ('learner', 'src/learner.cpp', 'learner_t', 'member'),
    ('feature', 'src/feature.cpp', 'feature_t', 'member'),
    ('linear', 'src/linear.cpp', 'linear_t', 'member'),
    ('gboost_model', 'src/gboost/model.cpp', 'gboost_model_t', 'member'),
    ('wlearner_single', 'src/wlearner/single.cpp', 'single_feature_wlearner_t', 'member'),
    ('wlearner_stump', 'src/wlearner/stump.cpp', 'stump_wlearner_t', 'member'),
    ('wlearner_hinge', 'src/wlearner/hinge.cpp', 'hinge_wlearner_t', 'member'),
    ('wlearner_table', 'src/wlearner/table.cpp', 'table_wlearner_t', 'member'),
    ('wlearner_dtree', 'src/wlearner/dtree.cpp', 'dtree_wlearner_t', 'member'),
    ('dtree_node', 'src/wlearner/dtree.cpp', 'dtree_node_t', 'free'),
]

_printer = cxx2c.Printer('nv_symmetry_probe')


def is_stream(t):
    return bool(re.search(r'basic_[io]stream<char|std::[io]stream', qual(t)))


def norm_wire(q):
    q = strip_cv(q)
    while q.endswith('&') or q.endswith('*'):
        q = strip_cv(q[:-1])
    q = re.sub(r'\s+', ' ', q).strip()
    if re.search(r'^std::(basic_)?string(_view)?\b|basic_string_view<char|basic_string<char', q) and 'vector' not in q:
        return 'std::string'
    q = q.replace('std::basic_string<char>', 'std::string').replace('basic_string<char>', 'std::string')
    return SCALARS.get(q, q)


def field_name(arg):
    """the member / variable the transferred expression is built from (first one in source order), `m_` stripped"""
    for x in astload.walk(arg):
        if x.get('kind') == 'MemberExpr' and x.get('name') and not x.get('name', '').startswith('operator'):
            # skip member *function* references (bound member function type)
            if 'bound member function' in qual(x.get('type', {})):
                continue
            return re.sub(r'^m_', '', x['name'])
        if x.get('kind') == 'DeclRefExpr' and x.get('referencedDecl', {}).get('kind') in ('VarDecl', 'ParmVarDecl'):
            return re.sub(r'^m_', '', x['referencedDecl']['name'])
    return '?'


def field_identity(n):
    """identity of a field transfer call node, or None when `n` is not one"""
    k = n.get('kind')
    inner = n.get('inner', [])
    if k == 'CallExpr' and len(inner) >= 3:
        ref = unwrap(inner[0])
        rd = ref.get('referencedDecl') or {}
        if rd.get('name') in FIELD_FNS and is_stream(inner[1].get('type', {})):
            fq = rd.get('type', {}).get('qualType', '')
            if rd['name'] in ('read_cast', 'write_cast'):
                tt = _printer.template_text(ref, rd['name'])          # '|<int64_t>' as written in the source
                m = re.match(r'\|<([^,>]+)', tt)
                if not m:
                    raise ExtractionError(f'{rd["name"]}: explicit wire type not found in the source text')
                wire = norm_wire(m.group(1))
            else:
                m = re.match(r'.*?\((.*)\)\s*$', fq)
                params = split_params(m.group(1)) if m else []
                if len(params) < 2:
                    raise ExtractionError(f'unexpected overload type {fq!r}')
                wire = norm_wire(params[1])
                if len(params) > 2:
                    wire += '[' + ']['.join(norm_wire(p) for p in params[2:]) + ']'
            return f'{field_name(inner[2])}:{wire}'
    if k == 'CXXMemberCallExpr' and inner and inner[0].get('kind') == 'MemberExpr' and inner[0].get('name') in ('read', 'write') \
            and len(inner) >= 2 and is_stream(inner[1].get('type', {})):
        obj = inner[0]['inner'][0]
        core = obj
        while core.get('kind') in ('ImplicitCastExpr', 'ParenExpr') and core.get('inner'):
            core = core['inner'][0]
        if core.get('kind') == 'CXXThisExpr':
            base = strip_cv(qual(obj.get('type', {}))).rstrip('*').strip()
            return f'base:{base.split("::")[-1]}'
    return None


def split_params(s):
    out, depth, cur = [], 0, ''
    for ch in s:
        if ch in '<(':
            depth += 1
        if ch in '>)':
            depth -= 1
        if ch == ',' and depth == 0:
            out.append(cur.strip())
            cur = ''
        else:
            cur += ch
    if cur.strip():
        out.append(cur.strip())
    return out


def field_sequence(defn, what):
    """field identities of a body in evaluation (= source) order.  Transfers under a branch / loop / lambda have no fixed
    sequence: refuse (undecided) rather than guess."""
    body = [c for c in defn['inner'] if c.get('kind') == 'CompoundStmt'][0]
    seq = []

    def visit(n, guarded):
        if not isinstance(n, dict):
            return
        ident = field_identity(n)
        if ident is not None:
            if guarded:
                raise ExtractionError(f'{what}: field transfer {ident} under {guarded}: no fixed field sequence')
            seq.append(ident)
            return
        k = n.get('kind')
        inner = n.get('inner', [])
        if k == 'IfStmt':
            parts = [c for c in inner]
            visit(parts[0], guarded)
            for c in parts[1:]:
                visit(c, guarded or 'an if branch')
            return
        if k in ('ForStmt', 'WhileStmt', 'DoStmt', 'CXXForRangeStmt', 'SwitchStmt', 'LambdaExpr', 'ConditionalOperator'):
            for c in inner:
                visit(c, guarded or f'a {k}')
            return
        for c in inner:
            visit(c, guarded)
    visit(body, None)
    return seq


def free_select(cls):
    return lambda d: len(astload.param_types(d)) == 2 and re.fullmatch(r'(const )?(nano::)?' + re.escape(cls) + r' &', astload.param_types(d)[1]) is not None


def find(tu, cls, kind, name):
    if kind == 'member':
        return astload.find_definition(tu, f'{cls}::{name}', name)
    return astload.find_definition(tu, f'nano::{name}', name, select=free_select(cls))


def hook(ids):
    def h(P, n):
        ident = field_identity(n)
        if ident is None:
            # `m_x = <expression over erased values>` (e.g. m_type = from_string<feature_type>(type)): the member becomes an
            # arbitrary value; the right-hand side must not hide a field transfer
            if n.get('kind') == 'BinaryOperator' and n.get('opcode') == '=' and P.is_opaque(n.get('type')) \
                    and unwrap(n['inner'][0]).get('kind') in ('MemberExpr', 'DeclRefExpr'):
                if any(field_identity(x) is not None for x in astload.walk(n['inner'][1])):
                    raise ExtractionError('field transfer inside the right-hand side of an assignment')
                P.note('assignment of an erased value to a member')
                return f'({P.expr(n["inner"][0])} = nv_opaque_value())'
            return None
        if ident not in ids:
            raise ExtractionError(f'field {ident} has no identity number')
        P.note('field transfer -> nv_field / nv_base (ghost field identity)')
        if ident.startswith('base:'):
            P.may_throw = True
            P.pending_throw = True
            return f'(*nv_base({P.addr(n["inner"][1])}, {ids[ident]}))'
        return f'(*nv_field({P.addr(n["inner"][1])}, {ids[ident]}))'
    return h


TYPES = [(r'basic_[io]stream<char|^std::[io]stream$|basic_ios<char', 'struct nv_stream'), (r'ios_base::iostate$|_Ios_Iostate$', 'int32_t')]
CALLS = [(r'^operator!\|bool \(\) const\|std::basic_ios<char>', 'nv_stream_not({&0})')]
MEMBERS = [(r'^setstate\|std::basic_ios<char>', 'nv_stream_setstate({self}, {0})')]


def members_of(defn, P):
    """members of *this the body names (printed as self->m_x): name -> C type"""
    out = {}
    for x in astload.walk(defn):
        if x.get('kind') == 'MemberExpr' and x.get('inner') and 'bound member function' not in qual(x.get('type', {})):
            core = x['inner'][0]
            while core.get('kind') in ('ImplicitCastExpr', 'ParenExpr') and core.get('inner'):
                core = core['inner'][0]
            if core.get('kind') == 'CXXThisExpr':
                out[x['name']] = P.ctype(x['type'])
    return out


def targets():
    gen = os.path.join(astload.SCRATCH, 'gen', 'C15_symmetry')
    os.makedirs(gen, exist_ok=True)
    out = []
    summary = []
    # the 22 clang runs are independent: warm astload's dump cache in parallel (each Fn.emit then hits the cache)
    import concurrent.futures as cf
    jobs = [(tu, f'{cls}::{side}' if kind == 'member' else f'nano::{side}') for _, tu, cls, kind in CLASSES for side in ('read', 'write')]
    with cf.ThreadPoolExecutor(max_workers=16) as ex:
        for fut in [ex.submit(astload.dump, tu, flt) for tu, flt in sorted(set(jobs))]:
            try:
                fut.result()
            except ExtractionError:
                pass    # reported by find() below, per class
    for label, tu, cls, kind in CLASSES:
        rd, wr = find(tu, cls, kind, 'read'), find(tu, cls, kind, 'write')
        seqs = {'read': field_sequence(rd, f'{cls} read'), 'write': field_sequence(wr, f'{cls} write')}
        ids = {}
        for s in (seqs['write'], seqs['read']):
            for f in s:
                ids.setdefault(f, len(ids) + 1)
        summary.append(f'{cls}: write = [{", ".join(seqs["write"])}]  read = [{", ".join(seqs["read"])}]')
        for side, other in (('read', 'write'), ('write', 'read')):
            cname = f'{label}_{side}'
            expect = seqs[other]
            types = TYPES + ([(rf'^(nano::)?{cls}$', 'struct nv_self')] if kind == 'member' else [])
            if kind == 'member':
                f = Fn(cname, tu, side, flt=f'{cls}::{side}', self_struct='struct nv_self', types=types, calls=CALLS, members=MEMBERS,
                       hooks=[hook(ids)], opaque=[r'.'], uf_float=False)
            else:
                f = Fn(cname, tu, side, flt=f'nano::{side}', select=free_select(cls),
                       types=TYPES, calls=CALLS, members=MEMBERS, hooks=[hook(ids)], opaque=[r'.'], uf_float=False)
            probe = cxx2c.Printer(cname, types, CALLS, MEMBERS, opaque=[r'.'])
            mem = members_of(rd if side == 'read' else wr, probe) if kind == 'member' else {}
            legend = '; '.join(f'{v} = {k}' for k, v in ids.items())
            pre = os.path.join(gen, f'{cname}.h')
            tab = ' : '.join(f'(g) == {i} ? {ids[e]}' for i, e in enumerate(expect)) + (' : ' if expect else '') + '0'
            with open(pre, 'w') as fh:
                fh.write(f'/* GENERATED on every run by specs/C15/symmetry.py from the AST of {cls}::{other} (the counterpart of the\n'
                         f' * body under check): field identities {legend} */\n'
                         f'#define NV_NF {len(expect)}\n#define NV_EXPECT(g) ({tab})\n'
                         f'#include "{os.path.join(astload.VERIF, H)}"\n'
                         + ('struct nv_self { ' + ' '.join(f'{c} {m};' for m, c in sorted(mem.items())) + ' char nv_pad; };\n' if kind == 'member' else ''))
            fields = ', '.join(expect) or 'none'
            call = f'{cname}(&self, &stream);' if kind == 'member' else f'{cname}(&stream, &object);'
            decl = 'struct nv_self self;' if kind == 'member' else 'struct nv_opaque object;'
            exc = (f'  __CPROVER_assert(nv_thrown || !stream.fail, "C15 symmetry: {cls}::{side} never returns normally with a failed stream '
                   f'(the result of every field transfer is tested)");\n') if kind == 'member' else ''
            harness = (f'int main(void)\n{{\n  {decl} struct nv_stream stream;\n  nv_thrown = 0; nv_seq = 0;\n  {call}\n{exc}'
                       f'  __CPROVER_assert(!(!nv_thrown && !stream.fail) || nv_seq == NV_NF, "C15 symmetry: {cls}::{side} succeeds only after transferring every field '
                       f'{cls}::{other} transfers ({len(expect)}: {fields})");\n'
                       '  __CPROVER_assert(0, "nv_canary: end of harness reachable");\n  return 0;\n}\n')
            out.append(Target(f'sym_{cname}', [f], pre, enforce_none=True, harness=harness, loops=0,
                              checks=['--bounds-check', '--pointer-check', '--signed-overflow-check', '--conversion-check']))
    return out, summary
