"""C12, back end B: abstract model of libnano index vectors (indices_t / Eigen::Map / Eigen segment) for the symbolic
executor, with the ghost state that turns "set structure" into first-order obligations over the integers.

Nothing here re-types library code: these are the *assumed contracts* of the dependencies (Eigen, STL, tensor_t
accessors) the extracted splitter bodies call, stated over an abstract index vector

    A = (size, cnt, wr, sorted)

relative to three ghost constants fixed before the call (arbitrary, so every statement below is universally quantified):

    g   an arbitrary position of the current *world* (the `samples` vector the segments are cut from),
    d   an arbitrary slot number (used separately for every destination vector),
    gf  an arbitrary fold.

    A.cnt     how many times world position g was copied into A            (copy events of the tracked source element)
    A.wr      how many times slot d of A was written                       (write events on the tracked destination slot)
    A.sorted  the last operation on A was std::sort over the whole of A

Eigen's own (NDEBUG-compiled-out) assertions are obligations of the call sites:
    segment(begin, len):  0 <= begin, 0 <= len, begin + len <= size;        dst = src:  dst.size == src.size.
"""
import re

import nvwp
from nvwp import V, AND, OR, NOT, IMP, ITE, lit, Unsupported
from cxx2c import unwrap, strip_cv, qual, string_literal_of, TRANSPARENT, CAST_KINDS

IDX_T = r'tensor_t<nano::tensor_vector_storage_t, long, 1>|nano::indices_t'
MAP_T = r'^(const )?Eigen::Map<Eigen::Matrix<long, -1, 1, 0.*>, 0.*>$'
RNG_T = r'nano::rng_t|std::linear_congruential_engine'
SPLITS_T = r'splits_t|std::vector<std::pair<nano::tensor_t<nano::tensor_vector_storage_t, long, 1>'


def look(n):
    """look through casts, temporaries, parens and single-argument copy/move constructions"""
    while True:
        n = unwrap(n)
        if n.get('kind') in TRANSPARENT and n.get('inner'):
            n = n['inner'][0]
            continue
        if n.get('kind') in CAST_KINDS and n.get('inner'):
            n = n['inner'][0]
            continue
        return n


class SplitWP(nvwp.WP):
    """WP + abstract index vectors.  env keys: '<arr>.size', '<arr>.cnt', '<arr>.wr', '<arr>.sorted'; views and
    iterators are python-level values V(_, 'View'|'Ptr', (array name, offset term, length term))"""

    def __init__(self, name, params, **kw):
        super().__init__(name, calls=CALLS, members=MEMBERS, **kw)
        self.params = params          # parameter name -> V (registered parameter domain assumed by the caller)
        self.decl_hooks = (decl_hook,)
        self.world = None             # name of the vector whose positions the ghost g ranges over

    # -- abstract vectors
    def new_vector(self, name, size, initialised):
        self.env[name] = V(name, 'Arr')
        self.env[f'{name}.size'] = V(size, 'Int')
        self.env[f'{name}.cnt'] = V('0', 'Int')
        # a freshly allocated tensor has indeterminate contents: no slot written yet
        self.env[f'{name}.wr'] = V('1' if initialised else '0', 'Int')
        self.env[f'{name}.sorted'] = V('false', 'Bool')

    def arr(self, node):
        n = look(node)
        if n.get('kind') == 'CallExpr' and look(n['inner'][0]).get('referencedDecl', {}).get('name') == 'move':
            return self.arr(n['inner'][1])
        if n.get('kind') == 'CXXConstructExpr' and len(n.get('inner', [])) == 1:
            return self.arr(n['inner'][0])
        if n.get('kind') == 'DeclRefExpr':
            nm = n['referencedDecl']['name']
            if nm in self.env and self.env[nm].s == 'Arr':
                return nm
        raise Unsupported(f'{self.name}: expression of kind {n.get("kind")} does not denote a modelled index vector')

    def view(self, node):
        n = look(node)
        if n.get('kind') == 'DeclRefExpr':
            nm = n['referencedDecl']['name']
            v = self.env.get(nm)
            if v is not None and v.s == 'View':
                return v
            if v is not None and v.s == 'Arr':
                return V(nm, 'View', (nm, '0', self.env[f'{nm}.size'].t))
        if n.get('kind') in ('CXXMemberCallExpr', 'CallExpr', 'CXXOperatorCallExpr'):
            v = self.ev(n)
            if v.s == 'View':
                return v
        raise Unsupported(f'{self.name}: expression of kind {n.get("kind")} does not denote a vector view')

    def ptr(self, node):
        n = look(node)
        if n.get('kind') == 'BinaryOperator' and n.get('opcode') in ('+', '-') and '*' in qual(n['type']):
            b = self.ptr(n['inner'][0])
            k = self.ev(n['inner'][1])
            return V(b.t, 'Ptr', (b.c[0], f'({n["opcode"]} {b.c[1]} {k.t})', None))
        if n.get('kind') in ('CallExpr', 'CXXMemberCallExpr'):
            v = self.ev(n)
            if v.s == 'Ptr':
                return v
        raise Unsupported(f'{self.name}: expression of kind {n.get("kind")} is not a modelled iterator')

    def rng(self, node):
        """(seeded: Bool term, seed: Int term) of an rng expression: make_rng(x) or a variable initialised from it"""
        n = look(node)
        if n.get('kind') == 'CallExpr' and look(n['inner'][0]).get('referencedDecl', {}).get('name') == 'make_rng':
            self.note('make_rng')
            if len(n['inner']) < 2 or look(n['inner'][1]).get('kind') == 'CXXDefaultArgExpr' or \
                    n['inner'][1].get('kind') == 'CXXDefaultArgExpr':
                return V('rng', 'Rng', ('false', '0'))        # make_rng(): seeded from std::random_device
            a = look(n['inner'][1])
            if a.get('kind') == 'CXXConstructExpr' and not a.get('inner'):
                return V('rng', 'Rng', ('false', '0'))        # make_rng(seed_t{}): empty optional -> random_device
            s = self.ev(a)
            if s.s != 'Int':
                raise Unsupported('make_rng argument is not an integer')
            return V('rng', 'Rng', ('true', s.t))
        if n.get('kind') == 'DeclRefExpr':
            v = self.env.get(n['referencedDecl']['name'])
            if v is not None and v.s == 'Rng':
                return v
        raise Unsupported(f'{self.name}: rng expression of kind {n.get("kind")}')


def decl_hook(wp, v, init):
    q = strip_cv(qual(v['type']))
    s = v['type'].get('qualType', '')
    name = v['name']
    if re.search(SPLITS_T, q) or re.search(SPLITS_T, s):
        if init and look(init[0]).get('inner'):
            raise Unsupported('splits_t constructed with arguments')
        wp.env[name] = V(name, 'Splits')
        wp.env[f'{name}.size'] = V('0', 'Int')
        wp.splits = name
        wp.init_record(name) if hasattr(wp, 'init_record') else None
        return True
    if re.search(IDX_T, q) or re.search(IDX_T, s):
        # indices_t x(size): allocates `size` slots with indeterminate contents (tensor_vector_storage_t(dims) resizes
        # an Eigen vector).  Eigen asserts size >= 0.
        if not init:
            raise Unsupported('indices_t without initialiser')
        c = look(init[0])
        if c.get('kind') != 'CXXConstructExpr' or len(c.get('inner', [])) != 1:
            raise Unsupported('indices_t constructed from something else than one size')
        sz = wp.ev(c['inner'][0])
        if sz.s != 'Int':
            raise Unsupported('indices_t(size): size is not an integer')
        wp.oblige(f'indices_t {name}(size): size >= 0', f'(>= {sz.t} 0)', v)
        wp.new_vector(name, sz.t, initialised=False)
        return True
    if re.search(MAP_T, q):
        wp.env[name] = wp.view(init[0])
        return True
    if re.search(RNG_T, q) or re.search(RNG_T, s):
        wp.env[name] = wp.rng(init[0])
        return True
    return False


# ------------------------------------------------------------------------------------------ assumed contracts
def h_param_value(wp, n, args, obj):
    """configurable_t::parameter("name").value<T>(): the registered parameter (domain assumed, see C19)"""
    o = look(obj)
    if o.get('kind') != 'CXXMemberCallExpr' or o['inner'][0].get('name') != 'parameter' or len(o['inner']) < 2:
        raise Unsupported('value<T>() on something else than parameter("...")')
    lit_ = string_literal_of(o['inner'][1])
    if lit_ not in wp.params:
        raise Unsupported(f'parameter {lit_!r} is not in the modelled parameter list')
    v = wp.params[lit_]
    s, c = wp.sort_of(n['type'])
    return wp.conv(v, s, c, n)


def h_size(wp, n, args, obj):
    o = look(obj)
    nm = o.get('referencedDecl', {}).get('name') if o.get('kind') == 'DeclRefExpr' else None
    v = wp.env.get(nm)
    if v is not None and v.s == 'Arr':
        return V(wp.env[f'{nm}.size'].t, 'Int', 'long')
    if v is not None and v.s == 'View':
        return V(v.c[2], 'Int', 'long')
    raise Unsupported('size() of an unmodelled object')


def h_vector(wp, n, args, obj):
    """tensor_t::vector(): Eigen::Map over the whole storage (offset 0, length size())"""
    a = wp.arr(obj)
    return V(a, 'View', (a, '0', wp.env[f'{a}.size'].t))


def h_segment(wp, n, args, obj):
    """DenseBase::segment(begin, len): Eigen's precondition (eigen_assert, compiled out under NDEBUG) is an obligation"""
    v = wp.view(obj)
    a, off, ln = v.c
    b = wp.ev(args[0])
    m = wp.ev(args[1])
    wp.oblige('Eigen segment(begin, len): 0 <= begin', f'(>= {b.t} 0)', n)
    wp.oblige('Eigen segment(begin, len): 0 <= len', f'(>= {m.t} 0)', n)
    wp.oblige('Eigen segment(begin, len): begin + len <= size', f'(<= (+ {b.t} {m.t}) {ln})', n)
    return V(a, 'View', (a, f'(+ {off} {b.t})', m.t))


def h_assign(wp, n, args, callee):
    """Eigen dst = src for vector expressions: copies src[i] to dst[i] for i < size; sizes must agree (eigen_assert)"""
    dst = wp.view(args[0])
    src = wp.view(args[1])
    da, doff, dlen = dst.c
    sa, soff, slen = src.c
    wp.oblige('Eigen assignment: destination length == source length', f'(= {dlen} {slen})', n)
    if sa != wp.world:
        raise Unsupported(f'{wp.name}: copy from {sa}, which is not the world vector {wp.world}')
    if da == wp.world:
        raise Unsupported(f'{wp.name}: copy into the world vector')
    g, d = wp.g, wp.d
    cnt = wp.env[f'{da}.cnt'].t
    wr = wp.env[f'{da}.wr'].t
    wp.env[f'{da}.cnt'] = V(f'(+ {cnt} (ite (and (<= {soff} {g}) (< {g} (+ {soff} {slen}))) 1 0))', 'Int')
    wp.env[f'{da}.wr'] = V(f'(+ {wr} (ite (and (<= {doff} {d}) (< {d} (+ {doff} {dlen}))) 1 0))', 'Int')
    wp.env[f'{da}.sorted'] = V('false', 'Bool')
    return dst


def h_begin(wp, n, args, callee):
    a = wp.arr(args[0])
    return V(a, 'Ptr', (a, '0', None))


def h_end(wp, n, args, callee):
    a = wp.arr(args[0])
    return V(a, 'Ptr', (a, wp.env[f'{a}.size'].t, None))


def whole_range(wp, what, b, e, n):
    if b.c[0] != e.c[0]:
        wp.oblige(f'{what}: begin and end belong to the same vector', 'false', n)
        return b.c[0]
    a = b.c[0]
    wp.oblige(f'{what}: the range is the whole vector', f'(and (= {b.c[1]} 0) (= {e.c[1]} {wp.env[a + ".size"].t}))', n)
    return a


def h_shuffle(wp, n, args, callee):
    """std::shuffle(first, last, rng): permutes [first,last) in place, the permutation being a function of the range
    length and the rng state only (assumed).  The rng must have been constructed from the seed parameter."""
    a = whole_range(wp, 'std::shuffle', wp.ptr(args[0]), wp.ptr(args[1]), n)
    if a != wp.world:
        wp.oblige('std::shuffle permutes the input vector', 'false', n)
    r = wp.rng(args[2])
    wp.oblige('the rng driving std::shuffle was constructed by make_rng(seed) from the "splitter::seed" parameter',
              AND(r.c[0], f'(= {r.c[1]} {wp.params["splitter::seed"].t})'), n)
    wp.env[f'{a}.sorted'] = V('false', 'Bool')
    wp.env['world.shuffles'] = V(f'(+ {wp.env["world.shuffles"].t} 1)', 'Int')
    return V('0', 'Int', 'int')


def h_sort(wp, n, args, callee):
    """std::sort(first, last): [first,last) becomes a sorted permutation of itself (assumed)"""
    a = whole_range(wp, 'std::sort', wp.ptr(args[0]), wp.ptr(args[1]), n)
    wp.env[f'{a}.sorted'] = V('true', 'Bool')
    return V('0', 'Int', 'int')


def h_reserve(wp, n, args, obj):
    wp.ev(args[0])      # conversion obligations of the argument only; reserve does not change the size
    return V('0', 'Int', 'int')


def h_emplace_back(wp, n, args, obj):
    """splits.emplace_back(first, second): appends the pair; the abstract state of the pair appended as element number
    gf (the ghost fold) is recorded"""
    o = look(obj)
    s = o.get('referencedDecl', {}).get('name')
    if s is None or wp.env.get(s) is None or wp.env[s].s != 'Splits' or len(args) != 2:
        raise Unsupported('emplace_back on an unmodelled container')
    first, second = wp.arr(args[0]), wp.arr(args[1])
    k = wp.env[f'{s}.size'].t
    here = f'(= {k} {wp.gf})'
    for role, a in (('first', first), ('second', second)):
        for f, srt in (('size', 'Int'), ('cnt', 'Int'), ('wr', 'Int'), ('sorted', 'Bool')):
            key = f'{s}.{role}.{f}'
            wp.env[key] = V(ITE(here, wp.env[f'{a}.{f}'].t, wp.env[key].t), srt)
    # the ghost element lands in `second` (validation part) of this pair: running count over all pairs
    wp.env[f'{s}.hits'] = V(f'(+ {wp.env[s + ".hits"].t} {wp.env[second + ".cnt"].t})', 'Int')
    wp.env[f'{s}.shuffles_at'] = V(ITE(here, wp.env['world.shuffles'].t, wp.env[f'{s}.shuffles_at'].t), 'Int')
    wp.env[f'{s}.size'] = V(f'(+ {k} 1)', 'Int')
    return V('0', 'Int', 'int')


CALLS = [(r'^operator=\|Eigen::', h_assign), (r'^begin\|', h_begin), (r'^end\|', h_end), (r'^shuffle\|', h_shuffle),
         (r'^sort\|void \(long \*, long \*\)', h_sort)]
MEMBERS = [(r'^value\|nano::parameter_t', h_param_value), (r'^size\|', h_size), (r'^vector\|nano::tensor_t<nano::tensor_vector_storage_t, long, 1>', h_vector),
           (r'^segment\|.*Eigen::DenseBase<Eigen::Map<Eigen::Matrix<long, -1, 1', h_segment),
           (r'^reserve\|std::vector', h_reserve), (r'^emplace_back\|std::vector<std::pair', h_emplace_back)]
