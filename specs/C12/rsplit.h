/* C12, back end A cross-check: random_splitter_t::split on an ABSTRACT index-vector model in C (no element memory: index
 * vectors of symbolic length with whole-range havoc do not scale in CBMC).  Same abstraction and same ghosts as back end
 * B (specs/C12/ixmodel.py), written independently in C; the arithmetic here is linear except train_per * n, which only
 * occurs as an opaque term (idiv is replaced by its contract, proved in back end B as idiv<long,int>).
 *   nv_g   an arbitrary element of the input list (by input position)      nv_d  an arbitrary slot number
 *   nv_gf  an arbitrary fold
 *   cnt / gpos  how many slots hold element nv_g / where      wr  how many times slot nv_d was filled
 *   full        every slot holds a value                      sorted/slo/shi  std::sort made [slo,shi) ascending, untouched since */
#include "nv_base.h"
#define NV_MAXN 1000000
struct nv_ixa { int64_t n, cnt, gpos, wr, slo, shi; _Bool full, sorted; };   /* indices_t */
struct nv_ixv { struct nv_ixa* a; int64_t off, n; };                          /* Eigen::Map / segment view */
struct nv_it { struct nv_ixa* a; int64_t off; };                              /* iterator (long*) */
struct nv_rng { uint64_t state; _Bool seeded; uint64_t seed; };
struct nv_splits { int64_t size; struct nv_ixa first, second; int64_t shuffles_at; };   /* splits_t: size + the pair number nv_gf */
int64_t nv_g, nv_d, nv_gf;
int64_t nv_shuffles;            /* ghost: whole-input shuffles so far */
int64_t nv_p_folds, nv_p_train_per; uint64_t nv_p_seed;     /* the registered parameters (any value of their domains) */
#define NV_PARAMS_OK (2 <= nv_p_folds && nv_p_folds <= 100 && nv_p_seed <= 1024 && 10 <= nv_p_train_per && nv_p_train_per <= 90)
static uint64_t nv_param_seed(void) { return nv_p_seed; }
static int64_t nv_param_folds(void) { return nv_p_folds; }
static int64_t nv_param_train_per(void) { return nv_p_train_per; }
#define NV_INR(x, lo, hi) ((lo) <= (x) && (x) < (hi))

/* ------------------------------------------------------------ assumed contracts of Eigen / STL / tensor_t */
static struct nv_rng nv_make_rng(uint64_t seed) { struct nv_rng r; r.state = nv_nondet_uint64_t(); r.seeded = 1; r.seed = seed; return r; }
static struct nv_rng nv_make_rng_unseeded(void) { struct nv_rng r; r.state = nv_nondet_uint64_t(); r.seeded = 0; r.seed = 0; return r; }
static struct nv_ixa nv_ixa_make(int64_t n)
{
  __CPROVER_assert(n >= 0, "indices_t(size): size >= 0");
  struct nv_ixa a;
  a.n = n; a.cnt = 0; a.gpos = 0; a.wr = 0; a.slo = 0; a.shi = 0; a.full = 0; a.sorted = 0;
  return a;
}
static struct nv_ixv nv_vector(struct nv_ixa* a) { struct nv_ixv v; v.a = a; v.off = 0; v.n = a->n; return v; }
static struct nv_ixv nv_segment(struct nv_ixv v, int64_t begin, int64_t len)
{
  __CPROVER_assert(0 <= begin && 0 <= len && begin <= v.n - len, "Eigen segment(begin, len): 0 <= begin, 0 <= len, begin + len <= size");
  struct nv_ixv s; s.a = v.a; s.off = v.off + begin; s.n = len;
  return s;
}
static void nv_assign(struct nv_ixv dst, struct nv_ixv src)
{
  __CPROVER_assert(dst.n == src.n, "Eigen assignment: destination length == source length");
  __CPROVER_assert(src.a->full, "Eigen assignment reads initialised elements only");
  __CPROVER_assert(src.a->cnt <= 1, "the tracked element occurs at most once in the source vector");
  __CPROVER_assert(dst.a != src.a, "no aliasing copy");
  _Bool hit = src.a->cnt == 1 && NV_INR(src.a->gpos, src.off, src.off + src.n);
  if (hit) { dst.a->cnt = dst.a->cnt + 1; dst.a->gpos = dst.off + (src.a->gpos - src.off); }
  if (NV_INR(nv_d, dst.off, dst.off + dst.n)) dst.a->wr = dst.a->wr + 1;
  dst.a->sorted = 0;
}
static struct nv_it nv_begin(struct nv_ixa* a) { struct nv_it i; i.a = a; i.off = 0; return i; }
static struct nv_it nv_end(struct nv_ixa* a) { struct nv_it i; i.a = a; i.off = a->n; return i; }
static void nv_permute(struct nv_ixa* a, int64_t lo, int64_t hi)
{
  if (NV_INR(a->gpos, lo, hi)) { int64_t p = nv_nondet_int64_t(); __CPROVER_assume(NV_INR(p, lo, hi)); a->gpos = p; }
}
static void nv_shuffle(struct nv_it b, struct nv_it e, struct nv_rng* rng)
{
  __CPROVER_assert(b.a == e.a && 0 <= b.off && b.off <= e.off && e.off <= b.a->n, "std::shuffle: valid range of one vector");
  __CPROVER_assert(b.off == 0 && e.off == b.a->n, "std::shuffle permutes the whole input vector");
  __CPROVER_assert(b.a->full, "std::shuffle reads initialised elements only");
  __CPROVER_assert(rng->seeded && rng->seed == nv_p_seed, "the rng driving std::shuffle was constructed by make_rng(seed) from the splitter::seed parameter");
  nv_permute(b.a, b.off, e.off);
  b.a->sorted = 0;
  rng->state = nv_nondet_uint64_t();
  nv_shuffles = nv_shuffles + 1;
}
static void nv_sort(struct nv_it b, struct nv_it e)
{
  __CPROVER_assert(b.a == e.a && 0 <= b.off && b.off <= e.off && e.off <= b.a->n, "std::sort: valid range of one vector");
  nv_permute(b.a, b.off, e.off);
  b.a->sorted = 1; b.a->slo = b.off; b.a->shi = e.off;
}
static void nv_emplace_back(struct nv_splits* s, struct nv_ixa first, struct nv_ixa second)
{
  if (s->size == nv_gf) { s->first = first; s->second = second; s->shuffles_at = nv_shuffles; }
  s->size = s->size + 1;
}

/* ------------------------------------------------------------ contracts */
#define NV_RET __CPROVER_return_value
/* idiv<long,int>: proved in back end B (spec.py: idiv_requires / idiv_ensures), restated for denominator 100 */
int64_t idiv_l_i(int64_t nominator, int32_t denominator)
__CPROVER_requires(nominator >= 0 && denominator >= 1 && nominator <= INT64_MAX - denominator / 2)
__CPROVER_assigns()
__CPROVER_ensures(0 <= NV_RET && NV_RET <= nominator)
__CPROVER_ensures(denominator == 100 ==> (100 * NV_RET <= nominator + 50 && nominator + 50 < 100 * NV_RET + 100));

#define NV_ING(n) ((0 <= nv_g && nv_g < (n)) ? 1 : 0)
#define NV_FILLED(a) ((a).wr == (NV_INR(nv_d, 0, (a).n) ? 1 : 0))
#define NV_SORTED(a) ((a).sorted && (a).slo <= 0 && (a).n <= (a).shi)
/* the set structure of the recorded pair (ranges first, so that the sums below cannot overflow on arbitrary ghost state).
 * |training| == round(train_per*n/100) is NOT restated here: the product is non-linear, CBMC times out on it (probed);
 * it is proved in back end B (random_split/... |training| == round(...)) */
#define NV_PAIR(s, n0) (NV_INR((s).first.n, 0, NV_MAXN + 1) && NV_INR((s).second.n, 0, NV_MAXN + 1) && NV_INR((s).first.cnt, 0, 2) && NV_INR((s).second.cnt, 0, 2) \
  && (s).first.n + (s).second.n == (n0) && (s).first.cnt + (s).second.cnt == NV_ING(n0) \
  && NV_FILLED((s).first) && NV_FILLED((s).second) && NV_SORTED((s).first) && NV_SORTED((s).second) && (s).shuffles_at == nv_gf + 1)
/* the input list: n elements, element i at position i, all slots valid */
#define NV_INPUT(a) (0 <= (a).n && (a).n <= NV_MAXN && (a).cnt == NV_ING((a).n) && (a).gpos == nv_g && (a).full)

#define NV_CONTRACT_random_split \
__CPROVER_requires(NV_PARAMS_OK && NV_INPUT(samples) && 0 <= nv_gf && nv_gf < nv_p_folds && nv_shuffles == 0) \
__CPROVER_assigns(nv_shuffles) \
__CPROVER_ensures(NV_RET.size == nv_p_folds && NV_PAIR(NV_RET, __CPROVER_old(samples.n)))
#define NV_LOOP_random_split_1 \
__CPROVER_assigns(fold, samples.gpos, samples.sorted, splits, rng.state, nv_shuffles) \
__CPROVER_loop_invariant(0 <= fold && fold <= folds && folds == nv_p_folds && splits.size == fold && nv_shuffles == fold) \
__CPROVER_loop_invariant(samples.full && samples.cnt == NV_ING(samples.n) && (NV_ING(samples.n) == 1 ==> NV_INR(samples.gpos, 0, samples.n))) \
__CPROVER_loop_invariant(fold > nv_gf ==> (NV_PAIR(splits, samples.n) && splits.first.n == train_size)) \
__CPROVER_decreases(folds - fold)
