"""C12, part 2: sample_from_ball (src/core/sampling.cpp, four overloads) over the REALS (back end B, double treated as Real).

Property clause: "points sampled from a ball lie inside it" (and have the dimension of x0).

The body of the 4-argument overload is walked by specs/C06/eig.EigWP (closed list of recognised Eigen operations = assumed
contracts of the dependency) in
  * GENERIC mode: symbolic dimension n, every array represented by its coefficient at ONE generic coordinate i, reductions are
    `(nv_sum phi)` nodes (one real constant per distinct summand).  The claim  sum_i (x_i - x0_i)^2 <= radius^2  needs one
    STATED FACT about finite sums that specs/C06/vcgen.py does not have:
        S2 (homogeneity)   phi(i) == K * psi(i) at every coordinate, K the same for every coordinate  ==>  sum phi == K * sum psi
    K is FOUND by substitution (direction coefficient := 1, every other coordinate-dependent atom := 0), the identity
    phi == K * psi is PROVED (lemma VC over the reals, all values of the generic coefficients), "K is the same for every
    coordinate" is CHECKED syntactically (K mentions no generic-coordinate leaf `|a@i|` and no constant drawn inside the
    coordinate loop); only then is the instance of S2 handed to the claim VC.
  * CONCRETE mode n = 1, 2, 3 (BOUNDED stand-ins, labelled): the same claim as a polynomial inequality, no sum facts.
What the random number library returns is an ASSUMED contract (closed list, in `DRAWS`):
    std::normal_distribution<double>(m, s)(rng)                 some real
    std::discrete_distribution<int>({w0, .., wk-1})(rng)        an integer of [0, k)
    std::uniform_real_distribution<double>(a, b)(rng)           a real of [a, b]     (the standard says [a, b); the closed end is weaker)
and  std::pow  is uninterpreted with the one instantiated fact
    P1   0 <= u <= 1  and  e >= 0   ==>   0 <= pow(u, e) <= 1.
The zero direction (every Gaussian draw exactly 0.0): the code divides by |d| = 0.  That division is its own named obligation
(`direction_nonzero`), proved under the stated hypothesis "some draw is non-zero" (sum_i d_i^2 != 0); what the real code does
without it (0/0 = NaN in every coordinate) and why it is unreachable with libstdc++'s std::normal_distribution over
std::minstd_rand is recorded in specs/C12/NOTE_ball_zero_direction.md (exhaustive native enumeration of all rng states).

The three forwarding overloads are walked too: they oblige the preconditions of the overload they call (the library's own
asserts) and get exactly the clauses proved for it.
"""
import os
import re
import sys

sys.path.insert(0, os.path.join(os.path.dirname(os.path.abspath(__file__)), '..', 'C06'))
import astload
import nvwp
import sx
from core import VC
from nvwp import V, Unsupported
from cxx2c import unwrap, strip_cv, qual
from eig import EigWP, AV, real_of, type_str
import vcgen

STU = 'src/core/sampling.cpp'
FLT = 'nano::sample_from_ball'
VEC_T = r'tensor_t<nano::tensor_(carray|marray|vector)_storage_t, double, 1>|^nano::(vector_cmap_t|vector_map_t|vector_t)$|tensor_(c)?map_t<double, 1'
RNG_T = r'nano::rng_t|std::linear_congruential_engine'
DIST_T = r'^std::(discrete_distribution|normal_distribution|uniform_real_distribution)<'
POW_DECL = '(declare-fun nv_pow (Real Real) Real)'


def tmatch(rx, t):
    return bool(re.search(rx, strip_cv(qual(t))) or re.search(rx, t.get('qualType', '')))


def overload(k, rng):
    return lambda d: len(astload.param_types(d)) == k and (('rng_t' in astload.param_types(d)[-1]) == rng)


def look(n):
    while True:
        n = unwrap(n)
        if n.get('kind') in ('ExprWithCleanups', 'CXXBindTemporaryExpr', 'MaterializeTemporaryExpr', 'CXXFunctionalCastExpr', 'ImplicitCastExpr') and n.get('inner'):
            n = n['inner'][0]
            continue
        return n


class BallWP(EigWP):
    """EigWP + the <random> distributions, std::pow, lpNorm<2>, and the callee contracts of sample_from_ball"""

    def __init__(self, name, n=None):
        super().__init__(name, n=n)
        self.decl_hooks = (self.dist_decl_hook, self.vec_decl_hook) + tuple(self.decl_hooks)
        self.loop_fresh = set()         # constants created inside a coordinate loop: one value PER COORDINATE
        self.in_loop = 0
        self.draws = []                 # (kind, term) of every distribution draw
        self.calls = [(r'^pow\|double \(double, double\)', self.h_pow_fn), (r'^make_rng\|', self.h_make_rng),
                      (r'^sample_from_ball\|', self.h_ball_call)] + list(self.calls)
        self.ball_calls = []
        self.nt = 'n' if n is None else str(n)

    # ------------------------------------------------------------------------------ bookkeeping of per-coordinate constants
    def fresh(self, sort, hint='v', ctype=None):
        v = super().fresh(sort, hint, ctype)
        if self.in_loop:
            self.loop_fresh.add(v.t)
        return v

    def map_reduce(self, n, init, cond, inc, body):
        self.in_loop += 1
        try:
            return super().map_reduce(n, init, cond, inc, body)
        finally:
            self.in_loop -= 1

    # ------------------------------------------------------------------------------ while loops
    def ev(self, n):
        if n.get('kind') == 'NvValue':
            return n['v']
        return super().ev(n)

    def loop(self, n):
        """`k = 0; while (k < size) { body; ++k; }` is walked as `for (k = <current value>; k < size; ++k) body`: the counter is the
        variable the LAST statement of the body increments (it must not be assigned anywhere else in the body)"""
        if n['kind'] != 'WhileStmt':
            return super().loop(n)
        cond, body = n['inner'][-2], n['inner'][-1]
        stmts = body.get('inner', []) if body.get('kind') == 'CompoundStmt' else [body]
        last = unwrap(stmts[-1]) if stmts else {}
        ref = unwrap(last['inner'][0]) if last.get('kind') == 'UnaryOperator' and last.get('opcode') == '++' else {}
        if ref.get('kind') != 'DeclRefExpr':
            raise Unsupported(f'{self.name}: while loop whose body does not end in ++counter')
        k = ref['referencedDecl']['name']
        rest = {'kind': 'CompoundStmt', 'inner': stmts[:-1]}
        if k in self.assigned_scalars(rest) or k not in self.env:
            raise Unsupported(f'{self.name}: while loop counter {k} is assigned inside the body')
        init = {'kind': 'DeclStmt', 'inner': [{'kind': 'VarDecl', 'name': k, 'type': ref['referencedDecl']['type'],
                                               'inner': [{'kind': 'NvValue', 'v': self.env[k]}]}]}
        if self.dim is not None:
            r = self.unroll(n, None, cond, None, body)
        else:
            r = self.map_reduce(n, init, cond, stmts[-1], rest)
            self.env[k] = self.fresh('Int', k + '_after', 'long')        # nothing is claimed about the counter after the loop
        return r

    # ------------------------------------------------------------------------------ <random>
    def dist_decl_hook(self, wp, v, init):
        t = v['type']
        if tmatch(RNG_T, t):
            if not init:
                raise Unsupported(f'{self.name}: rng without initialiser')
            val = self.ev(init[0])
            if getattr(val, 's', None) != 'Rng':
                raise Unsupported(f'{self.name}: rng initialised from an unmodelled expression')
            self.env[v['name']] = val
            return True
        if not tmatch(DIST_T, t):
            return False
        kind = re.search(DIST_T, strip_cv(qual(t))).group(1)
        c = look(init[0]) if init else None
        if c is None or c.get('kind') not in ('CXXConstructExpr', 'CXXTemporaryObjectExpr'):
            raise Unsupported(f'{self.name}: distribution {v["name"]} without a constructor call')
        args = [a for a in c.get('inner', []) if a.get('kind') != 'CXXDefaultArgExpr']
        if kind == 'discrete_distribution':
            # std::discrete_distribution({w0, .., wk-1}): k weights
            il = [x for x in astload.walk(c) if x.get('kind') == 'InitListExpr']
            if len(args) != 1 or len(il) != 1 or look(args[0]).get('kind') != 'CXXStdInitializerListExpr':
                raise Unsupported(f'{self.name}: discrete_distribution not built from one braced weight list')
            ws = [real_of(self, self.ev(w)) for w in il[0].get('inner', [])]
            self.oblige('std::discrete_distribution: every weight is non-negative and one is positive',
                        nvwp.AND(*[f'(>= {w} 0.0)' for w in ws], nvwp.OR(*[f'(> {w} 0.0)' for w in ws])) if ws else 'false', v)
            self.env[v['name']] = V(v['name'], 'Dist', ('discrete', len(ws)))
        elif kind == 'normal_distribution':
            if len(args) != 2:
                raise Unsupported(f'{self.name}: normal_distribution with {len(args)} arguments')
            m, s = (real_of(self, self.ev(a)) for a in args)
            self.oblige('std::normal_distribution: standard deviation > 0', f'(> {s} 0.0)', v)
            self.env[v['name']] = V(v['name'], 'Dist', ('normal', m, s))
        else:
            if len(args) != 2:
                raise Unsupported(f'{self.name}: uniform_real_distribution with {len(args)} arguments')
            a, b = (real_of(self, self.ev(x)) for x in args)
            self.oblige('std::uniform_real_distribution: a <= b', f'(<= {a} {b})', v)
            self.env[v['name']] = V(v['name'], 'Dist', ('uniform', a, b))
        return True

    def draw(self, d, rngnode, node):
        r = self.ev(rngnode)
        if getattr(r, 's', None) != 'Rng':
            raise Unsupported(f'{self.name}: a distribution is called with something that is not the modelled rng')
        kind = d.c[0]
        self.note(f'<random> {kind} draw')
        if kind == 'discrete':
            v = self.fresh('Int', 'index', 'int')
            self.assume(f'(and (<= 0 {v.t}) (< {v.t} {d.c[1]}))')
        elif kind == 'normal':
            v = self.fresh('Real', 'gauss', 'double')
        else:
            v = self.fresh('Real', 'unif', 'double')
            self.assume(f'(and (<= {d.c[1]} {v.t}) (<= {v.t} {d.c[2]}))')
        self.draws.append((kind, v.t, bool(self.in_loop)))
        return v

    def h_make_rng(self, wp, n, args, callee):
        seeded = bool(args) and args[0].get('kind') != 'CXXDefaultArgExpr'
        return V('rng' if seeded else 'rng_unseeded', 'Rng', (seeded,))

    def h_pow_fn(self, wp, n, args, callee):
        if POW_DECL not in self.decls:
            self.decls.append(POW_DECL)
        u, e = (real_of(self, self.ev(a)) for a in args)
        return V(f'(nv_pow {u} {e})', 'Real', 'double')

    # ------------------------------------------------------------------------------ vectors
    def vec_decl_hook(self, wp, v, init):
        """`auto x = vector_t{size};`: a vector of `size` indeterminate coefficients"""
        if not tmatch(VEC_T, v['type']) or not init:
            return False
        c = look(init[0])
        if c.get('kind') in ('CXXConstructExpr', 'CXXTemporaryObjectExpr') and len(c.get('inner', [])) == 1:
            a = look(c['inner'][0])
            try:
                srt = self.sort_of(a['type'])[0]
            except Unsupported:
                srt = None
            if srt == 'Int':
                sz = self.ev(a)
                self.oblige('vector_t(size): size >= 0', f'(>= {sz.t} 0)', v)
                if self.dim is not None and sz.t != str(self.dim):
                    raise Unsupported(f'{self.name}: vector of length {sz.t} in concrete mode {self.dim}')
                self.input_array(v['name'], v['name'] + '_uninit', sz.t)
                return True
        return False

    def eigen_member(self, n):
        me = n['inner'][0]
        if me.get('kind') == 'MemberExpr' and me.get('name') == 'lpNorm' and len(n['inner']) == 1 and self.member_template_args(me) == ['2']:
            o = self.ev(me['inner'][0])
            if isinstance(o, AV) and o.kind == 'Real':
                # Eigen: lpNorm<2>() == norm() == sqrt(squaredNorm())
                self.note('Eigen .lpNorm<2>()')
                s = self.reduce([f'(* {t} {t})' for t in o.c])
                return V(f'(nv_sqrt {s})', 'Real', 'double')
        if me.get('kind') == 'MemberExpr' and me.get('name') == 'tensor' and len(n['inner']) == 1:
            o = self.ev(me['inner'][0])
            if isinstance(o, AV):
                key = self.view_key(me['inner'][0])
                r = AV(o.c, o.n, o.deps)
                r.alias = key               # a mutable map of the stored vector
                return r
        return super().eigen_member(n)

    def eigen_operator(self, n):
        inner = n['inner']
        op = unwrap(inner[0]).get('referencedDecl', {}).get('name')
        if op == 'operator()' and len(inner) == 3:
            o = self.ev(inner[1])
            if getattr(o, 's', None) == 'Dist':
                return self.draw(o, inner[2], n)
        return super().eigen_operator(n)

    # ------------------------------------------------------------------------------ callee contract (forwarding overloads)
    def h_ball_call(self, wp, n, args, callee):
        """sample_from_ball(x0, radius[, x][, rng]) called from another overload: the callee's preconditions (the library's own
        asserts) are obligations, the result gets EXACTLY the clauses proved for the callee (ball_ensures)"""
        types = [strip_cv(qual(a['type'])) for a in args]
        has_rng = bool(args) and tmatch(RNG_T, args[-1]['type'])
        nvec = len(args) - 1 - (1 if has_rng else 0)
        if nvec not in (1, 2):
            raise Unsupported(f'{self.name}: sample_from_ball called with argument types {types}')
        x0 = self.ev(args[0])
        radius = real_of(self, self.ev(args[1]))
        if not isinstance(x0, AV):
            raise Unsupported(f'{self.name}: centre handed to sample_from_ball is not a modelled vector')
        if has_rng and getattr(self.ev(args[-1]), 's', None) != 'Rng':
            raise Unsupported(f'{self.name}: rng handed to sample_from_ball is not the modelled rng')
        self.oblige('callee precondition: radius > 0', f'(> {radius} 0.0)', n)
        self.oblige('callee precondition: x0.size() > 0', f'(> {x0.n} 0)', n)
        k = len(self.ball_calls) + 1
        if nvec == 2:
            xv = self.ev(args[2])
            a2 = look(args[2])
            while a2.get('kind') in ('CXXConstructExpr', 'CXXTemporaryObjectExpr') and len(a2.get('inner', [])) == 1:
                a2 = look(a2['inner'][0])          # by-value copy of a map: the same stored vector
            key = getattr(xv, 'alias', None) or self.view_key(a2)
            if not isinstance(xv, AV) or key is None or not isinstance(self.env.get(key), AV):
                raise Unsupported(f'{self.name}: output handed to sample_from_ball is not a stored vector')
            self.oblige('callee precondition: x0.size() == x.size()', f'(= {x0.n} {xv.n})', n)
            out = AV([self.leaf(f'ball{k}', None if self.dim is None else j) for j in range(len(xv.c))], xv.n)
            self.write_array(key, out)
            res = None
        else:
            out = AV([self.leaf(f'ball{k}', None if self.dim is None else j) for j in range(len(x0.c))], x0.n)
            res = out
        self.ball_calls.append((x0, radius, out))
        return res if res is not None else V('0', 'Int', 'int')


def dist2(wp, x, x0):
    """squared Euclidean distance of two arrays, in the walker's representation of a reduction"""
    return wp.reduce([f'(* (- {a} {b}) (- {a} {b}))' for a, b in zip(x.c, x0.c)])


def setup(name, fn, n=None):
    wp = BallWP(name, n=n)
    if n is None:
        wp.const('n', 'Int', 'long')
        wp.assume(wp.in_range('n', 'long'))
    for key, p in wp.bind_params(fn):
        t = p['type']
        if tmatch(RNG_T, t):
            wp.env[key] = V('rng', 'Rng', (True,))           # the caller's generator, any state
        elif tmatch(VEC_T, t):
            if key == 'x0':
                wp.input_array(key, 'x0', wp.nt)
            else:
                nx = wp.const('x_size', 'Int', 'long').t if n is None else str(n)
                wp.input_array(key, 'xin', nx)
                wp.out_key, wp.out_size = key, nx
        elif key == 'radius':
            wp.env[key] = wp.const('radius', 'Real', 'double')
        else:
            raise Unsupported(f'{name}: unexpected parameter {key} of type {qual(t)}')
    if 'x0' not in wp.env or 'radius' not in wp.env:
        raise Unsupported(f'{name}: parameters x0 / radius not found')
    # preconditions: the library's own asserts (compiled out under NDEBUG)
    wp.assume('(> radius 0.0)')
    if n is None:
        wp.assume('(> n 0)')
    if getattr(wp, 'out_key', None) and n is None:
        wp.assume(wp.in_range('x_size', 'long'))
        wp.assume('(= n x_size)')
    return wp


def undecided(name, why, src):
    """a step of the proof PATTERN did not apply (not a refutation): undecided; the bounded stand-ins decide real violations"""
    return VC(f'{name}: not decided: {why}'[:300], '(check-sat)\n', solvers=['none'], about=why, source=src)


def homogeneity(gen, wp, phi, psi, dirterm, hyps, tag, src):
    """instance of S2 for sum(phi) against sum(psi): returns (fact | None, [lemma VCs]).  phi, psi: parsed summands."""
    dep = lambda a: bool(re.fullmatch(r'\|[^|]*@i\|', a)) or a in wp.loop_fresh
    K = sx.subst(gen.close(phi), {dirterm: '1.0'})       # sums are closed FIRST: the norm inside phi is a constant, not a function of d_i
    K = sx.subst(K, {a: '0.0' for a in sx.atoms(K) if dep(a)})
    bad = sorted(a for a in sx.atoms(K) if dep(a))
    nm = f'{tag}/sum_homogeneity: the summand of |x - x0|^2 is K * (the summand of |d|^2) at every coordinate, K found by substitution'
    ident = gen.vc(nm, hyps, ('=', phi, ('*', K, psi)), about=f'premise of the stated fact S2 (a common factor leaves a finite sum); K = {sx.show(K)[:300]}', source=src)
    ok = not bad and ident.verify()['status'] == 'SUCCESS'
    if not ok:
        return None, [undecided(nm, f'K mentions the per-coordinate atoms {bad}' if bad else 'the candidate factor does not satisfy the identity', src)]
    indep = VC(f'{tag}/sum_homogeneity_factor: the factor K is the same for every coordinate (mentions no generic-coordinate leaf and no per-coordinate draw)',
               '(assert false)\n(check-sat)\n', about=f'side condition of the stated fact S2, checked syntactically on K = {sx.show(K)[:300]}', source=src)
    fact = ('=', ('nv_sum', phi), ('*', K, ('nv_sum', psi)))
    return fact, [ident, indep]


def pow_facts(terms):
    out = []
    for t in terms:
        for p in sx.subterms(t, 'nv_pow'):
            u, e = sx.show(p[1]), sx.show(p[2])
            f = f'(=> (and (<= 0.0 {u}) (<= {u} 1.0) (>= {e} 0.0)) (and (<= 0.0 {sx.show(p)}) (<= {sx.show(p)} 1.0)))'       # P1
            if f not in out:
                out.append(f)
    return out


def name_quotients(vc):
    """(/ a d) -> (* a r) with one fresh r per distinct non-literal divisor d and  d = 0 or d * r = 1  (exact for d != 0; the divisors
    the code executes are obliged non-zero separately, under the same hypotheses: direction_nonzero).  z3 needs > 60 s for the
    n = 3 membership inequality with `/` in the script and 0.2 s without."""
    recips = {}

    def fix(t):
        if isinstance(t, str):
            return t
        t = tuple(fix(x) for x in t)
        if t[0] == '/' and len(t) == 3 and not sx.is_num(t[2]) and not (isinstance(t[2], tuple) and t[2][0] == 'to_real'):
            r = recips.setdefault(sx.show(t[2]), f'|recip#{len(recips) + 1}|')
            return ('*', t[1], r)
        return t
    lines = [sx.show(fix(sx.parse(ln))) if ln.startswith('(assert ') else ln for ln in vc.smt.split('\n')]
    k = [i for i, ln in enumerate(lines) if ln.startswith('(assert ')]
    if recips and k:
        pre = [f'(declare-const {r} Real)\n(assert (or (= {d} 0.0) (= (* {d} {r}) 1.0)))' for d, r in recips.items()]
        lines[k[0]:k[0]] = pre
    vc.smt = '\n'.join(lines)
    return vc


def walk_main(tag, n=None):
    fn = astload.find_definition(STU, FLT, 'sample_from_ball', overload(4, True))
    path = astload.resolve_tu(STU)
    wp = setup(tag, fn, n)
    state = {}

    def post(w, rv):
        state['env'], state['facts'], state['guard'] = dict(w.env), list(w.facts), w.guard
        return []
    wp.post = post
    wp.run(fn, path)
    if wp.returns != 1 or 'env' not in state:
        raise Unsupported(f'{tag}: expected exactly one exit, found {wp.returns}')
    return wp, fn, path, state


def sqrt_terms(x):
    sq = []
    for c in x.c:
        for s in sx.subterms(sx.parse(c), 'nv_sqrt'):
            if s not in sq:
                sq.append(s)
    return sq


def ball_vcs(tag, n=None):
    """the 4-argument overload: everything is proved here"""
    wp, fn, path, st = walk_main(tag, n)
    src = {'file': path, 'line': fn.get('loc', {}).get('line')}
    key = getattr(wp, 'out_key', None)
    if key is None:
        raise Unsupported(f'{tag}: no output vector parameter')
    x, x0 = st['env'][key], st['env']['x0']
    hyps = [sx.parse(h) for h in st['facts']]
    gen = vcgen.Gen(wp.decls, length=wp.nt, hyps=[], tag=tag)
    out = []
    # HYPOTHESIS (from the specification side, not from the code): the Gaussian draws are not all exactly zero
    gauss = [t for k, t, lp in wp.draws if k == 'normal' and (lp or n is not None)]
    if n is None:
        nonzero = [('not', ('=', ('nv_sum', ('*', g, g)), '0.0')) for g in gauss]
    else:
        nonzero = [sx.parse(nvwp.OR(*[f'(not (= {g} 0.0))' for g in gauss]))] if gauss else []
    # generic mode: the squared norm the code takes is the sum of the squared draws (equal summands give equal sums: proved per summand)
    sqrts = sqrt_terms(x)
    ext = []
    if n is None:
        under_sqrt = [s[1] for s in sqrts]
        sums = []
        for c in x.c:
            for t in sx.subterms(sx.parse(c), 'nv_sum'):
                if t not in sums:
                    sums.append(t)
        for k, t in enumerate(sums):
            for g in gauss:
                nm = f'{tag}/direction_is_gaussian: the summand of the squared norm equals the squared Gaussian draw at every coordinate' + (f' #{k + 1}' if k else '')
                v = gen.vc(nm, hyps, ('=', t[1], ('*', g, g)), about='equal summands give equal sums (used by direction_nonzero)', source=src, use_sum_facts=False)
                if v.verify()['status'] == 'SUCCESS':
                    out.append(v)
                    ext.append(('=', t, ('nv_sum', ('*', g, g))))
                elif t in under_sqrt:
                    out.append(undecided(nm, 'the summand is not the square of the draw', src))
    given = hyps + nonzero + ext
    # obligations collected by the walk (array sizes, loop shape, distribution parameters, sqrt argument >= 0, divisor != 0)
    seen = {}
    for label, guard, claim, line, facts in wp.obligations:
        nm, extra = label, []
        if label.startswith('real-model division is defined') and 'nv_sum' not in claim and not any(t in claim for _, t, _ in wp.draws):
            nm = 'exponent_defined: the division in the exponent 1 / n is by a non-zero dimension'
        elif label.startswith('real-model division is defined'):
            nm = 'direction_nonzero: the norm the direction is divided by is non-zero (given: some Gaussian draw is non-zero)'
            extra = nonzero + ext
        elif label.startswith('sqrt of a non-negative value'):
            nm = 'norm_defined: the square root is taken of a non-negative value'
        seen[nm] = seen.get(nm, 0) + 1
        out.append(gen.vc(f'{tag}/{nm}' + (f' @line {line}' if line else '') + (f' #{seen[nm]}' if seen[nm] > 1 else ''), list(facts) + [guard] + extra, claim,
                          about=label, source={'file': path, 'line': line}, extra_axioms=pow_facts([sx.parse(claim)])))
    if key not in getattr(wp, 'written', ()):
        out.append(VC(f'{tag}/written: the output vector is assigned', '(check-sat)\n', about='the walked body never writes the output vector', source=src))
    # dimension
    out.append(gen.vc(f'{tag}/dimension: the sampled point has the dimension of x0', hyps, ('=', x.n, x0.n), source=src))
    # membership
    claim = sx.parse(f'(<= {dist2(wp, x, x0)} (* radius radius))')
    inside = f'{tag}/inside_ball: |x - x0|_2^2 <= radius^2 (given: some Gaussian draw is non-zero)'
    fact = None
    if n is None:
        phi = sx.parse(f'(* (- {x.c[0]} {x0.c[0]}) (- {x.c[0]} {x0.c[0]}))')
        sums = [s for s in sqrts if isinstance(s[1], tuple) and s[1][0] == 'nv_sum' and isinstance(s[1][1], tuple) and s[1][1][0] == '*'
                and len(s[1][1]) == 3 and s[1][1][1] == s[1][1][2]]
        if len(sums) == 1:
            psi = sums[0][1][1]          # (* d d): d is the direction coefficient at the generic coordinate
            fact, lem = homogeneity(gen, wp, phi, psi, psi[1], given, tag, src)
            out += lem
        if fact is None:
            out.append(undecided(inside, 'generic coordinate: the result is not of the form x0 + K * d with |d| taken as sqrt(sum d_i^2) (see the bounded stand-ins)', src))
    if n is not None or fact is not None:
        hyps2 = given + ([fact] if fact is not None else [])    # as hypotheses: the sqrt / pow applications inside get their instantiated facts
        out.append(name_quotients(gen.vc(inside, hyps2, claim, about='points sampled from a ball lie inside it (over the reals)', source=src,
                                         extra_axioms=pow_facts([claim] + hyps2))))
        # vacuity: preconditions, distribution ranges, the non-zero hypothesis and the instantiated facts are satisfiable together
        out.append(gen.vc(f'{tag}/reachable: preconditions and hypotheses are satisfiable', hyps2, 'true', source=src, expect='sat', extra_axioms=pow_facts([claim] + hyps2)))
    out += gen.lemmas
    info = {'c_name': tag, 'cxx': 'sample_from_ball(vector_cmap_t, scalar_t, vector_map_t, rng_t&)', 'file': path, 'line': src['line'],
            'sha': astload.file_hash(path), 'stub_mappings_used': dict(wp.used), 'draws': [(k, l) for k, _, l in wp.draws]}
    return out, info


def forward_vcs(tag, k, rng):
    """a forwarding overload: preconditions of the callee obliged, result == what the callee returns / writes"""
    fn = astload.find_definition(STU, FLT, 'sample_from_ball', overload(k, rng))
    path = astload.resolve_tu(STU)
    wp = setup(tag, fn, None)
    src = {'file': path, 'line': fn.get('loc', {}).get('line')}
    st = {}

    def post(w, rv):
        st['rv'], st['env'], st['facts'] = rv, dict(w.env), list(w.facts)
        return []
    wp.post = post
    wp.run(fn, path)
    if wp.returns != 1:
        raise Unsupported(f'{tag}: expected exactly one exit, found {wp.returns}')
    gen = vcgen.Gen(wp.decls, length='n', hyps=[], tag=tag)
    out = gen.from_wp(wp, tag, path)
    key = getattr(wp, 'out_key', None)
    res = st['env'][key] if key else st['rv']
    ok = len(wp.ball_calls) == 1 and isinstance(res, AV)
    one = VC(f'{tag}/forwards: exactly one call of the rng-taking overload produces the result', '(assert false)\n(check-sat)\n' if ok else '(check-sat)\n',
             about='forwarding overload', source=src)
    out.append(one)
    if ok:
        x0c, radc, outc = wp.ball_calls[0]
        x0 = st['env']['x0']
        out.append(gen.vc(f'{tag}/forwards_centre_radius: the callee is given this call\'s x0 and radius', st['facts'],
                          ('and', ('=', sx.parse(x0c.c[0]), sx.parse(x0.c[0])), ('=', x0c.n, x0.n), ('=', sx.parse(radc), 'radius')), source=src))
        out.append(gen.vc(f'{tag}/forwards_result: the point returned / written is the callee\'s point, of the dimension of x0', st['facts'],
                          ('and', ('=', sx.parse(res.c[0]), sx.parse(outc.c[0])), ('=', res.n, x0.n)), source=src))
    info = {'c_name': tag, 'cxx': f'sample_from_ball ({k} parameters{", rng" if rng else ""})', 'file': path, 'line': src['line'],
            'sha': astload.file_hash(path), 'stub_mappings_used': dict(wp.used)}
    return out, info


def build(tier):
    vcs, fns, bounded = [], [], []
    r = ball_vcs('sample_from_ball')
    vcs += r[0]
    fns.append(r[1])
    for tag, k, rng in (('sample_from_ball/vector_rng', 3, True), ('sample_from_ball/vector_own_rng', 2, False), ('sample_from_ball/map_own_rng', 3, False)):
        r = forward_vcs(tag, k, rng)
        vcs += r[0]
        fns.append(r[1])
    for n in (1, 2, 3):
        r = ball_vcs(f'sample_from_ball_n{n}', n)
        for v in r[0]:
            v.bound = f'dimension n = {n}'
        bounded += r[0]
    return vcs, fns, bounded
