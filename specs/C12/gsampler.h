/* C12, back end A: gboost::sampler_t::sample -- the dispatch to the samplers ("observe_at ... gboost::sampler_t::sample").
 * Index lists and weights are abstract here (length, fill counter, the value at one ghost position nv_g); the three samplers
 * are called BY CONTRACT: their contracts below restate, field by field, what back end B proves for them in spec.py
 * (build_sampler: requires = the assumptions made there, ensures = the postconditions proved there). */
#include "nv_base.h"
#define NV_MAXN 1000000
struct nv_rng { uint64_t state; };
struct nv_ilist { int64_t n; };                                      /* const indices_t& / sample_indices_t: the training samples */
struct nv_sel { int64_t n; _Bool sorted, members, distinct, poswt; _Bool whole; }; /* returned indices_t: abstract set structure */
struct nv_wvec { int64_t n; int64_t filled; double at_g; double scratch; };     /* tensor1d_t m_weights */
struct nv_t2 { int64_t rows, cols; };                                /* tensor2d_t errors_losses: (2, samples) */
struct nv_t4 { int64_t dim0; };                                      /* tensor4d_t gradients: (samples, ...) */
struct nv_gvec { int64_t sample; };                                  /* gradients.vector(sample) */
struct nv_gsampler { struct nv_ilist m_samples; uint8_t m_type; struct nv_rng m_rng; double m_ratio; struct nv_wvec m_weights; };
/* enum class gboost_subsample : uint8_t -- values re-checked against /repo by drivers/inst_c12.cpp on every run */
#define NVE_gboost_subsample_off 0
#define NVE_gboost_subsample_subsample 1
#define NVE_gboost_subsample_bootstrap 2
#define NVE_gboost_subsample_wei_loss_bootstrap 3
#define NVE_gboost_subsample_wei_grad_bootstrap 4

int64_t nv_g;            /* ghost: an arbitrary position of the training sample list, fixed before the call */
int64_t nv_total;        /* ghost: number of samples of the dataset (second dimension of errors_losses, first of gradients) */

/* IEEE multiplication stays uninterpreted (congruence) plus ONE assumed fact: it is monotone, so for 0 < a <= 1, b >= 0:
 * 0 <= fl(a*b) <= b  (exact product <= b, b representable, rounding monotone).  CBMC needs 93 s to bit-blast this. */
#undef NV_FMUL
static double nv_fmul(double a, double b)
{
  double r = __CPROVER_uninterpreted_fmul(a, b);
  __CPROVER_assume(!(0.0 < a && a <= 1.0 && b >= 0.0) || (0.0 <= r && r <= b));
  return r;
}
#define NV_FMUL(a, b) nv_fmul(a, b)

/* element reads: tensor index asserts (compiled out under NDEBUG) are obligations.  Values are tracked at the ghost position
 * only: nv_sample_g = m_samples(nv_g), nv_loss_g = errors_losses(1, nv_sample_g), nv_gnorm_g = |gradients(nv_sample_g)|;
 * every other read is arbitrary (uninterpreted functions are not allowed in CBMC loop invariants) */
int64_t nv_sample_g; double nv_loss_g, nv_gnorm_g;
/* m_samples(i): ASSUMED data invariant: every stored training sample is a sample of the dataset, 0 <= s < nv_total */
static int64_t nv_sample_at(const struct nv_ilist* l, int64_t i)
{
  __CPROVER_assert(0 <= i && i < l->n, "m_samples(i): 0 <= i < size");
  int64_t s = (i == nv_g) ? nv_sample_g : nv_nondet_int64_t();
  __CPROVER_assume(0 <= s && s < nv_total);
  return s;
}
static double nv_loss_at(const struct nv_t2* t, int64_t row, int64_t col)
{
  __CPROVER_assert(0 <= row && row < t->rows && 0 <= col && col < t->cols, "errors_losses(row, sample): indices inside the tensor");
  return (row == 1 && col == nv_sample_g) ? nv_loss_g : nv_nondet_double();
}
static struct nv_gvec nv_grad_vector(const struct nv_t4* t, int64_t s)
{
  __CPROVER_assert(0 <= s && s < t->dim0, "gradients.vector(sample): sample inside the tensor");
  struct nv_gvec v;
  v.sample = s;
  return v;
}
/* ASSUMED contract of Eigen's lpNorm<2>() (= sqrt of a sum of squares): never negative (it may be NaN / +inf) */
static double nv_lpnorm(struct nv_gvec v)
{
  double r = v.sample == nv_sample_g ? nv_gnorm_g : nv_nondet_double();
  __CPROVER_assume(!(r < 0.0));
  return r;
}
/* m_weights(i) as an lvalue: one cell is tracked (position nv_g); writes are counted and must come in order 0, 1, 2 ... */
static double* nv_wvec_ref(struct nv_wvec* w, int64_t i)
{
  __CPROVER_assert(0 <= i && i < w->n, "m_weights(i): 0 <= i < size");
  if (i == w->filled && w->filled < INT64_MAX) w->filled = w->filled + 1;
  return i == nv_g ? &w->at_g : &w->scratch;
}
/* return m_samples; -- copy of the whole training list */
static struct nv_sel nv_sel_all(struct nv_ilist l)
{
  struct nv_sel s;
  s.n = l.n; s.members = 1; s.distinct = 1; s.whole = 1; s.sorted = nv_nondet__Bool(); s.poswt = 0;
  return s;
}

/* tensor1d_t(size): `size` uninitialised weights */
static struct nv_wvec nv_wvec_make(int64_t n)
{
  __CPROVER_assert(n >= 0, "tensor1d_t(size): size >= 0");
  struct nv_wvec w;
  w.n = n; w.filled = 0; w.at_g = nv_nondet_double(); w.scratch = nv_nondet_double();
  return w;
}
/* make_rng(seed): the generator is a function of the seed only (assumed); the seed used is recorded */
uint64_t nv_w_seed;
static struct nv_rng nv_make_rng(uint64_t seed)
{
  struct nv_rng r;
  r.state = nv_nondet_uint64_t();
  nv_w_seed = seed;
  return r;
}
/* make_rng(): seeded from std::random_device -- any seed */
static struct nv_rng nv_make_rng_unseeded(void)
{
  struct nv_rng r;
  r.state = nv_nondet_uint64_t();
  nv_w_seed = nv_nondet_uint64_t();
  return r;
}

#define NV_RET __CPROVER_return_value
/* ghost: the address of the sampler's own generator m_rng (fixed in the requires clause of sample(), compared by value only): every
 * sampler must be driven by THAT generator -- it is seeded from the constructor's seed argument (gboost_sampler_ctor) and advanced by
 * nothing else, so equal seeds and equal call histories give equal samples.  A local / static / global generator fails this clause. */
struct nv_rng* nv_member_rng;
/* class invariant of sampler_t established by its constructor and relied upon by sample() */
#define NV_GS_NOWEIGHTS(t) ((t) == NVE_gboost_subsample_off || (t) == NVE_gboost_subsample_bootstrap)
#define NV_GS_INV(s) ((s)->m_weights.n == (NV_GS_NOWEIGHTS((s)->m_type) ? 0 : (s)->m_samples.n) && (s)->m_weights.filled == 0)
#define NV_CONTRACT_gboost_sampler_ctor \
__CPROVER_requires(__CPROVER_is_fresh(self, sizeof(*self)) && __CPROVER_is_fresh(samples, sizeof(*samples)) && 0 <= samples->n && samples->n <= NV_MAXN) \
__CPROVER_assigns(*self, nv_w_seed) \
__CPROVER_ensures(self->m_samples.n == samples->n && self->m_type == type && NV_SAME(self->m_ratio, ratio) && nv_w_seed == seed && NV_GS_INV(self))
/* ---- callee contracts = what spec.py/build_sampler proves (back end B) */
struct nv_sel sample_without_replacement(struct nv_ilist samples, int64_t count, struct nv_rng* rng)
__CPROVER_requires(0 <= count && count <= samples.n && __CPROVER_is_fresh(rng, sizeof(*rng)))
__CPROVER_requires(rng == nv_member_rng)
__CPROVER_assigns(*rng)
__CPROVER_ensures(NV_RET.n == count && NV_RET.sorted && NV_RET.members && NV_RET.distinct && !NV_RET.whole);
struct nv_sel sample_with_replacement(struct nv_ilist samples, int64_t count, struct nv_rng* rng)
__CPROVER_requires(0 <= count && samples.n >= 1 && __CPROVER_is_fresh(rng, sizeof(*rng)))
__CPROVER_requires(rng == nv_member_rng)
__CPROVER_assigns(*rng)
__CPROVER_ensures(NV_RET.n == count && NV_RET.sorted && NV_RET.members && !NV_RET.whole);
/* weighted: requires the library's asserts (sizes agree, no negative weight: stated at the ghost position nv_g = for every position) and
 * every weight initialised.  NOT required here (cannot be established at the call site, see spec.py `assumptions`): a positive total weight. */
#define NV_NO_NEGATIVE_WEIGHT(w) (!(0 <= nv_g && nv_g < (w).n) || !((w).at_g < 0.0))
struct nv_sel sample_with_replacement_weighted(struct nv_ilist samples, struct nv_wvec weights, int64_t count, struct nv_rng* rng)
__CPROVER_requires(0 <= count && samples.n >= 1 && weights.n == samples.n && weights.filled == weights.n && __CPROVER_is_fresh(rng, sizeof(*rng)))
__CPROVER_requires(NV_NO_NEGATIVE_WEIGHT(weights))
__CPROVER_requires(rng == nv_member_rng)
__CPROVER_assigns(*rng)
__CPROVER_ensures(NV_RET.n == count && NV_RET.sorted && NV_RET.members && NV_RET.poswt && !NV_RET.whole);

/* ---- sampler_t::sample */
#define NV_WEIGHTED(t) ((t) == NVE_gboost_subsample_wei_loss_bootstrap || (t) == NVE_gboost_subsample_wei_grad_bootstrap)
#define NV_COUNT ((int64_t)nv_fmul(self->m_ratio, (double)self->m_samples.n))
#define NV_CONTRACT_gboost_sample \
__CPROVER_requires(__CPROVER_is_fresh(self, sizeof(*self)) && __CPROVER_is_fresh(errors_losses, sizeof(*errors_losses)) && __CPROVER_is_fresh(gradients, sizeof(*gradients))) \
/* registered domain of gboost::subsample_ratio: (0, 1]; the enum's five values; a non-empty training set */ \
__CPROVER_requires(0.0 < self->m_ratio && self->m_ratio <= 1.0 && self->m_type <= 4 && 1 <= self->m_samples.n && self->m_samples.n <= NV_MAXN) \
/* established by the constructor: m_weights has one entry per sample for the weighted modes (none otherwise) */ \
__CPROVER_requires(NV_GS_INV(self)) \
__CPROVER_requires(nv_member_rng == &self->m_rng) \
/* shapes: errors_losses is (2, samples), gradients is (samples, ...) */ \
__CPROVER_requires(errors_losses->rows == 2 && errors_losses->cols == nv_total && gradients->dim0 == nv_total && nv_total >= 0) \
/* the loss value of a training sample is not negative (row 1 of errors_losses is written by gboost::evaluate from loss_t::value; C06 proves \
 * value >= 0 for the losses over the reals): needed by the loss-weighted mode only */ \
__CPROVER_requires(self->m_type != NVE_gboost_subsample_wei_loss_bootstrap || !(nv_loss_g < 0.0)) \
__CPROVER_assigns(self->m_rng, self->m_weights) \
__CPROVER_ensures(self->m_type == NVE_gboost_subsample_off ==> (NV_RET.whole && NV_RET.n == self->m_samples.n)) \
__CPROVER_ensures(self->m_type != NVE_gboost_subsample_off ==> (NV_RET.n == NV_COUNT && 0 <= NV_RET.n && NV_RET.n <= self->m_samples.n && NV_RET.sorted && NV_RET.members && !NV_RET.whole)) \
__CPROVER_ensures(self->m_type == NVE_gboost_subsample_subsample ==> NV_RET.distinct) \
__CPROVER_ensures(NV_WEIGHTED(self->m_type) ==> (NV_RET.poswt && self->m_weights.filled == self->m_samples.n)) \
/* the weight of sample number nv_g is its loss value / its gradient magnitude */ \
__CPROVER_ensures((self->m_type == NVE_gboost_subsample_wei_loss_bootstrap && 0 <= nv_g && nv_g < self->m_samples.n) ==> NV_SAME(self->m_weights.at_g, nv_loss_g)) \
__CPROVER_ensures((self->m_type == NVE_gboost_subsample_wei_grad_bootstrap && 0 <= nv_g && nv_g < self->m_samples.n) ==> NV_SAME(self->m_weights.at_g, nv_gnorm_g))
#define NV_LOOP_gboost_sample_1 \
__CPROVER_assigns(i, self->m_weights) \
__CPROVER_loop_invariant(0 <= i && i <= size && size == self->m_samples.n && self->m_weights.n == size && self->m_weights.filled == i) \
__CPROVER_loop_invariant((0 <= nv_g && nv_g < i) ==> (NV_SAME(self->m_weights.at_g, nv_loss_g) && !(self->m_weights.at_g < 0.0))) \
__CPROVER_decreases(size - i)
#define NV_LOOP_gboost_sample_2 \
__CPROVER_assigns(i, self->m_weights) \
__CPROVER_loop_invariant(0 <= i && i <= size && size == self->m_samples.n && self->m_weights.n == size && self->m_weights.filled == i) \
__CPROVER_loop_invariant((0 <= nv_g && nv_g < i) ==> (NV_SAME(self->m_weights.at_g, nv_gnorm_g) && !(self->m_weights.at_g < 0.0))) \
__CPROVER_decreases(size - i)
