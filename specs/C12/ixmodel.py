"""C12, back end B: abstract model of libnano index vectors (indices_t, tensor maps, Eigen::Map / segment views, iterators)
for the symbolic executor nvwp, with the ghost state that turns "set structure" into quantifier-free obligations over
the integers.

Nothing here re-types library code: these are the ASSUMED contracts of the dependencies (Eigen, STL, tensor_t accessors)
that the extracted bodies call.  An index vector A is abstracted to

    A.size                      its length
    A.cnt, A.gpos               how many slots hold the tracked input element, and where it is (meaningful if cnt == 1)
    A.wr                        how many times slot d was filled (by a copy or by std::generate) since allocation
    A.full                      every slot holds a value (false for a freshly allocated vector)
    A.memb, A.poswt             every filled slot holds an element of the input list / one whose weight is positive
    A.sorted, A.slo, A.shi      std::sort made [slo, shi) ascending and nothing wrote to A since

relative to ghost constants that are fixed before the call and otherwise unconstrained, so every obligation is
universally quantified over them:

    g    an arbitrary element of the INPUT list, named by its position in the input (the tracked element),
    d    an arbitrary slot number (used separately for every vector).

Vectors of doubles (the per-sample weights, std::vector<scalar_t> temporaries derived from them) are modelled ELEMENT-WISE
as V(id, 'Rvec') with wp.rvecs[id] = (size term, fn: index term -> Real term): the caller's weights are the uninterpreted
function wval, std::transform / construction / copies compose fn with the symbolically executed element operation
(doubles as reals).  std::discrete_distribution(first, last) then carries the obligations that come from "weighted
sampling never returns an index of zero weight": one probability per sample, weight 0 => probability 0, probabilities
non-negative with a positive one.

Eigen's / tensor_t's own (NDEBUG-compiled-out) assertions are obligations of the call sites:
    segment(begin, len): 0 <= begin, 0 <= len, begin + len <= size     dst = src: dst.size == src.size
    slice(begin, end):   0 <= begin <= end <= size                      t(i): 0 <= i < size        make_udist: min <= max
"""
import re

import astload
import nvwp
from nvwp import V, AND, OR, NOT, IMP, ITE, lit, Unsupported
from cxx2c import unwrap, strip_cv, qual, string_literal_of, TRANSPARENT, CAST_KINDS

IDX_T = r'tensor_t<nano::tensor_vector_storage_t, long, 1>|nano::indices_t'
CMAP_T = r'tensor_t<nano::tensor_(carray|marray)_storage_t, long, 1>|nano::sample_indices_t|tensor_map_t<long, 1UL>'
WEIGHTS_T = r'tensor_t<nano::tensor_carray_storage_t, double, 1>|nano::sample_weights_t'
MAP_T = r'^(const )?Eigen::Map<Eigen::Matrix<long, -1, 1, 0.*>, 0.*>$'
RNG_T = r'nano::rng_t|std::linear_congruential_engine'
UDIST_T = r'std::uniform_int_distribution<long>|udist_t<int64_t>'
WDIST_T = r'std::discrete_distribution<long>|std::discrete_distribution<tensor_size_t>'
RVEC_T = r'^std::vector<(double|scalar_t|nano::scalar_t)(, std::allocator<double>)?>$'
SPLITS_T = r'splits_t|std::vector<std::pair<nano::tensor_t<nano::tensor_vector_storage_t, long, 1>'
FIELDS = [('size', 'Int'), ('cnt', 'Int'), ('gpos', 'Int'), ('wr', 'Int'), ('full', 'Bool'), ('memb', 'Bool'),
          ('poswt', 'Bool'), ('sorted', 'Bool'), ('slo', 'Int'), ('shi', 'Int')]


def look(n):
    """look through casts, temporaries and parens"""
    while True:
        n = unwrap(n)
        if n.get('kind') in TRANSPARENT and n.get('inner'):
            n = n['inner'][0]
            continue
        if n.get('kind') in CAST_KINDS and n.get('inner'):
            n = n['inner'][0]
            continue
        return n


def tmatch(rx, t):
    return bool(re.search(rx, strip_cv(qual(t))) or re.search(rx, t.get('qualType', '')))


def inr(x, lo, hi):
    return f'(and (<= {lo} {x}) (< {x} {hi}))'


class IxWP(nvwp.WP):
    """WP + abstract index vectors.  Vectors are python-level values V(id, 'Arr'); views V(_, 'View', (id, offset,
    length)); iterators V(_, 'Ptr', (id, offset)); env keys '<id>.<field>' hold the abstract state"""

    def __init__(self, name, params=None, **kw):
        super().__init__(name, calls=CALLS, members=MEMBERS, hooks=[construct_hook], **kw)
        self.params = params or {}    # registered parameter name -> V (domain assumed, see C19)
        self.decl_hooks = (decl_hook,)
        self.seed_param = None        # name of the parameter every rng must be seeded from (splitters)
        self.prov = {}                # value term -> (input position term, weight-positive term): elements read from the input
        self.weights = None
        self.rvecs = {}               # real vector id -> (size term, fn(index term) -> Real term)
        self.ntmp = 0

    # -- abstract vectors
    def setf(self, a, **kw):
        for f, v in kw.items():
            srt = dict(FIELDS)[f]
            self.env[f'{a}.{f}'] = V(v, srt)

    def f(self, a, f):
        return self.env[f'{a}.{f}'].t

    def input_vector(self, a, size):
        """the caller's list: `size` elements, element number i of the input sits at position i"""
        self.env[a] = V(a, 'Arr')
        self.setf(a, size=size, cnt=f'(ite {inr(self.g, 0, size)} 1 0)', gpos=self.g, wr=f'(ite {inr(self.d, 0, size)} 1 0)',
                  full='true', memb='true', poswt='false', sorted='false', slo='0', shi='0')

    def alloc_vector(self, a, size):
        """indices_t(size): `size` slots with indeterminate contents"""
        self.env[a] = V(a, 'Arr')
        self.setf(a, size=size, cnt='0', gpos='0', wr='0', full='false', memb='true', poswt='true', sorted='false', slo='0', shi='0')

    def copy_vector(self, b, view, node):
        """indices_t(view): element-wise copy of an initialised range"""
        a, off, ln = view.c
        self.oblige('copy construction reads initialised elements only', self.f(a, 'full'), node)
        self.oblige('the tracked element occurs at most once in the copied vector', f'(<= {self.f(a, "cnt")} 1)', node)
        hit = AND(f'(= {self.f(a, "cnt")} 1)', inr(self.f(a, 'gpos'), off, f'(+ {off} {ln})'))
        self.env[b] = V(b, 'Arr')
        self.setf(b, size=ln, cnt=f'(ite {hit} 1 0)', gpos=f'(- {self.f(a, "gpos")} {off})', wr=f'(ite {inr(self.d, 0, ln)} 1 0)',
                  full='true', memb=self.f(a, 'memb'), poswt=self.f(a, 'poswt'),
                  sorted=AND(self.f(a, 'sorted'), f'(<= {self.f(a, "slo")} {off})', f'(<= (+ {off} {ln}) {self.f(a, "shi")})'),
                  slo='0', shi=ln)

    def tmp(self):
        self.ntmp += 1
        return f'tmp{self.ntmp}'

    # -- element-wise real vectors
    def input_weights(self, name, size):
        """the caller's per-sample weights: weight of sample k is (wval k); library precondition assert(weights.min() >= 0)
        is instantiated wherever a weight is looked at"""
        self.decls.append('(declare-fun wval (Int) Real)')
        self.weights = name
        self.env[name] = V(name, 'Rvec')
        self.rvecs[name] = (size, lambda k: f'(wval {k})')

    def rvec(self, node):
        n = look(node)
        if n.get('kind') == 'CXXConstructExpr' and len(n.get('inner', [])) == 1:
            n = look(n['inner'][0])           # by-value copy of a weight map
        if n.get('kind') == 'DeclRefExpr':
            v = self.env.get(n['referencedDecl']['name'])
            if v is not None and v.s == 'Rvec':
                return v.t
        raise Unsupported(f'{self.name}: expression of kind {n.get("kind")} does not denote a modelled vector of doubles')

    def wrange(self, what, b, e, n):
        """[b, e) over a real vector as (id, begin offset, end offset)"""
        if b.s != 'WPtr' or e.s != 'WPtr' or b.c[0] != e.c[0]:
            self.oblige(f'{what}: first and last are iterators of the same vector of doubles', 'false', n)
            return None
        a = b.c[0]
        self.oblige(f'{what}: valid range 0 <= first <= last <= size',
                    f'(and (<= 0 {b.c[1]}) (<= {b.c[1]} {e.c[1]}) (<= {e.c[1]} {self.rvecs[a][0]}))', n)
        return a, b.c[1], e.c[1]

    def apply_lambda(self, lam, argvals):
        """symbolic execution of a single-return lambda in the caller's environment (by-reference captures are the
        caller's variables), its parameters bound to argvals"""
        lam = look(lam)
        if lam.get('kind') != 'LambdaExpr':
            raise Unsupported('callable argument is not a lambda')
        ops = [m for m in astload.walk(lam) if m.get('kind') == 'CXXMethodDecl' and m.get('name') == 'operator()']
        params = [c for c in ops[0]['inner'] if c.get('kind') == 'ParmVarDecl']
        body = [c for c in ops[0]['inner'] if c.get('kind') == 'CompoundStmt'][0]
        stmts = body.get('inner', [])
        if len(stmts) != 1 or stmts[0].get('kind') != 'ReturnStmt' or len(params) != len(argvals):
            raise Unsupported('lambda is not a single return statement over the expected parameters')
        saved = {}
        for q, v in zip(params, argvals):
            nm = q.get('name')
            saved[nm] = self.env.get(nm)
            self.env[nm] = v
        try:
            r = self.ev(stmts[0]['inner'][0])
        finally:
            for nm, old in saved.items():
                if old is None:
                    self.env.pop(nm, None)
                else:
                    self.env[nm] = old
        return r

    def arr(self, node):
        n = look(node)
        if n.get('kind') == 'CallExpr' and look(n['inner'][0]).get('referencedDecl', {}).get('name') == 'move':
            return self.arr(n['inner'][1])
        v = self.ev(n) if n.get('kind') in ('DeclRefExpr', 'CXXConstructExpr', 'CXXTemporaryObjectExpr', 'MemberExpr') else None
        if v is not None and v.s == 'Arr':
            return v.t
        raise Unsupported(f'{self.name}: expression of kind {n.get("kind")} does not denote a modelled index vector')

    def view(self, node):
        n = look(node)
        if n.get('kind') == 'CXXConstructExpr' and len(n.get('inner', [])) == 1 and (tmatch(CMAP_T, n['type']) or tmatch(MAP_T, n['type'])):
            return self.view(n['inner'][0])       # copy of a map: the same view
        if n.get('kind') in ('DeclRefExpr', 'CXXMemberCallExpr', 'CallExpr', 'CXXOperatorCallExpr', 'MemberExpr'):
            v = self.ev(n)
            if v.s == 'View':
                return v
            if v.s == 'Arr':
                return V(v.t, 'View', (v.t, '0', self.f(v.t, 'size')))
        raise Unsupported(f'{self.name}: expression of kind {n.get("kind")} does not denote a vector view')

    def ptr(self, node):
        n = look(node)
        if n.get('kind') == 'BinaryOperator' and n.get('opcode') in ('+', '-') and '*' in qual(n['type']):
            b = self.ptr(n['inner'][0])
            k = self.ev(n['inner'][1])
            return V(b.t, b.s, (b.c[0], f'({n["opcode"]} {b.c[1]} {k.t})'))
        if n.get('kind') == 'CXXOperatorCallExpr' and len(n.get('inner', [])) == 3 and \
                look(n['inner'][0]).get('referencedDecl', {}).get('name') in ('operator+', 'operator-') and \
                self.base(n['inner'][2]['type']) in nvwp.INT_RANGES:
            op = look(n['inner'][0])['referencedDecl']['name'][-1]      # class-type iterator +/- integer
            b = self.ptr(n['inner'][1])
            k = self.ev(n['inner'][2])
            return V(b.t, b.s, (b.c[0], f'({op} {b.c[1]} {k.t})'))
        if n.get('kind') in ('CallExpr', 'CXXMemberCallExpr'):
            v = self.ev(n)
            if v.s in ('Ptr', 'WPtr'):
                return v
        raise Unsupported(f'{self.name}: expression of kind {n.get("kind")} is not a modelled iterator')

    def rng(self, node):
        """(seeded: Bool term, seed: Int term) of an rng expression: make_rng(x), rng_t{x}, or a variable initialised from one.
        Anything that is NOT a function of the arguments -- a namespace-scope / static generator, a seed read from a global,
        std::random_device -- is an UNSEEDED generator (seeded = false): the obligation at its use then fails by name instead of the
        extraction breaking."""
        n = look(node)
        unseeded = V('rng', 'Rng', ('false', '0'))
        if n.get('kind') == 'CallExpr' and look(n['inner'][0]).get('referencedDecl', {}).get('name') == 'make_rng':
            self.note('make_rng')
            if len(n['inner']) < 2 or n['inner'][1].get('kind') == 'CXXDefaultArgExpr' or look(n['inner'][1]).get('kind') == 'CXXDefaultArgExpr':
                return unseeded                                  # make_rng(): seeded from std::random_device
            a = look(n['inner'][1])
            if a.get('kind') == 'CXXConstructExpr' and not a.get('inner'):
                return unseeded                                  # make_rng(seed_t{}): empty optional -> random_device
            if a.get('kind') == 'CXXConstructExpr' and len(a['inner']) == 1:
                a = a['inner'][0]
            return self.seeded_from(a)
        if n.get('kind') in ('CXXConstructExpr', 'CXXTemporaryObjectExpr', 'CXXFunctionalCastExpr', 'InitListExpr') and tmatch(RNG_T, n.get('type', {})):
            args = [a for a in n.get('inner', []) if a.get('kind') != 'CXXDefaultArgExpr']
            if len(args) == 1 and tmatch(RNG_T, look(args[0]).get('type', {})):
                return self.rng(args[0])                         # copy of a generator
            if len(args) == 1:
                self.note('rng_t{seed}')
                return self.seeded_from(args[0])                 # rng_t{seed}: what make_rng(seed) does
            return unseeded                                      # rng_t{}: default seed -- not the seed parameter
        if n.get('kind') == 'DeclRefExpr':
            v = self.env.get(n['referencedDecl']['name'])
            if v is not None and v.s == 'Rng':
                return v
            if v is None and tmatch(RNG_T, n.get('type', {})):
                self.note('rng that is not a local of the function')
                return unseeded                                  # namespace-scope / class-static generator: state shared between calls
        raise Unsupported(f'{self.name}: rng expression of kind {n.get("kind")}')

    def seeded_from(self, a):
        try:
            s = self.ev(a)
        except Unsupported:
            # not an expression over the arguments / parameters (a global seed, std::random_device{}(), a clock ..)
            self.note('rng seed that is not a function of the arguments')
            return V('rng', 'Rng', ('false', '0'))
        if s.s != 'Int':
            raise Unsupported('rng seed is not an integer')
        return V('rng', 'Rng', ('true', s.t))

    def range_of(self, what, b, e, n):
        """[b, e) as (vector id, begin offset, end offset); obligations: same vector, 0 <= b <= e <= size"""
        if b.s != 'Ptr' or e.s != 'Ptr' or b.c[0] != e.c[0]:
            self.oblige(f'{what}: first and last are iterators of the same index vector', 'false', n)
            return None
        a = b.c[0]
        self.oblige(f'{what}: valid range 0 <= first <= last <= size',
                    f'(and (<= 0 {b.c[1]}) (<= {b.c[1]} {e.c[1]}) (<= {e.c[1]} {self.f(a, "size")}))', n)
        return a, b.c[1], e.c[1]

    def permuted(self, a, lo, hi, hint):
        """an in-place permutation of [lo, hi): the tracked element stays inside / outside the range"""
        p = self.fresh('Int', hint)
        gp = self.f(a, 'gpos')
        inside = inr(gp, lo, hi)
        self.assume(f'(=> {inside} {inr(p.t, lo, hi)})')
        self.setf(a, gpos=f'(ite {inside} {p.t} {gp})')


def construct_hook(wp, n):
    """indices_t constructed as an expression (return value conversions, temporaries)"""
    if n.get('kind') not in ('CXXConstructExpr', 'CXXTemporaryObjectExpr') or not tmatch(IDX_T, n['type']):
        return None
    inner = n.get('inner', [])
    if len(inner) != 1:
        raise Unsupported('indices_t constructed from something else than one argument')
    a = look(inner[0])
    at = a.get('type', {})
    if tmatch(IDX_T, at):
        return wp.ev(a)                                   # copy / move of a whole vector: same abstract value
    if tmatch(CMAP_T, at) or tmatch(MAP_T, at):
        t = wp.tmp()
        wp.copy_vector(t, wp.view(a), n)
        return V(t, 'Arr')
    sz = wp.ev(inner[0])
    if sz.s != 'Int':
        raise Unsupported('indices_t(size): size is not an integer')
    wp.oblige('indices_t(size): size >= 0', f'(>= {sz.t} 0)', n)
    t = wp.tmp()
    wp.alloc_vector(t, sz.t)
    return V(t, 'Arr')


def decl_hook(wp, v, init):
    t = v['type']
    name = v['name']
    if v.get('storageClass') == 'static' and not v.get('constexpr') and not qual(t).startswith('const '):
        # a mutable function-local static survives the call: the result would depend on the call history (e.g. a static rng)
        wp.oblige('no_static_state: the function keeps no mutable function-local static (its result is a function of its arguments and parameters only)', 'false', v)
    if re.search(r'^std::random_device$', strip_cv(qual(t))):
        wp.env[name] = V(name, 'RandomDevice')
        return True
    if tmatch(SPLITS_T, t):
        if init and look(init[0]).get('inner'):
            raise Unsupported('splits_t constructed with arguments')
        wp.env[name] = V(name, 'Splits')
        wp.env[f'{name}.size'] = V('0', 'Int')
        wp.init_record(name)
        return True
    if tmatch(IDX_T, t):
        if not init:
            raise Unsupported('indices_t without initialiser')
        val = wp.ev(look(init[0]))
        if val.s != 'Arr':
            raise Unsupported('indices_t initialised from an unmodelled expression')
        wp.env[name] = val
        return True
    if tmatch(MAP_T, t) or tmatch(CMAP_T, t):
        wp.env[name] = wp.view(init[0])
        return True
    if tmatch(RNG_T, t):
        wp.env[name] = wp.rng(init[0])
        return True
    if tmatch(UDIST_T, t):
        val = wp.ev(look(init[0]))
        if val.s != 'Udist':
            raise Unsupported('uniform_int_distribution not built by make_udist')
        wp.env[name] = val
        return True
    if tmatch(RVEC_T, t):
        # std::vector<double> v(size) / v(size, value) / v(first, last) / v(other)
        c = look(init[0]) if init else None
        while c is not None and c.get('kind') in ('CXXConstructExpr', 'CXXTemporaryObjectExpr') and len(c.get('inner', [])) == 1 \
                and tmatch(RVEC_T, look(c['inner'][0]).get('type', {})):
            c = look(c['inner'][0])
        if c is None or c.get('kind') not in ('CXXConstructExpr', 'CXXTemporaryObjectExpr', 'DeclRefExpr'):
            raise Unsupported('std::vector<double> initialised from an unmodelled expression')
        if c.get('kind') == 'DeclRefExpr':
            src = wp.rvec(c)
            wp.rvecs[name] = wp.rvecs[src]
        else:
            a = [x for x in c.get('inner', []) if x.get('kind') != 'CXXDefaultArgExpr']
            if len(a) == 2 and '*' in qual(look(a[0]).get('type', {})) + qual(a[0].get('type', {})) or \
                    (len(a) == 2 and 'iterator' in qual(a[0].get('type', {}))):
                r = wp.wrange('std::vector<double>(first, last)', wp.ptr(a[0]), wp.ptr(a[1]), v)
                if r is None:
                    raise Unsupported('std::vector<double>(first, last) over different vectors')
                src, lo, hi = r
                f0 = wp.rvecs[src][1]
                wp.rvecs[name] = (f'(- {hi} {lo})', lambda k, f0=f0, lo=lo: f0(f'(+ {k} {lo})'))
            elif len(a) in (1, 2):
                sz = wp.ev(a[0])
                if sz.s != 'Int':
                    raise Unsupported('std::vector<double>(size): size is not an integer')
                val = wp.conv(wp.ev(a[1]), 'Real', 'double').t if len(a) == 2 else '0.0'
                wp.rvecs[name] = (sz.t, lambda k, val=val: val)
            elif not a:
                wp.rvecs[name] = ('0', lambda k: '0.0')
            else:
                raise Unsupported('std::vector<double> constructor with unexpected arguments')
        wp.env[name] = V(name, 'Rvec')
        return True
    if tmatch(WDIST_T, t):
        c = look(init[0])
        if c.get('kind') not in ('CXXConstructExpr', 'CXXTemporaryObjectExpr') or len(c.get('inner', [])) != 2:
            raise Unsupported('discrete_distribution not built from an iterator range')
        wp.env[name] = make_wdist(wp, name, wp.ptr(c['inner'][0]), wp.ptr(c['inner'][1]), v)
        return True
    return False


# ------------------------------------------------------------------------------------------ assumed contracts
def h_param_value(wp, n, args, obj):
    """configurable_t::parameter("name").value<T>(): the registered parameter (domain assumed, see C19)"""
    o = look(obj)
    if o.get('kind') != 'CXXMemberCallExpr' or o['inner'][0].get('name') != 'parameter' or len(o['inner']) < 2:
        raise Unsupported('value<T>() on something else than parameter("...")')
    lit_ = string_literal_of(o['inner'][1])
    if lit_ not in wp.params:
        raise Unsupported(f'parameter {lit_!r} is not in the modelled parameter list')
    s, c = wp.sort_of(n['type'])
    return wp.conv(wp.params[lit_], s, c, n)


def h_size(wp, n, args, obj):
    o = look(obj)
    v = wp.ev(o) if o.get('kind') == 'DeclRefExpr' else None
    if v is not None and v.s == 'Arr':
        return V(wp.f(v.t, 'size'), 'Int', 'long')
    if v is not None and v.s == 'View':
        return V(v.c[2], 'Int', 'long')
    if v is not None and v.s == 'Rvec':
        return V(wp.rvecs[v.t][0], 'Int', 'long')
    raise Unsupported('size() of an unmodelled object')


def h_rvec_reduce(kind):
    """weights.sum() / min() / max() of the caller's weight vector: a real constant with the facts a finite sum / extremum
    of NON-NEGATIVE reals has at the ghost positions the spec tracks (assumed contract of the Eigen reduction; the weights
    are non-negative by the library's own assert(weights.min() >= 0)): sum >= 0 and sum >= each tracked weight; min <= each
    tracked weight and min >= 0; max >= each tracked weight"""
    def h(wp, n, args, obj):
        o = look(obj)
        v = wp.ev(o) if o.get('kind') == 'DeclRefExpr' else None
        if v is None or v.s != 'Rvec' or v.t != wp.weights:
            raise Unsupported(f'{kind}() of an unmodelled object')
        r = wp.fresh('Real', f'weights_{kind}', 'double')
        ghosts = [g for g in ('gw',) if any(d.startswith(f'(declare-const {g} ') for d in wp.decls)]
        size = wp.rvecs[v.t][0]
        facts = ['(>= %s 0.0)' % r.t]
        for g in ghosts:
            op = '<=' if kind == 'min' else '>='
            facts.append(f'(=> {inr(g, 0, size)} (and (>= (wval {g}) 0.0) ({op} {r.t} (wval {g}))))')
        wp.assume(AND(*facts))
        return r
    return h


def h_vector(wp, n, args, obj):
    """tensor_t::vector(): Eigen::Map over the whole storage"""
    return wp.view(obj)


def h_segment(wp, n, args, obj):
    """DenseBase::segment(begin, len): Eigen's precondition (eigen_assert, compiled out under NDEBUG) is an obligation"""
    a, off, ln = wp.view(obj).c
    b, m = wp.ev(args[0]), wp.ev(args[1])
    wp.oblige('Eigen segment(begin, len): 0 <= begin', f'(>= {b.t} 0)', n)
    wp.oblige('Eigen segment(begin, len): 0 <= len', f'(>= {m.t} 0)', n)
    wp.oblige('Eigen segment(begin, len): begin + len <= size', f'(<= (+ {b.t} {m.t}) {ln})', n)
    return V(a, 'View', (a, f'(+ {off} {b.t})', m.t))


def h_slice(wp, n, args, obj):
    """tensor_t::slice(begin, end): tslice() asserts begin >= 0 && begin <= end && end <= size (compiled out)"""
    a, off, ln = wp.view(obj).c
    b, e = wp.ev(args[0]), wp.ev(args[1])
    wp.oblige('tensor_t::slice(begin, end): 0 <= begin <= end <= size', f'(and (<= 0 {b.t}) (<= {b.t} {e.t}) (<= {e.t} {ln}))', n)
    return V(a, 'View', (a, f'(+ {off} {b.t})', f'(- {e.t} {b.t})'))


def fill(wp, a, lo, hi):
    wp.setf(a, wr=f'(+ {wp.f(a, "wr")} (ite {inr(wp.d, lo, hi)} 1 0))', sorted='false')


def h_assign(wp, n, args, callee):
    """Eigen dst = src for vector expressions: dst[i] = src[i] for i < size; sizes must agree (eigen_assert)"""
    da, doff, dlen = wp.view(args[0]).c
    sa, soff, slen = wp.view(args[1]).c
    wp.oblige('Eigen assignment: destination length == source length', f'(= {dlen} {slen})', n)
    wp.oblige('Eigen assignment reads initialised elements only', wp.f(sa, 'full'), n)
    wp.oblige('the tracked element occurs at most once in the source vector', f'(<= {wp.f(sa, "cnt")} 1)', n)
    if da == sa:
        raise Unsupported(f'{wp.name}: aliasing copy inside {da}')
    hit = AND(f'(= {wp.f(sa, "cnt")} 1)', inr(wp.f(sa, 'gpos'), soff, f'(+ {soff} {slen})'))
    wp.setf(da, cnt=f'(+ {wp.f(da, "cnt")} (ite {hit} 1 0))',
            gpos=f'(ite {hit} (+ {doff} (- {wp.f(sa, "gpos")} {soff})) {wp.f(da, "gpos")})',
            memb=AND(wp.f(da, 'memb'), wp.f(sa, 'memb')), poswt=AND(wp.f(da, 'poswt'), wp.f(sa, 'poswt')))
    fill(wp, da, doff, f'(+ {doff} {dlen})')
    return V(da, 'View', (da, doff, dlen))


def h_begin(wp, n, args, callee):
    o = look(args[0])
    v = wp.ev(o) if o.get('kind') == 'DeclRefExpr' else None
    if v is not None and v.s == 'Rvec':
        return V(v.t, 'WPtr', (v.t, '0'))
    a, off, ln = wp.view(args[0]).c
    return V(a, 'Ptr', (a, off))


def h_end(wp, n, args, callee):
    o = look(args[0])
    v = wp.ev(o) if o.get('kind') == 'DeclRefExpr' else None
    if v is not None and v.s == 'Rvec':
        return V(v.t, 'WPtr', (v.t, wp.rvecs[v.t][0]))
    a, off, ln = wp.view(args[0]).c
    return V(a, 'Ptr', (a, f'(+ {off} {ln})'))


def h_shuffle(wp, n, args, callee):
    """std::shuffle(first, last, rng): permutes [first,last) in place; the permutation is a function of the length and
    the rng state only (assumed).  Splitters: the rng must have been constructed from the seed parameter."""
    r = wp.range_of('std::shuffle', wp.ptr(args[0]), wp.ptr(args[1]), n)
    g = wp.rng(args[2])
    if wp.seed_param:
        wp.oblige(f'the rng driving std::shuffle was constructed by make_rng(seed) from the "{wp.seed_param}" parameter',
                  AND(g.c[0], f'(= {g.c[1]} {wp.params[wp.seed_param].t})'), n)
    if r is None:
        return V('0', 'Int', 'int')
    a, lo, hi = r
    wp.oblige('std::shuffle reads initialised elements only', wp.f(a, 'full'), n)
    wp.permuted(a, lo, hi, 'shuffled_pos')
    wp.setf(a, sorted='false')
    key = f'{a}.shuffles'
    if key in wp.env:
        # whole-vector reshuffles of the splitters' input are counted (per-fold reshuffle of the random splitter)
        wp.oblige('std::shuffle permutes the whole input vector', f'(and (= {lo} 0) (= {hi} {wp.f(a, "size")}))', n)
        wp.env[key] = V(f'(+ {wp.env[key].t} 1)', 'Int')
    return V('0', 'Int', 'int')


def h_sort(wp, n, args, callee):
    """std::sort(first, last): [first,last) becomes an ascending permutation of itself (assumed)"""
    r = wp.range_of('std::sort', wp.ptr(args[0]), wp.ptr(args[1]), n)
    if r is None:
        return V('0', 'Int', 'int')
    a, lo, hi = r
    wp.permuted(a, lo, hi, 'sorted_pos')
    wp.setf(a, sorted='true', slo=lo, shi=hi)
    return V('0', 'Int', 'int')


def h_make_udist(wp, n, args, callee):
    lo, hi = wp.ev(args[0]), wp.ev(args[1])
    wp.oblige('make_udist(min, max): min <= max (assert in nano/core/random.h; precondition of std::uniform_int_distribution)',
              f'(<= {lo.t} {hi.t})', n)
    return V('udist', 'Udist', (lo.t, hi.t))


def h_draw(wp, n, args, callee):
    """dist(rng): uniform_int_distribution -> a value of [lo, hi]; discrete_distribution over n weights -> an index of
    [0, n) whose weight is positive (the STL's guarantee)"""
    d = wp.ev(look(args[0]))
    wp.rng(args[1])
    k = wp.fresh('Int', 'drawn', 'long')
    wp.assume(wp.in_range(k.t, 'long'))
    if d.s == 'Udist':
        wp.assume(f'(and (<= {d.c[0]} {k.t}) (<= {k.t} {d.c[1]}))')
        return k
    if d.s == 'Wdist':
        # index k of the distribution is drawn only if its probability is positive (STL); the caller's weights are >= 0
        ln, prob = d.c
        wp.assume(f'(and (<= 0 {k.t}) (< {k.t} {ln}) (> {prob(k.t)} 0.0) (>= (wval {k.t}) 0.0))')
        return k
    raise Unsupported('operator() of an unmodelled distribution')


def h_at(wp, n, args, callee):
    """tensor_t::operator()(i) on the input list: element i (tensor index assert: 0 <= i < size, compiled out)"""
    a, off, ln = wp.view(args[0]).c
    if a != wp.input:
        raise Unsupported('element access on a vector that is not the input list')
    i = wp.ev(args[1])
    wp.oblige('tensor element access: 0 <= index < size', inr(i.t, 0, ln), n)
    v = wp.fresh('Int', 'element', 'long')
    wp.assume(wp.in_range(v.t, 'long'))
    wp.prov[v.t] = f'(+ {off} {i.t})'
    return v


def h_generate(wp, n, args, callee):
    """std::generate(first, last, gen): assigns gen() to every element of [first, last).  The generator (a lambda with
    by-reference captures) is executed symbolically once, in the caller's environment, for an arbitrary rng state: what
    holds for this one call holds for every call."""
    r = wp.range_of('std::generate', wp.ptr(args[0]), wp.ptr(args[1]), n)
    v = wp.apply_lambda(args[2], [])
    k = wp.prov.get(v.t)
    wp.oblige('the generator returns an element of the input list', 'true' if k is not None else 'false', n)
    if r is None:
        return V('0', 'Int', 'int')
    a, lo, hi = r
    if k is None:
        wp.setf(a, memb='false', poswt='false')
        fill(wp, a, lo, hi)
        return V('0', 'Int', 'int')
    c = wp.fresh('Int', 'cnt_generated')
    wp.assume(f'(>= {c.t} 0)')
    wp.setf(a, cnt=c.t, poswt=AND(wp.f(a, 'poswt'), f'(> (wval {k}) 0.0)') if wp.weights else 'false')
    fill(wp, a, lo, hi)
    return V('0', 'Int', 'int')


def h_reserve(wp, n, args, obj):
    wp.ev(args[0])      # conversion obligations of the argument only; reserve does not change the size
    return V('0', 'Int', 'int')


def h_emplace_back(wp, n, args, obj):
    """splits.emplace_back(first, second): appends the pair; the abstract state of the pair appended as element number
    gf (the ghost fold) is recorded"""
    o = look(obj)
    s = o.get('referencedDecl', {}).get('name')
    if s is None or wp.env.get(s) is None or wp.env[s].s != 'Splits' or len(args) != 2:
        raise Unsupported('emplace_back on an unmodelled container')
    first, second = wp.arr(args[0]), wp.arr(args[1])
    k = wp.env[f'{s}.size'].t
    here = f'(= {k} {wp.gf})'
    for role, a in (('first', first), ('second', second)):
        for f, srt in FIELDS:
            key = f'{s}.{role}.{f}'
            wp.env[key] = V(ITE(here, wp.f(a, f), wp.env[key].t), srt)
    # the tracked element lands in `second` (the validation part) of this pair: running count over all pairs
    wp.env[f'{s}.hits'] = V(f'(+ {wp.env[s + ".hits"].t} {wp.f(second, "cnt")})', 'Int')
    wp.env[f'{s}.shuffles_at'] = V(ITE(here, wp.env[f'{wp.input}.shuffles'].t, wp.env[f'{s}.shuffles_at'].t), 'Int')
    wp.env[f'{s}.size'] = V(f'(+ {k} 1)', 'Int')
    for a in args:      # a vector handed over with std::move is gone: any later use is outside the model
        m = look(a)
        if m.get('kind') == 'CallExpr' and look(m['inner'][0]).get('referencedDecl', {}).get('name') == 'move':
            v = look(m['inner'][1])
            if v.get('kind') == 'DeclRefExpr':
                wp.env[v['referencedDecl']['name']] = V(v['referencedDecl']['name'], 'Moved')
    return V('0', 'Int', 'int')


def make_wdist(wp, name, b, e, node):
    """std::discrete_distribution<long>(first, last): index k is drawn with probability first[k] / sum.  From the property
    (samples(k) is returned when k is drawn; an index of zero weight must never be returned) the probabilities must be the
    caller's weights up to a zero-preserving map: stated at the ghost sample z (arbitrary)"""
    r = wp.wrange('std::discrete_distribution(first, last)', b, e, node)
    if r is None:
        raise Unsupported('discrete_distribution over different vectors')
    a, lo, hi = r
    size, fn = wp.rvecs[a]
    n = wp.f(wp.input, 'size')
    prob = lambda k, fn=fn, lo=lo: fn(f'(+ {lo} {k})')
    z = wp.fresh('Int', 'z').t
    wp.assume(f'(>= (wval {z}) 0.0)')           # the library's assert(weights.min() >= 0.0), at z
    wp.oblige('std::discrete_distribution has exactly one probability per sample (index k <-> samples(k))', f'(= (- {hi} {lo}) {n})', node)
    wp.oblige('std::discrete_distribution is built from the given weights: weight 0 => probability 0 (a zero-weight index is never drawn)',
              f'(=> (and {inr(z, 0, n)} (= (wval {z}) 0.0)) (= {prob(z)} 0.0))', node)
    wp.oblige('std::discrete_distribution: probabilities are non-negative', f'(=> {inr(z, 0, n)} (>= {prob(z)} 0.0))', node)
    wp.oblige('std::discrete_distribution: some probability is positive (a sample of positive weight keeps a positive probability)',
              f'(> {prob("gw")} 0.0)', node)
    return V(name, 'Wdist', (f'(- {hi} {lo})', prob))


def h_transform(wp, n, args, callee):
    """std::transform(first, last, d_first, op): d_first[i] = op(first[i]) for i < last - first (element-wise, assumed);
    the destination must have room"""
    if len(args) != 4:
        raise Unsupported('binary std::transform')
    r = wp.wrange('std::transform', wp.ptr(args[0]), wp.ptr(args[1]), n)
    d = wp.ptr(args[2])
    if r is None or d.s != 'WPtr':
        raise Unsupported('std::transform over something else than vectors of doubles')
    src, lo, hi = r
    da, doff = d.c
    dsize, dfn = wp.rvecs[da]
    sfn = wp.rvecs[src][1]
    wp.oblige('std::transform: the destination has room for last - first elements',
              f'(and (<= 0 {doff}) (<= (+ {doff} (- {hi} {lo})) {dsize}))', n)
    x = wp.fresh('Real', 'elem', 'double')      # one symbolic element stands for every element
    y = wp.apply_lambda(args[3], [x])
    if y.s != 'Real':
        y = wp.conv(y, 'Real', 'double')
    yt, xt = y.t, x.t

    def fn(k, dfn=dfn, sfn=sfn, lo=lo, hi=hi, doff=doff, yt=yt, xt=xt):
        srcv = sfn(f'(+ {lo} (- {k} {doff}))')
        return f'(ite {inr(k, doff, f"(+ {doff} (- {hi} {lo}))")} (let (({xt} {srcv})) {yt}) {dfn(k)})'
    wp.rvecs[da] = (dsize, fn)
    return V(da, 'WPtr', (da, f'(+ {doff} (- {hi} {lo}))'))


def h_rmax(wp, n, args, callee):
    a, b = wp.conv(wp.ev(args[0]), 'Real', 'double'), wp.conv(wp.ev(args[1]), 'Real', 'double')
    return V(f'(rmax {a.t} {b.t})', 'Real', 'double')


def h_rmin(wp, n, args, callee):
    a, b = wp.conv(wp.ev(args[0]), 'Real', 'double'), wp.conv(wp.ev(args[1]), 'Real', 'double')
    return V(f'(rmin {a.t} {b.t})', 'Real', 'double')


def h_rabs(wp, n, args, callee):
    return V(f'(rabs {wp.conv(wp.ev(args[0]), "Real", "double").t})', 'Real', 'double')


def h_epsilon(wp, n, args, callee):
    """nano::epsilon / epsilon0..3<double>(): small positive constants (assumed: > 0)"""
    nm = 'c_' + look(n['inner'][0]).get('referencedDecl', {}).get('name', 'epsilon')
    if f'(declare-const {nm} Real)' not in wp.decls:
        wp.decls.append(f'(declare-const {nm} Real)')
        wp.assume(f'(> {nm} 0.0)')
    return V(nm, 'Real', 'double')


def h_sample(wp, n, args, callee):
    """std::sample(first, last, out, n, rng) for forward iterators: copies min(n, last - first) distinct elements of
    [first, last) to out, in the order they have in the input (selection sampling is stable); NOTHING else about order"""
    r = wp.range_of('std::sample', wp.ptr(args[0]), wp.ptr(args[1]), n)
    out = wp.ptr(args[2])
    cnt = wp.ev(args[3])
    wp.rng(args[4])
    if r is None or out.s != 'Ptr':
        raise Unsupported('std::sample over something else than index vectors')
    a, lo, hi = r
    b, doff = out.c
    if a == b:
        raise Unsupported('std::sample into its own input')
    wp.oblige('std::sample: n >= 0', f'(>= {cnt.t} 0)', n)
    m = f'(imin {cnt.t} (- {hi} {lo}))'
    wp.oblige('std::sample: the output range has room for min(n, last - first) elements',
              f'(and (<= 0 {doff}) (<= (+ {doff} {m}) {wp.f(b, "size")}))', n)
    wp.oblige('std::sample reads initialised elements only', wp.f(a, 'full'), n)
    wp.oblige('the tracked element occurs at most once in the sampled vector', f'(<= {wp.f(a, "cnt")} 1)', n)
    present = AND(f'(= {wp.f(a, "cnt")} 1)', inr(wp.f(a, 'gpos'), lo, hi))
    c = wp.fresh('Int', 'selected')           # is the tracked element among the selected ones: at most once
    p = wp.fresh('Int', 'selected_pos')
    wp.assume(f'(and (<= 0 {c.t}) (<= {c.t} (ite {present} 1 0)) (=> (= {m} (- {hi} {lo})) (= {c.t} (ite {present} 1 0))))')
    wp.assume(f'(=> (= {c.t} 1) {inr(p.t, doff, f"(+ {doff} {m})")})')
    wp.setf(b, cnt=f'(+ {wp.f(b, "cnt")} {c.t})', gpos=f'(ite (= {c.t} 1) {p.t} {wp.f(b, "gpos")})',
            memb=AND(wp.f(b, 'memb'), wp.f(a, 'memb')), poswt=AND(wp.f(b, 'poswt'), wp.f(a, 'poswt')))
    fill(wp, b, doff, f'(+ {doff} {m})')
    # input order is kept: the output is ascending only where the input range was
    wp.setf(b, sorted=AND(wp.f(a, 'sorted'), f'(<= {wp.f(a, "slo")} {lo})', f'(<= {hi} {wp.f(a, "shi")})'), slo=doff, shi=f'(+ {doff} {m})')
    return V(b, 'Ptr', (b, f'(+ {doff} {m})'))


CALLS = [(r'^operator=\|Eigen::', h_assign), (r'^transform\|', h_transform), (r'^sample\|', h_sample),
         (r'^max\|const double &', h_rmax), (r'^min\|const double &', h_rmin), (r'^(fabs|abs)\|double', h_rabs),
         (r'^epsilon[0-3]?\|double \(\)', h_epsilon), (r'^begin\|', h_begin), (r'^end\|', h_end), (r'^shuffle\|', h_shuffle),
         (r'^sort\|void \(long \*, long \*\)', h_sort), (r'^make_udist\|', h_make_udist), (r'^generate\|', h_generate),
         (r'^operator\(\)\|.*\|std::(uniform_int|discrete)_distribution<long>', h_draw),
         (r'^operator\(\)\|.*\|nano::tensor_t<nano::tensor_carray_storage_t, long, 1>', h_at)]
MEMBERS = [(r'^value\|nano::parameter_t', h_param_value), (r'^size\|', h_size),
           (r'^sum\|nano::tensor_t<nano::tensor_carray_storage_t, double, 1>', h_rvec_reduce('sum')),
           (r'^min\|nano::tensor_t<nano::tensor_carray_storage_t, double, 1>', h_rvec_reduce('min')),
           (r'^max\|nano::tensor_t<nano::tensor_carray_storage_t, double, 1>', h_rvec_reduce('max')),
           (r'^vector\|nano::tensor_t<nano::tensor_vector_storage_t, long, 1>', h_vector),
           (r'^segment\|.*Eigen::DenseBase<Eigen::Map<Eigen::Matrix<long, -1, 1', h_segment),
           (r'^slice\|nano::tensor_t<nano::tensor_vector_storage_t, long, 1>', h_slice),
           (r'^reserve\|std::vector', h_reserve), (r'^emplace_back\|std::vector<std::pair', h_emplace_back)]
