"""C12, back end B: abstract model of libnano index vectors (indices_t, tensor maps, Eigen::Map / segment views, iterators)
for the symbolic executor nvwp, with the ghost state that turns "set structure" into quantifier-free obligations over
the integers.

Nothing here re-types library code: these are the ASSUMED contracts of the dependencies (Eigen, STL, tensor_t accessors)
that the extracted bodies call.  An index vector A is abstracted to

    A.size                      its length
    A.cnt, A.gpos               how many slots hold the tracked input element, and where it is (meaningful if cnt == 1)
    A.wr                        how many times slot d was filled (by a copy or by std::generate) since allocation
    A.full                      every slot holds a value (false for a freshly allocated vector)
    A.memb, A.poswt             every filled slot holds an element of the input list / one whose weight is positive
    A.sorted, A.slo, A.shi      std::sort made [slo, shi) ascending and nothing wrote to A since

relative to ghost constants that are fixed before the call and otherwise unconstrained, so every obligation is
universally quantified over them:

    g    an arbitrary element of the INPUT list, named by its position in the input (the tracked element),
    d    an arbitrary slot number (used separately for every vector).

Eigen's / tensor_t's own (NDEBUG-compiled-out) assertions are obligations of the call sites:
    segment(begin, len): 0 <= begin, 0 <= len, begin + len <= size     dst = src: dst.size == src.size
    slice(begin, end):   0 <= begin <= end <= size                      t(i): 0 <= i < size        make_udist: min <= max
"""
import re

import astload
import nvwp
from nvwp import V, AND, OR, NOT, IMP, ITE, lit, Unsupported
from cxx2c import unwrap, strip_cv, qual, string_literal_of, TRANSPARENT, CAST_KINDS

IDX_T = r'tensor_t<nano::tensor_vector_storage_t, long, 1>|nano::indices_t'
CMAP_T = r'tensor_t<nano::tensor_(carray|marray)_storage_t, long, 1>|nano::sample_indices_t|tensor_map_t<long, 1UL>'
WEIGHTS_T = r'tensor_t<nano::tensor_carray_storage_t, double, 1>|nano::sample_weights_t'
MAP_T = r'^(const )?Eigen::Map<Eigen::Matrix<long, -1, 1, 0.*>, 0.*>$'
RNG_T = r'nano::rng_t|std::linear_congruential_engine'
UDIST_T = r'std::uniform_int_distribution<long>|udist_t<int64_t>'
WDIST_T = r'std::discrete_distribution<long>|std::discrete_distribution<tensor_size_t>'
SPLITS_T = r'splits_t|std::vector<std::pair<nano::tensor_t<nano::tensor_vector_storage_t, long, 1>'
FIELDS = [('size', 'Int'), ('cnt', 'Int'), ('gpos', 'Int'), ('wr', 'Int'), ('full', 'Bool'), ('memb', 'Bool'),
          ('poswt', 'Bool'), ('sorted', 'Bool'), ('slo', 'Int'), ('shi', 'Int')]


def look(n):
    """look through casts, temporaries and parens"""
    while True:
        n = unwrap(n)
        if n.get('kind') in TRANSPARENT and n.get('inner'):
            n = n['inner'][0]
            continue
        if n.get('kind') in CAST_KINDS and n.get('inner'):
            n = n['inner'][0]
            continue
        return n


def tmatch(rx, t):
    return bool(re.search(rx, strip_cv(qual(t))) or re.search(rx, t.get('qualType', '')))


def inr(x, lo, hi):
    return f'(and (<= {lo} {x}) (< {x} {hi}))'


class IxWP(nvwp.WP):
    """WP + abstract index vectors.  Vectors are python-level values V(id, 'Arr'); views V(_, 'View', (id, offset,
    length)); iterators V(_, 'Ptr', (id, offset)); env keys '<id>.<field>' hold the abstract state"""

    def __init__(self, name, params=None, **kw):
        super().__init__(name, calls=CALLS, members=MEMBERS, hooks=[construct_hook], **kw)
        self.params = params or {}    # registered parameter name -> V (domain assumed, see C19)
        self.decl_hooks = (decl_hook,)
        self.seed_param = None        # name of the parameter every rng must be seeded from (splitters)
        self.prov = {}                # value term -> (input position term, weight-positive term): elements read from the input
        self.weights = None
        self.ntmp = 0

    # -- abstract vectors
    def setf(self, a, **kw):
        for f, v in kw.items():
            srt = dict(FIELDS)[f]
            self.env[f'{a}.{f}'] = V(v, srt)

    def f(self, a, f):
        return self.env[f'{a}.{f}'].t

    def input_vector(self, a, size):
        """the caller's list: `size` elements, element number i of the input sits at position i"""
        self.env[a] = V(a, 'Arr')
        self.setf(a, size=size, cnt=f'(ite {inr(self.g, 0, size)} 1 0)', gpos=self.g, wr=f'(ite {inr(self.d, 0, size)} 1 0)',
                  full='true', memb='true', poswt='false', sorted='false', slo='0', shi='0')

    def alloc_vector(self, a, size):
        """indices_t(size): `size` slots with indeterminate contents"""
        self.env[a] = V(a, 'Arr')
        self.setf(a, size=size, cnt='0', gpos='0', wr='0', full='false', memb='true', poswt='true', sorted='false', slo='0', shi='0')

    def copy_vector(self, b, view, node):
        """indices_t(view): element-wise copy of an initialised range"""
        a, off, ln = view.c
        self.oblige('copy construction reads initialised elements only', self.f(a, 'full'), node)
        self.oblige('the tracked element occurs at most once in the copied vector', f'(<= {self.f(a, "cnt")} 1)', node)
        hit = AND(f'(= {self.f(a, "cnt")} 1)', inr(self.f(a, 'gpos'), off, f'(+ {off} {ln})'))
        self.env[b] = V(b, 'Arr')
        self.setf(b, size=ln, cnt=f'(ite {hit} 1 0)', gpos=f'(- {self.f(a, "gpos")} {off})', wr=f'(ite {inr(self.d, 0, ln)} 1 0)',
                  full='true', memb=self.f(a, 'memb'), poswt=self.f(a, 'poswt'),
                  sorted=AND(self.f(a, 'sorted'), f'(<= {self.f(a, "slo")} {off})', f'(<= (+ {off} {ln}) {self.f(a, "shi")})'),
                  slo='0', shi=ln)

    def tmp(self):
        self.ntmp += 1
        return f'tmp{self.ntmp}'

    def arr(self, node):
        n = look(node)
        if n.get('kind') == 'CallExpr' and look(n['inner'][0]).get('referencedDecl', {}).get('name') == 'move':
            return self.arr(n['inner'][1])
        v = self.ev(n) if n.get('kind') in ('DeclRefExpr', 'CXXConstructExpr', 'CXXTemporaryObjectExpr', 'MemberExpr') else None
        if v is not None and v.s == 'Arr':
            return v.t
        raise Unsupported(f'{self.name}: expression of kind {n.get("kind")} does not denote a modelled index vector')

    def view(self, node):
        n = look(node)
        if n.get('kind') == 'CXXConstructExpr' and len(n.get('inner', [])) == 1 and (tmatch(CMAP_T, n['type']) or tmatch(MAP_T, n['type'])):
            return self.view(n['inner'][0])       # copy of a map: the same view
        if n.get('kind') in ('DeclRefExpr', 'CXXMemberCallExpr', 'CallExpr', 'CXXOperatorCallExpr', 'MemberExpr'):
            v = self.ev(n)
            if v.s == 'View':
                return v
            if v.s == 'Arr':
                return V(v.t, 'View', (v.t, '0', self.f(v.t, 'size')))
        raise Unsupported(f'{self.name}: expression of kind {n.get("kind")} does not denote a vector view')

    def ptr(self, node):
        n = look(node)
        if n.get('kind') == 'BinaryOperator' and n.get('opcode') in ('+', '-') and '*' in qual(n['type']):
            b = self.ptr(n['inner'][0])
            k = self.ev(n['inner'][1])
            return V(b.t, b.s, (b.c[0], f'({n["opcode"]} {b.c[1]} {k.t})'))
        if n.get('kind') in ('CallExpr', 'CXXMemberCallExpr'):
            v = self.ev(n)
            if v.s in ('Ptr', 'WPtr'):
                return v
        raise Unsupported(f'{self.name}: expression of kind {n.get("kind")} is not a modelled iterator')

    def rng(self, node):
        """(seeded: Bool term, seed: Int term) of an rng expression: make_rng(x) or a variable initialised from it"""
        n = look(node)
        if n.get('kind') == 'CallExpr' and look(n['inner'][0]).get('referencedDecl', {}).get('name') == 'make_rng':
            self.note('make_rng')
            if len(n['inner']) < 2 or n['inner'][1].get('kind') == 'CXXDefaultArgExpr' or look(n['inner'][1]).get('kind') == 'CXXDefaultArgExpr':
                return V('rng', 'Rng', ('false', '0'))        # make_rng(): seeded from std::random_device
            a = look(n['inner'][1])
            if a.get('kind') == 'CXXConstructExpr' and not a.get('inner'):
                return V('rng', 'Rng', ('false', '0'))        # make_rng(seed_t{}): empty optional -> random_device
            if a.get('kind') == 'CXXConstructExpr' and len(a['inner']) == 1:
                a = a['inner'][0]
            s = self.ev(a)
            if s.s != 'Int':
                raise Unsupported('make_rng argument is not an integer')
            return V('rng', 'Rng', ('true', s.t))
        if n.get('kind') == 'DeclRefExpr':
            v = self.env.get(n['referencedDecl']['name'])
            if v is not None and v.s == 'Rng':
                return v
        raise Unsupported(f'{self.name}: rng expression of kind {n.get("kind")}')

    def range_of(self, what, b, e, n):
        """[b, e) as (vector id, begin offset, end offset); obligations: same vector, 0 <= b <= e <= size"""
        if b.s != 'Ptr' or e.s != 'Ptr' or b.c[0] != e.c[0]:
            self.oblige(f'{what}: first and last are iterators of the same index vector', 'false', n)
            return None
        a = b.c[0]
        self.oblige(f'{what}: valid range 0 <= first <= last <= size',
                    f'(and (<= 0 {b.c[1]}) (<= {b.c[1]} {e.c[1]}) (<= {e.c[1]} {self.f(a, "size")}))', n)
        return a, b.c[1], e.c[1]

    def permuted(self, a, lo, hi, hint):
        """an in-place permutation of [lo, hi): the tracked element stays inside / outside the range"""
        p = self.fresh('Int', hint)
        gp = self.f(a, 'gpos')
        inside = inr(gp, lo, hi)
        self.assume(f'(=> {inside} {inr(p.t, lo, hi)})')
        self.setf(a, gpos=f'(ite {inside} {p.t} {gp})')


def construct_hook(wp, n):
    """indices_t constructed as an expression (return value conversions, temporaries)"""
    if n.get('kind') not in ('CXXConstructExpr', 'CXXTemporaryObjectExpr') or not tmatch(IDX_T, n['type']):
        return None
    inner = n.get('inner', [])
    if len(inner) != 1:
        raise Unsupported('indices_t constructed from something else than one argument')
    a = look(inner[0])
    at = a.get('type', {})
    if tmatch(IDX_T, at):
        return wp.ev(a)                                   # copy / move of a whole vector: same abstract value
    if tmatch(CMAP_T, at) or tmatch(MAP_T, at):
        t = wp.tmp()
        wp.copy_vector(t, wp.view(a), n)
        return V(t, 'Arr')
    sz = wp.ev(inner[0])
    if sz.s != 'Int':
        raise Unsupported('indices_t(size): size is not an integer')
    wp.oblige('indices_t(size): size >= 0', f'(>= {sz.t} 0)', n)
    t = wp.tmp()
    wp.alloc_vector(t, sz.t)
    return V(t, 'Arr')


def decl_hook(wp, v, init):
    t = v['type']
    name = v['name']
    if tmatch(SPLITS_T, t):
        if init and look(init[0]).get('inner'):
            raise Unsupported('splits_t constructed with arguments')
        wp.env[name] = V(name, 'Splits')
        wp.env[f'{name}.size'] = V('0', 'Int')
        wp.init_record(name)
        return True
    if tmatch(IDX_T, t):
        if not init:
            raise Unsupported('indices_t without initialiser')
        val = wp.ev(look(init[0]))
        if val.s != 'Arr':
            raise Unsupported('indices_t initialised from an unmodelled expression')
        wp.env[name] = val
        return True
    if tmatch(MAP_T, t) or tmatch(CMAP_T, t):
        wp.env[name] = wp.view(init[0])
        return True
    if tmatch(RNG_T, t):
        wp.env[name] = wp.rng(init[0])
        return True
    if tmatch(UDIST_T, t):
        val = wp.ev(look(init[0]))
        if val.s != 'Udist':
            raise Unsupported('uniform_int_distribution not built by make_udist')
        wp.env[name] = val
        return True
    if tmatch(WDIST_T, t):
        c = look(init[0])
        if c.get('kind') not in ('CXXConstructExpr', 'CXXTemporaryObjectExpr') or len(c.get('inner', [])) != 2:
            raise Unsupported('discrete_distribution not built from an iterator range')
        b, e = wp.ptr(c['inner'][0]), wp.ptr(c['inner'][1])
        if b.s != 'WPtr' or e.s != 'WPtr':
            raise Unsupported('discrete_distribution over something else than the weights')
        wp.oblige('std::discrete_distribution(first, last): the range is the whole weight vector',
                  f'(and (= {b.c[1]} 0) (= {e.c[1]} {wp.env["weights.size"].t}))', v)
        wp.env[name] = V(name, 'Wdist', (wp.env['weights.size'].t,))
        return True
    return False


# ------------------------------------------------------------------------------------------ assumed contracts
def h_param_value(wp, n, args, obj):
    """configurable_t::parameter("name").value<T>(): the registered parameter (domain assumed, see C19)"""
    o = look(obj)
    if o.get('kind') != 'CXXMemberCallExpr' or o['inner'][0].get('name') != 'parameter' or len(o['inner']) < 2:
        raise Unsupported('value<T>() on something else than parameter("...")')
    lit_ = string_literal_of(o['inner'][1])
    if lit_ not in wp.params:
        raise Unsupported(f'parameter {lit_!r} is not in the modelled parameter list')
    s, c = wp.sort_of(n['type'])
    return wp.conv(wp.params[lit_], s, c, n)


def h_size(wp, n, args, obj):
    o = look(obj)
    v = wp.ev(o) if o.get('kind') == 'DeclRefExpr' else None
    if v is not None and v.s == 'Arr':
        return V(wp.f(v.t, 'size'), 'Int', 'long')
    if v is not None and v.s == 'View':
        return V(v.c[2], 'Int', 'long')
    if v is not None and v.s == 'Weights':
        return V(wp.env['weights.size'].t, 'Int', 'long')
    raise Unsupported('size() of an unmodelled object')


def h_vector(wp, n, args, obj):
    """tensor_t::vector(): Eigen::Map over the whole storage"""
    return wp.view(obj)


def h_segment(wp, n, args, obj):
    """DenseBase::segment(begin, len): Eigen's precondition (eigen_assert, compiled out under NDEBUG) is an obligation"""
    a, off, ln = wp.view(obj).c
    b, m = wp.ev(args[0]), wp.ev(args[1])
    wp.oblige('Eigen segment(begin, len): 0 <= begin', f'(>= {b.t} 0)', n)
    wp.oblige('Eigen segment(begin, len): 0 <= len', f'(>= {m.t} 0)', n)
    wp.oblige('Eigen segment(begin, len): begin + len <= size', f'(<= (+ {b.t} {m.t}) {ln})', n)
    return V(a, 'View', (a, f'(+ {off} {b.t})', m.t))


def h_slice(wp, n, args, obj):
    """tensor_t::slice(begin, end): tslice() asserts begin >= 0 && begin <= end && end <= size (compiled out)"""
    a, off, ln = wp.view(obj).c
    b, e = wp.ev(args[0]), wp.ev(args[1])
    wp.oblige('tensor_t::slice(begin, end): 0 <= begin <= end <= size', f'(and (<= 0 {b.t}) (<= {b.t} {e.t}) (<= {e.t} {ln}))', n)
    return V(a, 'View', (a, f'(+ {off} {b.t})', f'(- {e.t} {b.t})'))


def fill(wp, a, lo, hi):
    wp.setf(a, wr=f'(+ {wp.f(a, "wr")} (ite {inr(wp.d, lo, hi)} 1 0))', sorted='false')


def h_assign(wp, n, args, callee):
    """Eigen dst = src for vector expressions: dst[i] = src[i] for i < size; sizes must agree (eigen_assert)"""
    da, doff, dlen = wp.view(args[0]).c
    sa, soff, slen = wp.view(args[1]).c
    wp.oblige('Eigen assignment: destination length == source length', f'(= {dlen} {slen})', n)
    wp.oblige('Eigen assignment reads initialised elements only', wp.f(sa, 'full'), n)
    wp.oblige('the tracked element occurs at most once in the source vector', f'(<= {wp.f(sa, "cnt")} 1)', n)
    if da == sa:
        raise Unsupported(f'{wp.name}: aliasing copy inside {da}')
    hit = AND(f'(= {wp.f(sa, "cnt")} 1)', inr(wp.f(sa, 'gpos'), soff, f'(+ {soff} {slen})'))
    wp.setf(da, cnt=f'(+ {wp.f(da, "cnt")} (ite {hit} 1 0))',
            gpos=f'(ite {hit} (+ {doff} (- {wp.f(sa, "gpos")} {soff})) {wp.f(da, "gpos")})',
            memb=AND(wp.f(da, 'memb'), wp.f(sa, 'memb')), poswt=AND(wp.f(da, 'poswt'), wp.f(sa, 'poswt')))
    fill(wp, da, doff, f'(+ {doff} {dlen})')
    return V(da, 'View', (da, doff, dlen))


def h_begin(wp, n, args, callee):
    o = look(args[0])
    v = wp.ev(o) if o.get('kind') == 'DeclRefExpr' else None
    if v is not None and v.s == 'Weights':
        return V('weights', 'WPtr', ('weights', '0'))
    a, off, ln = wp.view(args[0]).c
    return V(a, 'Ptr', (a, off))


def h_end(wp, n, args, callee):
    o = look(args[0])
    v = wp.ev(o) if o.get('kind') == 'DeclRefExpr' else None
    if v is not None and v.s == 'Weights':
        return V('weights', 'WPtr', ('weights', wp.env['weights.size'].t))
    a, off, ln = wp.view(args[0]).c
    return V(a, 'Ptr', (a, f'(+ {off} {ln})'))


def h_shuffle(wp, n, args, callee):
    """std::shuffle(first, last, rng): permutes [first,last) in place; the permutation is a function of the length and
    the rng state only (assumed).  Splitters: the rng must have been constructed from the seed parameter."""
    r = wp.range_of('std::shuffle', wp.ptr(args[0]), wp.ptr(args[1]), n)
    g = wp.rng(args[2])
    if wp.seed_param:
        wp.oblige(f'the rng driving std::shuffle was constructed by make_rng(seed) from the "{wp.seed_param}" parameter',
                  AND(g.c[0], f'(= {g.c[1]} {wp.params[wp.seed_param].t})'), n)
    if r is None:
        return V('0', 'Int', 'int')
    a, lo, hi = r
    wp.oblige('std::shuffle reads initialised elements only', wp.f(a, 'full'), n)
    wp.permuted(a, lo, hi, 'shuffled_pos')
    wp.setf(a, sorted='false')
    key = f'{a}.shuffles'
    if key in wp.env:
        # whole-vector reshuffles of the splitters' input are counted (per-fold reshuffle of the random splitter)
        wp.oblige('std::shuffle permutes the whole input vector', f'(and (= {lo} 0) (= {hi} {wp.f(a, "size")}))', n)
        wp.env[key] = V(f'(+ {wp.env[key].t} 1)', 'Int')
    return V('0', 'Int', 'int')


def h_sort(wp, n, args, callee):
    """std::sort(first, last): [first,last) becomes an ascending permutation of itself (assumed)"""
    r = wp.range_of('std::sort', wp.ptr(args[0]), wp.ptr(args[1]), n)
    if r is None:
        return V('0', 'Int', 'int')
    a, lo, hi = r
    wp.permuted(a, lo, hi, 'sorted_pos')
    wp.setf(a, sorted='true', slo=lo, shi=hi)
    return V('0', 'Int', 'int')


def h_make_udist(wp, n, args, callee):
    lo, hi = wp.ev(args[0]), wp.ev(args[1])
    wp.oblige('make_udist(min, max): min <= max (assert in nano/core/random.h; precondition of std::uniform_int_distribution)',
              f'(<= {lo.t} {hi.t})', n)
    return V('udist', 'Udist', (lo.t, hi.t))


def h_draw(wp, n, args, callee):
    """dist(rng): uniform_int_distribution -> a value of [lo, hi]; discrete_distribution over n weights -> an index of
    [0, n) whose weight is positive (the STL's guarantee)"""
    d = wp.ev(look(args[0]))
    wp.rng(args[1])
    k = wp.fresh('Int', 'drawn', 'long')
    wp.assume(wp.in_range(k.t, 'long'))
    if d.s == 'Udist':
        wp.assume(f'(and (<= {d.c[0]} {k.t}) (<= {k.t} {d.c[1]}))')
        return k
    if d.s == 'Wdist':
        wp.assume(f'(and (<= 0 {k.t}) (< {k.t} {d.c[0]}) (wpos {k.t}))')
        return k
    raise Unsupported('operator() of an unmodelled distribution')


def h_at(wp, n, args, callee):
    """tensor_t::operator()(i) on the input list: element i (tensor index assert: 0 <= i < size, compiled out)"""
    a, off, ln = wp.view(args[0]).c
    if a != wp.input:
        raise Unsupported('element access on a vector that is not the input list')
    i = wp.ev(args[1])
    wp.oblige('tensor element access: 0 <= index < size', inr(i.t, 0, ln), n)
    v = wp.fresh('Int', 'element', 'long')
    wp.assume(wp.in_range(v.t, 'long'))
    wp.prov[v.t] = f'(+ {off} {i.t})'
    return v


def h_generate(wp, n, args, callee):
    """std::generate(first, last, gen): assigns gen() to every element of [first, last).  The generator (a lambda with
    by-reference captures) is executed symbolically once, in the caller's environment, for an arbitrary rng state: what
    holds for this one call holds for every call."""
    r = wp.range_of('std::generate', wp.ptr(args[0]), wp.ptr(args[1]), n)
    lam = look(args[2])
    if lam.get('kind') != 'LambdaExpr':
        raise Unsupported('std::generate with something else than a lambda')
    ops = [m for m in astload.walk(lam) if m.get('kind') == 'CXXMethodDecl' and m.get('name') == 'operator()']
    body = [c for c in ops[0]['inner'] if c.get('kind') == 'CompoundStmt'][0]
    stmts = body.get('inner', [])
    if len(stmts) != 1 or stmts[0].get('kind') != 'ReturnStmt':
        raise Unsupported('generator lambda is not a single return statement')
    v = wp.ev(stmts[0]['inner'][0])
    k = wp.prov.get(v.t)
    wp.oblige('the generator returns an element of the input list', 'true' if k is not None else 'false', n)
    if r is None:
        return V('0', 'Int', 'int')
    a, lo, hi = r
    if k is None:
        wp.setf(a, memb='false', poswt='false')
        fill(wp, a, lo, hi)
        return V('0', 'Int', 'int')
    c = wp.fresh('Int', 'cnt_generated')
    wp.assume(f'(>= {c.t} 0)')
    wp.setf(a, cnt=c.t, poswt=AND(wp.f(a, 'poswt'), f'(wpos {k})') if wp.weights else 'false')
    fill(wp, a, lo, hi)
    return V('0', 'Int', 'int')


def h_reserve(wp, n, args, obj):
    wp.ev(args[0])      # conversion obligations of the argument only; reserve does not change the size
    return V('0', 'Int', 'int')


def h_emplace_back(wp, n, args, obj):
    """splits.emplace_back(first, second): appends the pair; the abstract state of the pair appended as element number
    gf (the ghost fold) is recorded"""
    o = look(obj)
    s = o.get('referencedDecl', {}).get('name')
    if s is None or wp.env.get(s) is None or wp.env[s].s != 'Splits' or len(args) != 2:
        raise Unsupported('emplace_back on an unmodelled container')
    first, second = wp.arr(args[0]), wp.arr(args[1])
    k = wp.env[f'{s}.size'].t
    here = f'(= {k} {wp.gf})'
    for role, a in (('first', first), ('second', second)):
        for f, srt in FIELDS:
            key = f'{s}.{role}.{f}'
            wp.env[key] = V(ITE(here, wp.f(a, f), wp.env[key].t), srt)
    # the tracked element lands in `second` (the validation part) of this pair: running count over all pairs
    wp.env[f'{s}.hits'] = V(f'(+ {wp.env[s + ".hits"].t} {wp.f(second, "cnt")})', 'Int')
    wp.env[f'{s}.shuffles_at'] = V(ITE(here, wp.env[f'{wp.input}.shuffles'].t, wp.env[f'{s}.shuffles_at'].t), 'Int')
    wp.env[f'{s}.size'] = V(f'(+ {k} 1)', 'Int')
    for a in args:      # a vector handed over with std::move is gone: any later use is outside the model
        m = look(a)
        if m.get('kind') == 'CallExpr' and look(m['inner'][0]).get('referencedDecl', {}).get('name') == 'move':
            v = look(m['inner'][1])
            if v.get('kind') == 'DeclRefExpr':
                wp.env[v['referencedDecl']['name']] = V(v['referencedDecl']['name'], 'Moved')
    return V('0', 'Int', 'int')


CALLS = [(r'^operator=\|Eigen::', h_assign), (r'^begin\|', h_begin), (r'^end\|', h_end), (r'^shuffle\|', h_shuffle),
         (r'^sort\|void \(long \*, long \*\)', h_sort), (r'^make_udist\|', h_make_udist), (r'^generate\|', h_generate),
         (r'^operator\(\)\|.*\|std::(uniform_int|discrete)_distribution<long>', h_draw),
         (r'^operator\(\)\|.*\|nano::tensor_t<nano::tensor_carray_storage_t, long, 1>', h_at)]
MEMBERS = [(r'^value\|nano::parameter_t', h_param_value), (r'^size\|', h_size),
           (r'^vector\|nano::tensor_t<nano::tensor_vector_storage_t, long, 1>', h_vector),
           (r'^segment\|.*Eigen::DenseBase<Eigen::Map<Eigen::Matrix<long, -1, 1', h_segment),
           (r'^slice\|nano::tensor_t<nano::tensor_vector_storage_t, long, 1>', h_slice),
           (r'^reserve\|std::vector', h_reserve), (r'^emplace_back\|std::vector<std::pair', h_emplace_back)]
