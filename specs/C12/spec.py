"""C12 -- splitters and samplers return index sets with the promised set structure.

Back end B (SMT over the integers, nvwp) for the two splitters and idiv: the fold boundaries fold*chunk, the size
spread n mod folds and the rounding (p*n+50)/100 are non-linear 64-bit arithmetic that CBMC's SAT back end cannot do.
The extracted bodies of kfold_splitter_t::split / random_splitter_t::split are executed symbolically on the abstract
index-vector model of specs/C12/splitmodel.py (assumed contracts of Eigen / STL, ghost position g, ghost slot d, ghost
fold gf); every Eigen precondition that NDEBUG compiles out is an obligation.

How the obligations give the property (for every fold, for *all* g, d, gf because they are unconstrained):
  cnt(first)+cnt(second) == 1   every position of the shuffled input is copied exactly once, into exactly one part
  wr(part) == [0 <= d < size]   every slot of either part is written exactly once (no hole, no overwrite)
  size(first)+size(second) == n
 => position -> (part, slot) is a bijection, so first (+) second is the shuffled input as a multiset; std::shuffle is a
 permutation of the input and std::sort a sorted permutation (assumed contracts), hence for a list of distinct indices
 the two parts are disjoint, sorted and their union is exactly the input set.
"""
import os
import sys

sys.path.insert(0, os.path.dirname(os.path.abspath(__file__)))
import astload
import nvwp
from core import VC
from nvwp import V, AND, IMP, ITE
from wplib import IdEnvWP, load, reach_vc
import splitmodel
from splitmodel import SplitWP

NMAX = 2 ** 56      # stated size bound of an index vector (8*n bytes must fit an address space; keeps 90*n+50 < 2^63)
KFOLD = ('src/splitter/kfold.cpp', 'kfold_splitter_t::split')
RANDOM = ('src/splitter/random.cpp', 'random_splitter_t::split')


# ------------------------------------------------------------------------------------------------- idiv
def idiv_requires(nom, den):
    return [('nominator >= 0', f'(>= {nom} 0)'), ('denominator >= 1', f'(>= {den} 1)'),
            ('nominator + denominator/2 does not overflow', f'(<= (+ {nom} (div {den} 2)) {2 ** 63 - 1})')]


def idiv_ensures(nom, den, r):
    """round-half-up of the exact quotient, from the property's round(percentage*n/100):
       r = floor(nom/den + 1/2)  <=>  2*den*r <= 2*nom + den < 2*den*(r+1)"""
    return [('idiv(a,b) == round-half-up(a/b)', f'(and (<= (* 2 {den} {r}) (+ (* 2 {nom}) {den})) (< (+ (* 2 {nom}) {den}) (* 2 {den} (+ {r} 1))))'),
            ('0 <= idiv(a,b) <= a', f'(and (<= 0 {r}) (<= {r} {nom}))')]


def h_idiv(wp, n, args, callee):
    nom, den = wp.ev(args[0]), wp.ev(args[1])
    for label, t in idiv_requires(nom.t, den.t):
        wp.oblige(f'callee idiv precondition: {label}', t, n)
    r = wp.fresh('Int', 'idiv', 'long')
    wp.assume(wp.in_range(r.t, 'long'))
    for _, t in idiv_ensures(nom.t, den.t, r.t):
        wp.assume(t)
    return r


def build_idiv():
    tu, flt = 'drivers/inst_c12.cpp', 'nano::idiv'
    docs, fn = load(tu, flt, 'idiv', lambda d: astload.template_args(d)[:2] == ['long', 'int'])
    hdr = astload.REPO + '/include/nano/core/numeric.h'
    wp = IdEnvWP('idiv<long,int>', bindings=nvwp.template_bindings(docs, fn))
    wp.bind_params(fn)
    wp.env['nominator'] = wp.fresh('Int', 'nominator', 'long')
    wp.env['denominator'] = wp.fresh('Int', 'denominator', 'int')
    wp.assume(wp.in_range(wp.env['nominator'].t, 'long'))
    wp.assume(wp.in_range(wp.env['denominator'].t, 'int'))
    for _, t in idiv_requires(wp.env['nominator'].t, wp.env['denominator'].t):
        wp.assume(t)
    nom, den = wp.env['nominator'].t, wp.env['denominator'].t
    wp.post = lambda wp, rv: idiv_ensures(nom, den, rv.t)
    wp.run(fn, hdr)
    if wp.returns == 0:
        raise astload.ExtractionError('idiv: no return path')
    vcs = wp.vcs('idiv<long,int>', hdr, 'integer division with rounding')
    vcs.append(reach_vc(wp, 'idiv<long,int>', hdr))
    return vcs, {'c_name': 'idiv<long,int>', 'cxx': 'idiv', 'file': hdr, 'line': fn.get('loc', {}).get('line'),
                 'sha': astload.file_hash(hdr)}


# ------------------------------------------------------------------------------------------------- splitters
RECORD = [(r, f, s) for r in ('first', 'second') for f, s in (('size', 'Int'), ('cnt', 'Int'), ('wr', 'Int'), ('sorted', 'Bool'))]


def setup_split(name, random):
    wp = SplitWP(name, params={})
    n = wp.const('n', 'Int', 'long')
    wp.assume(f'(and (<= 0 n) (<= n {NMAX}))')
    # registered parameter domains (src/splitter.cpp, src/splitter/random.cpp); C19 proves parameters stay inside them
    wp.params['splitter::folds'] = wp.const('p_folds', 'Int', 'long')
    wp.assume('(and (<= 2 p_folds) (<= p_folds 100))')
    wp.params['splitter::seed'] = wp.const('p_seed', 'Int', 'long')
    wp.assume('(and (<= 0 p_seed) (<= p_seed 1024))')
    if random:
        wp.params['splitter::random::train_per'] = wp.const('p_train_per', 'Int', 'long')
        wp.assume('(and (<= 10 p_train_per) (<= p_train_per 90))')
        wp.calls.append((r'^idiv\|long \(long, int\)', h_idiv))
    # ghosts: arbitrary world position, arbitrary slot, arbitrary fold
    wp.g = wp.const('g', 'Int').t       # unconstrained (n may be 0): claims are conditional on 0 <= g < n
    wp.d = wp.const('d', 'Int').t
    wp.gf = wp.const('gf', 'Int').t
    wp.assume('(and (<= 0 gf) (< gf p_folds))')
    # the by-value parameter: the input list, n initialised slots
    wp.new_vector('samples', 'n', initialised=True)
    wp.world = 'samples'
    wp.env['world.shuffles'] = V('0', 'Int')

    def init_record(s):
        for r, f, srt in RECORD:
            wp.env[f'{s}.{r}.{f}'] = wp.fresh(srt, f'{r}_{f}0')
        wp.env[f'{s}.hits'] = V('0', 'Int')
        wp.env[f'{s}.shuffles_at'] = wp.fresh('Int', 'shuffles_at0')
    wp.init_record = init_record
    return wp


HAVOC = [f'splits.{r}.{f}' for r, f, _ in RECORD] + ['splits.size', 'splits.hits', 'splits.shuffles_at', 'world.shuffles']


ING = '(ite (and (<= 0 g) (< g n)) 1 0)'     # g is a position of the input


def pair_structure(wp, s='splits'):
    """the set structure of the pair recorded for the ghost fold, at the ghost position g and the ghost slot d"""
    e = lambda k: wp.env[f'{s}.{k}'].t
    slot = lambda r: f'(= {e(r + ".wr")} (ite (and (<= 0 d) (< d {e(r + ".size")})) 1 0))'
    return [('|training| + |validation| == n', f'(= (+ {e("first.size")} {e("second.size")}) n)'),
            ('position g of the shuffled input is copied exactly once, to exactly one of training/validation',
             f'(and (= (+ {e("first.cnt")} {e("second.cnt")}) {ING}) (>= {e("first.cnt")} 0) (>= {e("second.cnt")} 0))'),
            ('every slot of the training part is written exactly once', slot('first')),
            ('every slot of the validation part is written exactly once', slot('second')),
            ('training part is sorted', e('first.sorted')), ('validation part is sorted', e('second.sorted'))]


CHUNK = '(div n p_folds)'
LO = lambda f: f'(* {f} {CHUNK})'
HI = lambda f: f'(ite (< (+ {f} 1) p_folds) (* (+ {f} 1) {CHUNK}) n)'


def kfold_pair(wp, s='splits'):
    e = lambda k: wp.env[f'{s}.{k}'].t
    return pair_structure(wp, s) + [
        ('validation fold gf holds exactly the positions [gf*chunk, gf+1 < folds ? (gf+1)*chunk : n) of the shuffled input',
         f'(= {e("second.cnt")} (ite (and (<= {LO("gf")} g) (< g {HI("gf")})) 1 0))'),
        ('validation fold sizes differ by less than folds: chunk <= |validation| < chunk + folds',
         f'(and (<= {CHUNK} {e("second.size")}) (< {e("second.size")} (+ {CHUNK} p_folds)))'),
        ('the pair is cut from the input shuffled once with the seeded rng', f'(= {e("shuffles_at")} 1)')]


def random_pair(wp, s='splits'):
    e = lambda k: wp.env[f'{s}.{k}'].t
    ts = e('first.size')
    return pair_structure(wp, s) + [
        ('|training| == round(train_per * n / 100)  (half away from zero)',
         f'(and (<= (* 100 {ts}) (+ (* p_train_per n) 50)) (< (+ (* p_train_per n) 50) (+ (* 100 {ts}) 100)))'),
        ('fold gf is cut from its own reshuffle (number gf+1) of the input', f'(= {e("shuffles_at")} (+ gf 1))')]


def loop_inv(pair, random):
    def inv(wp):
        fold = wp.env['fold'].t
        out = [('0 <= fold <= folds', f'(and (<= 0 {fold}) (<= {fold} p_folds))'),
               ('one pair per completed fold', f'(= {wp.env["splits.size"].t} {fold})')]
        if random:
            out.append(('one reshuffle per completed fold', f'(= {wp.env["world.shuffles"].t} {fold})'))
        else:
            out.append(('input shuffled exactly once', f'(= {wp.env["world.shuffles"].t} 1)'))
            cov = f'(ite (< {fold} p_folds) (* {fold} {CHUNK}) n)'
            out.append(('validation folds so far tile [0, covered): position g was validated once iff g < covered',
                        f'(= {wp.env["splits.hits"].t} (ite (and (<= 0 g) (< g {cov})) 1 0))'))
        for label, t in pair(wp):
            out.append((f'fold gf done => {label}', f'(=> (> {fold} gf) {t})'))
        return out
    inv.havoc = HAVOC
    inv.decreases = lambda wp, env: f'(- p_folds {env["fold"].t})'
    return inv


def build_split(name, where, random):
    tu, flt = where
    fn = astload.find_definition(tu, flt, 'split')
    src = astload.resolve_tu(tu)
    wp = setup_split(name, random)
    pair = random_pair if random else kfold_pair
    wp.invariants = {1: loop_inv(pair, random)}

    def post(wp, rv):
        if rv is None or rv.s != 'Splits':
            return [('the function returns the vector of pairs it built', 'false')]
        s = rv.t
        out = [('one (training, validation) pair per fold', f'(= {wp.env[s + ".size"].t} p_folds)')]
        if not random:
            out.append(('the k validation folds partition the input: position g is validated by exactly one fold',
                        f'(= {wp.env[s + ".hits"].t} {ING})'))
        return out + pair(wp, s)
    wp.post = post
    wp.run(fn, src)
    if wp.returns == 0:
        raise astload.ExtractionError(f'{name}: no return path')
    if wp.loops != 1:
        raise astload.ExtractionError(f'{name}: expected one loop, found {wp.loops}')
    vcs = wp.vcs(name, src, 'set structure of the (training, validation) pairs')
    vcs.append(reach_vc(wp, name, src))
    return vcs, {'c_name': name, 'cxx': flt, 'file': src, 'line': fn.get('loc', {}).get('line'), 'sha': astload.file_hash(src),
                 'stub_mappings_used': dict(wp.used)}


def lemmas():
    """facts about the spec functions (no code involved)"""
    hdr = '(declare-const n Int)(declare-const p_folds Int)(declare-const f Int)\n(assert (and (<= 0 n) (<= 2 p_folds) (<= 0 f) (< f p_folds)))\n'
    out = [VC('lemma/k-fold ranges tile [0,n): lo(0)=0, hi(f)=lo(f+1), hi(folds-1)=n, lo(f)<=hi(f)', hdr +
              f'(assert (not (and (= {LO("0")} 0) (=> (< (+ f 1) p_folds) (= {HI("f")} {LO("(+ f 1)")})) (= {HI("(- p_folds 1)")} n) (<= {LO("f")} {HI("f")}))))',
              about='spec function: fold boundaries'),
           VC('lemma/k-fold sizes: hi(f)-lo(f) is chunk, or chunk + n mod folds for the last fold', hdr +
              f'(assert (not (= (- {HI("f")} {LO("f")}) (ite (< (+ f 1) p_folds) {CHUNK} (+ {CHUNK} (mod n p_folds))))))',
              about='spec function: fold sizes differ by n mod folds < folds'),
           VC('lemma/round-half-up is unique: two integers satisfying the rounding bracket are equal',
              '(declare-const a Int)(declare-const r Int)(declare-const s Int)\n'
              '(assert (and (<= (* 100 r) (+ a 50)) (< (+ a 50) (+ (* 100 r) 100)) (<= (* 100 s) (+ a 50)) (< (+ a 50) (+ (* 100 s) 100))))\n(assert (not (= r s)))',
              about='spec function: round(a/100)'),
           VC('lemma/0 <= round(p*n/100) <= n for 10 <= p <= 90',
              '(declare-const n Int)(declare-const p Int)(declare-const r Int)\n(assert (and (<= 0 n) (<= 10 p) (<= p 90)))\n'
              '(assert (and (<= (* 100 r) (+ (* p n) 50)) (< (+ (* p n) 50) (+ (* 100 r) 100))))\n(assert (not (and (<= 0 r) (<= r n))))',
              about='spec function: training size fits the input')]
    return out


def build(tier):
    vcs, fns = [], []
    for r in (build_idiv(), build_split('kfold_split', KFOLD, False), build_split('random_split', RANDOM, True)):
        vcs += r[0]
        fns.append(r[1])
    vcs += lemmas()
    return {
        'targets': [], 'vcs': vcs, 'functions': fns,
        'decided': [],
        'not_decided': [],
        'assumptions': [],
        'trusted': [],
    }
