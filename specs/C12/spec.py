"""C12 -- splitters and samplers return index sets with the promised set structure.

Back end B (SMT over the integers, nvwp) for the splitters, the samplers and idiv: the fold boundaries fold*chunk, the
size spread n mod folds and the rounding (p*n+50)/100 are non-linear 64-bit arithmetic that CBMC's SAT back end cannot
do, and index vectors of symbolic length with whole-range havoc cost CBMC > 70 s at a length bound of 10^4 (probed).
The extracted bodies are executed symbolically on the abstract index-vector model of specs/C12/ixmodel.py (assumed
contracts of Eigen / STL / tensor_t accessors, ghost input element g, ghost slot d, ghost fold gf); every Eigen /
tensor_t precondition that NDEBUG compiles out is an obligation.  Back end A (CBMC, real memory) for the two generator
lambdas of sample_with_replacement (element access in bounds, result is an element of the input).
sample_from_ball (four overloads) is walked over the REALS by specs/C12/ball.py (on top of specs/C06/eig.EigWP: generic coordinate,
symbolic dimension; bounded stand-ins n = 1..3 in concrete mode).

How the splitter obligations give the property (for every fold; for *all* g, d, gf because they are unconstrained):
  cnt(first)+cnt(second) == [g is an input position]   every input element is copied exactly once, into exactly one part
  wr(part) == [0 <= d < size]                          every slot of either part is filled exactly once (no hole, no overwrite)
  size(first)+size(second) == n
 => element -> (part, slot) is a bijection, so first (+) second is the input as a multiset (std::shuffle permutes,
 std::sort sorts: assumed contracts), hence for a list of distinct indices the two parts are disjoint, sorted and their
 union is exactly the input set.
"""
import os
import sys

sys.path.insert(0, os.path.dirname(os.path.abspath(__file__)))
import astload
import nvwp
from core import VC, Fn, Target
from nvwp import V, AND, IMP, ITE
from wplib import IdEnvWP, load, reach_vc
import ixmodel
from ixmodel import IxWP, FIELDS, inr

NMAX = 2 ** 56      # stated size bound of an index vector (8*n bytes must fit an address space; keeps 90*n+50 < 2^63)
KFOLD = ('src/splitter/kfold.cpp', 'kfold_splitter_t::split')
RANDOM = ('src/splitter/random.cpp', 'random_splitter_t::split')
STU = 'src/core/sampling.cpp'


def fn_info(name, cxx, src, fn, wp=None):
    d = {'c_name': name, 'cxx': cxx, 'file': src, 'line': fn.get('loc', {}).get('line'), 'sha': astload.file_hash(src)}
    if wp is not None:
        d['stub_mappings_used'] = dict(wp.used)
    return d


# ------------------------------------------------------------------------------------------------- idiv
def idiv_requires(nom, den):
    return [('nominator >= 0', f'(>= {nom} 0)'), ('denominator >= 1', f'(>= {den} 1)'),
            ('nominator + denominator/2 does not overflow', f'(<= (+ {nom} (div {den} 2)) {2 ** 63 - 1})')]


def idiv_ensures(nom, den, r):
    """round-half-up of the exact quotient, from the property's round(percentage*n/100):
       r = floor(nom/den + 1/2)  <=>  2*den*r <= 2*nom + den < 2*den*(r+1)"""
    return [('idiv(a,b) == round-half-up(a/b)', f'(and (<= (* 2 {den} {r}) (+ (* 2 {nom}) {den})) (< (+ (* 2 {nom}) {den}) (* 2 {den} (+ {r} 1))))'),
            ('0 <= idiv(a,b) <= a', f'(and (<= 0 {r}) (<= {r} {nom}))')]


def h_idiv(wp, n, args, callee):
    nom, den = wp.ev(args[0]), wp.ev(args[1])
    for label, t in idiv_requires(nom.t, den.t):
        wp.oblige(f'callee idiv precondition: {label}', t, n)
    r = wp.fresh('Int', 'idiv', 'long')
    wp.assume(wp.in_range(r.t, 'long'))
    for _, t in idiv_ensures(nom.t, den.t, r.t):
        wp.assume(t)
    return r


def build_idiv(den='int'):
    nm = f'idiv<long,{den}>'
    tu, flt = 'drivers/inst_c12.cpp', 'nano::idiv'
    docs, fn = load(tu, flt, 'idiv', lambda d: astload.template_args(d)[:2] == ['long', den])
    hdr = astload.REPO + '/include/nano/core/numeric.h'
    wp = IdEnvWP(nm, bindings=nvwp.template_bindings(docs, fn))
    wp.bind_params(fn)
    wp.env['nominator'] = wp.fresh('Int', 'nominator', 'long')
    wp.env['denominator'] = wp.fresh('Int', 'denominator', den)
    wp.assume(wp.in_range(wp.env['nominator'].t, 'long'))
    wp.assume(wp.in_range(wp.env['denominator'].t, den))
    for _, t in idiv_requires(wp.env['nominator'].t, wp.env['denominator'].t):
        wp.assume(t)
    nom, den = wp.env['nominator'].t, wp.env['denominator'].t
    wp.post = lambda wp, rv: idiv_ensures(nom, den, rv.t)
    wp.run(fn, hdr)
    if wp.returns == 0:
        raise astload.ExtractionError('idiv: no return path')
    vcs = wp.vcs(nm, hdr, 'integer division with rounding')
    vcs.append(reach_vc(wp, nm, hdr))
    return vcs, fn_info(nm, 'idiv', hdr, fn)


# ------------------------------------------------------------------------------------------------- common set-up
ING = f'(ite {inr("g", 0, "n")} 1 0)'         # g names an element of the input list


def new_wp(name, input_name, real=False):
    wp = IxWP(name, real=real)
    wp.const('n', 'Int', 'long')
    wp.assume(f'(and (<= 0 n) (<= n {NMAX}))')
    wp.g = wp.const('g', 'Int').t       # unconstrained (n may be 0): claims are conditional on 0 <= g < n
    wp.d = wp.const('d', 'Int').t
    wp.input = input_name
    wp.input_vector(input_name, 'n')
    return wp


def whole_sorted(e):
    return f'(and {e("sorted")} (<= {e("slo")} 0) (<= {e("size")} {e("shi")}))'


def filled_once(e):
    return f'(= {e("wr")} (ite {inr("d", 0, e("size"))} 1 0))'


# ------------------------------------------------------------------------------------------------- splitters
RECORD = [(r, f, s) for r in ('first', 'second') for f, s in FIELDS]
HAVOC = [f'splits.{r}.{f}' for r, f, _ in RECORD] + ['splits.size', 'splits.hits', 'splits.shuffles_at', 'samples.shuffles',
                                                     'samples.gpos']
CHUNK = '(div n p_folds)'
LO = lambda f: f'(* {f} {CHUNK})'
HI = lambda f: f'(ite (< (+ {f} 1) p_folds) (* (+ {f} 1) {CHUNK}) n)'


def setup_split(name, random):
    wp = new_wp(name, 'samples')
    # registered parameter domains (src/splitter.cpp, src/splitter/random.cpp); C19 proves parameters stay inside them
    wp.params['splitter::folds'] = wp.const('p_folds', 'Int', 'long')
    wp.assume('(and (<= 2 p_folds) (<= p_folds 100))')
    wp.params['splitter::seed'] = wp.const('p_seed', 'Int', 'long')
    wp.assume('(and (<= 0 p_seed) (<= p_seed 1024))')
    wp.seed_param = 'splitter::seed'
    wp.calls.append((r'^idiv\|long \(long, (int|long)\)', h_idiv))    # one template body (proved as idiv<long,int> over the integers)
    if random:
        wp.params['splitter::random::train_per'] = wp.const('p_train_per', 'Int', 'long')
        wp.assume('(and (<= 10 p_train_per) (<= p_train_per 90))')
    wp.gf = wp.const('gf', 'Int').t     # arbitrary fold (folds >= 2, so this never narrows the inputs)
    wp.assume('(and (<= 0 gf) (< gf p_folds))')
    wp.env['samples.shuffles'] = V('0', 'Int')

    def init_record(s):
        for r, f, srt in RECORD:
            wp.env[f'{s}.{r}.{f}'] = wp.fresh(srt, f'{r}_{f}0')
        wp.env[f'{s}.hits'] = V('0', 'Int')
        wp.env[f'{s}.shuffles_at'] = wp.fresh('Int', 'shuffles_at0')
    wp.init_record = init_record
    return wp


def pair_structure(wp, s='splits'):
    """the set structure of the pair recorded for the ghost fold, for the ghost element g and the ghost slot d"""
    first = lambda k: wp.env[f'{s}.first.{k}'].t
    second = lambda k: wp.env[f'{s}.second.{k}'].t
    return [('|training| + |validation| == n', f'(= (+ {first("size")} {second("size")}) n)'),
            ('input element g is copied exactly once, to exactly one of training/validation',
             f'(and (= (+ {first("cnt")} {second("cnt")}) {ING}) (>= {first("cnt")} 0) (>= {second("cnt")} 0))'),
            ('every slot of the training part is filled exactly once', filled_once(first)),
            ('every slot of the validation part is filled exactly once', filled_once(second)),
            ('both parts hold elements of the input only', AND(first('memb'), second('memb'))),
            ('training part is sorted', whole_sorted(first)), ('validation part is sorted', whole_sorted(second))]


def kfold_pair(wp, s='splits'):
    e = lambda k: wp.env[f'{s}.{k}'].t
    pos = wp.env['samples.gpos'].t      # where the shuffle put element g
    return pair_structure(wp, s) + [
        ('validation fold gf holds exactly the positions [gf*chunk, gf+1 < folds ? (gf+1)*chunk : n) of the shuffled input',
         f'(= {e("second.cnt")} (ite (and (= {ING} 1) (<= {LO("gf")} {pos}) (< {pos} {HI("gf")})) 1 0))'),
        ('validation fold sizes differ by less than folds: chunk <= |validation| < chunk + folds',
         f'(and (<= {CHUNK} {e("second.size")}) (< {e("second.size")} (+ {CHUNK} p_folds)))'),
        ('the pair is cut from the input shuffled once with the seeded rng', f'(= {e("shuffles_at")} 1)')]


def random_pair(wp, s='splits'):
    e = lambda k: wp.env[f'{s}.{k}'].t
    ts = e('first.size')
    return pair_structure(wp, s) + [
        ('|training| == round(train_per * n / 100)  (half away from zero)',
         f'(and (<= (* 100 {ts}) (+ (* p_train_per n) 50)) (< (+ (* p_train_per n) 50) (+ (* 100 {ts}) 100)))'),
        ('fold gf is cut from its own reshuffle (number gf+1) of the input', f'(= {e("shuffles_at")} (+ gf 1))')]


def loop_inv(pair, random):
    def inv(wp):
        fold = wp.env['fold'].t
        pos = wp.env['samples.gpos'].t
        out = [('0 <= fold <= folds', f'(and (<= 0 {fold}) (<= {fold} p_folds))'),
               ('one pair per completed fold', f'(= {wp.env["splits.size"].t} {fold})'),
               ('the shuffled input still holds element g inside [0, n)', f'(=> (= {ING} 1) {inr(pos, 0, "n")})')]
        if random:
            out.append(('one reshuffle per completed fold', f'(= {wp.env["samples.shuffles"].t} {fold})'))
        else:
            out.append(('input shuffled exactly once', f'(= {wp.env["samples.shuffles"].t} 1)'))
            cov = f'(ite (< {fold} p_folds) (* {fold} {CHUNK}) n)'
            out.append(('validation folds so far tile [0, covered): element g was validated once iff its position < covered',
                        f'(= {wp.env["splits.hits"].t} (ite (and (= {ING} 1) (< {pos} {cov})) 1 0))'))
        for label, t in pair(wp):
            out.append((f'fold gf done => {label}', f'(=> (> {fold} gf) {t})'))
        return out
    inv.havoc = HAVOC if random else [h for h in HAVOC if h != 'samples.gpos']
    inv.decreases = lambda wp, env: f'(- p_folds {env["fold"].t})'
    return inv


def build_split(name, where, random):
    tu, flt = where
    fn = astload.find_definition(tu, flt, 'split')
    src = astload.resolve_tu(tu)
    wp = setup_split(name, random)
    pair = random_pair if random else kfold_pair
    wp.invariants = {1: loop_inv(pair, random)}

    def post(wp, rv):
        if rv is None or rv.s != 'Splits':
            return [('the function returns the vector of pairs it built', 'false')]
        s = rv.t
        out = [('one (training, validation) pair per fold', f'(= {wp.env[s + ".size"].t} p_folds)')]
        if not random:
            out.append(('the k validation folds partition the input: element g is validated by exactly one fold',
                        f'(= {wp.env[s + ".hits"].t} {ING})'))
        return out + pair(wp, s)
    wp.post = post
    wp.run(fn, src)
    if wp.returns == 0:
        raise astload.ExtractionError(f'{name}: no return path')
    if wp.loops != 1:
        raise astload.ExtractionError(f'{name}: expected one loop, found {wp.loops}')
    vcs = wp.vcs(name, src, 'set structure of the (training, validation) pairs')
    vcs.append(reach_vc(wp, name, src))
    return vcs, fn_info(name, flt, src, fn, wp)


# ------------------------------------------------------------------------------------------------- samplers
def nparams(k, weights=False):
    return lambda d: len(astload.param_types(d)) == k and (('sample_weights_t' in ' '.join(astload.param_types(d))) == weights)


def sampler_requires(n, count, replacement):
    """with replacement: 0 <= count and a non-empty input -- the library's own assert(min <= max) inside
    make_udist(0, size-1) / a non-empty weight range for std::discrete_distribution;
    without replacement: the library's own assert(count <= samples.size()); property: counts 0..n"""
    if replacement:
        return [('0 <= count', f'(and (<= 0 {count}) (<= {count} {NMAX}))'), ('non-empty input', f'(>= {n} 1)')]
    return [('0 <= count <= size', f'(and (<= 0 {count}) (<= {count} {n}))')]


def sampler_ensures(e, replacement, weighted, count='count'):
    out = [('returns `count` indices', f'(= {e("size")} {count})'),
           ('every slot of the result is filled exactly once', filled_once(e)),
           ('every element of the result is a member of the input', e('memb')),
           ('the result is sorted', whole_sorted(e))]
    if not replacement:
        out.append(('the members are distinct: input element g is taken at most once, and only if it exists',
                    f'(and (<= 0 {e("cnt")}) (<= {e("cnt")} {ING}))'))
    if weighted:
        out.append(('no returned index has zero weight (given std::discrete_distribution never draws one)', e('poswt')))
    return out


def h_sampler_call(replacement, weighted):
    """call of the rng-taking overload, replaced by its contract: requires obliged, the proved ensures assumed"""
    def h(wp, n, args, callee):
        if len(args) != (4 if weighted else 3):
            raise nvwp.Unsupported('forwarding call with an unexpected number of arguments')
        a, off, ln = wp.view(args[0]).c
        wp.oblige('callee precondition: the whole input list is handed over', f'(and (= {off} 0) (= {ln} n))' if a == wp.input else 'false', n)
        if weighted:
            w = ixmodel.look(args[1])
            if w.get('kind') == 'CXXConstructExpr' and len(w.get('inner', [])) == 1:
                w = ixmodel.look(w['inner'][0])       # by-value copy of the weight map
            ok = w.get('kind') == 'DeclRefExpr' and wp.env.get(w['referencedDecl']['name'], V('', '')).s == 'Rvec' and w['referencedDecl']['name'] == wp.weights
            wp.oblige('callee precondition: the weights handed over are the caller\'s weight vector', 'true' if ok else 'false', n)
        cnt = wp.ev(args[-2])
        wp.rng(args[-1])
        for label, t in sampler_requires('n', cnt.t, replacement):
            wp.oblige(f'callee precondition: {label}', t, n)
        t = wp.tmp()
        wp.env[t] = V(t, 'Arr')
        for f, srt in FIELDS:
            wp.env[f'{t}.{f}'] = wp.fresh(srt, f'ret_{f}')
        for _, term in sampler_ensures(lambda k: wp.f(t, k), replacement, weighted, cnt.t):
            wp.assume(term)
        return V(t, 'Arr')
    return h


def build_sampler(name, cxx, select, input_name, weighted=False, replacement=True, forwards=False):
    fn = astload.find_definition(STU, 'nano::' + cxx, cxx, select)
    src = astload.resolve_tu(STU)
    wp = new_wp(name, input_name, real=weighted)     # weighted: doubles (weights, probabilities) are treated as reals
    wp.env['count'] = wp.const('count', 'Int', 'long')
    wp.env['rng'] = V('rng', 'Rng', ('true', '0'))      # the caller's generator, any state
    for _, t in sampler_requires('n', 'count', replacement):
        wp.assume(t)
    if weighted:
        # requires: assert(samples.size() == weights.size()), assert(weights.min() >= 0) and a positive total weight
        # (precondition of std::discrete_distribution): some ghost position gw carries a positive weight
        wp.input_weights('weights', 'n')
        wp.const('gw', 'Int')
        wp.assume(f'(and {inr("gw", 0, "n")} (> (wval gw) 0.0))')

    def post(wp, rv):
        if rv is None or rv.s != 'Arr':
            return [('the function returns an index vector', 'false')]
        return sampler_ensures(lambda k: wp.f(rv.t, k), replacement, weighted)
    if forwards:
        # convenience overload: creates its own rng and forwards to the overload proved above, used by contract
        wp.calls += [(r'^sample_without_replacement\|', h_sampler_call(False, False)),
                     (r'^sample_with_replacement\|nano::indices_t \(nano::sample_indices_t, nano::sample_weights_t', h_sampler_call(True, True)),
                     (r'^sample_with_replacement\|', h_sampler_call(True, False))]
    elif weighted:
        # a weighted sampler that delegates to the uniform overload on some path is decided through that overload's contract
        # (which promises nothing about weights) instead of ending as "call not mapped"
        wp.calls += [(r'^sample_with_replacement\|nano::indices_t \(nano::sample_indices_t, (const )?nano::tensor_size_t, nano::rng_t &\)', h_sampler_call(True, False))]
    wp.post = post
    wp.run(fn, src)
    if wp.returns == 0:
        raise astload.ExtractionError(f'{name}: no return path')
    vcs = wp.vcs(name, src, 'set structure of the sampled indices')
    vcs.append(reach_vc(wp, name, src))
    return vcs, fn_info(name, cxx, src, fn, wp)


# ------------------------------------------------------------------------------------------------- CBMC: generator lambdas
SH = 'specs/C12/sampling.h'
T_IDX = r'tensor_t<nano::tensor_(vector|carray|marray)_storage_t, long, 1>|^nano::(indices_t|sample_indices_t)$'
S_TYPES = [(T_IDX, 'struct nv_t1i'), (r'uniform_int_distribution<long>|udist_t<int64_t>', 'struct nv_udist'),
           (r'^nano::rng_t$|linear_congruential_engine', 'struct nv_rng'), (r'discrete_distribution<(long|tensor_size_t)>', 'struct nv_wdist')]
S_CALLS = [(r'^operator\(\)\|.*\|nano::tensor_t<nano::tensor_carray_storage_t, long, 1>', '{0}.p[{1}]'),
           (r'^operator\(\)\|.*\|std::uniform_int_distribution<long>', 'nv_udist_draw({&0}, {&1})'),
           (r'^operator\(\)\|.*\|std::discrete_distribution<long>', 'nv_wdist_draw({&0}, {&1})')]


def generator_lambda(select):
    """index (source order) of the lambda that is handed to std::generate: the function may contain other lambdas (element
    operations of std::transform ...), those are executed symbolically by back end B"""
    d = astload.find_definition(STU, 'nano::sample_with_replacement', 'sample_with_replacement', select)
    lams = astload.find_lambdas(d)
    for c in astload.walk(d):
        if c.get('kind') == 'CallExpr' and ixmodel.look(c['inner'][0]).get('referencedDecl', {}).get('name') == 'generate':
            for a in c['inner'][1:]:
                a = ixmodel.look(a)
                for i, l in enumerate(lams):
                    if l is a:
                        return i
    raise astload.ExtractionError('sample_with_replacement: no lambda is handed to std::generate')


def lambda_targets():
    common = dict(types=S_TYPES, calls=S_CALLS, uf_float=False)
    gen = Fn('swr_gen', STU, 'sample_with_replacement', flt='nano::sample_with_replacement', select=nparams(3),
             lambda_index=generator_lambda(nparams(3)), extra_params=['struct nv_t1i samples', 'struct nv_udist udist', 'struct nv_rng* rng'], **common)
    wgen = Fn('swr_wgen', STU, 'sample_with_replacement', flt='nano::sample_with_replacement', select=nparams(4, True),
              lambda_index=generator_lambda(nparams(4, True)), extra_params=['struct nv_t1i samples', 'struct nv_wdist wdist', 'struct nv_rng* rng'], **common)
    return [Target('swr_gen', [gen], SH), Target('swr_wgen', [wgen], SH)]


# ------------------------------------------------------------------------------------------------- CBMC: gboost sampler
GH = 'specs/C12/gsampler.h'
G_TYPES = [(r'tensor_t<nano::tensor_vector_storage_t, long, 1>|^nano::indices_t$', 'struct nv_sel'),
           (r'tensor_t<nano::tensor_carray_storage_t, long, 1>|^nano::sample_indices_t$', 'struct nv_ilist'),
           (r'tensor_t<nano::tensor_(carray|vector)_storage_t, double, 1>|^nano::(sample_weights_t|tensor1d_t)$', 'struct nv_wvec'),
           (r'^nano::tensor2d_t$|tensor_t<nano::tensor_vector_storage_t, double, 2>', 'struct nv_t2'),
           (r'^nano::tensor4d_t$|tensor_t<nano::tensor_vector_storage_t, double, 4>', 'struct nv_t4'),
           (r'^Eigen::Map<\s*(const )?Eigen::Matrix<double, -1, 1, 0.*>, 0.*>$', 'struct nv_gvec'),
           (r'^nano::rng_t$|linear_congruential_engine', 'struct nv_rng'), (r'^nano::gboost_subsample$', 'uint8_t')]
G_CALLS = [(r'^operator\(\)\|.*\|nano::tensor_t<nano::tensor_vector_storage_t, long, 1>', 'nv_sample_at({&0}, {1})'),
           (r'^operator\(\)\|.*\|nano::tensor_t<nano::tensor_vector_storage_t, double, 1>', '(*nv_wvec_ref({&0}, {1}))'),
           (r'^operator\(\)\|.*\|nano::tensor_t<nano::tensor_vector_storage_t, double, 2>', 'nv_loss_at({&0}, {1}, {2})'),
           (r'^ctor\|nano::tensor_t<nano::tensor_carray_storage_t, long, 1>\|', '{0}'),
           (r'^ctor\|nano::tensor_t<nano::tensor_carray_storage_t, double, 1>\|', '{0}'),
           (r'^ctor\|nano::tensor_t<nano::tensor_vector_storage_t, long, 1>\|void \(const ', 'nv_sel_all({0})'),
           (r'^sample_without_replacement\|nano::indices_t \(nano::sample_indices_t, (const )?nano::tensor_size_t, nano::rng_t &\)', 'sample_without_replacement'),
           (r'^sample_with_replacement\|nano::indices_t \(nano::sample_indices_t, (const )?nano::tensor_size_t, nano::rng_t &\)', 'sample_with_replacement'),
           (r'^sample_with_replacement\|nano::indices_t \(nano::sample_indices_t, nano::sample_weights_t, (const )?nano::tensor_size_t, nano::rng_t &\)', 'sample_with_replacement_weighted')]
G_MEMBERS = [(r'^size\|', '{*self}.n'), (r'^vector\|nano::tensor_t<nano::tensor_vector_storage_t, double, 4>', 'nv_grad_vector({self}, {0})'),
             (r'^lpNorm\|', 'nv_lpnorm({*self})')]


def make_rng_hook(P, n):
    """make_rng() with the defaulted (empty) seed is seeded from std::random_device: a different stub"""
    if n.get('kind') != 'CallExpr' or len(n.get('inner', [])) != 2:
        return None
    from cxx2c import unwrap
    if unwrap(n['inner'][0]).get('referencedDecl', {}).get('name') != 'make_rng' or n['inner'][1].get('kind') != 'CXXDefaultArgExpr':
        return None
    P.note('make_rng() -> nv_make_rng_unseeded()')
    return 'nv_make_rng_unseeded()'


def gboost_ctor_target():
    types = [(r'tensor_t<nano::tensor_vector_storage_t, long, 1>|^nano::indices_t$', 'struct nv_ilist'),
             (r'^nano::seed_t$|^std::optional<unsigned long>$', 'uint64_t')] + G_TYPES[2:]
    calls = [(r'^make_rng\|', 'nv_make_rng({0})'), (r'^ctor\|std::optional<unsigned long>\|', '{0}'),
             (r'^ctor\|nano::tensor_t<nano::tensor_vector_storage_t, double, 1>\|void \((const )?(long|nano::tensor_size_t)', 'nv_wvec_make({0})')]
    f = Fn('gboost_sampler_ctor', 'src/gboost/sampler.cpp', 'sampler_t', flt='sampler_t::sampler_t', kinds=('CXXConstructorDecl',),
           self_struct='struct nv_gsampler', types=types, calls=calls, members=G_MEMBERS, hooks=[make_rng_hook])
    return Target('gboost_sampler_ctor', [f], GH)


def gboost_target():
    # make_rng is mapped although the unchanged sample() never calls it: a generator created inside sample() is then DECIDED (the callee
    # precondition `rng == the member m_rng` fails) instead of ending as "call not mapped"
    calls = G_CALLS + [(r'^make_rng\|', 'nv_make_rng({0})'), (r'^ctor\|std::optional<unsigned long>\|', '{0}')]
    f = Fn('gboost_sample', 'src/gboost/sampler.cpp', 'sample', flt='sampler_t::sample', self_struct='struct nv_gsampler',
           types=G_TYPES + [(r'^nano::seed_t$|^std::optional<unsigned long>$', 'uint64_t')], calls=calls, members=G_MEMBERS, hooks=[make_rng_hook])
    return Target('gboost_sample', [f], GH, replace=['sample_without_replacement', 'sample_with_replacement', 'sample_with_replacement_weighted'])


# ------------------------------------------------------------------------------------------------- CBMC: random splitter (cross-check)
def rsplit_target():
    import hooks
    types = [(r'tensor_t<nano::tensor_vector_storage_t, long, 1>|^nano::indices_t$', 'struct nv_ixa'),
             (r'^Eigen::Map<\s*Eigen::Matrix<long, -1, 1, 0.*>, 0.*>$|Eigen::VectorBlock<|Eigen::Block<', 'struct nv_ixv'),
             (r'^nano::rng_t$|linear_congruential_engine', 'struct nv_rng'), (r'splits_t$|^std::vector<std::pair<nano::tensor_t', 'struct nv_splits'),
             (r'^nano::seed_t$|^std::optional<unsigned long>$', 'uint64_t')]
    calls = [(r'^make_rng\|', 'nv_make_rng({0})'), (r'^ctor\|std::optional<unsigned long>\|', '{0}'),
             # rng_t{seed}: what make_rng(seed) does (src/core/random.cpp)
             (r'^ctor\|std::linear_congruential_engine<unsigned long, 48271, 0, 2147483647>\|void \(.*result_type\)', 'nv_make_rng({0})'),
             (r'^ctor\|nano::tensor_t<nano::tensor_vector_storage_t, long, 1>\|void \((const )?(long|nano::tensor_size_t)', 'nv_ixa_make({0})'),
             (r'^idiv\|long \(long, int\)', 'idiv_l_i({0}, {1})'), (r'^begin\|', 'nv_begin({&0})'), (r'^end\|', 'nv_end({&0})'),
             (r'^shuffle\|', 'nv_shuffle({0}, {1}, {&2})'), (r'^sort\|void \(long \*, long \*\)', 'nv_sort({0}, {1})'),
             (r'^operator=\|Eigen::', 'nv_assign({0}, {1})'), (r'^move\|', '{0}')]
    members = [(r'^size\|', '{*self}.n'), (r'^vector\|nano::tensor_t<nano::tensor_vector_storage_t, long, 1>', 'nv_vector({self})'),
               (r'^segment\|', 'nv_segment({*self}, {0}, {1})'), (r'^reserve\|std::vector', '@drop'),
               (r'^emplace_back\|std::vector<std::pair', 'nv_emplace_back({self}, {0}, {1})')]
    f = Fn('random_split', RANDOM[0], 'split', flt=RANDOM[1], types=types, calls=calls, members=members,
           hooks=[hooks.param_hook(), make_rng_hook], uf_float=False)
    return Target('random_split_cbmc', [f], 'specs/C12/rsplit.h', replace=['idiv_l_i'], cbmc_flags=['--sat-solver', 'cadical'],
                  note='cross-check of back end B on an independent abstract C model; cadical: minisat2 is erratic on the train_per*n product')


# ------------------------------------------------------------------------------------------------- lemmas
def lemmas():
    """facts about the spec functions (no code involved)"""
    hdr = '(declare-const n Int)(declare-const p_folds Int)(declare-const f Int)\n(assert (and (<= 0 n) (<= 2 p_folds) (<= 0 f) (< f p_folds)))\n'
    out = [VC('lemma/k-fold ranges tile [0,n): lo(0)=0, hi(f)=lo(f+1), hi(folds-1)=n, lo(f)<=hi(f)', hdr +
              f'(assert (not (and (= {LO("0")} 0) (=> (< (+ f 1) p_folds) (= {HI("f")} {LO("(+ f 1)")})) (= {HI("(- p_folds 1)")} n) (<= {LO("f")} {HI("f")}))))',
              about='spec function: fold boundaries'),
           VC('lemma/k-fold sizes: hi(f)-lo(f) is chunk, or chunk + n mod folds for the last fold', hdr +
              f'(assert (not (= (- {HI("f")} {LO("f")}) (ite (< (+ f 1) p_folds) {CHUNK} (+ {CHUNK} (mod n p_folds))))))',
              about='spec function: fold sizes differ by n mod folds < folds'),
           VC('lemma/round-half-up is unique: two integers satisfying the rounding bracket are equal',
              '(declare-const a Int)(declare-const r Int)(declare-const s Int)\n'
              '(assert (and (<= (* 100 r) (+ a 50)) (< (+ a 50) (+ (* 100 r) 100)) (<= (* 100 s) (+ a 50)) (< (+ a 50) (+ (* 100 s) 100))))\n(assert (not (= r s)))',
              about='spec function: round(a/100)'),
           VC('lemma/0 <= round(p*n/100) <= n for 10 <= p <= 90',
              '(declare-const n Int)(declare-const p Int)(declare-const r Int)\n(assert (and (<= 0 n) (<= 10 p) (<= p 90)))\n'
              '(assert (and (<= (* 100 r) (+ (* p n) 50)) (< (+ (* p n) 50) (+ (* 100 r) 100))))\n(assert (not (and (<= 0 r) (<= r n))))',
              about='spec function: training size fits the input')]
    return out


def build(tier):
    vcs, fns = [], []
    for r in (build_idiv('int'), build_idiv('long'), build_split('kfold_split', KFOLD, False), build_split('random_split', RANDOM, True),
              build_sampler('sample_without_replacement', 'sample_without_replacement', nparams(3), 'samples_', replacement=False),
              build_sampler('sample_with_replacement', 'sample_with_replacement', nparams(3), 'samples'),
              build_sampler('sample_with_replacement_weighted', 'sample_with_replacement', nparams(4, True), 'samples', weighted=True),
              build_sampler('sample_without_replacement/own_rng', 'sample_without_replacement', nparams(2), 'samples', replacement=False, forwards=True),
              build_sampler('sample_with_replacement/own_rng', 'sample_with_replacement', nparams(2), 'samples', forwards=True),
              build_sampler('sample_with_replacement_weighted/own_rng', 'sample_with_replacement', nparams(3, True), 'samples', weighted=True, forwards=True)):
        vcs += r[0]
        fns.append(r[1])
    vcs += lemmas()
    import ball
    try:
        bvcs, bfns, bounded = ball.build(tier)
    except (astload.ExtractionError, nvwp.Unsupported) as e:
        # an extraction break of sample_from_ball is an undecided obligation of its own, not the end of every other C12 target
        bvcs, bfns, bounded = [VC(f'sample_from_ball/not extracted: {str(e)[:200]}', '(check-sat)', solvers=['none'], about='sample_from_ball: extraction failed')], [], []
    vcs += bvcs
    fns += bfns
    return {
        'targets': lambda_targets() + [gboost_ctor_target(), gboost_target(), rsplit_target()], 'vcs': vcs, 'functions': fns, 'bounded': bounded,
        'decided': [
            'k-fold and random splitter, for every n in [0, 2^56], folds in [2,100], seed, percentage in [10,90], every fold: |train|+|valid| == n; every input element is copied exactly once into exactly one of train/valid and every slot of both is filled exactly once (=> disjoint, union == input for distinct inputs); both parts are sorted by std::sort over their whole range; one pair per fold',
            'k-fold: fold f validates exactly positions [f*chunk, f+1<folds ? (f+1)*chunk : n) of the shuffled input, these ranges tile [0,n) (each element validated by exactly one fold), sizes lie in [chunk, chunk+folds) (differ by less than folds)',
            'random: |train| == round-half-up(percentage*n/100) (idiv<long,int> == round-half-up proved separately and used by contract), every fold is cut from its own reshuffle',
            'both splitters: the only rng is make_rng(seed) with seed == parameter "splitter::seed" (=> equal seeds give equal splits, given deterministic std::shuffle); no other input is read (closed extraction: every call is mapped)',
            'every Eigen segment(begin,len) / dst=src / tensor slice / element access / indices_t(size) precondition that NDEBUG compiles out holds at every call site; no signed overflow in any index computation',
            'sample_without_replacement (0 <= count <= n): count distinct sorted members of the input; sample_with_replacement, uniform and weighted (n >= 1, count >= 0): count sorted members; weighted: the drawn index is used unchanged over the whole weight vector, so no zero-weight index is returned given the STL guarantee',
            'weighted sampling: the std::discrete_distribution is built over exactly one probability per sample, aligned with the samples, and the probabilities are the given weights up to a zero-preserving element-wise map (weight 0 => probability 0, non-negative, a positive one exists) -- whatever std::vector<double> / std::transform pipeline produces them (element operations executed symbolically over the reals)',
            'sampling without replacement: also when implemented with std::sample (contract: min(n, size) distinct elements in input order, nothing about sortedness) the result must be sorted for an arbitrary (unsorted) input list',
            'idiv<long,long> (the instantiation a splitter would use for n / folds style divisions) proved like idiv<long,int>',
            'generator lambdas of sample_with_replacement (CBMC, real memory): the element access is in bounds and the result is an element of the input for every rng state',
            'random splitter again in CBMC/DFCC (cross-check on an independent abstract C model, specs/C12/rsplit.h, n <= 10^6): segment/copy discipline, exactly-once copy and fill, sortedness, per-fold reshuffle with the seeded rng, one pair per fold, loop termination -- everything of the back end B proof except the non-linear rounding clause',
            'gboost::sampler_t (CBMC): the constructor establishes the weight-vector invariant and seeds the rng from its seed argument; sample(): count = trunc(ratio*n) lies in [0,n], every mode calls the matching sampler inside its precondition and returns its result (subsample: distinct sorted members; bootstrap: sorted members; weighted: sorted members of positive weight with every weight written, in order, and weight(i) = loss / gradient norm of sample i; off: the whole list), all tensor index asserts hold, both loops terminate',
            'sample_from_ball, all four overloads (back end B over the REALS, specs/C12/ball.py, symbolic dimension n >= 1 at a generic coordinate): the returned / written point has the dimension of x0 and |x - x0|_2^2 <= radius^2, GIVEN that some Gaussian draw is non-zero; proof chain, each step a named obligation: the coordinate loop visits every coordinate and writes x at the loop index; the squared norm the code takes is the sum of the squared draws (direction_is_gaussian) and hence non-zero (direction_nonzero: the division by the norm is defined); the summand of |x - x0|^2 is a coordinate-independent factor K times the summand of |d|^2 (sum_homogeneity, K found by substitution, its coordinate-independence checked syntactically); 0 <= pow(u, 1/n) <= 1 from 0 <= u <= 1 and 1/n >= 0 (stated fact about pow, instantiated); the parameters handed to the three <random> distributions satisfy their preconditions; the three forwarding overloads call the rng-taking overload inside its preconditions (radius > 0, x0.size() > 0, x0.size() == x.size()) with this call\'s x0 and radius and return / write exactly its point',
            'sample_from_ball, zero direction: what the code does is 0/0 = NaN in every coordinate; decided natively to be UNREACHABLE with libstdc++ (all 2^31-2 states of std::minstd_rand enumerated: the first draw of a fresh std::normal_distribution<double>{0.5, 2.0} is never 0.0, min |draw| = 1.88e-9): specs/C12/NOTE_ball_zero_direction.md, replay/C12_ball_zero_direction_scan.cpp',
            'equal seeds give equal splits, closing the frame: besides "every std::shuffle is driven by make_rng(seed) / rng_t{seed} of the splitter::seed parameter", both splitters (and every sampler walked by back end B) keep NO mutable function-local static (no_static_state); a generator that is not a local of the function (namespace-scope / class-static), a seed that is not an expression over the arguments and parameters (global, std::random_device, clock) makes the generator UNSEEDED, so the named seeding obligation fails instead of the extraction breaking',
            'gboost::sampler_t: every sampler call in sample() is handed THE MEMBER generator m_rng (callee precondition rng == &m_rng), which the constructor seeds from its seed argument and nothing else advances (assigns clause: m_rng, m_weights) => equal seeds and equal call histories give equal samples; a generator created inside sample() (local, static, random_device) fails that precondition by name',
            'gboost::sampler_t weighted modes: "no weight is negative" (the library\'s assert weights.min() >= 0, at the ghost position = for every position) is now an obligation of the call site and PROVED there: gradient mode from the contract of Eigen\'s lpNorm<2> (never negative), loss mode from the precondition "loss values of training samples are not negative" (C06 proves value >= 0 per loss over the reals)',
            'n == 0 for sample_with_replacement decided natively (specs/C12/FINDING_sample_with_replacement_empty_input.md): (empty, 0) returns an empty selection in a plain NDEBUG build but constructs std::uniform_int_distribution(0, -1) (abort with _GLIBCXX_ASSERTIONS and in debug builds); (empty, count > 0) is a null read (SIGSEGV); the precondition "non-empty input" is an obligation at the three call sites in gboost::sampler_t::sample, discharged from sampler_t\'s own precondition (non-empty training set)',
            'all-zero weights decided natively (specs/C12/FINDING_weighted_bootstrap_all_zero_weights.md): std::discrete_distribution\'s precondition is violated, libstdc++ returns `count` copies of the first sample (abort with _GLIBCXX_ASSERTIONS); reachable from the gboost boosting loop with the cauchy loss (exactly 0 for residuals below 1e-8) and gboost::epsilon < 1e-8: replay/C12_zero_weights_demo.cpp on the real loss / early stopping / sampler'],
        'not_decided': [
            'that std::shuffle/std::sort/std::generate/std::discrete_distribution/std::normal_distribution/std::uniform_real_distribution/std::pow behave as specified (assumed contracts)',
            'sample_from_ball in IEEE arithmetic: the proof is over the reals; the stored point can lie outside the ball by the representation error of x0 + delta (measured: |x - x0| / radius - 1 up to 4.3e-5 at centre 1e6, radius 1e-6, n = 50; replay/C12_ball_float_demo.cpp)',
            'sample_from_ball, bounded stand-ins (labelled, never counted): dimensions n = 1, 2, 3 in concrete mode (no sum facts: the membership inequality itself, quotients named) -- they also DECIDE real violations when the generic-coordinate proof pattern does not apply',
            'existence of a positive weight (positive total weight, precondition of std::discrete_distribution) at the weighted call sites of gboost::sampler_t::sample: cannot be established there (it holds iff the fit has not converged on the training set); see FINDING_weighted_bootstrap_all_zero_weights.md',
            'a non-empty training set for gboost::sampler_t (precondition of sample(); nothing in src/gboost/model.cpp establishes it)'],
        'assumptions': [
            'std::shuffle(first,last,rng) permutes [first,last) in place, the permutation being a function of the length and the rng state only',
            'std::sort(first,last) makes [first,last) an ascending permutation of itself',
            'std::generate(first,last,gen) assigns gen() to every element; one symbolic call of the generator (arbitrary rng state) stands for every call',
            'std::uniform_int_distribution(lo,hi)(rng) returns a value of [lo,hi]; std::discrete_distribution over n weights draws an index of [0,n) with positive weight',
            'std::sample(first,last,out,n,rng) on forward iterators writes min(n,last-first) distinct elements of the input range to out, in input order (stable selection sampling); std::transform applies its operation element-wise; std::vector<double>(size[,value]) / (first,last) / copies are the obvious containers',
            'doubles in the weight pipeline are treated as reals; nano::epsilon0..3<double>() are positive constants; the caller\'s weights are >= 0 (library assert) -- instantiated at the ghost sample and at every drawn index',
            'Eigen: v.segment(b,l) is the view [b,b+l) of v; dst = src copies element-wise; tensor_t::vector()/slice()/size()/operator() are the obvious accessors (models/nv_tensor.h)',
            'indices_t(size) allocates `size` indeterminate slots; indices_t(view) copies the view; std::move / copy construction of a whole indices_t keeps its contents',
            'registered parameter domains: splitter::folds in [2,100], splitter::seed in [0,1024], splitter::random::train_per in [10,90] (C19 proves parameters stay in their domains)',
            'index vectors have at most 2^56 elements',
            'preconditions taken from the library\'s own (NDEBUG-disabled) asserts: count <= samples.size() (without replacement), samples.size() == weights.size(), and min <= max in make_udist, i.e. a non-empty input for sample_with_replacement; a positive total weight for std::discrete_distribution',
            'gboost::sampler_t::sample calls the three samplers BY CONTRACT: the C contracts in specs/C12/gsampler.h restate by hand what back end B proves for them (same requires / ensures, not generated from one source)',
            'the CBMC cross-check of the random splitter uses idiv by a hand-restated contract (same clauses as idiv_requires/idiv_ensures proved in back end B, for denominator 100)',
            'IEEE multiplication is monotone: 0 < a <= 1, b >= 0 => 0 <= fl(a*b) <= b (one axiom on the otherwise uninterpreted product; CBMC needs 93 s to bit-blast it)',
            'every training sample stored in sampler_t::m_samples is a valid sample of the dataset (0 <= s < errors_losses.cols == gradients.dim0); gboost::subsample_ratio in (0,1]; a non-empty training set',
            'existence of a positive weight is not re-established at the call site in sampler_t::sample (it depends on the loss values; see not_decided); non-negative weights ARE (proved there)',
            'gboost::sampler_t::sample, loss-weighted mode: the loss value errors_losses(1, s) of every training sample is not negative (C06 proves value >= 0 for the losses over the reals -- EXCEPT its known finding: s-classnll with ONE output and target -1 returns value = output, which is negative for output < 0, so with that loss the assert weights.min() >= 0 of the library is violated in the loss-weighted mode; gboost::evaluate writes loss_t::value into row 1); Eigen lpNorm<2>() is never negative (it may be NaN / +inf: "no weight is negative" is stated as !(w < 0))',
            'sample_from_ball: doubles treated as reals; <random> contracts: std::normal_distribution(m, s)(rng) returns some real, std::discrete_distribution({w..})(rng) an index of [0, k), std::uniform_real_distribution(a, b)(rng) a real of [a, b]; every distribution is called with the modelled rng; std::pow uninterpreted with the instantiated fact 0 <= u <= 1 and e >= 0 => 0 <= pow(u, e) <= 1; sqrt uninterpreted with sqrt(u) >= 0 and sqrt(u)^2 == u for u >= 0 (specs/C06/vcgen.py Q1)',
            'sample_from_ball: Eigen operations of the closed list in specs/C06/eig.py plus lpNorm<2>() == sqrt(sum of squares), vector_t(size) = `size` indeterminate coefficients, x.tensor() = a mutable map of x; x.lpNorm<2>() on the right-hand side is evaluated before the assignment writes x (Eigen evaluates the scalar when the expression is built)',
            'sample_from_ball: stated facts about finite sums: S1 (a sum of non-negative terms is non-negative; specs/C06/vcgen.py), extensionality (equal summands at every coordinate give equal sums; the summand equality is proved), S2 homogeneity (phi_i == K * psi_i at every coordinate with K the same for every coordinate => sum phi == K * sum psi; the identity is proved, the coordinate-independence of K is checked syntactically: no generic-coordinate leaf, no constant drawn inside the coordinate loop)',
            'sample_from_ball: HYPOTHESIS "the Gaussian draws are not all exactly 0.0" (sum of the squared normal draws != 0); justified for libstdc++ / std::minstd_rand by exhaustive enumeration (NOTE_ball_zero_direction.md), an assumption for any other standard library',
            'sample_from_ball: preconditions taken from the library\'s own (NDEBUG-disabled) asserts: radius > 0, x0.size() > 0, x0.size() == x.size(); quotients in the membership VC are named by reciprocals (exact for non-zero divisors; the divisors are obliged non-zero under the same hypotheses)',
            'the multiset argument from (copied exactly once / filled exactly once / sizes add up) to (disjoint, union == input) is a pigeonhole step done on paper (module docstring), not by the solver'],
        'trusted': ['round() in the property statement is read as round-half-away-from-zero (C round), not banker\'s rounding'],
    }


def replay(rp):
    """the real splitters / samplers of the working tree on concrete inputs: first the solver's counterexample (n, folds,
    seed, percentage, count -- when small enough to run), then the exhaustive small domain of the property statement"""
    import replaylib
    out = {'reproduced': False, 'runs': []}
    tgt = rp.get('target', '')
    kind = {'kfold_split': 'kfold', 'random_split': 'random', 'idiv<long,int>': 'random', 'idiv<long,long>': 'kfold', 'sample_without_replacement': 'without',
            'sample_with_replacement': 'with', 'sample_with_replacement_weighted': 'weighted', 'swr_gen': 'with',
            'swr_wgen': 'weighted'}.get(tgt)
    if tgt.startswith('sample_from_ball'):
        kind = 'ball'
    if kind is None:
        out['note'] = 'no native driver for this target'
        return out
    exe = replaylib.build_with_library('replay/C12_replay.cpp', 'C12_replay')
    cands = []
    for fo in rp.get('failed_obligations', []):
        m = replaylib.parse_model((fo.get('counterexample') or {}).get('model', ''))
        if isinstance(m.get('n'), int) and 0 <= m['n'] <= 5000:
            if kind in ('kfold', 'random'):
                cands.append([kind, m['n'], m.get('p_folds', 5), m.get('p_seed', 42), m.get('p_train_per', 80)])
            elif isinstance(m.get('count'), int) and 0 <= m['count'] <= 5000:
                cands.append([kind, m['n'], m['count']])
    if kind == 'ball':
        # the property's domain: dimensions 1..50, radii 1e-6..1e6 (centre O(1)); 4000 points per run, all four overloads
        cands = [[kind, n, r] for n in (1, 2, 3, 7, 50) for r in ('1e-6', '1e-2', '1', '1e3', '1e6')]
    elif kind in ('kfold', 'random'):
        cands += [[kind, n, f, s, p] for n in range(0, 41) for f in range(2, 13) for s, p in ((42, 80), (0, 10), (1024, 55))]
    elif kind == 'weighted':
        # weights are only meaningful up to scale: ordinary and tiny magnitudes
        cands += [[kind, n, c, sc] for sc in ('1.0', '1e-15', '1e-300') for n in range(1, 13) for c in (0, 1, n, 2 * n, 200)]
    else:
        cands += [[kind, n, c] for n in range(1 if kind != 'without' else 0, 13) for c in range(0, (n if kind == 'without' else 2 * n) + 1)]
    seen = set()
    for a in cands:
        if tuple(a) in seen:
            continue
        seen.add(tuple(a))
        try:
            rc, so, se = replaylib.run_driver(exe, a, timeout=20)
        except Exception as e:
            rc, so = -1, repr(e)
        if rc != 0:
            out['runs'].append({'args': a, 'exit': rc, 'output': so.strip()[:300]})
            out['reproduced'] = True
            if len(out['runs']) >= 5:
                break
    out['tried'] = len(seen)
    return out
