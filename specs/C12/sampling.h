/* C12, back end A: the generator lambdas of sample_with_replacement on real memory.
 * "[&]() { return samples(dist(rng)); }" returns an element of the input list for every rng state, and the element access
 * is in bounds (CBMC pointer checks on the real tensor buffer).  The surrounding functions (std::generate / sort over
 * index vectors of symbolic length) are proved in back end B, see spec.py / ixmodel.py. */
#include "nv_tensor.h"
struct nv_rng { uint64_t state; };                 /* std::minstd_rand: opaque state */
struct nv_udist { int64_t lo, hi; };               /* std::uniform_int_distribution<long>(lo, hi) */
struct nv_wdist { const double* w; int64_t n; };   /* std::discrete_distribution<long>(first, last) */
int64_t nv_w_k;                                    /* witness: the position of the input list the element was read from */

/* ---------------------------------------------------------------- <random> (assumed) */
/* udist(rng): a value of [lo, hi]; advances the rng */
static int64_t nv_udist_draw(struct nv_udist* d, struct nv_rng* rng)
{
  int64_t k = nv_nondet_int64_t();
  __CPROVER_assume(d->lo <= k && k <= d->hi);
  rng->state = nv_nondet_uint64_t();
  nv_w_k = k;       /* witness: the drawn value */
  return k;
}
/* std::discrete_distribution<long>(first, last) over the weights [first, last): draws an index of [0, last - first) whose
 * weight is positive (the STL's guarantee -- this clause of the property is the STL's, the code only has to hand over
 * the right range and use the drawn index unchanged) */
static int64_t nv_wdist_draw(struct nv_wdist* d, struct nv_rng* rng)
{
  int64_t k = nv_nondet_int64_t();
  __CPROVER_assume(0 <= k && k < d->n && d->w[k] > 0.0);
  rng->state = nv_nondet_uint64_t();
  nv_w_k = k;       /* witness: the drawn index */
  return k;
}

/* ================================================================= contracts (from the property statement) */
#define NV_RNG_OK(r) __CPROVER_is_fresh(r, sizeof(struct nv_rng))
#define NV_RET __CPROVER_return_value
#define NV_IN(i, n) (0 <= (i) && (i) < (n))

/* uniform: udist = make_udist(0, samples.size() - 1) (established by sample_with_replacement, proved in back end B) */
#define NV_CONTRACT_swr_gen \
__CPROVER_requires(NV_T1I_OK(samples) && samples.n >= 1 && udist.lo == 0 && udist.hi == samples.n - 1 && NV_RNG_OK(rng)) \
__CPROVER_assigns(*rng, nv_w_k) \
__CPROVER_ensures(NV_IN(nv_w_k, samples.n) && NV_RET == samples.p[nv_w_k])
/* weighted: wdist built over the whole weight vector, samples.size() == weights.size() (the library's assert) */
#define NV_CONTRACT_swr_wgen \
__CPROVER_requires(NV_T1I_OK(samples) && samples.n >= 1 && wdist.n == samples.n && NV_RNG_OK(rng)) \
__CPROVER_requires(__CPROVER_is_fresh(wdist.w, wdist.n * sizeof(double))) \
__CPROVER_assigns(*rng, nv_w_k) \
__CPROVER_ensures(NV_IN(nv_w_k, samples.n) && NV_RET == samples.p[nv_w_k] && wdist.w[nv_w_k] > 0.0)
