import astload
import eigencw
import hooks as nvhooks
import os
import sys
sys.path.insert(0, os.path.dirname(os.path.abspath(__file__)))      # other specs (C11) load this module by path: its siblings must be importable
import rss_smt          # noqa: E402
import cluster_spec     # noqa: E402
from core import Fn, Target, VC

DRV = 'drivers/inst_wlearner.cpp'
T1I = r'^nano::indices_t$|^nano::indices_cmap_t$|tensor_t<nano::tensor_(vector|carray)_storage_t, long, 1>'
TYPES = [(T1I, 'struct nv_t1i'),
         (r'^nano::scalar_cmap_t$|tensor_t<nano::tensor_carray_storage_t, double, 1>', 'struct nv_t1d'),
         (r'^nano::sclass_cmap_t$|tensor_t<nano::tensor_carray_storage_t, int, 1>', 'struct nv_t1i32'),
         (r'^nano::mclass_cmap_t$|tensor_t<nano::tensor_carray_storage_t, signed char, 2>', 'struct nv_t2i8'),
         (r'Eigen::Map<\s*(const )?Eigen::Matrix<signed char, -1, 1', 'struct nv_mrow'),
         (r'^nvdrv::op_\w+_t$', 'struct nv_op'), (r'^nano::dataset_t$', 'struct nv_dataset'),
         (r'^nano::select_iterator_t$', 'struct nv_iter')]
LOOP_CALLS = [(r'^operator\(\)\|typename tbase::tconstref \(const nano::tensor_size_t\) const\|', '{0}.p[{1}]'),
              (r'^isfinite\|bool \(double\)', 'nv_isfinite({0})'),
              (r'^operator\(\)\|void \(nano::tensor_size_t, nano::scalar_t\) const\|nvdrv::op_scalar_t', 'nv_op_scalar({1}, {2})'),
              (r'^operator\(\)\|void \(nano::tensor_size_t, int32_t\) const\|nvdrv::op_sclass_t', 'nv_op_sclass({1}, {2})'),
              (r'^operator\(\)\|.*\|nvdrv::op_mclass_t', 'nv_op_mclass({1}, {&2})'),
              (r'^operator\(\)\|Eigen::DenseCoeffsBase<Eigen::Map<const Eigen::Matrix<signed char, -1, 1, 0>, 0>, 0>::CoeffReturnType \(Eigen::Index\) const\|', 'nv_mrow_at({&0}, {1})')]
LOOP_MEMBERS = [(r'^size\|nano::tensor_base_t<long, 1, true>', '{self}->n'),
                (r'^vector\|nano::tensor_t<nano::tensor_carray_storage_t, signed char, 2>', 'nv_t2i8_vector({self}, {0})')]


ROW = r'Eigen::Map<\s*(const )?Eigen::Matrix<double, -1, 1'
WL_TYPES = [(T1I, 'struct nv_t1i'), (r'^nano::dataset_t$', 'struct nv_dataset'), (r'^nano::cluster_t$', 'struct nv_cluster'),
            (r'^nano::tensor4d_map_t$|^nano::tensor4d_t$|tensor_t<nano::tensor_(marray|vector)_storage_t, double, 4>', 'struct nv_t4'),
            (ROW, 'struct nv_row')]
WL_CALLS = [(r'^operator\(\)\|typename tbase::tconstref \(const nano::tensor_size_t\) const\|', '{0}.p[{1}]'),
            (r'^operator\+=\|.*\|Eigen::MatrixBase<Eigen::Map<Eigen::Matrix<double, -1, 1, 0>, 0>\s*>', 'nv_row_add({&0}, {1})'),
            (r'^ctor\|nano::tensor_t<nano::tensor_vector_storage_t, long, 1>\|', '{0}'),     # indices_t(indices_cmap_t): same view
            (r'^ctor\|nano::cluster_t\|void \(nano::tensor_size_t, nano::tensor_size_t\)', 'nv_cluster_make({0}, {1})')]
WL_MEMBERS = [(r'^vector\|nano::tensor_t<nano::tensor_marray_storage_t, double, 4>', 'nv_t4_vector'),
              (r'^assign\|nano::cluster_t', 'nv_cluster_assign'), (r'^samples\|nano::dataset_t', 'nv_dataset_samples')]
SFW_MEMBERS = [(r'^feature\|nano::single_feature_wlearner_t', 'sfw_feature'),
               (r'^vector\|nano::single_feature_wlearner_t', 'nv_sfw_vector')]
STUMP_CPP = 'src/wlearner/stump.cpp'
# loop_scalar(dataset, samples, feature, op) by its contract proved in loops.h, at the ghost position: op(nv_g, nv_v) is called
# exactly once iff the value nv_v of sample position nv_g is finite (given).  The stub text is generated per call site from
# the lambda's current capture list (engine/hooks.py lambda_stub_hook)
LS_BODY = 'NV_LS_RECORD(nv_a0, nv_a1, nv_a2) if (0 <= nv_g && nv_g < nv_a1->n && NV_ISFIN(nv_v)) @CALL(nv_g, nv_v);'


def stump_fns():
    """the extracted functions of src/wlearner/stump.cpp (fresh Fn objects per target)"""
    common = dict(types=WL_TYPES, members=WL_MEMBERS + SFW_MEMBERS)
    # the lambda argument of loop_scalar is not translated: the stub calls the extracted lambda with the captured
    # variables (named literally: a renamed local breaks the C compile -> undecided, never a silent pass)
    do_predict = Fn('stump_do_predict', STUMP_CPP, 'do_predict', flt='stump_wlearner_t::do_predict', self_struct='struct nv_stump',
                    calls=WL_CALLS, hooks=[nvhooks.lambda_stub_hook('loop_scalar', 'nv_ls_stump_predict', ['stump_predict_lambda'], LS_BODY)], **common)
    predict_lambda = Fn('stump_predict_lambda', STUMP_CPP, 'do_predict', flt='stump_wlearner_t::do_predict', lambda_index=0,
                        captures=True, self_struct='struct nv_stump', calls=WL_CALLS, **common)
    split = Fn('stump_split', STUMP_CPP, 'split', flt='stump_wlearner_t::split',
               calls=WL_CALLS, hooks=[nvhooks.lambda_stub_hook('loop_scalar', 'nv_ls_stump_split', ['stump_split_lambda'], LS_BODY)], **common)
    split_lambda = Fn('stump_split_lambda', STUMP_CPP, 'split', flt='stump_wlearner_t::split', lambda_index=0, captures=True,
                      calls=WL_CALLS, **common)
    do_split = Fn('stump_do_split', STUMP_CPP, 'do_split', flt='stump_wlearner_t::do_split', self_struct='struct nv_stump',
                  calls=WL_CALLS + [(r'^split\|', 'stump_split({&0}, {&1}, {2}, {3})')], **common)
    feature = Fn('sfw_feature', 'src/wlearner/single.cpp', 'feature', flt='single_feature_wlearner_t::feature',
                 self_struct='struct nv_stump', types=WL_TYPES)
    return dict(do_predict=do_predict, predict_lambda=predict_lambda, split=split, split_lambda=split_lambda,
                do_split=do_split, feature=feature)


TABLE_CPP = 'src/wlearner/table.cpp'
CLOSURE = r'\(lambda at .*table\.cpp:\d+:\d+\)'
TABLE_TYPES = WL_TYPES + [(r'^nano::hashes_t$|tensor_t<nano::tensor_vector_storage_t, unsigned long, 1>', 'struct nv_t1u'),
                          (r'^nano::feature_t$', 'struct nv_feature'), (r'^nano::feature_type$', 'int32_t'),
                          (r'Eigen::Map<\s*(const )?Eigen::Matrix<signed char, -1, 1', 'struct nv_mrow')]
TABLE_MEMBERS = WL_MEMBERS + [(r'^feature\|nano::single_feature_wlearner_t', 'sfw_feature'),
                              (r'^vector\|nano::single_feature_wlearner_t', 'nv_tbl_vector'),
                              (r'^tables\|nano::single_feature_wlearner_t', '{self}->m_tables'),
                              (r'^feature\|nano::dataset_t', 'nv_dataset_feature({self}, {0})'),
                              (r'^type\|nano::feature_t', '{self}->type')]
TABLE_CALLS = WL_CALLS + [(r'^find\|nano::tensor_size_t \(const nano::hashes_t &, const int &\)', 'nv_find_sclass'),
                          (r'^find\|nano::tensor_size_t \(const nano::hashes_t &, const Eigen::Map<const Eigen::Matrix<signed char', 'nv_find_mclass'),
                          (r'^ctor\|nano::tensor_t<nano::tensor_carray_storage_t, long, 1>\|', '{0}')]   # indices_cmap_t(indices_t): same view


def size0_hook(tu, total_ok=False):
    """tensor.size<0>() on a rank-4 tensor -> .rows; the template argument is not in the JSON dump, so the hook reads it
    from the source text of the call and refuses anything but <0> (total_ok: a plain size() is left to the members table)"""
    import re

    def h(P, n):
        if n.get('kind') != 'CXXMemberCallExpr':
            return None
        me = n['inner'][0]
        if me.get('kind') != 'MemberExpr' or me.get('name') != 'size' or 'tensor_base_t<double, 4' not in me['inner'][0]['type'].get('qualType', ''):
            return None
        b, e = astload.source_text(n)
        text = open(astload.resolve_tu(tu), 'rb').read()[b:e].decode()
        if total_ok and re.search(r'size\s*\(\s*\)$', text):
            return None
        if not re.search(r'size\s*<\s*0\s*>\s*\(\s*\)$', text):
            from cxx2c import Unsupported
            raise Unsupported(f'rank-4 size call that is not size<0>(): {text!r}')
        obj = me['inner'][0]
        P.note('tensor4d.size<0>() -> .rows')
        return f'{P.expr(obj)}.rows'
    return h


def lambda_owner(owner_flt, owner_name):
    """select the specialisation of the file-local template `process` whose operator type is the lambda written inside
    the given member function: the (line, col) in the closure type's name is converted to a file offset and compared
    with the member function's source range (no hard-wired line numbers)"""
    import re

    def sel(d):
        ta = astload.template_args(d)
        if len(ta) != 1:
            return False
        m = re.search(r'lambda at .*:(\d+):(\d+)\)', ta[0])
        if not m:
            return False
        o = astload.find_definition(TABLE_CPP, owner_flt, owner_name)
        lines = open(astload.resolve_tu(TABLE_CPP), 'rb').read().split(b'\n')
        off = sum(len(x) + 1 for x in lines[:int(m.group(1)) - 1]) + int(m.group(2)) - 1
        return o['range']['begin']['offset'] <= off <= o['range']['end']['offset']
    return sel


def table_closure(which):
    """the closure object do_predict / do_split hand to process(): read from the lambda's CURRENT capture list (never pinned by
    hand): C fields of struct nv_clo_<which> (`self` first, always), the initialiser at the call of process() and the
    argument list with which the callbacks of process() invoke the extracted lambda body"""
    import cxx2c
    owner = 'do_' + which
    d = astload.find_definition(TABLE_CPP, f'table_wlearner_t::{owner}', owner)
    lams = astload.find_lambdas(d)
    if len(lams) != 1:
        raise astload.ExtractionError(f'table {owner}: {len(lams)} lambdas, expected the one handed to process()')
    P = cxx2c.Printer('closure', TABLE_TYPES)
    fields, init, use = ['struct nv_table* self'], ['self'], ['{0}.self']
    for c in astload.lambda_captures(lams[0]):
        if c['this']:
            continue
        vt = c['var_type'].get('qualType', '').rstrip()
        ct = P.ctype(c['var_type'])
        if c['byref'] and not vt.endswith('&'):
            ct += '*'
            init.append(f'&{c["name"]}')
        elif not c['byref'] and vt.endswith('&'):
            raise astload.ExtractionError(f'table {owner}: by-copy capture of the reference {c["name"]}')
        else:
            init.append(c['name'])
        fields.append(f'{ct} {c["name"]}')
        use.append('{0}.' + c['name'])
    return dict(fields='; '.join(fields) + ';', init=', '.join(init), use=use)


def table_defines(which):
    return lambda: f'NV_CLO_{which.upper()}_FIELDS={table_closure(which)["fields"]}'


def table_fns(which):
    """which = 'predict' | 'split': do_predict / do_split, its lambda, and the instantiation of process<that lambda>
    with both of its callbacks (single-label, multi-label)"""
    P = which[0].upper()
    owner = 'do_' + which
    clo = f'struct nv_clo_{which}'
    types = [(CLOSURE, clo)] + TABLE_TYPES
    common = dict(types=types, members=TABLE_MEMBERS, hooks=[size0_hook(TABLE_CPP)])
    cl = table_closure(which)
    caps = cl['init']
    opcall = f'table_{which}_lambda({cl["use"][0]}, {{1}}, {{2}}' + ''.join(', ' + u for u in cl['use'][1:]) + ')'
    top = Fn(f'table_{owner}', TABLE_CPP, owner, flt=f'table_wlearner_t::{owner}', self_struct='struct nv_table',
             calls=TABLE_CALLS + [(r'^process\|', f'table_process_{P}({{&0}}, {{&1}}, {{2}}, {{&3}}, {{&4}}, &({clo}){{{caps}}})')], **common)
    lam = Fn(f'table_{which}_lambda', TABLE_CPP, owner, flt=f'table_wlearner_t::{owner}', lambda_index=0, captures=True,
             self_struct='struct nv_table', calls=TABLE_CALLS, **common)
    sel = lambda_owner(f'table_wlearner_t::{owner}', owner)
    proc = Fn(f'table_process_{P}', TABLE_CPP, 'process', flt='process', select=sel, kinds=('FunctionDecl',),
              calls=TABLE_CALLS + [(r'^loop_sclass\|', f'nv_loop_sclass_{P}({{&0}}, {{&1}}, {{2}}, hashes, hash2tables, op)'),
                                   (r'^loop_mclass\|', f'nv_loop_mclass_{P}({{&0}}, {{&1}}, {{2}}, hashes, hash2tables, op)')], **common)
    cb = [Fn(f'table_process_{P}_{k}', TABLE_CPP, 'process', flt='process', select=sel, kinds=('FunctionDecl',), lambda_index=i,
             captures=True, calls=TABLE_CALLS + [(r'^operator\(\)\|void \(const nano::tensor_size_t, const nano::tensor_size_t\) const\|', opcall)],
             **common) for i, k in enumerate(('sclass', 'mclass'))]
    feature = Fn('sfw_feature', 'src/wlearner/single.cpp', 'feature', flt='single_feature_wlearner_t::feature',
                 self_struct='struct nv_table', types=types)
    return [top, lam, proc] + cb + [feature]


UTIL_CPP = 'src/wlearner/util.cpp'
UTIL_TYPES = WL_TYPES + [(r'^nano::vector_t$|tensor_t<nano::tensor_vector_storage_t, double, 1>', 'struct nv_t1d'),
                         (r'ArrayWrapper<Eigen::Map<Eigen::Matrix<double, -1, 1', 'struct nv_row')]


def util_fns():
    scale = Fn('wl_scale', UTIL_CPP, 'scale', flt='nano::wlearner::scale', types=UTIL_TYPES, hooks=[size0_hook(UTIL_CPP)],
               calls=WL_CALLS + [(r'^min\|const long &\(const long &, const long &\)', 'nv_min_i64({0}, {1})'),
                                 (r'^operator\*=\|.*ArrayWrapper', 'nv_row_scale({&0}, {1})')],
               members=[(r'^array\|nano::tensor_t<nano::tensor_vector_storage_t, double, 4>', 'nv_t4_vector'),
                        (r'^size\|nano::tensor_base_t<double, 1, true>', '{self}->n')])
    sfw_scale = Fn('sfw_scale', 'src/wlearner/single.cpp', 'scale', flt='single_feature_wlearner_t::scale',
                   self_struct='struct nv_sfw', types=UTIL_TYPES, calls=[(r'^scale\|void \(nano::tensor4d_t &, const nano::vector_t &\)', 'wl_scale')])
    UP = r'std::unique_ptr<nano::wlearner_t'
    mtypes = [(r'^nano::rwlearners_t$|^std::vector<' + UP, 'struct nv_wvec'),
              (r'__normal_iterator<\s*(const )?' + UP + r'.*> \*,', 'struct nv_wl*'),
              (r'^nano::rwlearner_t$|^' + UP + r'[^:]*>$|__alloc_traits<.*>::value_type$', 'struct nv_wl'),
              (UP + r'.*>::pointer$|^nano::wlearner_t$', 'struct nv_wl')]
    mcalls = [(r'^operator\[\]\|std::vector<' + UP, '{0}.p[{1}]'),
              (r'^operator->\|', '{&0}'),
              (r'^operator=\|std::unique_ptr<nano::wlearner_t> &\(std::nullptr_t\)', 'nv_wl_reset({&0})'),
              (r'^remove_if\|', 'nv_remove_if({0}, {1})'),
              (r'^ctor\|__gnu_cxx::__normal_iterator<', '{0}')]        # iterator -> const_iterator
    mmembers = [(r'^size\|std::vector<' + UP, '{self}->n'), (r'^operator bool\|' + UP, '({self}->id != 0)'),
                (r'^try_merge\|nano::wlearner_t \*', 'nv_try_merge'),
                (r'^begin\|std::vector<' + UP, '{self}->p'), (r'^end\|std::vector<' + UP, '({self}->p + {self}->n)'),
                (r'^erase\|std::vector<' + UP, 'nv_wvec_erase({self}, {0}, {1})')]
    mk = dict(types=mtypes, calls=mcalls, members=mmembers, uf_float=False)
    merge = Fn('wl_merge', UTIL_CPP, 'merge', flt='nano::wlearner::merge', **mk)
    merge_pred = Fn('merge_pred', UTIL_CPP, 'merge', flt='nano::wlearner::merge', lambda_index=0, captures=True, **mk)
    return dict(scale=scale, sfw_scale=sfw_scale, merge=merge, merge_pred=merge_pred)


UP = r'std::unique_ptr<nano::wlearner_t'
TM_TYPES = [(r'^nano::rwlearner_t$|^' + UP + r'[^:]*>$', 'struct nv_rwl'),
            (r'^nano::(table_|affine_|single_feature_)?wlearner_t$|' + UP + r'.*>::pointer$', 'struct nv_wlobj'),
            (r'^nano::tensor4d_t$|tensor_t<nano::tensor_vector_storage_t, double, 4>', 'struct nv_t4m'),
            (r'^nano::tensor4d_dims_t$|^nano::tensor_dims_t<4>$|^std::array<long, 4', 'struct nv_dims4'),
            (r'^nano::tensor1d_dims_t$|^nano::tensor_dims_t<1>$|^std::array<long, 1', 'int64_t'),      # dims of a rank-1 tensor: its size
            (r'^nano::hashes_t$|tensor_t<nano::tensor_vector_storage_t, unsigned long, 1>', 'struct nv_t1u'),
            (r'^nano::indices_t$|tensor_t<nano::tensor_vector_storage_t, long, 1>', 'struct nv_t1i'),
            (r'Eigen::Map<(const )?Eigen::Matrix<double, -1, 1', 'struct nv_vec')]
TM_CALLS = [(r'^dynamic_cast\|nano::table_wlearner_t \*\|nano::wlearner_t \*', 'nv_dyncast_table({0})'),
            (r'^dynamic_cast\|nano::affine_wlearner_t \*\|nano::wlearner_t \*', 'nv_dyncast_affine({0})'),
            (r'^dynamic_cast\|nano::single_feature_wlearner_t \*\|nano::wlearner_t \*', 'nv_dyncast_sfw({0})'),
            (r'^operator==\|bool \(const tensor_dims_t<4UL> &, const tensor_dims_t<4UL> &\)', 'nv_dims4_eq'),
            (r'^operator!=\|bool \(const tensor_dims_t<4UL> &, const tensor_dims_t<4UL> &\)', '(!nv_dims4_eq({&0}, {&1}))'),
            # std::array<long, 1> ==: element-wise, i.e. the one dimension
            (r'^operator==\|bool \(const tensor_dims_t<1UL> &, const tensor_dims_t<1UL> &\)', '(({0}) == ({1}))'),
            (r'^operator!=\|bool \(const tensor_dims_t<1UL> &, const tensor_dims_t<1UL> &\)', '(({0}) != ({1}))'),
            (r'^operator==\|.*\|nano::tensor_t<nano::tensor_vector_storage_t, unsigned long, 1>', 'nv_t1u_eq'),
            (r'^operator==\|.*\|nano::tensor_t<nano::tensor_vector_storage_t, long, 1>', 'nv_t1i_eq'),
            (r'^operator\+=\|.*\|Eigen::MatrixBase<Eigen::Map<Eigen::Matrix<double, -1, 1, 0>, 0>\s*>', 'nv_vec_add({&0}, {1})')]
TM_MEMBERS = [(r'^get\|' + UP, '{self}->ptr'), (r'^size\|nano::tensor_base_t<(unsigned )?long, 1', '{self}->n'),
              (r'^dims\|nano::tensor_base_t<double, 4', '{self}->dims'),
              (r'^dims\|nano::tensor_base_t<(unsigned )?long, 1', '{self}->n'),
              (r'^vector\|nano::tensor_t<nano::tensor_vector_storage_t, double, 4>', 'nv_t4m_vector'),
              (r'^hashes\|nano::table_wlearner_t', '(*{self}).m_hashes'), (r'^hash2tables\|nano::table_wlearner_t', '(*{self}).m_hash2tables'),
              (r'^tables\|nano::single_feature_wlearner_t', '(*{self}).m_tables'),
              (r'^feature\|nano::single_feature_wlearner_t', 'sfw_feature'),
              (r'^do_try_merge\|nano::single_feature_wlearner_t', 'sfw_do_try_merge')]


def try_merge_fns():
    """the try_merge implementations: the base class default, the single-feature helper, tables and affine"""
    k = dict(self_struct='struct nv_wlobj', types=TM_TYPES, calls=TM_CALLS, members=TM_MEMBERS)
    return dict(base=Fn('base_try_merge', 'src/wlearner.cpp', 'try_merge', flt='wlearner_t::try_merge', **k),
                helper=Fn('sfw_do_try_merge', 'src/wlearner/single.cpp', 'do_try_merge', flt='single_feature_wlearner_t::do_try_merge', **k),
                table=Fn('table_try_merge', TABLE_CPP, 'try_merge', flt='table_wlearner_t::try_merge', **k),
                affine=Fn('affine_try_merge', 'src/wlearner/affine.cpp', 'try_merge', flt='affine_wlearner_t::try_merge', **k),
                feature=Fn('sfw_feature', 'src/wlearner/single.cpp', 'feature', flt='single_feature_wlearner_t::feature', **k))


LIN_TYPES = [(T1I, 'struct nv_t1i'), (r'^nano::dataset_t$', 'struct nv_dataset'), (r'^nano::cluster_t$', 'struct nv_cluster'),
             (r'^nano::tensor4d_map_t$|tensor_t<nano::tensor_marray_storage_t, double, 4>', 'struct nv_outm'),
             (r'^Eigen::Map<\s*(const )?Eigen::Matrix<double, -1, 1', 'struct nv_rv'), (r'^nano::hinge_type$', 'uint8_t')]
LIN_CALLS = [(r'^operator\(\)\|typename tbase::tconstref \(const nano::tensor_size_t\) const\|', '{0}.p[{1}]'),
             (r'^ctor\|nano::tensor_t<nano::tensor_vector_storage_t, long, 1>\|', '{0}'),     # indices_t(indices_cmap_t): same view
             (r'^ctor\|nano::cluster_t\|void \(nano::tensor_size_t, nano::tensor_size_t\)', 'nv_cluster_make({0}, {1})')]
LIN_MEMBERS = [(r'^vector\|nano::tensor_t<nano::tensor_marray_storage_t, double, 4>', 'nv_out_vector'),
               (r'^vector\|nano::single_feature_wlearner_t', 'nv_lin_vector'),
               (r'^feature\|nano::single_feature_wlearner_t', 'sfw_feature'),
               (r'^assign\|nano::cluster_t', 'nv_cluster_assign'), (r'^samples\|nano::dataset_t', 'nv_dataset_samples')]


def linear_fns(cls):
    """affine / hinge: do_predict, do_split and every lambda they hand to loop_scalar (2 + 1 for the hinge, 1 + 1 affine)"""
    cpp = f'src/wlearner/{cls}.cpp'
    mk = lambda me='struct nv_lin': dict(self_struct=me, types=LIN_TYPES, calls=LIN_CALLS, members=LIN_MEMBERS,
                      stmt_hooks=[eigencw.hook('struct nv_rv', dest=[r'^Eigen::Map<Eigen::Matrix<double, -1, 1'], scalars=True)])
    out = {}
    for which, nlam in (('predict', 2 if cls == 'hinge' else 1), ('split', 1)):
        owner = f'do_{which}'
        flt = f'{cls}_wlearner_t::{owner}'
        names = [f'{cls}_{which}_lambda' + (str(k) if nlam > 1 else '') for k in range(nlam)]
        out[which] = [Fn(f'{cls}_{owner}', cpp, owner, flt=flt, hooks=[nvhooks.lambda_stub_hook('loop_scalar', f'nv_ls_{cls}_{which}', names, LS_BODY)], **mk())]
        for k in range(nlam):
            name = f'{cls}_{which}_lambda' + (str(k) if nlam > 1 else '')
            out[which].append(Fn(name, cpp, owner, flt=flt, lambda_index=k, captures=True, **mk()))
        out[which].append(Fn('sfw_feature', 'src/wlearner/single.cpp', 'feature', flt='single_feature_wlearner_t::feature',
                             self_struct='struct nv_lin', types=LIN_TYPES))
    return out


DTREE_CPP = 'src/wlearner/dtree.cpp'
PAIR = r'std::pair<unsigned long, nano::tensor_t<nano::tensor_vector_storage_t, long, 1>\s*>'
DT_TYPES = [(r'^nano::dataset_t$', 'struct nv_dataset'), (r'^nano::cluster_t$', 'struct nv_clu'),
            (r'^nano::indices_t$|^nano::tensor_t<nano::tensor_vector_storage_t, long, 1>$', 'struct nv_ixs'),
            (r'^nano::indices_cmap_t$|^nano::tensor_t<nano::tensor_carray_storage_t, long, 1>$', 'struct nv_t1i'),
            (r'^std::deque<' + PAIR, 'struct nv_dq'), (r'^' + PAIR + r'$|^std::deque<.*>::value_type$', 'struct nv_split'),
            (r'^nano::dtree_node_t$|^std::vector<nano::dtree_node_t>::value_type$|__alloc_traits<std::allocator<nano::dtree_node_t>, nano::dtree_node_t>::value_type$', 'struct nv_node'),
            (r'^nano::dtree_nodes_t$|^std::vector<nano::dtree_node_t>$', 'struct nv_nodes'),
            (r'^nano::tensor4d_t$|^nano::tensor4d_map_t$|tensor_t<nano::tensor_(marray|vector)_storage_t, double, 4>', 'struct nv_t4'),
            (ROW, 'struct nv_row')]
DT_CALLS = [(r'^operator\[\]\|.*\|std::vector<nano::dtree_node_t', '(*nv_node_at({&0}, {1}))'),
            (r'^split\|nano::cluster_t \(const nano::dataset_t &, const nano::indices_t &, nano::tensor_size_t, nano::scalar_t\)',
             'nv_dt_stump_split({&0}, {&1}, {2}, {3}, self)'),
            (r'^ctor\|nano::cluster_t\|void \(nano::tensor_size_t, nano::tensor_size_t\)', 'nv_clu_make({0}, {1})')]
DT_MEMBERS = [(r'^size\|std::vector<nano::dtree_node_t', '{self}->n'),
              (r'^size\|nano::tensor_base_t<double, 4.*\|#0$', 'nv_t4_size'),
              (r'^samples\|nano::dataset_t', 'nv_dataset_samples'),
              (r'^emplace_back\|std::deque<', 'nv_dq_push({self}, {0}, {&1}, self)'), (r'^empty\|std::deque<', '({self}->n == 0)'),
              (r'^front\|std::deque<', 'nv_dq_front({self}, self)'), (r'^pop_front\|std::deque<', 'nv_dq_pop'),
              (r'^samples\|nano::cluster_t', '{self}->samples'), (r'^groups\|nano::cluster_t', '{self}->groups'),
              (r'^group\|nano::cluster_t', 'nv_clu_group'), (r'^indices\|nano::cluster_t', 'nv_clu_indices'),
              (r'^assign\|nano::cluster_t', 'nv_clu_assign({self}, {0}, {1}, self)')]


def dtree_fns():
    # size0_hook: `m_tables.size<0>()` (the repaired form of do_split's cluster construction) prints as .rows
    k = dict(self_struct='struct nv_dtree', types=DT_TYPES, calls=DT_CALLS, members=DT_MEMBERS, hooks=[size0_hook(DTREE_CPP, total_ok=True)])
    pk = dict(k, calls=DT_CALLS + [(r'^operator\(\)\|typename tbase::t(const|mutable)ref \(const nano::tensor_size_t\)( const)?\|nano::tensor_t<nano::tensor_carray_storage_t, long, 1>', '{0}.p[{1}]'),
                                   (r'^ctor\|nano::tensor_t<nano::tensor_vector_storage_t, long, 1>\|', 'nv_ixs_of({0})'),
                                   (r'^operator\+=\|.*\|Eigen::MatrixBase<Eigen::Map<Eigen::Matrix<double, -1, 1, 0>, 0>\s*>', 'nv_row_add_at({&0}, {1})')],
              members=[(r'^split\|nano::wlearner_t', 'base_split!'), (r'^group\|nano::cluster_t', 'nv_clu_group_split({self}, {0}, self)'),
                       (r'^vector\|nano::tensor_t<nano::tensor_(marray|vector)_storage_t, double, 4>', 'nv_t4_vector'),
                       (r'^size\|nano::tensor_base_t<long, 1', '{self}->n')] + DT_MEMBERS)
    bk = dict(k, members=[(r'^critical_compatible\|nano::learner_t', 'nv_critical_compatible!'), (r'^do_split\|nano::wlearner_t', 'dtree_do_split')])
    return dict(do_split=Fn('dtree_do_split', DTREE_CPP, 'do_split', flt='dtree_wlearner_t::do_split', **k),
                do_predict=Fn('dtree_do_predict', DTREE_CPP, 'do_predict', flt='dtree_wlearner_t::do_predict', **pk),
                # wlearner_t::split: the compatibility check, then the virtual do_split (here: the tree's)
                base_split=Fn('base_split', 'src/wlearner.cpp', 'split', flt='wlearner_t::split', **bk))


CACHE = r'^\(anonymous namespace\)::cache_t$'
DF_TYPES = [(r'^nano::dataset_t$', 'struct nv_dataset'), (r'^nano::cluster_t$', 'struct nv_clu'),
            (r'^nano::indices_t$|^nano::tensor_t<nano::tensor_vector_storage_t, long, 1>$', 'struct nv_ixn'),
            (r'^std::deque<\(anonymous namespace\)::cache_t', 'struct nv_cq'), (CACHE + r'|^std::deque<.*cache_t.*>::value_type$', 'struct nv_cache'),
            (r'^nano::dtree_node_t$|dtree_node_t>::value_type$', 'struct nv_node'),
            (r'^nano::dtree_nodes_t$|^std::vector<nano::dtree_node_t>$', 'struct nv_nodesg'),
            (r'^nano::stump_wlearner_t$', 'struct nv_stumpobj'), (r'^nano::wlearner_criterion$', 'int32_t'),
            (r'^nano::tensor4d_t$|tensor_t<nano::tensor_vector_storage_t, double, 4>', 'struct nv_t4'),
            (r'tensor_t<nano::tensor_carray_storage_t, double, 3>', 'struct nv_t3v'),
            (r'^nano::tensor4d_dims_t$|^nano::tensor_dims_t<4>$|^std::array<long, 4', 'int64_t')]
DF_CALLS = [(r'^operator=\|.*\|nano::parameter_t', '@drop'),
            (r'^min\|const long &\(const long &, const long &\)', 'nv_min_i64({0}, {1})'),
            (r'^no_fit_score\|', '(NV_NO_FIT)'),
            (r'^ctor\|nano::tensor_t<nano::tensor_vector_storage_t, double, 4>\|void \(.*tdims\)', 'nv_t4_make({0})'),
            (r'^cat_dims\|', 'nv_cat_dims0({0})'),      # dims -> the first dimension (the only one tracked)
            (r'^ctor\|nano::stump_wlearner_t\|', 'nv_stump_make()'),
            (r'^operator\[\]\|.*\|std::vector<nano::dtree_node_t', '(*nv_ng_at({&0}, {1}))'),
            (r'^append\|void \(nano::tensor4d_t &, const nano::tensor3d_cmap_t &\)', 'nv_append({&0}, {1})'),
            (r'^unique_features\|', 'nv_unique_features({&0})'),
            (r'^move\|', '{0}'),
            (r'^operator=\|.*\|std::vector<nano::dtree_node_t', 'nv_nodes_store({&0}, {&1})'),
            (r'^operator=\|.*\|nano::tensor_t<nano::tensor_vector_storage_t, (double, 4|long, 1)>', '(({0}) = ({1}))'),
            (r'^ctor\|nano::tensor_t<nano::tensor_carray_storage_t, double, 3>\|', '{0}')]
DF_MEMBERS = [(r'^samples\|nano::dataset_t', 'nv_dataset_samples'), (r'^log_info\|', '@drop'),
              (r'^emplace_back\|std::deque<.*\|#1$', 'nv_cq_push_root'), (r'^push_back\|std::deque<', 'nv_cq_push({self}, {&0}, &nodes)'),
              (r'^empty\|std::deque<', '({self}->n == 0)'), (r'^front\|std::deque<', 'nv_cq_front({self}, &nodes)'), (r'^pop_front\|std::deque<', 'nv_cq_pop'),
              (r'^size\|std::vector<nano::dtree_node_t', '{self}->n'), (r'^size\|nano::tensor_base_t<long, 1', '{self}->n'),
              (r'^(emplace_back|push_back)\|std::vector<nano::dtree_node_t', 'nv_ng_push({self}, {&0}, &stump)'),
              (r'^fit\|nano::wlearner_t', 'nv_stump_fit({self})'), (r'^feature\|nano::single_feature_wlearner_t', '{self}->m_feature'),
              (r'^threshold\|nano::stump_wlearner_t', '{self}->m_threshold'), (r'^tables\|nano::single_feature_wlearner_t', '{self}->m_tables'),
              (r'^split\|nano::wlearner_t', 'nv_stump_split_fit({self}, {&0})'), (r'^parameter\|', '@drop'),
              (r'^indices\|nano::cluster_t', 'nv_clu_indices_n'), (r'^tensor\|nano::tensor_t<nano::tensor_vector_storage_t, double, 4>', 'nv_t4_tensor')]


def dtree_fit_fn():
    return Fn('dtree_do_fit', DTREE_CPP, 'do_fit', flt='dtree_wlearner_t::do_fit', self_struct='struct nv_dtree_fit', types=DF_TYPES, calls=DF_CALLS,
              members=DF_MEMBERS, hooks=[nvhooks.param_hook(), size0_hook(DTREE_CPP)])


FIT_PAIR = r'std::pair<double, long>'
FIT_TYPES = [(r'^std::vector<\(anonymous namespace\)::cache_t>$|^std::vector<cache_t>$', 'struct nv_cvec'),
             (r'^\(anonymous namespace\)::cache_t$|^cache_t$|cache_t>::value_type$', 'struct nv_fitcache'),
             (r'^nano::tensor4d_t$|^nano::tensor_t<nano::tensor_vector_storage_t, double, 4>$', 'struct nv_t4'), (T1I, 'struct nv_t1i'),
             (r'^nano::scalar_cmap_t$|^nano::tensor_t<nano::tensor_carray_storage_t, double, 1>$', 'struct nv_t1dv'),
             (r'^nano::wlearner_criterion$', 'uint8_t'), (r'^nano::hinge_type$', 'uint8_t'),
             (r'^' + FIT_PAIR + r'$|^std::vector<' + FIT_PAIR + r'.*>::value_type$|__alloc_traits<std::allocator<' + FIT_PAIR + r'.*>::value_type$', 'struct nv_ival'),
             (r'^std::vector<' + FIT_PAIR + r'\s*>$|ivalues_t$', 'struct nv_ivec'),
             (r'^nano::wlearner::accumulator_t$', 'struct nv_acc'), (r'^std::tuple<double, double>$|^tuple<typename __decay_and_strip<double &>::__type, typename __decay_and_strip<double &>::__type>$', 'struct nv_tuple2'),
             (r'^Eigen::ArrayWrapper<Eigen::Map<|^Eigen::CwiseUnaryOp<Eigen::internal::scalar_square_op<double>, const Eigen::ArrayWrapper<|SquareReturnType$', 'struct nv_grow')]
FIT_CALLS = [(r'^operator\[\]\|.*\|std::vector<(\(anonymous namespace\)::)?cache_t', '(*nv_cvec_at({&0}, {1}))'),
             (r'^operator\[\]\|.*\|std::vector<' + FIT_PAIR, '(*nv_ivec_at({&0}, {1}))'),
             (r'^operator<\|.*\|' + FIT_PAIR, 'nv_pair_lt'),            # std::pair relational operator: lexicographic
             (r'^operator\(\)\|typename tbase::tconstref \(const nano::tensor_size_t\) const\|', '{0}.p[{1}]'),
             (r'^operator=\|.*\|Eigen::ArrayWrapper<Eigen::Map<Eigen::Matrix<double', 'nv_row_store({0}, {1}, cache)'),
             (r'^operator\*\|.*\|double\|#2$', 'nv_coef_scaled({0}, {1}, cache)'),      # scalar * tables.array(r)
             (r'^sort\|', 'nv_sort({0}, {1}, &self->m_ivalues)'), (r'^make_tuple\|', '(struct nv_tuple2){ {0}, {1} }')]
FIT_MEMBERS = [(r'^clear\|(\(anonymous namespace\)::)?cache_t', 'nv_cache_clear({self})'),
               (r'^clear\|nano::wlearner::accumulator_t\|#0', 'nv_acc_clear'), (r'^clear\|std::vector<' + FIT_PAIR, 'nv_ivec_clear'),
               (r'^reserve\|std::vector<' + FIT_PAIR, '@drop'),
               (r'^size\|std::vector<' + FIT_PAIR, '{self}->n'), (r'^size\|nano::tensor_base_t<double, 1', '{self}->n'),
               (r'^begin\|std::vector<' + FIT_PAIR, '((uint64_t)0)'), (r'^end\|std::vector<' + FIT_PAIR, '{self}->n'),
               (r'^emplace_back\|std::vector<' + FIT_PAIR, 'nv_ivec_push({self}, {0}, {&1})'),
               (r'^update\|nano::wlearner::accumulator_t\|#2', 'nv_acc_update({self}, {0})'),            # (vgrad, bin = 0)
               (r'^update\|nano::wlearner::accumulator_t\|#3', 'nv_acc_update_x({self}, {0}, {1})'),      # (value, vgrad, bin = 0)
               (r'^array\|nano::tensor_t<nano::tensor_vector_storage_t, double, 4>', 'nv_t4_array({self}, {&0}, {0})'),   # (where the row index is read from, its value)
               (r'^square\|Eigen::ArrayBase<Eigen::ArrayWrapper<', 'nv_square({*self})'), (r'^sum\|Eigen::DenseBase<Eigen::CwiseUnaryOp<Eigen::internal::scalar_square_op', 'nv_sqsum({*self})'),
               (r'^score\|(\(anonymous namespace\)::)?cache_t', 'nv_candidate({self}, NV_SIDE_NONE, 0.0, 0, {0}, {1}, {2})'),
               (r'^score_neg\|(\(anonymous namespace\)::)?cache_t\|#4', 'nv_candidate({self}, NV_SIDE_NEG, {0}, 1, {1}, {2}, {3})'),
               (r'^score_pos\|(\(anonymous namespace\)::)?cache_t\|#4', 'nv_candidate({self}, NV_SIDE_POS, {0}, 1, {1}, {2}, {3})'),
               (r'^beta_neg\|', 'nv_coef_of_t({self}, NV_SIDE_NEG, {0})'), (r'^beta_pos\|', 'nv_coef_of_t({self}, NV_SIDE_POS, {0})'),
               (r'^output_neg\|', 'nv_coef_of({self}, NV_SIDE_NEG)'), (r'^output_pos\|', 'nv_coef_of({self}, NV_SIDE_POS)')]


def fit_fns(cls):
    """stump / hinge: cache_t::clear and the per-feature callback of do_fit (the threshold sweep)"""
    cpp = f'src/wlearner/{cls}.cpp'
    k = dict(types=FIT_TYPES, calls=FIT_CALLS, members=FIT_MEMBERS)
    clear = Fn(f'{cls}_cache_clear', cpp, 'clear', flt='cache_t::clear', self_struct='struct nv_fitcache',
               select=lambda d: len(astload.param_types(d)) == 3, **k)
    sweep = Fn(f'{cls}_fit_sweep', cpp, 'do_fit', flt=f'{cls}_wlearner_t::do_fit', lambda_index=0, captures=True, **k)
    return dict(clear=clear, sweep=sweep)


def file_constant(tu, name):
    """value of a file-scope `static constexpr auto name = <integer literal>;` read from clang's AST (never typed by hand)"""
    for d in astload.dump(tu, name):
        for n in astload.walk(d):
            if n.get('kind') == 'VarDecl' and n.get('name') == name:
                lits = [x for x in astload.walk(n) if x.get('kind') == 'IntegerLiteral']
                if len(lits) == 1:
                    return int(lits[0]['value'])
    raise astload.ExtractionError(f'{tu}: integer constant {name} not found')


def affine_fit_fn():
    CT = r'(\(anonymous namespace\)::)?cache_t'
    types = [(r'^std::vector<' + CT + r'>$', 'struct nv_cvec'), (r'^' + CT + r'$|cache_t>::value_type$|^nano::wlearner::accumulator_t$', 'struct nv_fitcache'),
             (r'^nano::tensor4d_t$|^nano::tensor_t<nano::tensor_vector_storage_t, double, 4>$', 'struct nv_t4'), (T1I, 'struct nv_t1i'),
             (r'^nano::scalar_cmap_t$|^nano::tensor_t<nano::tensor_carray_storage_t, double, 1>$', 'struct nv_t1dv'), (r'^nano::wlearner_criterion$', 'uint8_t'),
             (r'^Eigen::ArrayWrapper<Eigen::Map<', 'struct nv_grow')]
    calls = [(r'^operator\[\]\|.*\|std::vector<' + CT, '(*nv_cvec_at({&0}, {1}))'),
             (r'^operator\(\)\|typename tbase::t(const|mutable)ref \(const nano::tensor_size_t\)( const)?\|', '{0}.p[{1}]'),
             (r'^operator=\|.*\|Eigen::ArrayWrapper<Eigen::Map<Eigen::Matrix<double', 'nv_row_store({0}, {1}, cache)')]
    members = [(r'^clear\|nano::wlearner::accumulator_t\|#1', 'nv_aff_clear'), (r'^size\|nano::tensor_base_t<long, 1', '{self}->n'),
               (r'^update\|nano::wlearner::accumulator_t\|#3', 'nv_aff_update({self}, 1, {0}, {1}, {2})'),      # (value, vgrad, bin)
               (r'^update\|nano::wlearner::accumulator_t\|#2', 'nv_aff_update({self}, 0, 0.0, {0}, {1})'),     # (vgrad, bin)
               (r'^array\|nano::tensor_t<nano::tensor_vector_storage_t, double, 4>', 'nv_t4_array({self}, {&0}, {0})'),
               (r'^score\|' + CT, 'nv_aff_score'), (r'^w\|' + CT, 'nv_aff_coef({self}, NV_COEF_W)'), (r'^b\|' + CT, 'nv_aff_coef({self}, NV_COEF_B)')]
    return Fn('affine_fit_feature', 'src/wlearner/affine.cpp', 'do_fit', flt='affine_wlearner_t::do_fit', lambda_index=0, captures=True, types=types, calls=calls, members=members)


ACC_CPP = 'src/wlearner/accumulator.cpp'
ACC_PAIR = r'std::pair<double, long>'
ACC_TYPES = [(r'^nano::wlearner::accumulator_t$|^nano::table_wlearner_t::cache_t$', 'struct nv_accum'),
             (r'^Eigen::ArrayWrapper<Eigen::Map<', 'struct nv_av'),
             (r'^std::vector<' + ACC_PAIR, 'struct nv_dvec'),
             (r'^Eigen::CwiseBinaryOp<Eigen::internal::scalar_quotient_op<double(, double)?>, (const )?Eigen::ArrayWrapper<', 'struct nv_ev')]
ACC_CALLS = [(r'^sort\|', 'nv_dvec_sort({0}, {1}, &deltas)'), (r'^max\|const double &\(const double &, const double &\)', 'nv_max_d({0}, {1})')]
ACC_MEMBERS = [(r'^bins\|nano::wlearner::accumulator_t', '{self}->bins'),
               (r'^x0\|nano::wlearner::accumulator_t', '(*nv_acc_x({self}, {0}, 0))'), (r'^x1\|nano::wlearner::accumulator_t', '(*nv_acc_x({self}, {0}, 1))'),
               (r'^x2\|nano::wlearner::accumulator_t', '(*nv_acc_x({self}, {0}, 2))'),
               (r'^r1\|nano::wlearner::accumulator_t', 'nv_acc_r({self}, {0}, 1)'), (r'^r2\|nano::wlearner::accumulator_t', 'nv_acc_r({self}, {0}, 2)'),
               (r'^rx\|nano::wlearner::accumulator_t', 'nv_acc_r({self}, {0}, 3)'),
               (r'^reserve\|std::vector<' + ACC_PAIR, '@drop'), (r'^emplace_back\|std::vector<' + ACC_PAIR, 'nv_dvec_push({self}, {0}, {1}, self)'),
               (r'^update\|nano::wlearner::accumulator_t( \*)?\|#2', 'acc_update'),
               (r'^begin\|std::vector<' + ACC_PAIR, '((uint64_t)0)'), (r'^end\|std::vector<' + ACC_PAIR, '{self}->n')]


TBLC_TYPES = [(r'^std::vector<' + ACC_PAIR, 'struct nv_mapv'),
              (r'^nano::hashes_t$|^nano::tensor_t<nano::tensor_vector_storage_t, unsigned long, 1>$', 'struct nv_h1'),
              (r'^nano::indices_t$|^nano::tensor_t<nano::tensor_vector_storage_t, long, 1>$', 'struct nv_i1'),
              (r'^nano::tensor4d_t$|^nano::tensor_t<nano::tensor_vector_storage_t, double, 4>$', 'struct nv_tabg'),
              (r'^nano::tensor3d_dims_t$|^nano::tensor_dims_t<3>$|^std::array<long, 3', 'int64_t'),       # target dims: their product, the number of outputs
              (r'^nano::tensor4d_dims_t$|^nano::tensor_dims_t<4>$|^std::array<long, 4', 'struct nv_dims2'),
              (r'^nano::wlearner_criterion$', 'int32_t'), (r'^' + ACC_PAIR + r'$|' + ACC_PAIR + r'.*value_type$', 'struct nv_gpair')]
TBLC_CALLS = [(r'^make_score\|', 'nv_make_score({0}, {1}, {2}, {3})'), (r'^size\|.*tensor_dims_t<3', '{0}'), (r'^cat_dims\|', 'nv_cat({0}, {1})'),
              (r'^arange\|', 'nv_arange({0}, {1})'),
              (r'^operator\[\]\|.*\|std::vector<' + ACC_PAIR, '(*nv_mapv_at({&0}, {1}))'),
              (r'^operator\(\)\|.*\|nano::tensor_t<nano::tensor_vector_storage_t, unsigned long, 1>', '(*nv_h1_at({&0}, {1}))'),
              (r'^operator\(\)\|.*\|nano::tensor_t<nano::tensor_vector_storage_t, long, 1>', '(*nv_i1_at({&0}, {1}))'),
              (r'^operator=\|.*\|nano::tensor_t<nano::tensor_vector_storage_t, unsigned long, 1>', 'nv_h1_assign({&0}, {&1})'),
              (r'^operator=\|.*\|nano::tensor_t<nano::tensor_vector_storage_t, long, 1>', 'nv_i1_assign({&0}, {1})')]
TBLC_MEMBERS = [(r'^tdims\|nano::wlearner::accumulator_t', '{self}->outs'), (r'^sort\|nano::wlearner::accumulator_t', 'nv_sorted({self})'),
                (r'^score\|nano::table_wlearner_t::cache_t', 'tbl_score'),
                (r'^resize\|nano::tensor_(t<nano::tensor_vector_storage_t, unsigned long, 1>|vector_storage_t<unsigned long, 1>)', 'nv_h1_resize({self}, {0})'),
                (r'^resize\|nano::tensor_(t<nano::tensor_vector_storage_t, long, 1>|vector_storage_t<long, 1>)', 'nv_i1_resize({self}, {0})'),
                (r'^resize\|nano::tensor_(t<nano::tensor_vector_storage_t, double, 4>|vector_storage_t<double, 4>)', 'nv_tab_resize({self}, {0})'),
                (r'^array\|nano::tensor_t<nano::tensor_vector_storage_t, double, 4>', 'nv_tab_array({self}, {0})')]


def tblc_fn(cname, name, **kw):
    cw = eigencw.hook('struct nv_av', scalars=True)
    return Fn(cname, TABLE_CPP, name, flt=f'cache_t::{name}', self_struct='struct nv_accum', types=TBLC_TYPES + ACC_TYPES, calls=TBLC_CALLS + ACC_CALLS,
              members=TBLC_MEMBERS + ACC_MEMBERS, stmt_hooks=[cw], hooks=[cw.reduce_hook(), cw.value_hook('struct nv_ev')], **kw)


def acc_fn(cname, tu, name, flt, **kw):
    cw = eigencw.hook('struct nv_av', scalars=True)
    return Fn(cname, tu, name, flt=flt, self_struct='struct nv_accum', types=ACC_TYPES, calls=ACC_CALLS, members=ACC_MEMBERS,
              stmt_hooks=[cw], hooks=[cw.reduce_hook(), cw.value_hook('struct nv_ev')], **kw)


def fit_loop_hook():
    """iterator.loop(samples, [&](feature, tnum, values) {..}) inside a do_fit: the callback is extracted separately; the stub
    gets the samples and the captured caches (named literally: the capture list of the callback is checked to contain them)"""
    from cxx2c import Unsupported

    def h(P, n):
        if n.get('kind') != 'CXXMemberCallExpr':
            return None
        me = n['inner'][0]
        if me.get('kind') != 'MemberExpr' or me.get('name') != 'loop' or 'select_iterator_t' not in me['inner'][0]['type'].get('qualType', ''):
            return None
        args = n['inner'][1:]
        lam = nvhooks.lambda_arg(args[-1]) if len(args) == 2 else None
        if lam is None:
            raise Unsupported('select_iterator_t::loop without a lambda callback')
        caps = [c['name'] for c in astload.lambda_captures(lam)]
        if 'caches' not in caps:
            raise Unsupported(f'the fit callback does not capture caches (captures {caps})')
        P.note('select_iterator_t::loop(samples, callback capturing caches) -> nv_fit_loop')
        return f'nv_fit_loop({P.addr(me["inner"][0])}, {P.expr(args[0])}, &caches)'
    return h


FT_TYPES = [(r'^nano::dataset_t$', 'struct nv_dataset'), (T1I, 'struct nv_t1i'), (r'^nano::tensor4d_t$|tensor_t<nano::tensor_vector_storage_t, double, 4>', 'struct nv_t4'),
            (r'^nano::select_iterator_t$', 'struct nv_iter'), (r'^nano::wlearner_criterion$', 'int32_t'), (r'^nano::hinge_type$', 'uint8_t'),
            (r'^std::vector<(\(anonymous namespace\)::)?cache_t>$', 'struct nv_cvec'), (r'^(\(anonymous namespace\)::)?cache_t$', 'struct nv_fitcache'),
            (r'^nano::tensor3d_dims_t$|^nano::tensor_dims_t<3>$|^std::array<long, 3', 'struct nv_t3dims')]
FT_CALLS = [(r'^ctor\|nano::select_iterator_t\|', 'nv_iter_make({&0})'),
            (r'^ctor\|nano::tensor_t<nano::tensor_carray_storage_t, long, 1>\|', '{0}'),      # indices_cmap_t(indices_t): same view
            (r'^ctor\|std::vector<(\(anonymous namespace\)::)?cache_t>\|', 'nv_cvec_make({0})'),
            (r'^min_reduce\|', '(*nv_min_reduce({&0}))'), (r'^operator\[\]\|.*\|std::vector<(\(anonymous namespace\)::)?cache_t', '(*nv_cvec_any({&0}, {1}))'), (r'^no_fit_score\|', '(NV_NO_FIT)')]
FT_MEMBERS = [(r'^concurrency\|nano::(select|base_dataset)_iterator_t', '{self}->concurrency'), (r'^log_info\|', '@drop'),
              (r'^set\|nano::single_feature_wlearner_t', 'nv_sfw_set({self}, {0}, {&1})')]


def fit_top_fn(cls):
    return Fn(f'{cls}_do_fit', f'src/wlearner/{cls}.cpp', 'do_fit', flt=f'{cls}_wlearner_t::do_fit', self_struct='struct nv_learner', types=FT_TYPES,
              calls=FT_CALLS, members=FT_MEMBERS, hooks=[nvhooks.param_hook(), fit_loop_hook()])


def iter_loop_hook(code, elem):
    """iterator.loop(samples, feature, callback): the lambda is not translated; the overload that was resolved (by the
    std::function parameter type of the callee) must be the one for the expected kind of feature values"""
    from cxx2c import Unsupported

    def h(P, n):
        if n.get('kind') != 'CXXMemberCallExpr':
            return None
        me = n['inner'][0]
        if me.get('kind') != 'MemberExpr' or me.get('name') != 'loop' or 'select_iterator_t' not in me['inner'][0]['type'].get('qualType', ''):
            return None
        args = n['inner'][1:]
        if len(args) != 3:
            raise Unsupported('select_iterator_t::loop with an unexpected number of arguments')
        cb = args[2]['type'].get('desugaredQualType', args[2]['type'].get('qualType', ''))
        if f'tensor_carray_storage_t, {elem}>' not in cb:
            raise Unsupported(f'select_iterator_t::loop overload for callback type {cb!r}, expected values of <{elem}>')
        P.note('select_iterator_t::loop(samples, feature, callback) -> nv_iter_loop')
        return f'nv_iter_loop({P.addr(me["inner"][0])}, {P.expr(args[0])}, {P.expr(args[1])}, {code})'
    return h


def hinge_lemmas():
    """the value proved for an active sample of a hinge is w * v + b (linear.h); with the representation invariant b = -threshold
    * w (the only assignment to tables[1] in hinge.cpp's do_fit; ASSUMED, do_fit is not under contract) this is, over the
    reals, the MARS hinge of include/nano/wlearner/hinge.h on BOTH sides of the threshold (inactive side: prediction 0)"""
    import os
    src = {'file': os.path.join(astload.VERIF, 'specs/C10/spec.py')}
    hdr = ('(declare-const w Real)(declare-const b Real)(declare-const t Real)(declare-const v Real)\n'
           '(define-fun pos ((x Real)) Real (ite (< 0.0 x) x 0.0))\n(assert (= b (* (- t) w)))\n')
    # prediction as proved: active ? w * v + b : 0
    left = '(ite (< v t) (+ (* w v) b) 0.0)'
    right = '(ite (>= v t) (+ (* w v) b) 0.0)'
    return [VC('lemma/hinge left: (v < t ? w*v + b : 0) == (-w) * (t - v)+  given b == -t*w', hdr + f'(assert (not (= {left} (* (- w) (pos (- t v))))))',
               about='left hinge = beta * (threshold - x)+ with beta = -tables[0] (reals)', source=src),
            VC('lemma/hinge right: (v >= t ? w*v + b : 0) == w * (v - t)+  given b == -t*w', hdr + f'(assert (not (= {right} (* w (pos (- v t))))))',
               about='right hinge = beta * (x - threshold)+ with beta = tables[0] (reals)', source=src),
            VC('lemma/mid-point: v1 < v2  =>  v1 < (v1 + v2)/2 <= v2, so x <= v1 => x < mid and x >= v2 => x >= mid', '(declare-const v1 Real)(declare-const v2 Real)(declare-const x Real)\n'
               '(define-fun mid () Real (* 0.5 (+ v1 v2)))\n(assert (< v1 v2))\n(assert (not (and (< v1 mid) (<= mid v2) (=> (<= x v1) (< x mid)) (=> (>= x v2) (>= x mid)))))',
               about='the threshold stored by the sweeps separates exactly the left entries (values <= v1) from the right ones (values >= v2) under `value < threshold` (reals)', source=src),
            VC('lemma/canary: b == -t*w with a non-zero slope and an active sample is satisfiable', hdr + '(assert (not (= w 0.0)))(assert (< v t))',
               about='vacuity guard (must be sat)', source=src, expect='sat')]


def accumulator_lemmas():
    """over the reals: what ties the accumulator terms proved in accum.h to the property ("the predictions reproduce that RSS")"""
    import os
    src = {'file': os.path.join(astload.VERIF, 'specs/C10/spec.py')}
    out = [VC('lemma/bin RSS, generic output: c = r1/x0, x0 > 0  =>  r2 - 2*c*r1 + x0*c^2 == r2 - r1^2/x0',
              '(declare-const r1 Real)(declare-const r2 Real)(declare-const x0 Real)\n(define-fun c () Real (/ r1 x0))\n(assert (> x0 0.0))\n'
              '(assert (not (= (+ (- r2 (* 2.0 c r1)) (* x0 c c)) (- r2 (/ (* r1 r1) x0)))))',
              about='per output, the residual sum of squares of predicting the stored constant r1/x0 for the x0 samples of a bin (sum of (res - c)^2 = r2 - 2 c r1 + x0 c^2) is the summand of cache_t::score(bin)', source=src)]
    bounded = []
    for n in (1, 2, 3):
        r1 = [f'a{o}' for o in range(n)]
        r2 = [f'b{o}' for o in range(n)]
        decl = ''.join(f'(declare-const {v} Real)' for v in r1 + r2) + '(declare-const x0 Real)\n(assert (> x0 0.0))\n'
        add = lambda ts: ts[0] if len(ts) == 1 else '(+ ' + ' '.join(ts) + ')'
        score = add([f'(- {b} (/ (* {a} {a}) x0))' for a, b in zip(r1, r2)])
        gain = f'(/ (- {add([f"(* {a} {a})" for a in r1])}) x0)'
        bounded.append(VC(f'lemma/score(bin) == rss_zero(bin) + gain(bin) for {n} output(s)', decl + f'(assert (not (= {score} (+ {add(r2)} {gain}))))',
                          about='SUM_o (r2 - r1^2/x0) == SUM_o r2 + (-(SUM_o r1^2)/x0): score_dense and score_kbest account the same RSS (sum expanded for a bounded number of outputs)', source=src))
    bounded.append(VC('lemma/canary: for 2 outputs the square of the sum differs from the sum of the squares', '(declare-const a0 Real)(declare-const a1 Real)\n'
                      '(assert (not (= (* (+ a0 a1) (+ a0 a1)) (+ (* a0 a0) (* a1 a1)))))', about='the gain is a reduction of squares, not the square of a reduction (must be sat)', source=src, expect='sat'))
    return out, bounded


# (tiers, cbmc flags) of the ghost-cut targets, from measured cbmc CPU seconds (see the commit message)
# measured (cbmc + extraction CPU seconds on a loaded machine, minisat / cadical): plain stump 37, hinge 74; stump visit 61 / 83, stump best 45 / 78,
# hinge visit 105 / 123, hinge best 82 / 114: minisat everywhere, the hinge pair in the thorough tier
OPT_PLAN = {('stump', 'visit'): (('quick', 'thorough'), []), ('stump', 'best'): (('quick', 'thorough'), []),
            ('hinge', 'visit'): (('thorough',), []), ('hinge', 'best'): (('thorough',), [])}


def targs(*want):
    return lambda d: astload.template_args(d) == list(want)


def build(tier):
    LH = 'specs/C10/loops.h'
    loop = lambda kind: Fn(f'loop_{kind}_body', DRV, f'loop_{kind}', flt=f'nano::wlearner::loop_{kind}',
                           select=targs(f'nvdrv::op_{kind}_t'), lambda_index=0, captures=True, types=TYPES,
                           calls=LOOP_CALLS, members=LOOP_MEMBERS)
    targets = [Target(f'loop_{k}_body', [loop(k)], LH) for k in ('scalar', 'sclass', 'mclass')]
    # the callback type (std::function<void(tensor_size_t, size_t, X_cmap_t)>) of the chosen iterator.loop overload says
    # which kind of feature values the callback is run on
    KIND = {'scalar': (0, 'double, 1'), 'sclass': (1, 'int, 1'), 'mclass': (2, 'signed char, 2')}
    for k, (code, elem) in KIND.items():
        outer = Fn(f'loop_{k}', DRV, f'loop_{k}', flt=f'nano::wlearner::loop_{k}', select=targs(f'nvdrv::op_{k}_t'),
                   kinds=('FunctionDecl',), types=TYPES,
                   calls=[(r'^ctor\|nano::select_iterator_t\|', 'nv_iter_make({&0})'),
                          (r'^ctor\|nano::tensor_t<nano::tensor_carray_storage_t, long, 1>\|', '{0}')],
                   hooks=[iter_loop_hook(code, elem)])
        targets.append(Target(f'loop_{k}', [outer], LH))
    SH = 'specs/C10/stump.h'
    f = stump_fns()
    targets.append(Target('stump_do_predict', [f['do_predict'], f['predict_lambda'], f['feature']], SH))
    f = stump_fns()
    targets.append(Target('stump_split', [f['split'], f['split_lambda']], SH))
    f = stump_fns()
    targets.append(Target('stump_do_split', [f['do_split'], f['split'], f['split_lambda'], f['feature']], SH))
    TH = 'specs/C10/table.h'
    # (lazy: the closure layout is read from clang's AST inside the target's worker)
    targets.append(Target('table_do_predict', lambda: table_fns('predict'), TH, enforce='table_do_predict', defines=[table_defines('predict'), table_defines('split')]))
    targets.append(Target('table_do_split', lambda: table_fns('split'), TH, enforce='table_do_split', defines=[table_defines('predict'), table_defines('split')]))
    ftypes = [(r'^nano::hashes_t$|tensor_t<nano::tensor_vector_storage_t, unsigned long, 1>', 'struct nv_t1u'),
              (r'Matrix<unsigned long, -1, 1, 0.*>::Scalar$', 'uint64_t')]
    fk = dict(types=ftypes, uf_float=False, kinds=('FunctionDecl',),
              calls=[(r'^hash\|uint64_t \(const int &\)', 'hash_sclass'), (r'^lower_bound\|', 'nv_lower_bound_u64({0}, {1}, {2})'),
                     (r'^distance\|', '({1} - {0})')],
              members=[(r'^begin\|nano::tensor_t<nano::tensor_vector_storage_t, unsigned long, 1>', '{self}->p'),
                       (r'^end\|nano::tensor_t<nano::tensor_vector_storage_t, unsigned long, 1>', '({self}->p + {self}->n)')])
    find = Fn('find_sclass', DRV, 'find', flt='nano::find', select=targs('int'), **fk)
    hash_ = Fn('hash_sclass', DRV, 'hash', flt='nano::hash', select=targs('int'), **fk)
    targets.append(Target('find_sclass', [find, hash_], 'specs/C10/find.h'))
    UH = 'specs/C10/util.h'
    targets.append(Target('wl_scale', [util_fns()['scale']], UH))
    u = util_fns()
    targets.insert(0, Target('wl_merge', [u['merge'], u['merge_pred']], UH))    # the longest proof starts first
    targets.append(Target('sfw_scale', [u['sfw_scale'], u['scale']], UH, replace=['wl_scale'], loops=0))
    LNH = 'specs/C10/linear.h'
    for cls in ('affine', 'hinge'):
        f = linear_fns(cls)
        targets.append(Target(f'{cls}_do_predict', f['predict'], LNH))
        targets.append(Target(f'{cls}_do_split', f['split'], LNH))
    DH = 'specs/C10/dtree.h'
    targets.append(Target('dtree_do_split', [dtree_fns()['do_split']], DH))
    d = dtree_fns()
    targets.append(Target('dtree_do_predict', [d['do_predict'], d['base_split'], d['do_split']], DH, replace=['dtree_do_split'],
                          loops=1, defines=['NV_DTREE_CALLER']))
    targets.append(Target('dtree_do_fit', [dtree_fit_fn()], 'specs/C10/dtree_fit.h'))
    score = Fn('make_score', 'src/wlearner/criterion.cpp', 'make_score', flt='nano::wlearner::make_score', types=[(r'^nano::wlearner_criterion$', 'uint8_t')],
               calls=[(r'^max\|const double &\(const double &, const double &\)', 'nv_max_d({0}, {1})'), (r'^epsilon\|', '(NV_EPS)'),
                      (r'^AIC\|', 'nv_AIC'), (r'^AICc\|', 'nv_AICc'), (r'^BIC\|', 'nv_BIC')])
    targets.append(Target('make_score', [score], 'specs/C10/criterion.h'))
    for cls in ('stump', 'hinge'):
        f = fit_fns(cls)
        targets.append(Target(f'{cls}_cache_clear', [f['clear']], 'specs/C10/fit.h', defines=['NV_FIT_CLEAR']))
        targets.append(Target(f'{cls}_fit_sweep', [f['sweep']], 'specs/C10/fit.h'))
        # the ghost-cut clauses ("every boundary is evaluated exactly once" / "the final score is <= every candidate's") as separate targets
        # over the same extracted sweep and the same prelude (defines select the clause set); tier / solver per measured cost (OPT_PLAN)
        for part, define in (('visit', 'NV_OPT_VISIT'), ('best', 'NV_OPT_BEST')):
            tiers, flags = OPT_PLAN[(cls, part)]
            if tier in tiers:
                targets.append(Target(f'{cls}_fit_sweep_opt_{part}', [fit_fns(cls)['sweep']], 'specs/C10/fit.h', defines=[define], cbmc_flags=flags, timeout=900 if tiers == ('thorough',) else None))
    AFF = 'src/wlearner/affine.cpp'
    targets.append(Target('affine_fit_feature', [affine_fit_fn()], 'specs/C10/fit_affine.h',
                          defines=[lambda: f'bin_affine={file_constant(AFF, "bin_affine")}', lambda: f'bin_missed={file_constant(AFF, "bin_missed")}']))
    for cls in ('stump', 'hinge', 'affine'):
        targets.append(Target(f'{cls}_do_fit', [fit_top_fn(cls)], 'specs/C10/fit_top.h'))
    AH = 'specs/C10/accum.h'
    targets.append(Target('tbl_score_dense', [tblc_fn('tbl_score_dense', 'score_dense'), acc_fn('tbl_score', TABLE_CPP, 'score', 'cache_t::score', ret='double')], AH))
    targets.append(Target('tbl_score_kbest', [tblc_fn('tbl_score_kbest', 'score_kbest')], AH))
    # (deduced `auto` return types: the C return type is given here; the returned expression itself is extracted)
    targets.append(Target('acc_sort', [acc_fn('acc_sort', ACC_CPP, 'sort', 'accumulator_t::sort', ret='struct nv_dvec')], AH))
    targets.append(Target('tbl_score', [acc_fn('tbl_score', TABLE_CPP, 'score', 'cache_t::score', ret='double')], AH))
    AFFC = 'src/wlearner/affine.cpp'      # a TU that instantiates both update templates
    npar = lambda k: (lambda d: len(astload.param_types(d)) == k and len(astload.template_args(d)) == 1)      # the instantiation, not the pattern
    targets.append(Target('acc_update', [acc_fn('acc_update', AFFC, 'update', 'accumulator_t::update', select=npar(2))], AH))
    targets.append(Target('acc_update_x', [acc_fn('acc_update_x', AFFC, 'update', 'accumulator_t::update', select=npar(3)),
                                           acc_fn('acc_update', AFFC, 'update', 'accumulator_t::update', select=npar(2))], AH))
    for nm, rt in (('rss_zero', 'double'), ('rss_constant', 'double'), ('fit_constant', 'struct nv_ev')):
        targets.append(Target(f'acc_{nm}', [acc_fn(f'acc_{nm}', ACC_CPP, nm, f'accumulator_t::{nm}', ret=rt)], AH))
    if tier == 'thorough':      # 47-54 s of cbmc CPU (cadical; minisat > 240 s): too heavy for the quick tier, one target (splitting the ghost bins saved 7 s only)
        targets.append(cluster_spec.cluster_target())
    MH = 'specs/C10/trymerge.h'
    t = try_merge_fns()
    targets.append(Target('base_try_merge', [t['base']], MH))
    targets.append(Target('sfw_do_try_merge', [t['helper']], MH))
    t = try_merge_fns()
    targets.append(Target('table_try_merge', [t['table'], t['helper'], t['feature']], MH))
    t = try_merge_fns()
    targets.append(Target('affine_try_merge', [t['affine'], t['helper'], t['feature']], MH))
    return {
        'targets': targets, 'vcs': hinge_lemmas() + accumulator_lemmas()[0] + rss_smt.build_vcs(), 'bounded': accumulator_lemmas()[1],
        'decided': [
            'loop_scalar / loop_sclass / loop_mclass: op(i, value) is called only for 0 <= i < samples.size(), in increasing i, only for given values (finite / >= 0 / first label >= 0), with the value of sample i, and for every given value exactly once (ghost sample position); the enclosing functions hand the given samples and feature to select_iterator_t::loop once, with the callback overload of the right value kind',
            'stump: do_predict adds tables[value < threshold ? 0 : 1] to outputs row i exactly once for a given value and nothing for a missing one; split / do_split assign group (value < threshold ? 0 : 1) to samples(i) under the same rule with the same feature and the member threshold; cluster has dataset.samples() x 2',
            'tables (dense, k-best, k-split, dstep share do_predict / do_split): through process<op> and its single-label / multi-label callbacks, a given value whose labeling is found at hashes position k adds tables[hash2tables[k]] to outputs row i, resp. assigns group hash2tables[k] to samples(i); missing or unknown labelings leave outputs untouched and assign no group; loop_sclass is used exactly for single-label features; cluster has tables.size<0>() groups',
            'nano::find (single-label): result is -1 or the position of hash(value) in hashes; -1 implies the hash is absent (sorted hashes)',
            'wlearner::scale: every row i of tables is multiplied exactly once by scale[min(i, size-1)] = the factor of group i (the single factor if size == 1), all indices in range for size in {1, rows}; single_feature_wlearner_t::scale applies it to its own tables',
            'wlearner::merge: try_merge only through a non-null learner into an earlier slot; a slot is nulled only right after the successful try_merge that absorbed it; the learner holding the predictions of any given learner survives remove_if/erase (predicate = slot is null, whole vector, erase of exactly the returned tail); the vector does not grow',
            'try_merge (what wlearner::merge assumes of it): wlearner_t::try_merge (inherited by stump, hinge, dtree: static_asserts in the driver) never merges; single_feature_wlearner_t::do_try_merge succeeds iff same feature and same coefficient dims; table_wlearner_t::try_merge succeeds only for another table learner (dynamic type) with the same feature, dims, and element-wise identical hashes and hash2tables (ghost positions); affine_wlearner_t::try_merge succeeds iff the other is an affine learner with the same feature and dims; on success the coefficient at the ghost position is old + other (Eigen += on equal sizes) and nothing else is written, on refusal nothing is written; `other` is never written; a null other is refused',
            'affine: do_predict adds tables[0] * value + tables[1] (at the ghost output coefficient, IEEE operations uninterpreted) to outputs row i exactly for a given value, no other row is written; do_split assigns the single group 0 to samples(i) exactly for a given value',
            'hinge: do_predict adds tables[0] * value + tables[1] to outputs row i iff the value is given and on the active side (left: value < threshold, right: value >= threshold), nothing otherwise and no other row is written; do_split assigns group 0 under the same condition (m_hinge one of the two enumerators); over the reals and with tables[1] == -threshold * tables[0] this is the MARS hinge on both sides (SMT lemmas)',
            'dtree do_split: the walk of any sample through the sibling pairs of m_nodes is a single path that starts at the root pair, follows at every visited pair the stump rule on the sample\'s own value of that pair\'s feature (value < threshold ? first : second child), ends at the first missing value without a group or at a leaf pair with group m_table + side, a row of m_tables; node / table indices in range; samples outside the argument are never assigned; depth 1 (root pair is a leaf pair): one visit, group m_table(root) + (value < threshold ? 0 : 1) = the stump rule',
            'dtree do_fit (structure only): nodes are stored in sibling pairs at even positions, both members of a pair carry the feature / threshold of the stump fitted for it and are both leaves or both inner nodes; a leaf pair gets the next two rows of m_tables, filled from rows 0 and 1 of that stump\'s tables in this order; an inner member\'s m_next is the later, in-range, even position of the pair fitted on its side (linked exactly when its queued cache is processed); members are replaced iff the returned score is not no_fit_score; depth 1: the stump\'s tables are rows 0 and 1 of m_tables -- this is the representation invariant dtree do_split / do_predict assume',
            'threshold sweeps of the fits (stump, hinge; dtree nodes fit stumps): cache_t::clear turns every sample position with a given value into exactly one (value, sample) entry and one contribution to the total accumulator (hinge: with that value), a missing value into one contribution to the missing residual sum and nothing else, sorts the whole vector once and leaves the left accumulator empty; in the sweep a candidate is evaluated only between two DIFFERENT consecutive sorted values v1 < v2, the left accumulator then holds exactly the sorted entries before the cut (values <= v1) and total minus left exactly the others (values >= v2), once each; a stored candidate is one consistent candidate: the score of that evaluation, this feature, a threshold with v1 < threshold <= v2 for that cut (so that `value < threshold` reproduces the partition the score was computed for; REFUTED on the current library, see the finding) which is 0.5 * (v1 + v2) bit-identically whenever that mid-point separates, coefficients computed from the accumulators of that moment (stump: left -> row 0, right -> row 1; hinge: slope of the evaluated direction -> row 0, -threshold * row 0 -> row 1, m_hinge = that direction); over the reals that threshold separates the two sides under `value < threshold` (SMT lemma)',
            'affine fit callback: every sample position is accumulated exactly once, a given value in the affine bin with its own value, a missing one in the missed bin (bin constants read from the source); the score is evaluated once, after all positions; a store is that candidate (score, feature, w() -> row 0, b() -> row 1)',
            'do_fit of stump / hinge / affine around the callback: the callback (capturing the caches) is handed to select_iterator_t::loop with the given samples once; the learner takes every field of the cache min_reduce returns (feature, tables, threshold, hinge direction) exactly when its score is not no_fit_score, and returns that score',
            'accumulator_t over a symbolic number of outputs (ghost bin, ghost output; a reduction E.sum() is identified by its summand at the ghost output): update(vgrad, bin) adds 1 to x0(bin), subtracts the gradient from r1(bin, o) and adds its square to r2(bin, o), update(value, vgrad, bin) also value / value^2 / gradient * value to x1 / x2 / rx, and nothing outside that bin; sort() returns one (gain, bin) pair per bin with gain(bin) = -SUM_o r1(bin, o)^2 / x0(bin) (a reduction of squares), the whole vector sorted; rss_zero = SUM_o r2, rss_constant = SUM_o (r2 - r1^2 / max(1, x0)), fit_constant(o) = r1 / max(1, x0); table cache_t::score(bin) = SUM_o (r2 - r1^2 / x0); SMT: per output this summand is the RSS of predicting r1/x0 (generic output index), and score = rss_zero + gain for 1..3 outputs (bounded)',
            'table cache_t::score_dense / score_kbest: what is stored for a better candidate is one consistent table (score of that evaluation, feature, K tables, hashes / hash2tables / coefficients of the tracked row: dense row = bin, k-best row fv = the bin sorted at position fv) whose coefficients are the optimal constants r1(bin, o) / x0(bin) of the bin the row stands for; make_score gets n = m_samples',
            'split of stump / hinge / affine / tables: for the position i of the given list with a non-missing (active) value, cluster.assign is called exactly once with THAT sample samples(i) and the group the predictor uses for its value, nothing is assigned for a missing one; robust to the capture lists (stubs, prototypes and closure structs are generated from the lambdas as they are in the source)',
            'wlearner::make_score (index discipline only): rss is clamped below by 1e3 * epsilon and passed with (k, n) unchanged and in order to exactly the formula the criterion names (AIC / AICc / BIC uninterpreted), the plain criterion returns the clamped rss',
            'minimum RSS of ONE candidate, over the reals, on the real scoring code walked at a generic output coefficient (symbolic number of outputs; specs/C10/rss_smt.py, back end B): stump cache_t::score (with x0_/r1_/r2_neg/pos, output_neg/pos and the file-local ::score walked at their calls): the rss handed to make_score is SUM_o [min-RSS(left) + min-RSS(right)] + missing_rss with min-RSS = r2 - r1^2/x0 per side and output, the stored coefficients output_neg / output_pos are the group means r1/x0, n = total + missing count; hinge cache_t::score_neg / score_pos (with beta_neg/pos, beta0, the twelve moment accessors and ::beta / ::score walked): rss = SUM_o [(r2 - B^2/D)(active side) + r2(inactive side)] + missing_rss with B = rx - t r1, D = x2 - 2 t x1 + t^2 x0, the stored slope is B/D; table cache_t::score(bin) = SUM_o (r2 - r1^2/x0); every division executed is defined under x0 > 0 resp. D > 0; lemmas: for every constant c resp. slope b the RSS r2 - 2 c r1 + x0 c^2 resp. r2 - 2 b B + b^2 D is >= that minimum, attained exactly at r1/x0 resp. B/D (unique for the constant); induction over the samples entered: these quadratic forms ARE the residual sums of squares SUM (res - c)^2 resp. SUM (res - b (x - t))^2 of the entries accumulated by accumulator_t::update (base: cleared accumulator; step: one update, as proved in accum.h), D = SUM (x - t)^2, and the moments of total minus left are the moments of the entries not in left',
            'minimum over the candidates of a feature (ghost cut; separate targets over the same extracted sweeps: stump_fit_sweep_opt_visit / _opt_best in the quick tier, hinge_fit_sweep_opt_visit / _opt_best in the THOROUGH tier only, the plain *_fit_sweep targets carry none of these clauses): EVERY boundary between two different consecutive sorted values is evaluated exactly once (hinge: once per direction) and no other cut is; the score the cache ends with is <= every finite score evaluated there, <= the score it started with (so it stays the best over the features of the thread), is a number (not NaN), and is the old score or the score of a stored candidate',
            'score_dense: the rss is accumulated from exactly one reduction per bin, the one of the ghost bin being SUM_o (r2 - r1^2/x0) of that bin',
            'THOROUGH tier only (target acc_cluster, ~50 s): accumulator_t::cluster() (k-split tables; symbolic number of bins >= 1; ghost bins b, b2, ghost levels L < L2): rows are built in order, row t as a copy of the finished row t - 1, and a finished row is never read or written again; cluster_id(L, b) is in [0, bins - L) -- every bin belongs to exactly one cluster of its level, below the level\'s number of clusters bins - L -- and cluster_id(0, b) == b; levels are nested: two bins in one cluster at level L are in one cluster at level L2; the merged pair satisfies 0 <= c1 < c2 < #clusters whatever the float distances are; every access of cluster_x0 / r1 / r2 / rx / id has both leading indices in [0, bins); all seven loops terminate (decreases clauses)',
            'dtree do_predict: through wlearner_t::split (compatibility check, then do_split) the row i of outputs receives exactly one update, the m_tables row of the group split() reports for samples(i), and none if there is no group; depth 1: the stump_do_predict contract',
        ],
        'not_decided': [
            'minimum RSS over the hypothesis class, what remains open: IEEE arithmetic (all optimality statements are over the reals: the float moment sums and the float comparison of scores are not the real ones); the composition of the pieces into one statement about do_fit (per candidate: rss_smt + accum.h / fit.h accumulators; over the candidates of a feature: fit.h .best; over the features of a thread: the cache keeps its best score across sweeps (.best: final <= old); over the threads: min_reduce ASSUMED to return the smallest score) is an argument in prose, not a machine-checked theorem; affine least squares (cache_t::score / w / b of affine.cpp), k-best / k-split selection; that D > 0 / x0 > 0 in the hinge when all active values equal the threshold (then the code divides 0 by 0 and isfinite rejects the candidate: not modelled over the reals)',
            'hinge score_neg / score_pos hand make_score n = the ACTIVE-side count + missing count, not the number of samples (the stump hands total + missing): irrelevant for the RSS criterion of the property, changes AIC / AICc / BIC of hinge candidates (observed while proving rss/stump/count; recorded, not a C10 violation)',
            'termination of the breadth-first walks of dtree do_split / do_fit; the scores, samples and stopping rule of dtree do_fit (stump fits are opaque)',
            'the count in missing_cnt (a float sum of 1.0); the values of scores / coefficients (uninterpreted)',
            'accumulator_t::cluster(): that level L uses ALL indices below bins - L (surjectivity), the ghost membership of the moment sums (the cell (L, c) of cluster_x0 / r1 / r2 holds the moments of exactly the bins with cluster_id(L, .) == c: the model is written up in specs/C10/cluster.h but only index discipline is checked on those tensors), which pair is merged (float distances), bins == 0 (a feature whose values are all missing reaches cluster_x0.array(0) of an empty tensor: assert-only, the row is empty); table cache_t::score_ksplit (consumes cluster(): hash2tables = cluster_id row ic must address the bins - ic rows of rx.slice(0, ksplit): follows from the range clause above but score_ksplit itself is not under contract), cache_t::update (label -> bin), the float accumulation of rss inside score_kbest (which gains are added is not tracked, only what is stored); in score_dense that the reduction results are the operands of the += chain (one reduction per bin with the right summand is proved, the chain of float additions over a symbolic number of bins is not)',
            'numeric value of the scaled coefficients (Eigen *= is recorded, not computed); sums of merged / predicted coefficients are exact only as uninterpreted IEEE terms',
            'nano::find for multi-label values (detail::hash over the row) stays an assumed contract',
            'native replay only for the dtree groups() finding (replay/C10_replay.cpp); other counterexamples would be (value, threshold, index) tuples',
        ],
        'assumptions': [
            'select_iterator_t::loop(samples, feature, callback) calls callback(feature, 0, values) once with one value per sample, of the kind of the chosen overload (src/dataset/iterator.cpp)',
            'Eigen: tensor.vector(k) / array(k) is the k-th slice along the first dimension; `a += b` adds b to a; `a *= s` multiplies a by s (recorded as ghost events, index k asserted in [0, size<0>()))',
            'cluster_t::assign(sample, group) requires 0 <= sample < samples() and 0 <= group < groups() (its own assert, checked as obligations) and records the group',
            'mclass feature tensor abstracted to its first column plus row identity (other columns havoc)',
            'representation invariant of a fitted stump / table: tables has 2 rows (stump); hashes.size() == hash2tables.size() and every hash2tables entry addresses a row of tables (established by the fit functions, not re-validated by read())',
            'callers: outputs has one row per sample (learner_t::predict asserts it); samples index valid dataset samples; scale.size() in {1, tables.size<0>()} (the function\'s own assert)',
            'nano::find for multi-label values returns -1 or a position in [0, hashes.size()) and is a pure function of (hashes, value)',
            'std::lower_bound returns the partition point of a sorted range (ghost index); hashes are sorted (make_hashes)',
            'wlearner::merge uses the virtual try_merge by the contract proved for each implementation (targets *_try_merge): false for a null other; on success *this holds the sum of the two; virtual dispatch itself is not modelled',
            'RTTI: dynamic_cast<const X*>(p) is null iff p is null or the dynamic type (ghost tag) is not X or derived from X; dense / kbest / ksplit / dstep derive from table_wlearner_t, everything but dtree from single_feature_wlearner_t',
            'tensor operator== (include/nano/tensor/numeric.h): true implies equal sizes and equal elements at every index (given at ghost positions); tensor dims() == compares all four dimensions; size() is a function of dims; Eigen `a += b` on vector maps requires equal sizes (obligation) and adds coefficient-wise',
            'try_merge is called with two different learners (distinct slots of a vector of unique_ptr)',
            'ghost-element model of outputs / tables for affine, hinge: one output coefficient, one row of outputs, all other rows folded into one cell; Eigen statement `outputs.vector(i) += w * value + b` lifted by engine/eigencw (coefficient-wise semantics of Eigen assumed); outputs and tables have the same coefficient shape (learner_t::predict / the functions\' own assert)',
            'm_hinge is hinge_type::left or ::right (set by do_fit; read() does not re-validate the stored byte: for any other value do_predict behaves as right while do_split assigns no group)',
            'dtree representation invariant (proved for what do_fit stores, target dtree_do_fit; assumed of *this in do_split / do_predict; not re-validated by read()): m_nodes non-empty, position 0 and every m_next != 0 is the position of a sibling pair inside m_nodes, both members of a pair are leaves (m_next == 0) or both are not, a leaf pair has consecutive tables m_table, m_table + 1 inside m_tables; instantiated at the positions the code reads',
            'std::deque is FIFO and stays below max_size(); every entry read by front() was pushed before (pushes are checked to carry a pair position: assume-guarantee over the queue); indices_t / cluster_t abstracted to the ghost sample (cluster_t constructor: no groups; group(s) in [-1, groups); indices(g) = samples of group g)',
            'stump_wlearner_t::split inside dtree by the contract proved in target stump_split (per position), lifted to samples: a sample gets group (value < threshold ? 0 : 1) iff it is among the samples and its value is given',
            'dtree do_predict: samples index valid dataset samples; groups of other samples are rows of m_tables (dtree_do_split.postcondition.3 at those samples); learner_t::critical_compatible throws or returns without other effects; indices_t(indices_cmap_t) copies',
            'm_tables.size() >= m_tables.size<0>() (non-empty target dims)',
            'accumulator model: tensors tracked at one bin and one output coefficient, all other cells folded into one; Eigen coefficient-wise statements / expressions lifted by engine/eigencw (square() = coefficient times itself; E.sum() adds the coefficients of E and is determined by its summand at every position); inline accessors x0/r1/r2/.. = the member cells with the bin index in range; std::vector<pair> of sort() abstracted to the entry of the ghost bin (score_kbest: the entry at the ghost position, any other entry belongs to another bin); arange(lo, hi) = lo..hi-1; tensor = tensor copies; resize leaves the content unspecified',
            'fit sweeps: the callback runs on the cache of its thread (caches[tnum], tnum < caches.size()); one feature value per sample of the subset (select_iterator_t::loop); samples index rows of gradients (wlearner_t::fit asserts it); a cache\'s tables have 2 rows (cache_t constructor); an entry is identified by the address its sample index is read from (row views carry it); accumulator_t::update adds one contribution, clear() empties; std::sort sorts and permutes (the sweep assumes sorted, finite entries -- proved for clear() -- at the positions it reads, relative to the followed position and the neighbour); std::pair relational operators are lexicographic; min_reduce returns one of the caches',
            'dtree do_fit: stump_wlearner_t::fit either fails or stores a feature, a threshold and a 2-row tables tensor; its split() has 2 groups; append(tables, t) adds t as the last row and keeps the others; std::vector / std::deque (FIFO, below max_size()) abstracted to the ghost pair and the caches that link its members (queue invariant by assume-guarantee: every pushed cache refers to the node appended just before, asserted); registered parameter domains (max_depth, min_split in [1, 10]); default member initialisers of cache_t (m_depth 0, m_parent 0) are the zero struct, those of dtree_node_t are pinned by a static_assert',
            'std::remove_if keeps exactly the elements for which the predicate is false, in order, at positions not after their old ones; vector::erase(first, end()) truncates at first',
            'single_feature_wlearner_t::vector(k) is m_tables.vector(k), tables() is m_tables (inline accessors in single.h); feature() is extracted',
            'rss_smt (back end B): double treated as real; finite sums are linear and determined by their summand (the rss is opened at one generic output); accumulator_t accessors x0/x1/x2/r1/rx/r2 are opaque inputs (what they hold: accum.h); hinge m_beta0 is the zero array (checked syntactically: only declared, constructed, zeroed in the constructor, read by beta0()); ::nano::size(tdims()) is the number of outputs (<= 2^31), counts are in [0, 2^62]; both sides of a cut non-empty (fit.h) resp. the normal-equation denominator positive',
            'sweeps: cache_t::m_score is not NaN when a sweep starts (default member initialiser no_fit_score(); preserved by every sweep: proved)',
            'cluster(): tensors abstracted to their two leading extents (index checks) and, for cluster_id, the cells of two ghost bins in the row being built plus their values frozen at two ghost levels; any other cell is an arbitrary value (stable between two consecutive accesses of the same cell); Eigen row statements on the moment tensors are recorded for their indices only; m_r1.dims()[0] == bins() >= 1',
            'lambda captures by reference denote the enclosing function\'s variables of the same name (closure objects are modelled as explicit argument lists / capture structs)',
        ],
        'trusted': [],
    }


_REPLAY = {}


def replay(rp):
    """dtree_do_split.postcondition.7 (one split group per leaf table): the verifier's counterexample is the input class
    "m_tables.size() != m_tables.size<0>()", i.e. a target with more than one output.  Replayed on the real library: an
    in-memory datasource with a K-class target, a real dtree_wlearner_t fitted on it, the public split().  Other
    targets have no native driver."""
    import replaylib
    out = {'reproduced': False, 'runs': []}
    ids = [fo['id'] for fo in rp['failed_obligations']]
    scenarios = None
    if rp['target'] == 'dtree_do_split' and any(i.endswith('dtree_do_split.postcondition.7') for i in ids):
        scenarios = [[40, 3], [12, 2]]
    elif rp['target'] in ('stump_fit_sweep', 'hinge_fit_sweep') and any('nv_candidate.assertion' in i or 'loop_invariant_step' in i or 'postcondition' in i for i in ids):
        # a cut that is not between two different consecutive sorted values / an inconsistent stored candidate: replayed on a
        # feature with tied values (real learner, RSS criterion; the clause is evaluated on its threshold and predictions)
        # (the uninterpreted mid-point not separating v1 from v2 is real for IEEE doubles: consecutive doubles 1, 1 + ulp, 1 + 2 ulp)
        scenarios = [['ties', rp['target'].split('_')[0]], ['ties', rp['target'].split('_')[0], 'adjacent']]
    elif rp['target'] == 'hinge_do_split':
        scenarios = [['split']]
    elif rp['target'] in ('acc_sort', 'tbl_score', 'tbl_score_kbest', 'tbl_score_dense'):
        # a wrong gain / score of a label set: a discrete-step table on a 2-output target whose residual sums cancel across the outputs
        scenarios = [['dstep']]
    if scenarios is None:
        out['note'] = 'no native driver for this obligation: the replay file carries the verifier output only'
        return out
    if 'exe' not in _REPLAY:
        _REPLAY['exe'] = replaylib.build_with_library('replay/C10_replay.cpp', 'C10_replay')
    for args in scenarios:
        rc, so, se = replaylib.run_driver(_REPLAY['exe'], args)
        out['runs'].append({'args': args, 'exit': rc, 'output': so.strip()[:2000]})
        if rc == 1:
            out['reproduced'] = True
    return out
