import astload
from core import Fn, Target, VC

DRV = 'drivers/inst_wlearner.cpp'
T1I = r'^nano::indices_t$|^nano::indices_cmap_t$|tensor_t<nano::tensor_(vector|carray)_storage_t, long, 1>'
TYPES = [(T1I, 'struct nv_t1i'),
         (r'^nano::scalar_cmap_t$|tensor_t<nano::tensor_carray_storage_t, double, 1>', 'struct nv_t1d'),
         (r'^nano::sclass_cmap_t$|tensor_t<nano::tensor_carray_storage_t, int, 1>', 'struct nv_t1i32'),
         (r'^nano::mclass_cmap_t$|tensor_t<nano::tensor_carray_storage_t, signed char, 2>', 'struct nv_t2i8'),
         (r'Eigen::Map<\s*(const )?Eigen::Matrix<signed char, -1, 1', 'struct nv_mrow'),
         (r'^nvdrv::op_\w+_t$', 'struct nv_op'), (r'^nano::dataset_t$', 'struct nv_dataset'),
         (r'^nano::select_iterator_t$', 'struct nv_iter')]
LOOP_CALLS = [(r'^operator\(\)\|typename tbase::tconstref \(const nano::tensor_size_t\) const\|', '{0}.p[{1}]'),
              (r'^isfinite\|bool \(double\)', 'nv_isfinite({0})'),
              (r'^operator\(\)\|void \(nano::tensor_size_t, nano::scalar_t\) const\|nvdrv::op_scalar_t', 'nv_op_scalar({1}, {2})'),
              (r'^operator\(\)\|void \(nano::tensor_size_t, int32_t\) const\|nvdrv::op_sclass_t', 'nv_op_sclass({1}, {2})'),
              (r'^operator\(\)\|.*\|nvdrv::op_mclass_t', 'nv_op_mclass({1}, {&2})'),
              (r'^operator\(\)\|Eigen::DenseCoeffsBase<Eigen::Map<const Eigen::Matrix<signed char, -1, 1, 0>, 0>, 0>::CoeffReturnType \(Eigen::Index\) const\|', 'nv_mrow_at({&0}, {1})')]
LOOP_MEMBERS = [(r'^size\|nano::tensor_base_t<long, 1, true>', '{self}->n'),
                (r'^vector\|nano::tensor_t<nano::tensor_carray_storage_t, signed char, 2>', 'nv_t2i8_vector({self}, {0})')]


ROW = r'Eigen::Map<\s*(const )?Eigen::Matrix<double, -1, 1'
WL_TYPES = [(T1I, 'struct nv_t1i'), (r'^nano::dataset_t$', 'struct nv_dataset'), (r'^nano::cluster_t$', 'struct nv_cluster'),
            (r'^nano::tensor4d_map_t$|^nano::tensor4d_t$|tensor_t<nano::tensor_(marray|vector)_storage_t, double, 4>', 'struct nv_t4'),
            (ROW, 'struct nv_row')]
WL_CALLS = [(r'^operator\(\)\|typename tbase::tconstref \(const nano::tensor_size_t\) const\|', '{0}.p[{1}]'),
            (r'^operator\+=\|.*\|Eigen::MatrixBase<Eigen::Map<Eigen::Matrix<double, -1, 1, 0>, 0>\s*>', 'nv_row_add({&0}, {1})'),
            (r'^ctor\|nano::tensor_t<nano::tensor_vector_storage_t, long, 1>\|', '{0}'),     # indices_t(indices_cmap_t): same view
            (r'^ctor\|nano::cluster_t\|void \(nano::tensor_size_t, nano::tensor_size_t\)', 'nv_cluster_make({0}, {1})')]
WL_MEMBERS = [(r'^vector\|nano::tensor_t<nano::tensor_marray_storage_t, double, 4>', 'nv_t4_vector'),
              (r'^assign\|nano::cluster_t', 'nv_cluster_assign'), (r'^samples\|nano::dataset_t', 'nv_dataset_samples')]
SFW_MEMBERS = [(r'^feature\|nano::single_feature_wlearner_t', 'sfw_feature'),
               (r'^vector\|nano::single_feature_wlearner_t', 'nv_sfw_vector')]
STUMP_CPP = 'src/wlearner/stump.cpp'


def stump_fns():
    """the extracted functions of src/wlearner/stump.cpp (fresh Fn objects per target)"""
    common = dict(types=WL_TYPES, members=WL_MEMBERS + SFW_MEMBERS)
    # the lambda argument of loop_scalar is not translated: the stub calls the extracted lambda with the captured
    # variables (named literally: a renamed local breaks the C compile -> undecided, never a silent pass)
    do_predict = Fn('stump_do_predict', STUMP_CPP, 'do_predict', flt='stump_wlearner_t::do_predict', self_struct='struct nv_stump',
                    calls=WL_CALLS + [(r'^loop_scalar\|', 'nv_loop_scalar_predict({&0}, {&1}, {2}, self, &outputs, &lo, &hi)')], **common)
    predict_lambda = Fn('stump_predict_lambda', STUMP_CPP, 'do_predict', flt='stump_wlearner_t::do_predict', lambda_index=0,
                        captures=True, self_struct='struct nv_stump', calls=WL_CALLS, **common)
    split = Fn('stump_split', STUMP_CPP, 'split', flt='stump_wlearner_t::split',
               calls=WL_CALLS + [(r'^loop_scalar\|', 'nv_loop_scalar_split({&0}, {&1}, {2}, &cluster, &threshold)')], **common)
    split_lambda = Fn('stump_split_lambda', STUMP_CPP, 'split', flt='stump_wlearner_t::split', lambda_index=0, captures=True,
                      calls=WL_CALLS, **common)
    do_split = Fn('stump_do_split', STUMP_CPP, 'do_split', flt='stump_wlearner_t::do_split', self_struct='struct nv_stump',
                  calls=WL_CALLS + [(r'^split\|', 'stump_split({&0}, {&1}, {2}, {3})')], **common)
    feature = Fn('sfw_feature', 'src/wlearner/single.cpp', 'feature', flt='single_feature_wlearner_t::feature',
                 self_struct='struct nv_stump', types=WL_TYPES)
    return dict(do_predict=do_predict, predict_lambda=predict_lambda, split=split, split_lambda=split_lambda,
                do_split=do_split, feature=feature)


def targs(*want):
    return lambda d: astload.template_args(d) == list(want)


def build(tier):
    LH = 'specs/C10/loops.h'
    loop = lambda kind: Fn(f'loop_{kind}_body', DRV, f'loop_{kind}', flt=f'nano::wlearner::loop_{kind}',
                           select=targs(f'nvdrv::op_{kind}_t'), lambda_index=0, captures=True, types=TYPES,
                           calls=LOOP_CALLS, members=LOOP_MEMBERS)
    targets = [Target(f'loop_{k}_body', [loop(k)], LH) for k in ('scalar', 'sclass', 'mclass')]
    SH = 'specs/C10/stump.h'
    f = stump_fns()
    targets.append(Target('stump_do_predict', [f['do_predict'], f['predict_lambda'], f['feature']], SH))
    f = stump_fns()
    targets.append(Target('stump_split', [f['split'], f['split_lambda']], SH))
    f = stump_fns()
    targets.append(Target('stump_do_split', [f['do_split'], f['split'], f['split_lambda'], f['feature']], SH))
    return {
        'targets': targets, 'vcs': [],
        'decided': [],
        'not_decided': [],
        'assumptions': [],
        'trusted': [],
    }
