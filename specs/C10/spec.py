import astload
from core import Fn, Target, VC

DRV = 'drivers/inst_wlearner.cpp'
T1I = r'^nano::indices_t$|^nano::indices_cmap_t$|tensor_t<nano::tensor_(vector|carray)_storage_t, long, 1>'
TYPES = [(T1I, 'struct nv_t1i'),
         (r'^nano::scalar_cmap_t$|tensor_t<nano::tensor_carray_storage_t, double, 1>', 'struct nv_t1d'),
         (r'^nano::sclass_cmap_t$|tensor_t<nano::tensor_carray_storage_t, int, 1>', 'struct nv_t1i32'),
         (r'^nano::mclass_cmap_t$|tensor_t<nano::tensor_carray_storage_t, signed char, 2>', 'struct nv_t2i8'),
         (r'Eigen::Map<\s*(const )?Eigen::Matrix<signed char, -1, 1', 'struct nv_mrow'),
         (r'^nvdrv::op_\w+_t$', 'struct nv_op'), (r'^nano::dataset_t$', 'struct nv_dataset'),
         (r'^nano::select_iterator_t$', 'struct nv_iter')]
LOOP_CALLS = [(r'^operator\(\)\|typename tbase::tconstref \(const nano::tensor_size_t\) const\|', '{0}.p[{1}]'),
              (r'^isfinite\|bool \(double\)', 'nv_isfinite({0})'),
              (r'^operator\(\)\|void \(nano::tensor_size_t, nano::scalar_t\) const\|nvdrv::op_scalar_t', 'nv_op_scalar({1}, {2})'),
              (r'^operator\(\)\|void \(nano::tensor_size_t, int32_t\) const\|nvdrv::op_sclass_t', 'nv_op_sclass({1}, {2})'),
              (r'^operator\(\)\|.*\|nvdrv::op_mclass_t', 'nv_op_mclass({1}, {&2})'),
              (r'^operator\(\)\|Eigen::DenseCoeffsBase<Eigen::Map<const Eigen::Matrix<signed char, -1, 1, 0>, 0>, 0>::CoeffReturnType \(Eigen::Index\) const\|', 'nv_mrow_at({&0}, {1})')]
LOOP_MEMBERS = [(r'^size\|nano::tensor_base_t<long, 1, true>', '{self}->n'),
                (r'^vector\|nano::tensor_t<nano::tensor_carray_storage_t, signed char, 2>', 'nv_t2i8_vector({self}, {0})')]


ROW = r'Eigen::Map<\s*(const )?Eigen::Matrix<double, -1, 1'
WL_TYPES = [(T1I, 'struct nv_t1i'), (r'^nano::dataset_t$', 'struct nv_dataset'), (r'^nano::cluster_t$', 'struct nv_cluster'),
            (r'^nano::tensor4d_map_t$|^nano::tensor4d_t$|tensor_t<nano::tensor_(marray|vector)_storage_t, double, 4>', 'struct nv_t4'),
            (ROW, 'struct nv_row')]
WL_CALLS = [(r'^operator\(\)\|typename tbase::tconstref \(const nano::tensor_size_t\) const\|', '{0}.p[{1}]'),
            (r'^operator\+=\|.*\|Eigen::MatrixBase<Eigen::Map<Eigen::Matrix<double, -1, 1, 0>, 0>\s*>', 'nv_row_add({&0}, {1})'),
            (r'^ctor\|nano::tensor_t<nano::tensor_vector_storage_t, long, 1>\|', '{0}'),     # indices_t(indices_cmap_t): same view
            (r'^ctor\|nano::cluster_t\|void \(nano::tensor_size_t, nano::tensor_size_t\)', 'nv_cluster_make({0}, {1})')]
WL_MEMBERS = [(r'^vector\|nano::tensor_t<nano::tensor_marray_storage_t, double, 4>', 'nv_t4_vector'),
              (r'^assign\|nano::cluster_t', 'nv_cluster_assign'), (r'^samples\|nano::dataset_t', 'nv_dataset_samples')]
SFW_MEMBERS = [(r'^feature\|nano::single_feature_wlearner_t', 'sfw_feature'),
               (r'^vector\|nano::single_feature_wlearner_t', 'nv_sfw_vector')]
STUMP_CPP = 'src/wlearner/stump.cpp'


def stump_fns():
    """the extracted functions of src/wlearner/stump.cpp (fresh Fn objects per target)"""
    common = dict(types=WL_TYPES, members=WL_MEMBERS + SFW_MEMBERS)
    # the lambda argument of loop_scalar is not translated: the stub calls the extracted lambda with the captured
    # variables (named literally: a renamed local breaks the C compile -> undecided, never a silent pass)
    do_predict = Fn('stump_do_predict', STUMP_CPP, 'do_predict', flt='stump_wlearner_t::do_predict', self_struct='struct nv_stump',
                    calls=WL_CALLS + [(r'^loop_scalar\|', 'nv_loop_scalar_predict({&0}, {&1}, {2}, self, &outputs, &lo, &hi)')], **common)
    predict_lambda = Fn('stump_predict_lambda', STUMP_CPP, 'do_predict', flt='stump_wlearner_t::do_predict', lambda_index=0,
                        captures=True, self_struct='struct nv_stump', calls=WL_CALLS, **common)
    split = Fn('stump_split', STUMP_CPP, 'split', flt='stump_wlearner_t::split',
               calls=WL_CALLS + [(r'^loop_scalar\|', 'nv_loop_scalar_split({&0}, {&1}, {2}, &cluster, &threshold)')], **common)
    split_lambda = Fn('stump_split_lambda', STUMP_CPP, 'split', flt='stump_wlearner_t::split', lambda_index=0, captures=True,
                      calls=WL_CALLS, **common)
    do_split = Fn('stump_do_split', STUMP_CPP, 'do_split', flt='stump_wlearner_t::do_split', self_struct='struct nv_stump',
                  calls=WL_CALLS + [(r'^split\|', 'stump_split({&0}, {&1}, {2}, {3})')], **common)
    feature = Fn('sfw_feature', 'src/wlearner/single.cpp', 'feature', flt='single_feature_wlearner_t::feature',
                 self_struct='struct nv_stump', types=WL_TYPES)
    return dict(do_predict=do_predict, predict_lambda=predict_lambda, split=split, split_lambda=split_lambda,
                do_split=do_split, feature=feature)


TABLE_CPP = 'src/wlearner/table.cpp'
CLOSURE = r'\(lambda at .*table\.cpp:\d+:\d+\)'
TABLE_TYPES = WL_TYPES + [(r'^nano::hashes_t$|tensor_t<nano::tensor_vector_storage_t, unsigned long, 1>', 'struct nv_t1u'),
                          (r'^nano::feature_t$', 'struct nv_feature'), (r'^nano::feature_type$', 'int32_t'),
                          (r'Eigen::Map<\s*(const )?Eigen::Matrix<signed char, -1, 1', 'struct nv_mrow')]
TABLE_MEMBERS = WL_MEMBERS + [(r'^feature\|nano::single_feature_wlearner_t', 'sfw_feature'),
                              (r'^vector\|nano::single_feature_wlearner_t', 'nv_tbl_vector'),
                              (r'^tables\|nano::single_feature_wlearner_t', '{self}->m_tables'),
                              (r'^feature\|nano::dataset_t', 'nv_dataset_feature({self}, {0})'),
                              (r'^type\|nano::feature_t', '{self}->type')]
TABLE_CALLS = WL_CALLS + [(r'^find\|nano::tensor_size_t \(const nano::hashes_t &, const int &\)', 'nv_find_sclass'),
                          (r'^find\|nano::tensor_size_t \(const nano::hashes_t &, const Eigen::Map<const Eigen::Matrix<signed char', 'nv_find_mclass'),
                          (r'^ctor\|nano::tensor_t<nano::tensor_carray_storage_t, long, 1>\|', '{0}')]   # indices_cmap_t(indices_t): same view


def size0_hook(tu):
    """tensor.size<0>() on a rank-4 tensor -> .rows; the template argument is not in the JSON dump, so the hook reads it
    from the source text of the call and refuses anything but <0>"""
    import re

    def h(P, n):
        if n.get('kind') != 'CXXMemberCallExpr':
            return None
        me = n['inner'][0]
        if me.get('kind') != 'MemberExpr' or me.get('name') != 'size' or 'tensor_base_t<double, 4' not in me['inner'][0]['type'].get('qualType', ''):
            return None
        b, e = astload.source_text(n)
        text = open(astload.resolve_tu(tu), 'rb').read()[b:e].decode()
        if not re.search(r'size\s*<\s*0\s*>\s*\(\s*\)$', text):
            from cxx2c import Unsupported
            raise Unsupported(f'rank-4 size call that is not size<0>(): {text!r}')
        obj = me['inner'][0]
        P.note('tensor4d.size<0>() -> .rows')
        return f'{P.expr(obj)}.rows'
    return h


def lambda_owner(owner_flt, owner_name):
    """select the specialisation of the file-local template `process` whose operator type is the lambda written inside
    the given member function: the (line, col) in the closure type's name is converted to a file offset and compared
    with the member function's source range (no hard-wired line numbers)"""
    import re

    def sel(d):
        ta = astload.template_args(d)
        if len(ta) != 1:
            return False
        m = re.search(r'lambda at .*:(\d+):(\d+)\)', ta[0])
        if not m:
            return False
        o = astload.find_definition(TABLE_CPP, owner_flt, owner_name)
        lines = open(astload.resolve_tu(TABLE_CPP), 'rb').read().split(b'\n')
        off = sum(len(x) + 1 for x in lines[:int(m.group(1)) - 1]) + int(m.group(2)) - 1
        return o['range']['begin']['offset'] <= off <= o['range']['end']['offset']
    return sel


def table_fns(which):
    """which = 'predict' | 'split': do_predict / do_split, its lambda, and the instantiation of process<that lambda>
    with both of its callbacks (single-label, multi-label)"""
    P = which[0].upper()
    owner = 'do_' + which
    clo = f'struct nv_clo_{which}'
    types = [(CLOSURE, clo)] + TABLE_TYPES
    common = dict(types=types, members=TABLE_MEMBERS, hooks=[size0_hook(TABLE_CPP)])
    caps = '&outputs, self' if which == 'predict' else '&cluster, samples'
    opcall = (f'table_{which}_lambda({{0}}.self, {{1}}, {{2}}, {{0}}.outputs)' if which == 'predict'
              else f'table_{which}_lambda({{1}}, {{2}}, {{0}}.cluster, {{0}}.samples)')
    top = Fn(f'table_{owner}', TABLE_CPP, owner, flt=f'table_wlearner_t::{owner}', self_struct='struct nv_table',
             calls=TABLE_CALLS + [(r'^process\|', f'table_process_{P}({{&0}}, {{&1}}, {{2}}, {{&3}}, {{&4}}, &({clo}){{{caps}}})')], **common)
    lam = Fn(f'table_{which}_lambda', TABLE_CPP, owner, flt=f'table_wlearner_t::{owner}', lambda_index=0, captures=True,
             self_struct='struct nv_table' if which == 'predict' else None, calls=TABLE_CALLS, **common)
    sel = lambda_owner(f'table_wlearner_t::{owner}', owner)
    proc = Fn(f'table_process_{P}', TABLE_CPP, 'process', flt='process', select=sel, kinds=('FunctionDecl',),
              calls=TABLE_CALLS + [(r'^loop_sclass\|', f'nv_loop_sclass_{P}({{&0}}, {{&1}}, {{2}}, hashes, hash2tables, op)'),
                                   (r'^loop_mclass\|', f'nv_loop_mclass_{P}({{&0}}, {{&1}}, {{2}}, hashes, hash2tables, op)')], **common)
    cb = [Fn(f'table_process_{P}_{k}', TABLE_CPP, 'process', flt='process', select=sel, kinds=('FunctionDecl',), lambda_index=i,
             captures=True, calls=TABLE_CALLS + [(r'^operator\(\)\|void \(const nano::tensor_size_t, const nano::tensor_size_t\) const\|', opcall)],
             **common) for i, k in enumerate(('sclass', 'mclass'))]
    feature = Fn('sfw_feature', 'src/wlearner/single.cpp', 'feature', flt='single_feature_wlearner_t::feature',
                 self_struct='struct nv_table', types=types)
    return [top, lam, proc] + cb + [feature]


UTIL_CPP = 'src/wlearner/util.cpp'
UTIL_TYPES = WL_TYPES + [(r'^nano::vector_t$|tensor_t<nano::tensor_vector_storage_t, double, 1>', 'struct nv_t1d'),
                         (r'ArrayWrapper<Eigen::Map<Eigen::Matrix<double, -1, 1', 'struct nv_row')]


def util_fns():
    scale = Fn('wl_scale', UTIL_CPP, 'scale', flt='nano::wlearner::scale', types=UTIL_TYPES, hooks=[size0_hook(UTIL_CPP)],
               calls=WL_CALLS + [(r'^min\|const long &\(const long &, const long &\)', 'nv_min_i64({0}, {1})'),
                                 (r'^operator\*=\|.*ArrayWrapper', 'nv_row_scale({&0}, {1})')],
               members=[(r'^array\|nano::tensor_t<nano::tensor_vector_storage_t, double, 4>', 'nv_t4_vector'),
                        (r'^size\|nano::tensor_base_t<double, 1, true>', '{self}->n')])
    sfw_scale = Fn('sfw_scale', 'src/wlearner/single.cpp', 'scale', flt='single_feature_wlearner_t::scale',
                   self_struct='struct nv_sfw', types=UTIL_TYPES, calls=[(r'^scale\|void \(nano::tensor4d_t &, const nano::vector_t &\)', 'wl_scale')])
    UP = r'std::unique_ptr<nano::wlearner_t'
    mtypes = [(r'^nano::rwlearners_t$|^std::vector<' + UP, 'struct nv_wvec'),
              (r'__normal_iterator<\s*(const )?' + UP + r'.*> \*,', 'struct nv_wl*'),
              (r'^nano::rwlearner_t$|^' + UP + r'[^:]*>$|__alloc_traits<.*>::value_type$', 'struct nv_wl'),
              (UP + r'.*>::pointer$|^nano::wlearner_t$', 'struct nv_wl')]
    mcalls = [(r'^operator\[\]\|std::vector<' + UP, '{0}.p[{1}]'),
              (r'^operator->\|', '{&0}'),
              (r'^operator=\|std::unique_ptr<nano::wlearner_t> &\(std::nullptr_t\)', 'nv_wl_reset({&0})'),
              (r'^remove_if\|', 'nv_remove_if({0}, {1})'),
              (r'^ctor\|__gnu_cxx::__normal_iterator<', '{0}')]        # iterator -> const_iterator
    mmembers = [(r'^size\|std::vector<' + UP, '{self}->n'), (r'^operator bool\|' + UP, '({self}->id != 0)'),
                (r'^try_merge\|nano::wlearner_t \*', 'nv_try_merge'),
                (r'^begin\|std::vector<' + UP, '{self}->p'), (r'^end\|std::vector<' + UP, '({self}->p + {self}->n)'),
                (r'^erase\|std::vector<' + UP, 'nv_wvec_erase({self}, {0}, {1})')]
    mk = dict(types=mtypes, calls=mcalls, members=mmembers, uf_float=False)
    merge = Fn('wl_merge', UTIL_CPP, 'merge', flt='nano::wlearner::merge', **mk)
    merge_pred = Fn('merge_pred', UTIL_CPP, 'merge', flt='nano::wlearner::merge', lambda_index=0, captures=True, **mk)
    return dict(scale=scale, sfw_scale=sfw_scale, merge=merge, merge_pred=merge_pred)


def targs(*want):
    return lambda d: astload.template_args(d) == list(want)


def build(tier):
    LH = 'specs/C10/loops.h'
    loop = lambda kind: Fn(f'loop_{kind}_body', DRV, f'loop_{kind}', flt=f'nano::wlearner::loop_{kind}',
                           select=targs(f'nvdrv::op_{kind}_t'), lambda_index=0, captures=True, types=TYPES,
                           calls=LOOP_CALLS, members=LOOP_MEMBERS)
    targets = [Target(f'loop_{k}_body', [loop(k)], LH) for k in ('scalar', 'sclass', 'mclass')]
    SH = 'specs/C10/stump.h'
    f = stump_fns()
    targets.append(Target('stump_do_predict', [f['do_predict'], f['predict_lambda'], f['feature']], SH))
    f = stump_fns()
    targets.append(Target('stump_split', [f['split'], f['split_lambda']], SH))
    f = stump_fns()
    targets.append(Target('stump_do_split', [f['do_split'], f['split'], f['split_lambda'], f['feature']], SH))
    TH = 'specs/C10/table.h'
    targets.append(Target('table_do_predict', table_fns('predict'), TH))
    targets.append(Target('table_do_split', table_fns('split'), TH))
    UH = 'specs/C10/util.h'
    targets.append(Target('wl_scale', [util_fns()['scale']], UH))
    u = util_fns()
    targets.append(Target('wl_merge', [u['merge'], u['merge_pred']], UH))
    targets.append(Target('sfw_scale', [u['sfw_scale'], u['scale']], UH, replace=['wl_scale'], loops=0))
    return {
        'targets': targets, 'vcs': [],
        'decided': [],
        'not_decided': [],
        'assumptions': [],
        'trusted': [],
    }
