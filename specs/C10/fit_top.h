/* C10: do_fit of stump / hinge / affine, the part around the sweep: one cache per thread, the per-feature callback is handed
 * to select_iterator_t::loop with the given samples, and what the learner stores is ONE candidate -- every field of the
 * cache min_reduce returns (feature, tables, threshold, hinge direction), exactly when its score is not no_fit_score; that
 * score is returned.  (The sweep proves that a cache holds one consistent candidate: fit.h.) */
#include "wl.h"
union nv_bits { double d; uint64_t u; };
#define NV_IDENT(a, b) (((union nv_bits){ .d = (a) }).u == ((union nv_bits){ .d = (b) }).u)
struct nv_fitcache { struct nv_t4 m_tables; int64_t m_feature; double m_threshold; double m_score; uint8_t m_hinge; };
struct nv_cvec { uint64_t n; struct nv_fitcache* best; };     /* std::vector<cache_t>: size + the element min_reduce selects */
struct nv_iter { int64_t dataset_samples; uint64_t concurrency; };
struct nv_learner { int64_t m_feature; struct nv_t4 m_tables; double m_threshold; uint8_t m_hinge; };
struct nv_t3dims { int64_t d0; };
#define NV_NO_FIT 1.7976931348623157e308                      /* wlearner_t::no_fit_score() */
int64_t nv_loop_calls; struct nv_t1i nv_loop_samples; const struct nv_cvec* nv_loop_caches; int64_t nv_set_calls;
struct nv_fitcache nv_best_cell, nv_other_cell;
#define NVE_hinge_type_left 0      /* pinned by static_asserts in drivers/inst_wlearner.cpp */
#define NVE_hinge_type_right 1
static int32_t nv_param_criterion(void) { return nv_nondet_int32_t(); }
static struct nv_iter nv_iter_make(const struct nv_dataset* d) { struct nv_iter it; it.dataset_samples = d->samples; it.concurrency = nv_nondet_uint64_t(); __CPROVER_assume(1 <= it.concurrency && it.concurrency <= 1024); return it; }
/* std::vector<cache_t>(n, prototype): n caches; min_reduce(caches) (include/nano/core/reduce.h) returns a reference to one
 * of them (ASSUMED: the one with the smallest m_score; only "one of them" is used here) */
static struct nv_cvec nv_cvec_make(uint64_t n) { struct nv_cvec v; v.n = n; v.best = &nv_best_cell; return v; }
/* caches[k]: the selected cache or some other one */
static struct nv_fitcache* nv_cvec_any(const struct nv_cvec* v, uint64_t k) { __CPROVER_assert(k < v->n, "caches[k]: index in range"); return nv_nondet__Bool() ? v->best : &nv_other_cell; }
static const struct nv_fitcache* nv_min_reduce(const struct nv_cvec* v) { __CPROVER_assert(v->n > 0, "min_reduce: at least one cache"); return v->best; }
/* ASSUMED: iterator.loop(samples, callback) runs the callback (extracted separately: targets *_fit_sweep) for every
 * feature of the matching kind on the caches it captured; it may change every cache */
static void nv_fit_loop(const struct nv_iter* it, struct nv_t1i samples, struct nv_cvec* caches)
{
  nv_loop_calls = nv_loop_calls + 1; nv_loop_samples = samples; nv_loop_caches = caches;
  struct nv_fitcache c; c.m_tables.id = nv_nondet_int64_t(); c.m_tables.rows = 2; c.m_feature = nv_nondet_int64_t(); c.m_threshold = nv_nondet_double();
  c.m_score = nv_nondet_double(); c.m_hinge = (uint8_t)(nv_nondet_uint32_t() & 0xffu);
  *caches->best = c;
}
/* single_feature_wlearner_t::set(feature, tables) (src/wlearner/single.cpp: m_tables = tables; m_feature = feature) */
static void nv_sfw_set(struct nv_learner* self, int64_t feature, const struct nv_t4* tables) { self->m_feature = feature; self->m_tables = *tables; nv_set_calls = nv_set_calls + 1; }

#define NV_FIT_TOP_REQ \
__CPROVER_requires(__CPROVER_is_fresh(self, sizeof(*self)) && __CPROVER_is_fresh(dataset, sizeof(*dataset)) && __CPROVER_is_fresh(samples, sizeof(*samples)) \
  && __CPROVER_is_fresh(gradients, sizeof(*gradients)) && nv_loop_calls == 0 && nv_set_calls == 0)
#define NV_FIT_TOP_ENS(extra_stored, extra_kept) \
__CPROVER_assigns(self->m_feature, self->m_tables, self->m_threshold, self->m_hinge, nv_best_cell, nv_loop_calls, nv_loop_samples, nv_loop_caches, nv_set_calls) \
__CPROVER_ensures(nv_loop_calls == 1 && nv_loop_samples.p == samples->p && nv_loop_samples.n == samples->n) \
__CPROVER_ensures(NV_IDENT(__CPROVER_return_value, nv_best_cell.m_score)) \
/* a fit: the learner is the candidate of the selected cache, whole */ \
__CPROVER_ensures(nv_best_cell.m_score != NV_NO_FIT ==> (nv_set_calls == 1 && self->m_feature == nv_best_cell.m_feature && self->m_tables.id == nv_best_cell.m_tables.id \
   && self->m_tables.rows == nv_best_cell.m_tables.rows extra_stored)) \
/* no fit: the learner is unchanged */ \
__CPROVER_ensures(nv_best_cell.m_score == NV_NO_FIT ==> (nv_set_calls == 0 && self->m_feature == __CPROVER_old(self->m_feature) && self->m_tables.id == __CPROVER_old(self->m_tables.id) extra_kept))
#define NV_CONTRACT_stump_do_fit NV_FIT_TOP_REQ NV_FIT_TOP_ENS(&& NV_IDENT(self->m_threshold, nv_best_cell.m_threshold), && NV_IDENT(self->m_threshold, __CPROVER_old(self->m_threshold)))
#define NV_CONTRACT_hinge_do_fit NV_FIT_TOP_REQ NV_FIT_TOP_ENS(&& NV_IDENT(self->m_threshold, nv_best_cell.m_threshold) && self->m_hinge == nv_best_cell.m_hinge, \
  && NV_IDENT(self->m_threshold, __CPROVER_old(self->m_threshold)) && self->m_hinge == __CPROVER_old(self->m_hinge))
#define NV_CONTRACT_affine_do_fit NV_FIT_TOP_REQ NV_FIT_TOP_ENS(, )
